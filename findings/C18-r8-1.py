"""Reproducer of the round-8 defect repaired by ae8698c: Cache.drop_cache() on a missing file.
Exit 0 when drop_cache() passes quietly (docstring), 1 when it raises."""
import os, sys, tempfile
from lena.flow import Cache
d = tempfile.mkdtemp()
try:
    c = Cache(os.path.join(d, "absent.pkl"))
    try:
        c.drop_cache(); c.drop_cache()
    except Exception as exc:
        print("drop_cache() on a missing cache raised", type(exc).__name__); sys.exit(1)
    print("ok")
finally:
    os.rmdir(d)
