"""C18-r7-1: stand-alone reproducer (PYTHONPATH=<lena tree> python C18-r7-1_repro.py; exit 1 = defect present).

A first run through a Cache is stopped after one value and the consumer KEEPS the iterator (or: a later element
raises and the caller keeps the exception, whose traceback keeps the Cache generator suspended).  The data changes,
another run fills the cache completely.  When the kept iterator is finally dropped, the suspended generator is closed:
its file object - opened on the SAME temporary file name "<cache>.tmp" that the complete run truncated, refilled and
renamed to the cache - flushes its buffered values into what is now the cache file.  Later runs replay a mixture
([101, 202] instead of the stored [201, 202]), or a stale / unreadable file.
"""
import gc
import os
import shutil
import sys
import tempfile

from lena.core import Source
from lena.flow import Cache


class Fail(object):
    def run(self, flow):
        for val in flow:
            raise ValueError("bad value")
            yield val


def main(d):
    bad = []
    # (a) the consumer keeps the iterator of the stopped first run
    fn = os.path.join(d, "a.pkl")
    it = Source(lambda: iter([101, 102]), Cache(fn))()
    assert next(it) == 101
    assert list(Source(lambda: iter([201, 202]), Cache(fn))()) == [201, 202]   # complete run: stored
    assert list(Source(lambda: iter([]), Cache(fn))()) == [201, 202]            # replayed
    del it
    gc.collect()
    res = list(Source(lambda: iter([]), Cache(fn))())
    if res != [201, 202]:
        bad.append(("kept iterator", res))
    # (b) the caller keeps the exception of a failed first run
    fn = os.path.join(d, "b.pkl")
    try:
        list(Source(lambda: iter([101, 102]), Cache(fn), Fail())())
    except ValueError as err:
        kept = err
    assert list(Source(lambda: iter([201, 202]), Cache(fn))()) == [201, 202]
    del kept
    gc.collect()
    res = list(Source(lambda: iter([]), Cache(fn))())
    if res != [201, 202]:
        bad.append(("kept exception", res))
    return bad


if __name__ == "__main__":
    d = tempfile.mkdtemp()
    try:
        bad = main(d)
    finally:
        shutil.rmtree(d, ignore_errors=True)
    for what, res in bad:
        print("DEFECT (%s): stored [201, 202], a later run replays %r" % (what, res))
    print("ok" if not bad else "defect present")
    sys.exit(1 if bad else 0)
