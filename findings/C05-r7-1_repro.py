"""C05-r7-1: an adapter must raise LenaTypeError at construction for an element it does not accept.
Run / Call / FillCompute / SourceEl around a FillInto adapter object raise AttributeError instead,
because the error message formats the element and FillInto.__repr__ reads an attribute
(_explicit) that was removed in 0.6."""
import sys
import lena.core
from lena.core import FillInto, Run, Call, FillCompute, SourceEl, LenaTypeError

bad = 0
fi = FillInto(lambda x: x)
for adapter in (Run, Call, SourceEl):
    try:
        adapter(fi)
    except LenaTypeError:
        pass
    except Exception as exc:
        bad += 1
        print("%s(FillInto(f)) raised %s: %s" % (adapter.__name__, type(exc).__name__, exc))
    else:
        bad += 1
        print("%s(FillInto(f)) accepted" % adapter.__name__)
try:
    repr(fi)
except Exception as exc:
    bad += 1
    print("repr(FillInto(f)) raised %s: %s" % (type(exc).__name__, exc))
sys.exit(1 if bad else 0)
