SPECIFICATION Spec
CONSTANTS PairSrc = "small" CtxU = "ops4" MaxFlow = 4 KeyU = "six" Writ = "ends" NObj = 1
INVARIANT HeapOK
INVARIANT IsPartition
INVARIANT PartitionExact
INVARIANT AliasingIrrelevant
INVARIANT SnapshotsRight
INVARIANT OrderPreserved
PROPERTY ResetEmpties
PROPERTY Stable
CHECK_DEADLOCK FALSE
