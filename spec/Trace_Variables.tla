--------------------------- MODULE Trace_Variables ---------------------------
(***************************************************************************)
(* Validation of runs of the real Variable / Compose / Combine recorded    *)
(* with random variables (names, types, attribute dictionaries), chains    *)
(* of 1..5 (some with a nested Compose) and starting contexts.  Record:    *)
(*   chain, start [d, c]                                                   *)
(*   seq, compose, combine   [d, c] returned by Sequence(chain).run,       *)
(*                           Compose(chain)(value), Combine(chain)(value)  *)
(*   rseq, rcompose, rcombine  the same on a second, equal value           *)
(*   unchanged               var_context of every variable as before       *)
(* Only what the statement fixes is demanded (see VarSem!Required).        *)
(* The data may be an integer, None, a tuple or a pair that looks like a   *)
(* (data, context) value; the recorded chain must be one whose getters can *)
(* take the data (DefChain); Combine(chain) is recorded only when every    *)
(* member can take the starting data (otherwise the field is ignored).     *)
(***************************************************************************)
EXTENDS VarSem, Json, IOUtils

Trace == JsonDeserialize(IOEnv.TRACE_FILE)
VARIABLE i

Rest(c) == Without(c, "variable")
Plain(ch) == \A j \in 1..Len(ch) : ch[j].k = "var"
Ok(r) ==
  LET ch == r.chain
      st == r.start
      cb == VC(Cmb(ch))
      combok == \A j \in 1..Len(ch) : Def(ch[j], st.d)
  IN /\ DefChain(ch, st.d)
     /\ r.seq.d = GetChain(ch, st.d) /\ r.compose.d = r.seq.d
     /\ (LosesTypes(ch) /\ PrevTypes(st.c) # <<>>) \/ r.seq.c = r.compose.c
     /\ Has(r.seq.c, "variable")
     /\ Contains(r.seq.c.m["variable"], LastVC(ch))
     /\ (AllTyped(ch) /\ DistinctTypes(ch)) =>
           /\ Contains(r.seq.c.m["variable"], RequiredC(st.c, ch))
           /\ Contains(r.compose.c.m["variable"], RequiredC(st.c, ch))
     /\ (~Plain(ch) /\ ~LosesTypes(ch)) => ComposeListOk(st.c, ch, r.seq.c.m["variable"])
     /\ combok =>
           /\ r.combine.d = DT([j \in 1..Len(ch) |-> Get(ch[j], st.d)])
           /\ Has(r.combine.c, "variable")
           /\ Contains(r.combine.c.m["variable"],
                       D([x \in {"name", "dim", "combine"} |-> cb.m[x]]))
           /\ Rest(r.combine.c) = Rest(st.c)
     /\ Rest(r.seq.c) = Rest(st.c) /\ Rest(r.compose.c) = Rest(st.c)
     /\ r.unchanged
     /\ r.rseq = r.seq /\ r.rcompose = r.compose /\ r.rcombine = r.combine

Init == i = 1
Next == i <= Len(Trace) /\ Ok(Trace[i]) /\ i' = i + 1
Spec == Init /\ [][Next]_i
Accepted == /\ PrintT(<<"ACCEPTED", TLCGet("stats").diameter - 1>>)
            /\ TLCGet("stats").diameter - 1 = Len(Trace)
=============================================================================
