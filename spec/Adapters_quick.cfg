SPECIFICATION Spec
CONSTANTS FalsyAll = FALSE
  Tri = {"run"}
INVARIANT AsDocumented
INVARIANT NamedNeverCasts
INVARIANT FillComputeBinds
INVARIANT BlankRejected
INVARIANT AttrIsAbsent
INVARIANT CbfOnlyFillInto
INVARIANT TruthIrrelevant
INVARIANT Monotone
INVARIANT LogWithinCaps
INVARIANT RepeatedUse
PROPERTY BindingStable
INVARIANT Emitted
CHECK_DEADLOCK FALSE
