SPECIFICATION Spec
CONSTANTS MethodStates = {"no", "meth"}
INVARIANT AsDocumented
INVARIANT NamedNeverCasts
INVARIANT FillComputeBinds
INVARIANT BlankRejected
INVARIANT AttrIsAbsent
INVARIANT CbfOnlyFillInto
INVARIANT Monotone
INVARIANT LogWithinCaps
INVARIANT Emitted
CHECK_DEADLOCK FALSE
