SPECIFICATION Spec
CONSTANTS MaxBr = 2 MaxN = 3 CopyMode = "shallow"
  BufSizes <- BufAll
  Templates <- AllTemplates
INVARIANT Isolated
CHECK_DEADLOCK FALSE
