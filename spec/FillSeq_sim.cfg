SPECIFICATION Spec
CONSTANTS MaxPre = 3 MaxN = 6
  PreAlphabet <- AlphaMid
  Accs <- AccsAll
  Posts <- PostsMid
  Pairs = {TRUE, FALSE}
  Drivers = {"run", "fill", "split"}
  Bufs <- BufAll
INVARIANT DriversAgree
INVARIANT FillReaches
INVARIANT StopSound
INVARIANT ComputeOnce
INVARIANT BufBound
CHECK_DEADLOCK FALSE
