SPECIFICATION Spec
CONSTANTS MaxFills = 1
  Weights <- W3
  EdgeChoices <- EdgesExport
INVARIANT HistoryRef
INVARIANT Emitted
CHECK_DEADLOCK FALSE
