SPECIFICATION Spec
CONSTANTS MaxFills = 1
  Weights <- W4
  Twin = FALSE
  EdgeChoices <- EdgesExport
INVARIANT HistoryRef
INVARIANT Emitted
CHECK_DEADLOCK FALSE
