------------------------------ MODULE Isolation ------------------------------
(***************************************************************************)
(* C04, model A: branch isolation of lena.core.Split / lena.flow.Zip with  *)
(* copy_buf = True when the branches mutate data and context in place.     *)
(*                                                                         *)
(* Operational part: the objects of the flow live on a heap (Heap.tla);    *)
(* the machine follows the code:                                           *)
(*   Split.run    orig_buf = next block; for every active branch           *)
(*                buf = deepcopy(orig_buf) unless it is the last active    *)
(*                one (which works on orig_buf itself); Source branches    *)
(*                are called once and removed; fill/compute branches       *)
(*                compute when they raise LenaStopFill or at the end;      *)
(*                fill/request branches request after every block          *)
(*   Split._fill  every branch but the last gets deepcopy(val), the last   *)
(*                val itself; compute()/request() in branch order          *)
(*   Zip._fill    every branch gets deepcopy(val)                          *)
(* The flow values have a shape (IsolationSem): pairs with a context or     *)
(* bare data objects (hashable although mutable); a typed Variable puts a  *)
(* dictionary with a sub-dictionary into the context.  CopyMode "hashable" *)
(* (what if Split._fill passed hashable values uncopied) and "varshallow"  *)
(* (what if Variable copied its var_context shallowly: the sub-dictionary  *)
(* is then the element's own object, heap id 1) are refuted by TLC.        *)
(* Branch elements mutate the objects they are given (HApply).             *)
(* Declarative part: Alone(branch, xs, bs) - what the branch yields when   *)
(* it is the only one and works on pure (immutable) values.                *)
(* Isolated: the outputs of every branch - as snapshotted when yielded and *)
(* as they are at the end - are Alone.  With CopyMode = "none" or "shallow"*)
(* TLC finds the interference (Isolation_nocopy.cfg, Isolation_shallow.cfg,*)
(* run by the check as a sensitivity guard of the model).                  *)
(*                                                                         *)
(* A branch is [muts |-> <<mutators>>, end |-> e, stop |-> None | k,       *)
(*              name |-> s]:                                               *)
(*   end = "seq"    Sequence(muts..., tag)           run element           *)
(*         "store"  FillComputeSeq(muts..., collector(stop), tag)          *)
(*         "count"  FillComputeSeq(muts..., lena.flow.Count(name), tag)    *)
(*         "fr"     fill/request element applying muts and collecting      *)
(*         "src"    Source                                                 *)
(* drv = "run" | "fill" (all branches fill/compute) | "fillreq" (all       *)
(* fill/request; request after every fill when rq = 1, else at the end)    *)
(* | "zip" (lena.flow.Zip of fill/compute branches)                        *)
(***************************************************************************)
EXTENDS IsolationSem, Json

CONSTANTS MaxBr, MaxN, BufSizes, Templates,
          FillBr, FillTemplates,     \* longer branch lists over fewer templates for the fill-driven Split and Zip
          ExtraBr,                   \* branch lists over VarTemplates (shape "pair") / DataTemplates (other shapes)
          Shapes,                    \* shapes of the flow values
          Classes,                   \* classes of the context objects

          CopyMode      \* "deep" (the code), "shallow" / "none": what if the copies were weaker

RECURSIVE Seqs(_)
Seqs(n) == IF n = 0 THEN {<<>>}
           ELSE LET Pr == Seqs(n - 1) IN Pr \cup {Append(p, a) : p \in {x \in Pr : Len(x) = n - 1}, a \in Templates}

(***************************************************************************)
(* Operational machine.                                                    *)
(***************************************************************************)
VARIABLES brs, N, bs, drv, rq, shape, cls,     \* scenario
          M,                       \* heap
          src,                     \* the flow values as the producer created them (VRefs)
          pos, orig, active, ind,  \* Split.run: values read, current block, active branches, index
          bst,                     \* per branch: stored VRefs, number of fills, stopped, count of Count.run
          out,                     \* yielded: [b, r |-> VRef, x |-> snapshot when yielded]
          phase
vars == <<brs, N, bs, drv, rq, shape, cls, M, src, pos, orig, active, ind, bst, out, phase>>
scen == <<brs, N, bs, drv, rq, shape, cls>>

InitBst(bb) == [j \in 1..Len(bb) |-> [stored |-> <<>>, nf |-> 0, runcount |-> 0, done |-> FALSE]]
RECURSIVE FillSeqs(_)
FillSeqs(n) == IF n = 0 THEN {<<>>}
               ELSE LET Pr == FillSeqs(n - 1) IN
                    Pr \cup {Append(p, a) : p \in {x \in Pr : Len(x) = n - 1}, a \in FillTemplates}
RECURSIVE TSeqs(_, _)
TSeqs(T, n) == IF n = 0 THEN {<<>>}
               ELSE LET Pr == TSeqs(T, n - 1) IN Pr \cup {Append(p, a) : p \in {x \in Pr : Len(x) = n - 1}, a \in T}
ElemSub == IF CopyMode = "varshallow" THEN 1 ELSE 0
\* constant-level sets (evaluated once): branch lists for flows of pairs / of other shapes / for Split.run
RunBrs == Seqs(MaxBr) \cup TSeqs(VarTemplates, ExtraBr)
PairBrs == RunBrs \cup FillSeqs(FillBr)
DataBrs == TSeqs(DataTemplates, ExtraBr)
ClsBrs == TSeqs(NestTemplates, ExtraBr)
Init == /\ shape \in Shapes /\ cls \in Classes
        /\ \/ cls = "dict" /\ shape = "pair" /\ brs \in PairBrs
           \/ cls = "dict" /\ shape # "pair" /\ brs \in DataBrs
           \/ cls # "dict" /\ shape = "pair" /\ brs \in ClsBrs
        /\ N \in 0..MaxN /\ bs \in BufSizes
        /\ drv \in {"run", "fill", "fillreq", "zip"} /\ rq \in {0, 1}
        /\ (drv = "run" => rq = 0 /\ (shape # "pair" \/ cls # "dict" \/ brs \in RunBrs))
        /\ (drv = "fill" => /\ rq = 0 /\ bs = 1 /\ brs # <<>>
                            /\ \A j \in 1..Len(brs) : IsFC(brs[j]) /\ brs[j].stop = None)
        \* Zip: fill/compute branches (compute at the end) or fill/request branches (request like fillreq)
        /\ (drv = "zip" => /\ bs = 1 /\ brs # <<>>
                           /\ \A j \in 1..Len(brs) : brs[j].end = brs[1].end /\ brs[j].stop = None
                           /\ (IsFC(brs[1]) /\ rq = 0) \/ brs[1].end = "fr")
        /\ (drv = "fillreq" => /\ bs = 1 /\ brs # <<>>
                               /\ \A j \in 1..Len(brs) : brs[j].end = "fr" /\ brs[j].stop = None)
        /\ LET M0 == IF ElemSub > 0 THEN NewCell(EmptyHeap, DCell(VarSub("x"))) ELSE EmptyHeap   \* the element's own object
               r == AllocAll(M0, FlowS(N, shape)) IN M = r.M /\ src = r.vs
        /\ pos = 0 /\ orig = <<>> /\ active = [j \in 1..Len(brs) |-> j] /\ ind = 1
        /\ bst = InitBst(brs) /\ out = <<>>
        /\ phase = IF brs = <<>> THEN "done" ELSE "read"

RemoveAt(s, i) == [j \in 1..(Len(s) - 1) |-> IF j < i THEN s[j] ELSE s[j + 1]]
Entry(h, b, v) == [b |-> b, r |-> v, x |-> SnapVal(h, v)]
Entries(h, b, vs) == [j \in 1..Len(vs) |-> Entry(h, b, vs[j])]

\* which buffer a branch gets
\* CopyMode = "eqlast": what if Split._fill recognised the last branch by == (structural equality of
\* lena sequences and elements) instead of by position
NeedsCopy == /\ CopyMode # "none"
             /\ ~(CopyMode = "hashable" /\ drv \in {"fill", "fillreq"} /\ shape \in BareShapes)
             /\ CASE drv = "run" -> ind < Len(active)               \* n_of_active_seqs - ind > 1
                  [] drv \in {"fill", "fillreq"} ->
                       IF CopyMode = "eqlast" THEN brs[active[ind]] # brs[Len(brs)]
                       ELSE active[ind] < Len(brs)                   \* self._seqs[:-1]
                  [] drv = "zip" -> TRUE

\* a Sequence over one buffer: every value through the mutators, Count.run marks the last one
RECURSIVE RunSeq(_, _, _, _, _)
RunSeq(Mm, b, vs, total, acc) ==
  IF vs = <<>> THEN [M |-> Mm, vs |-> acc]
  ELSE LET r == HApplyAllS(Mm, Head(vs), b.muts, ElemSub)
           M2 == IF HasCnt(b) /\ Len(vs) = 1 THEN HSetKey(r.M, r.v.c, CntName(b), total) ELSE r.M
       IN RunSeq(M2, b, Tail(vs), total, Append(acc, r.v))
\* fill a fill/compute or fill/request branch with a buffer: mutators, then the collector;
\* the collector raises LenaStopFill on attempt stop+1
RECURSIVE FillBuf(_, _, _, _)
FillBuf(Mm, b, s, vs) ==
  IF vs = <<>> THEN [M |-> Mm, s |-> s, stopped |-> FALSE]
  ELSE LET r == HApplyAllS(Mm, Head(vs), b.muts, ElemSub) IN
       IF b.stop # None /\ s.nf >= b.stop THEN [M |-> r.M, s |-> s, stopped |-> TRUE]
       ELSE FillBuf(r.M, b, [s EXCEPT !.stored = Append(@, r.v), !.nf = @ + 1], Tail(vs))
\* compute() of a fill/compute branch: [M, vs]
ComputeOf(Mm, b, s) ==
  IF b.end = "store" THEN [M |-> Mm, vs |-> s.stored]
  ELSE \* lena.flow.Count.compute: writes its key into the stored context, yields (count, deep copy)
       LET M0 == IF s.stored = <<>> THEN AllocCtx(Mm, <<>>) ELSE [M |-> Mm, id |-> s.stored[Len(s.stored)].c]
           M1 == HSetKey(M0.M, M0.id, b.name, s.nf)
           cc == DeepCopyCtx(M1, M0.id)
           M2 == NewCell(cc.M, LCell(<<s.nf>>))
       IN [M |-> M2, vs |-> <<[d |-> cc.M.n, c |-> cc.id]>>]

Fixed == UNCHANGED <<brs, N, bs, drv, rq, shape, cls, src>>
ReadBlock ==
  /\ phase = "read" /\ Fixed
  /\ LET k == IF bs = None THEN N - pos ELSE Min(bs, N - pos) IN
     IF k = 0 THEN /\ phase' = "final" /\ UNCHANGED <<pos, orig>>
     ELSE /\ orig' = SubSeq(src, pos + 1, pos + k) /\ pos' = pos + k /\ phase' = "branches"
  /\ ind' = 1 /\ UNCHANGED <<M, active, bst, out>>

BranchSrc ==
  /\ phase = "branches" /\ ind <= Len(active) /\ brs[active[ind]].end = "src" /\ Fixed
  /\ LET b == active[ind]
         r == AllocAll(M, Alone(brs[b], <<>>, None))
     IN /\ M' = r.M /\ out' = out \o Entries(r.M.h, b, r.vs)
  /\ active' = RemoveAt(active, ind) /\ UNCHANGED <<pos, orig, ind, bst, phase>>

Buffer == IF ~NeedsCopy THEN [M |-> M, vs |-> orig]
          \* "clsshallow": what if the deep copy of a context that is not a plain dict copied its top level only
          ELSE IF CopyMode = "shallow" \/ (CopyMode = "clsshallow" /\ cls # "dict") THEN ShallowCopyAll(M, orig)
          ELSE DeepCopyAll(M, orig)

BranchSeq ==
  /\ phase = "branches" /\ ind <= Len(active) /\ brs[active[ind]].end = "seq" /\ Fixed
  /\ LET b == active[ind]
         total == bst[b].runcount + Len(orig)
         r == RunSeq(Buffer.M, brs[b], Buffer.vs, total, <<>>)
     IN /\ M' = r.M /\ out' = out \o Entries(r.M.h, b, r.vs)
        /\ bst' = [bst EXCEPT ![b].runcount = total]
  /\ ind' = ind + 1 /\ UNCHANGED <<pos, orig, active, phase>>

BranchFC ==
  /\ phase = "branches" /\ ind <= Len(active) /\ IsFC(brs[active[ind]]) /\ Fixed
  /\ LET b == active[ind]
         f == FillBuf(Buffer.M, brs[b], bst[b], Buffer.vs)
     IN IF f.stopped
        THEN LET c == ComputeOf(f.M, brs[b], f.s) IN
             /\ M' = c.M /\ out' = out \o Entries(c.M.h, b, c.vs)
             /\ bst' = [bst EXCEPT ![b] = [f.s EXCEPT !.done = TRUE]]
             /\ active' = RemoveAt(active, ind) /\ UNCHANGED ind
        ELSE /\ M' = f.M /\ bst' = [bst EXCEPT ![b] = f.s]
             /\ ind' = ind + 1 /\ UNCHANGED <<out, active>>
  /\ UNCHANGED <<pos, orig, phase>>

\* Split.run requests after every block; the fill-driven Split only when the driver asks
BranchFR ==
  /\ phase = "branches" /\ ind <= Len(active) /\ brs[active[ind]].end = "fr" /\ Fixed
  /\ LET b == active[ind]
         f == FillBuf(Buffer.M, brs[b], bst[b], Buffer.vs)
     IN /\ M' = f.M
        /\ IF drv = "run"
           THEN /\ out' = out \o Entries(f.M.h, b, f.s.stored)
                /\ bst' = [bst EXCEPT ![b] = [f.s EXCEPT !.stored = <<>>, !.done = f.stopped]]
                \* a fill/request branch that raised LenaStopFill requests once more and is removed
                /\ IF f.stopped THEN active' = RemoveAt(active, ind) /\ UNCHANGED ind
                   ELSE ind' = ind + 1 /\ UNCHANGED active
           ELSE /\ bst' = [bst EXCEPT ![b] = f.s] /\ UNCHANGED <<out, active>> /\ ind' = ind + 1
  /\ UNCHANGED <<pos, orig, phase>>

\* request() of every branch in order
RECURSIVE RequestAll(_, _, _)
RequestAll(h, st, j) == IF j > Len(st) THEN <<>> ELSE Entries(h, j, st[j].stored) \o RequestAll(h, st, j + 1)
BlockDone ==
  /\ phase = "branches" /\ ind > Len(active) /\ Fixed
  /\ IF drv \in {"fillreq", "zip"} /\ rq = 1
     THEN /\ out' = out \o RequestAll(M.h, bst, 1)
          /\ bst' = [j \in 1..Len(bst) |-> [bst[j] EXCEPT !.stored = <<>>]]
     ELSE UNCHANGED <<out, bst>>
  /\ phase' = "read" /\ UNCHANGED <<M, pos, orig, active, ind>>

\* after the flow: compute() of the fill/compute branches still active (in order);
\* on an empty flow Split.run calls every branch once
RECURSIVE FinalPass(_, _, _, _)
FinalPass(Mm, as, st, acc) ==
  IF as = <<>> THEN [M |-> Mm, out |-> acc]
  ELSE LET b == Head(as) IN
    IF IsFC(brs[b]) THEN LET c == ComputeOf(Mm, brs[b], st[b]) IN
                         FinalPass(c.M, Tail(as), st, acc \o Entries(c.M.h, b, c.vs))
    ELSE IF brs[b].end = "fr" /\ drv \in {"fillreq", "zip"}
         THEN FinalPass(Mm, Tail(as), st, acc \o Entries(Mm.h, b, st[b].stored))
    ELSE IF brs[b].end = "src" /\ pos = 0
         THEN LET r == AllocAll(Mm, Alone(brs[b], <<>>, None)) IN
              FinalPass(r.M, Tail(as), st, acc \o Entries(r.M.h, b, r.vs))
    ELSE FinalPass(Mm, Tail(as), st, acc)
Final ==
  /\ phase = "final" /\ Fixed
  /\ LET f == FinalPass(M, active, bst, <<>>) IN M' = f.M /\ out' = out \o f.out
  /\ phase' = "done" /\ UNCHANGED <<pos, orig, active, ind, bst>>

Next == ReadBlock \/ BranchSrc \/ BranchSeq \/ BranchFC \/ BranchFR \/ BlockDone \/ Final
Spec == Init /\ [][Next]_vars
Done == phase = "done"

(***************************************************************************)
(* Properties.                                                             *)
(***************************************************************************)
RECURSIVE Proj(_, _)
Proj(o, b) == IF o = <<>> THEN <<>> ELSE (IF Head(o).b = b THEN <<Head(o)>> ELSE <<>>) \o Proj(Tail(o), b)
WhenYielded(es) == [j \in 1..Len(es) |-> es[j].x]
AtEnd(es) == [j \in 1..Len(es) |-> SnapVal(M.h, es[j].r)]
\* each branch yields what it would yield alone on a private copy of the flow
Isolated == Done => \A b \in 1..Len(brs) :
               /\ WhenYielded(Proj(out, b)) = Alone(brs[b], FlowS(N, shape), bs)
               /\ AtEnd(Proj(out, b)) = Alone(brs[b], FlowS(N, shape), bs)
\* what has been yielded never changes afterwards (no later mutation reaches it)
YieldedStable == \A j \in 1..Len(out) : SnapVal(M.h, out[j].r) = out[j].x
\* along the run every yielded prefix is a prefix of the isolated result
IsPrefix(a, c) == Len(a) <= Len(c) /\ a = SubSeq(c, 1, Len(a))
PrefixIsolated == \A b \in 1..Len(brs) : IsPrefix(WhenYielded(Proj(out, b)), Alone(brs[b], FlowS(N, shape), bs))
\* the objects held by different branches are disjoint
Held(b) == UNION {Reach(M.h, bst[b].stored[j]) : j \in 1..Len(bst[b].stored)}
HeldDisjoint == \A b1, b2 \in 1..Len(brs) : b1 # b2 => Held(b1) \cap Held(b2) = {}
\* with copy_buf only the last branch may touch the producer's objects
SrcObjs == UNION {Reach(M.h, src[j]) : j \in 1..Len(src)}
OnlyLastSeesSource == (CopyMode = "deep" /\ drv # "zip") =>
   \A b \in 1..Len(brs) : (Held(b) \cap SrcObjs # {}) => b = Len(brs) \/ \A j \in (b + 1)..Len(brs) : brs[j].end = "src" \/ bst[j].done
ZipNeverSeesSource == drv = "zip" => \A b \in 1..Len(brs) : Held(b) \cap SrcObjs = {}

Expected == [b \in 1..Len(brs) |-> Alone(brs[b], FlowS(N, shape), bs)]
\* the flow values as the caller holds them afterwards (the last branch works on them: documented)
SrcAfter == [j \in 1..Len(src) |-> SnapVal(M.h, src[j])]
\* the producer's values are changed by nobody but the branch that is given the original
\* (at most one branch, its mutators applied once; the keys written by Count elements aside); Zip leaves them alone
StripC(c) == [k \in (DOMAIN c) \ {"cnt", "c1"} |-> c[k]]
SourceByLastOnly == (Done /\ CopyMode = "deep") => \A j \in 1..Len(src) :
   LET a == SnapVal(M.h, src[j]) IN
   \/ a = XS(j, shape)
   \/ /\ drv # "zip"
      /\ \E b \in 1..Len(brs) : /\ brs[b].end # "src"
                                /\ LET y == PApplyAll(XS(j, shape), brs[b].muts) IN
                                   StripC(a.c) = StripC(y.c) /\ a.d \in {XS(j, shape).d, y.d}
Emitted == Done => PrintT(ToJson([brs |-> brs, N |-> N, bs |-> bs, drv |-> drv, rq |-> rq, shape |-> shape, cls |-> cls, exp |-> Expected,
                                  src |-> SrcAfter]))
=============================================================================
