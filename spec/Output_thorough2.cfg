SPECIFICATION Spec
CONSTANTS NP = 2 MaxRuns = 3 MaxTouch = 2
  Settings <- SettingsAll
  CreatedSetsChanged = TRUE
  KeepHistory = FALSE
VIEW view
INVARIANT TypeOK
INVARIANT AllCurrent
INVARIANT Regenerated
INVARIANT ChangedOK
INVARIANT NoRedo
INVARIANT NoRedoPlot
INVARIANT SkippedUntouched
CHECK_DEADLOCK FALSE
