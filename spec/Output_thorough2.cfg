SPECIFICATION Spec
CONSTANTS
  Plans <- PlansThoroughMC2
  CreatedSetsChanged = TRUE
  AutoReload = TRUE
  KeepHistory = FALSE
VIEW view
INVARIANT TypeOK
INVARIANT AllCurrent
INVARIANT Regenerated
INVARIANT ChangedOK
INVARIANT NoRedo
INVARIANT NoRedoPlot
INVARIANT SkippedUntouched
INVARIANT GroupRedone
INVARIANT SemOK
INVARIANT FlagPresent
INVARIANT AbsentFlagRedone
CHECK_DEADLOCK FALSE
