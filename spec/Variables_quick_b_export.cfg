SPECIFICATION Spec
CONSTANTS MaxLen = 3
  Pool <- Pool3
  Starts <- StartsAll
  Xs = {1, 2}
  Nested = TRUE
  CopyVarContext = TRUE
  ExtendByCompose = TRUE
INVARIANT Emitted
CHECK_DEADLOCK FALSE
