SPECIFICATION Spec
CONSTANTS MaxLen = 3
  Pool <- Pool3
  Starts <- StartsB
  Xs = {2}
  Nested = TRUE
  CopyVarContext = TRUE
  ExtendByCompose = TRUE
INVARIANT Emitted
CHECK_DEADLOCK FALSE
