SPECIFICATION Spec
CONSTANTS MaxLen = 3
  Pool <- Pool3
  Starts <- StartsB
  Xs = {2}
  Nested = TRUE
  Ys <- NoData
  Extra <- NoElems
  Variant = "doc"
  CopyVarContext = TRUE
  ExtendByCompose = TRUE
  PathKeys = FALSE
INVARIANT DataEq
INVARIANT ComposeEqSeq
INVARIANT CombineTuple
INVARIANT TypedDeclarative
INVARIANT TypesAvailable
INVARIANT NestedFlattens
INVARIANT CarriesName
INVARIANT CarriesAttributes
INVARIANT FrameVariableOnly
INVARIANT VarUnchanged
INVARIANT Repeatable
INVARIANT Emitted
CHECK_DEADLOCK FALSE
