------------------------------- MODULE HistOps -------------------------------
(***************************************************************************)
(* histogram.scale / set_nevents / get_nevents / add as a state machine on *)
(* one histogram `a` (the operand of add is derived from it).              *)
(*                                                                         *)
(* Code: lena/structures/histogram.py  scale (with the stored _scale),     *)
(* set_nevents, get_nevents, add; hist_functions.integral, iter_bins;      *)
(* lena.structures.ScaleTo and lena.flow.scale_to / GroupScale call        *)
(* structure.scale(number).                                                *)
(***************************************************************************)
EXTENDS HistOpsSem, TLC, Json

CONSTANTS MaxOps,        \* operations per history
          HistChoices,   \* initial histograms [edges, bins, oor]
          Targets,       \* scales to rescale to (rationals, non-zero)
          NevTargets,    \* numbers of events to set (rationals, non-zero)
          AddWeights,    \* weights of add (integers)
          SeqOnly        \* TRUE: only the operations whose interplay goes through the stored scale
                         \* (scale(), scale(s), set_nevents, add whose result becomes the receiver), all orders

VARIABLES a,    \* the histogram: [edges, bins, oor, cache]
          a0,   \* ghost: the histogram at the start
          n,    \* operations made
          held,     \* ghost: the operands of the last `c = a.add(b)` that the caller still holds (they must never change)
          excuse,   \* ghost: the stored scale may be out of date for a documented reason (set_nevents after it was stored)
          h     \* ghost: history of operations with their results (hidden by the VIEW of the MC configs)
vars == <<a, a0, n, held, excuse, h>>
view == <<a, n, excuse>>

\* ---- initial histograms -------------------------------------------------
Mk(E, b, o) == Hist(E, b, o, NoneR)
All1(E, C) == {Mk(E, b, o) : b \in [1..NB(E[1]) -> C], o \in {RI(0), RI(3)}}
All2(E, C) == {Mk(E, b, o) : b \in [1..NB(E[1]) -> [1..NB(E[2]) -> C]], o \in {RI(0), RI(3)}}
All3(E, C) == {Mk(E, b, o) : b \in [1..NB(E[1]) -> [1..NB(E[2]) -> [1..NB(E[3]) -> C]]], o \in {RI(0), RI(3)}}
Ints(S) == {RI(k) : k \in S}
Half == <<1, 2>>
HistsQuick ==
  All1(<<<<0, 2>>>>, Ints(-2..3) \cup {Half}) \cup All1(<<<<0, 2, 6>>>>, Ints({-2, 0, 1, 3}) \cup {Half})
  \cup All1(<<<<0, 1, 4, 6>>>>, Ints({-1, 2}))
  \cup All2(<<<<0, 2, 6>>, <<0, 1, 4>>>>, Ints({-1, 2}))
  \cup All3(<<<<0, 2>>, <<0, 1, 4>>, <<2, 4, 8>>>>, Ints({0, 1}))
HistsThorough ==
  All1(<<<<0, 2>>>>, Ints(-2..3) \cup {Half}) \cup All1(<<<<0, 2, 6>>>>, Ints(-2..3) \cup {Half})
  \cup All1(<<<<0, 1, 4, 6>>>>, Ints({-2, -1, 0, 3}))
  \cup All2(<<<<0, 2, 6>>, <<0, 1, 4>>>>, Ints({-1, 0, 2}) \cup {Half}) \cup All2(<<<<0, 2>>, <<0, 1, 4, 6>>>>, Ints({-1, 0, 3}))
  \cup All3(<<<<0, 2>>, <<0, 1, 4>>, <<2, 4, 8>>>>, Ints({-1, 0, 1}) \cup {Half}) \cup All3(<<<<0, 2, 6>>, <<0, 1, 4>>, <<2, 4, 8>>>>, Ints({0, 1}))
HistsExport ==
  All1(<<<<0, 2>>>>, Ints(-2..3) \cup {Half}) \cup All1(<<<<0, 2, 6>>>>, Ints({-2, -1, 0, 3}) \cup {Half})
  \cup All1(<<<<0, 1, 4, 6>>>>, Ints({-1, 0, 2}))
  \cup All2(<<<<0, 2, 6>>, <<0, 1, 4>>>>, Ints({-1, 0, 2}))
  \cup All3(<<<<0, 2>>, <<0, 1, 4>>, <<2, 4, 8>>>>, Ints({0, 1}))
TargetsAll == {<<1, 1>>, <<2, 1>>, <<3, 1>>, <<1, 2>>, <<-1, 1>>}
NevAll == {<<1, 1>>, <<5, 1>>, <<-3, 2>>}
WeightsAll == {1, 2, -1}

\* ---- the other operand of add, derived from the histogram ----------------
OtherKinds == {"same", "neg", "longer", "shorter", "shifted", "dim"}
RECURSIVE IotaB(_, _, _, _)
\* contents 1, 2, 3, ... in iteration order
IotaB(E, d, base, k) == IF d > Len(E) THEN RI(base + 1)
                        ELSE [j \in 1..NB(E[d]) |-> IotaB(E, d + 1, base + (j - 1) * NCellsFrom(E, d + 1), k)]
Other(x, kind) ==
  LET E == x.edges
      m == Len(E)
      last == E[m]
      longer == [E EXCEPT ![m] = Append(last, last[Len(last)] + 2)]
      shorter == [E EXCEPT ![m] = SubSeq(last, 1, Len(last) - 1)]
      shifted == [E EXCEPT ![1] = [j \in 1..Len(E[1]) |-> E[1][j] + 2]]
      other == IF m = 1 THEN <<E[1], E[1]>> ELSE <<E[1]>>
  IN CASE kind = "same" -> Hist(E, IotaB(E, 1, 0, 0), RI(1), NoneR)
       [] kind = "neg" -> Hist(E, ScaleB(x.bins, m, RI(-1)), RMul(x.oor, RI(-1)), NoneR)
       [] kind = "longer" -> Hist(longer, IotaB(longer, 1, 0, 0), RI(0), NoneR)       \* self.edges is a prefix
       [] kind = "shorter" -> Hist(shorter, IotaB(shorter, 1, 0, 0), RI(0), NoneR)
       [] kind = "shifted" -> Hist(shifted, IotaB(shifted, 1, 0, 0), RI(2), NoneR)
       [] kind = "dim" -> Hist(other, IotaB(other, 1, 0, 0), RI(0), NoneR)
HasOther(x, kind) == kind = "shorter" => Len(x.edges[Len(x.edges)]) > 2

TolMeshes == {<<<<0, 2>>>>, <<<<-4, 1, 3, 20>>>>, <<<<0, 2, 6>>, <<-3, -1, 4>>>>, <<<<1, 2>>, <<0, 1, 4>>, <<2, 4, 8, 16>>>>}
TolHists == {Hist(E, IotaB(E, 1, 0, 0), RI(0), NoneR) : E \in TolMeshes}
HistsSeq == {Hist(<<<<0, 2, 6>>>>, <<RI(1), <<3, 2>>>>, RI(3), NoneR),
             Hist(<<<<0, 2>>, <<0, 1, 4>>>>, <<<<RI(2), RI(-1)>>>>, RI(0), NoneR),
             Hist(<<<<0, 2>>, <<0, 1>>, <<2, 4, 8>>>>, <<<<<<RI(1), RI(1)>>>>>>, RI(1), NoneR)}
HistsSeq2 == {x \in HistsSeq : Len(x.edges) <= 2}
TargetsSeq == {<<2, 1>>}
NevSeq == {<<5, 1>>}
WeightsSeq == {2}
Init == a \in (IF SeqOnly THEN HistChoices ELSE HistChoices \cup TolHists) /\ a0 = a /\ n = 0 /\ held = <<>> /\ excuse = FALSE /\ h = <<>>

NoHist == Hist(<<>>, <<>>, NoneR, NoneR)
\* fresh: the stored scale (if any) is the integral, i.e. the documented precondition of rescaling holds
Fresh(x) == IsNone(x.cache) \/ x.cache = Integral(x.bins, x.edges)
LogI(op, s, w, incl, rc, kind, ok, exc, val, b, r, tol, pert, into) ==
  h' = Append(h, [op |-> op, s |-> s, w |-> w, incl |-> incl, rc |-> rc, kind |-> kind, fresh |-> Fresh(a),
                  ok |-> ok, exc |-> exc, val |-> val, a |-> a', b |-> b, r |-> r, tol |-> tol, pert |-> pert, into |-> into])
LogT(op, s, w, incl, rc, kind, ok, exc, val, b, r, tol, pert) == LogI(op, s, w, incl, rc, kind, ok, exc, val, b, r, tol, pert, FALSE)
Log(op, s, w, incl, rc, kind, ok, exc, val, b, r) == LogT(op, s, w, incl, rc, kind, ok, exc, val, b, r, NoTol, NoPert)

Op == n < MaxOps /\ n' = n + 1 /\ a0' = a0
Keep == held' = held
\* hist.scale() / hist.scale(recompute=True)
GetScale == Op /\ \E rc \in BOOLEAN :
  LET v == CurScale(a, rc) IN
  /\ a' = [a EXCEPT !.cache = v] /\ Keep
  /\ excuse' = (IF rc \/ IsNone(a.cache) THEN FALSE ELSE excuse)
  /\ Log("getscale", NoneR, 0, FALSE, rc, "", TRUE, "", v, NoHist, NoHist)
\* hist.scale(s), ScaleTo(s)(hist), scale_to(s, [hist]), GroupScale(s)([hist]).
\* allow: scale_to / GroupScale with allow_zero_scale = allow_unknown_scale = True: "the corresponding errors are
\* ignored and the structure remains unscaled" (only differs from the plain call when the scale is zero)
Scale == Op /\ \E s \in Targets : \E allow \in (IF RIsZero(CurScale(a, FALSE)) THEN BOOLEAN ELSE {FALSE}) :
  LET r == ScaleOp(a, s) IN
  /\ a' = r.h /\ Keep
  /\ excuse' = (IF IsNone(a.cache) THEN FALSE ELSE excuse)
  /\ Log("scale", s, 0, FALSE, FALSE, IF allow THEN "allow" ELSE "", IF allow THEN TRUE ELSE r.ok,
         IF allow THEN "skipped" ELSE r.exc, NoneR, NoHist, NoHist)
\* hist.set_nevents(nev, include_out_of_range=incl); the log carries get_nevents(incl) afterwards.
\* "Rescaling a histogram with zero entries raises a LenaValueError" (nothing changes then)
SetNevents == Op /\ \E nev \in NevTargets, incl \in BOOLEAN :
  LET zero == RIsZero(Nevents(a.bins, a.oor, a.edges, incl))
      r == IF zero THEN Raise("LenaValueError", a) ELSE SetNeventsOp(a, nev, incl) IN
  /\ a' = r.h /\ Keep
  /\ excuse' = (IF zero THEN excuse ELSE (excuse \/ ~IsNone(a.cache)))    \* "one must explicitly recompute the scale if it was computed before"
  /\ Log("set_nevents", nev, 0, incl, FALSE, "", r.ok, r.exc, Nevents(r.h.bins, r.h.oor, r.h.edges, incl), NoHist, NoHist)
\* hist_to_graph(hist, scale=True | number | None): "If it is True, it uses the histogram scale" - which reads
\* and stores the scale like scale(); the graph's scale is the log's val
ToGraphScale == Op /\ \E mode \in (IF SeqOnly THEN {"true"} ELSE {"true", "num", "none"}) :
  LET v == IF mode = "true" THEN CurScale(a, FALSE) ELSE IF mode = "num" THEN <<7, 2>> ELSE NoneR IN
  /\ a' = (IF mode = "true" THEN [a EXCEPT !.cache = v] ELSE a) /\ Keep
  /\ excuse' = (IF mode = "true" /\ IsNone(a.cache) THEN FALSE ELSE excuse)
  /\ Log("to_graph_scale", NoneR, 0, FALSE, FALSE, mode, TRUE, "", v, NoHist, NoHist)
\* hist.add(other, weight): a new histogram, the operands stay.  into: the harness goes on with the sum
\* (c = a.add(b, w); then c.scale() ...): a new histogram whose scale was never computed
Add == Op /\ \E kind \in OtherKinds, w \in AddWeights, into \in BOOLEAN :
  /\ HasOther(a, kind)
  /\ SeqOnly => (into /\ kind \in {"same", "neg"})
  /\ LET b == Other(a, kind)
         r == AddOp(a, b, RI(w)) IN
     /\ into => r.ok
     /\ a' = (IF into THEN r.h ELSE a)
     /\ held' = (IF into THEN <<a, b>> ELSE held)
     /\ excuse' = (IF into THEN FALSE ELSE excuse)
     /\ LogI("add", NoneR, w, FALSE, FALSE, kind, r.ok, r.exc, NoneR, b, r.h, NoTol, NoPert, into)

\* hist.add(other, w, edges_abs_tol=.., edges_rel_tol=..) / hist.add(other, w): the other histogram has
\* the same edges but for one edge moved by a large relative amount or by a multiple of the tolerance.
\* Closeness does not depend on the contents: one histogram per mesh (TolHists) is enough.
TolKinds == {NoTol, [kind |-> "rel", rel |-> Eps, abs |-> RI(0)], [kind |-> "abs", rel |-> RI(0), abs |-> <<1, 4>>],
             [kind |-> "both", rel |-> Eps, abs |-> <<1, 4>>]}
Positions(e) == {1, Len(e)} \cup (IF Len(e) > 2 THEN {2} ELSE {})
Perts(x, tol) ==
  {NoPert} \cup
  {[axis |-> d, pos |-> p, kind |-> "grid", amt |-> am] :
     d \in 1..Len(x.edges), p \in 1..4, am \in {<<1, 8>>, <<1, 4>>, <<1, 2>>}} \cup
  {[axis |-> d, pos |-> p, kind |-> "rel", amt |-> t] :
     d \in 1..Len(x.edges), p \in 1..4,
     t \in (IF tol.kind = "default" THEN {<<1, 2>>, <<2, 1>>, <<1, 1024>>}
            ELSE IF tol.kind = "abs" THEN {} ELSE {<<1, 2>>, <<1, 1>>, <<2, 1>>})}
PertOK(x, pert) == IF pert.kind = "none" THEN TRUE ELSE pert.pos \in Positions(x.edges[pert.axis])
IsTolHist(x) == x.oor = RI(0) /\ x.bins = IotaB(x.edges, 1, 0, 0)
AddTol == Op /\ ~SeqOnly /\ IsTolHist(a) /\ excuse' = excuse /\ Keep /\ \E tol \in TolKinds : \E pert \in Perts(a, tol) :
  /\ PertOK(a, pert)
  /\ LET b == Hist(a.edges, ScaleB(a.bins, Len(a.edges), RI(3)), RI(1), NoneR)
         r == AddTolOp(a, b, RI(2), pert, tol) IN
     /\ a' = a
     /\ LogT("add_tol", NoneR, 2, FALSE, FALSE, "", r.ok, r.exc, NoneR, b, r.h, tol, pert)

Next == GetScale \/ Scale \/ SetNevents \/ ToGraphScale \/ Add \/ AddTol
Spec == Init /\ [][Next]_vars

(***************************************************************************)
(* Properties (the statement), on the last logged operation.               *)
(***************************************************************************)
L == h'[Len(h')]
IsOp(op) == Len(h') = Len(h) + 1 /\ L.op = op
TypeOK == ShapeOK(a.bins, a.edges, 1) /\ AllIncreasing(a.edges)
\* rescaling to s multiplies exactly the contents (bins and n_out_of_range) by s / old scale, edges untouched
ScaleExact == [][(IsOp("scale") /\ L.ok /\ L.exc = "") =>
                  LET old == CurScale(a, FALSE) IN
                  /\ \A c \in Cells(a.edges) : RMul(Get(a'.bins, c), old) = RMul(Get(a.bins, c), L.s)
                  /\ RMul(a'.oor, old) = RMul(a.oor, L.s)
                  /\ a'.edges = a.edges /\ ShapeOK(a'.bins, a.edges, 1)]_vars
\* ... and makes the recomputed scale equal s (when the stored scale was current, as the documentation requires)
ScaleRecomputed == [][(IsOp("scale") /\ L.ok /\ L.exc = "" /\ L.fresh) =>
                       /\ Integral(a'.bins, a'.edges) = L.s
                       /\ CurScale(a', FALSE) = L.s /\ CurScale(a', TRUE) = L.s]_vars
\* ... and raises LenaValueError for a zero scale (nothing rescaled)
ZeroScaleRaises == [][(IsOp("scale") /\ L.kind # "allow") =>
                       /\ L.ok <=> ~RIsZero(CurScale(a, FALSE))
                       /\ ~L.ok => (L.exc = "LenaValueError" /\ a'.bins = a.bins /\ a'.oor = a.oor /\ a'.edges = a.edges)]_vars
\* reading the scale changes nothing but the stored scale; recompute gives the integral
GetScalePure == [][IsOp("getscale") =>
                    /\ a'.bins = a.bins /\ a'.oor = a.oor /\ a'.edges = a.edges
                    /\ L.rc => L.val = Integral(a.bins, a.edges)]_vars
\* set_nevents(n) makes get_nevents() equal n; n_out_of_range is rescaled together with the bins
\* ... unless the caller allowed a zero scale: then nothing is rescaled and nothing is raised
AllowZeroSkips == [][(IsOp("scale") /\ L.kind = "allow") =>
                      /\ L.ok /\ RIsZero(CurScale(a, FALSE))
                      /\ a'.bins = a.bins /\ a'.oor = a.oor /\ a'.edges = a.edges]_vars
NeventsZeroRaises == [][IsOp("set_nevents") =>
                         /\ L.ok <=> ~RIsZero(Nevents(a.bins, a.oor, a.edges, L.incl))
                         /\ ~L.ok => (L.exc = "LenaValueError" /\ a' = a)]_vars
\* hist_to_graph(scale=...) never changes the contents; scale=True gives (and stores) what scale() gives
ToGraphScalePure == [][IsOp("to_graph_scale") =>
                        /\ a'.bins = a.bins /\ a'.oor = a.oor /\ a'.edges = a.edges
                        /\ L.kind = "true" => (L.val = CurScale(a, FALSE) /\ a'.cache = L.val)
                        /\ L.kind # "true" => a' = a]_vars
\* whatever is done to the sum, the operands that produced it stay as they were
HeldFrozen == [][\/ held' = held
                 \/ (IsOp("add") /\ L.into /\ held' = <<a, L.b>>)]_vars
NeventsSet == [][(IsOp("set_nevents") /\ L.ok) =>
                  /\ L.val = L.s
                  /\ Nevents(a'.bins, a'.oor, a'.edges, L.incl) = L.s
                  /\ a'.edges = a.edges
                  /\ \E f \in {RDiv(L.s, Nevents(a.bins, a.oor, a.edges, L.incl))} :
                       /\ \A c \in Cells(a.edges) : Get(a'.bins, c) = RMul(Get(a.bins, c), f)
                       /\ a'.oor = RMul(a.oor, f)]_vars
\* add returns the cell-wise a + w*b, only for equal edges, without modifying its operands
AddCellwise == [][(IsOp("add") /\ L.ok) =>
                   /\ L.r.edges = a.edges
                   /\ \A c \in Cells(a.edges) : Get(L.r.bins, c) = RAdd(Get(a.bins, c), RMul(RI(L.w), Get(L.b.bins, c)))
                   /\ L.r.oor = RAdd(a.oor, RMul(RI(L.w), L.b.oor))]_vars
AddOnlyEqualEdges == [][IsOp("add") =>
                         /\ L.ok <=> (L.b.edges = a.edges)
                         /\ ~L.ok => L.exc = "LenaValueError"]_vars
AddPure == [][(IsOp("add") /\ ~L.into) => a' = a]_vars
\* the sum is a new histogram: its scale has never been computed, whatever was stored for the operands
AddIntoFresh == [][(IsOp("add") /\ L.into) =>
                    /\ L.ok /\ a'.edges = a.edges /\ a'.bins = L.r.bins /\ a'.oor = L.r.oor
                    /\ IsNone(a'.cache) /\ CurScale(a', FALSE) = Integral(a'.bins, a'.edges)]_vars
\* the scale reported for a histogram is its integral, unless it was stored before a set_nevents
\* (the documented case: "one must explicitly recompute the scale if it was computed before")
CacheHonest == (~IsNone(a.cache) /\ a.cache # Integral(a.bins, a.edges)) => excuse
\* subtracting a histogram from itself leaves nothing
AddNegZero == [][(IsOp("add") /\ L.kind = "neg" /\ L.w = 1) =>
                  /\ \A c \in Cells(a.edges) : RIsZero(Get(L.r.bins, c))
                  /\ RIsZero(L.r.oor)]_vars

\* add with tolerances: a result exactly when the perturbed edge is within the documented tolerance
\* (equal edges always, an edge moved by a large relative amount never under the default tolerances),
\* the result is the cell-wise sum on the edges of self, the operands stay
PX == a.edges[L.pert.axis][L.pert.pos]
AddTolDoc == [][IsOp("add_tol") =>
                 /\ a' = a
                 /\ L.pert.kind = "none" => L.ok
                 /\ (L.tol.kind = "default" /\ L.pert.kind = "grid") => ~L.ok
                 /\ (L.tol.kind # "default" /\ L.pert.kind # "none") =>
                      (L.ok <=> DocClose(RI(PX), PertY(PX, L.pert, L.tol), L.tol.rel, L.tol.abs))
                 /\ ~L.ok => L.exc = "LenaValueError"
                 /\ L.ok => /\ L.r.edges = a.edges
                            /\ \A c \in Cells(a.edges) : Get(L.r.bins, c) = RAdd(Get(a.bins, c), RMul(RI(L.w), Get(L.b.bins, c)))
                            /\ L.r.oor = RAdd(a.oor, RMul(RI(L.w), L.b.oor))]_vars
\* the rule used for the default relative tolerance is the exact formula for the explicit eps
RuleAgrees == [][(IsOp("add_tol") /\ L.tol.kind = "rel" /\ L.pert.kind # "none") =>
                  (L.ok <=> CloseRule(PX, L.pert))]_vars

Emitted == (n = MaxOps) => PrintT(ToJson([start |-> a0, ops |-> h]))
=============================================================================
