------------------------------ MODULE Histogram ------------------------------
(***************************************************************************)
(* lena.structures.histogram (kind "structure": fill(coord, weight)) and   *)
(* the element lena.structures.Histogram (kind "element": fill(value),     *)
(* always weight 1) as a state machine whose only action is a fill.        *)
(*                                                                         *)
(* Code: lena/structures/histogram.py  histogram.__init__ (init_bins),     *)
(* histogram.fill, Histogram.fill; hist_functions.get_bin_on_value.        *)
(*                                                                         *)
(* Edges are strictly increasing sequences of EVEN integers and            *)
(* coordinates range over all integers from two below the first to two     *)
(* above the last edge: even = exactly a grid point (an edge or not), odd  *)
(* = strictly between two grid points (or outside).  The harness maps the  *)
(* integers to numbers by monotone embeddings (ints, floats, tiny, huge,   *)
(* geometric, floating-point neighbours of the grid points).               *)
(***************************************************************************)
EXTENDS HistSem, TLC, Json

CONSTANTS Weights,      \* weights of histogram.fill
          MaxFills,     \* length of the fill histories
          EdgeChoices,  \* set of edge configurations (1 to 3 dimensions)
          Twin          \* TRUE: a second histogram made from the SAME edges object is filled in between

VARIABLES kind,    \* "structure" | "element"
          edges,   \* the mesh
          bins,    \* nested sequences of cell contents          (histogram.bins)
          oor,     \* weight filled outside the edges            (histogram.n_out_of_range)
          total,   \* ghost: total filled weight
          bins2, oor2, total2,   \* the twin histogram (only with Twin)
          n,       \* ghost: number of fills
          h        \* ghost: history for export (hidden by the VIEW of the MC configs)

vars == <<kind, edges, bins, oor, total, bins2, oor2, total2, n, h>>
view == <<kind, edges, bins, oor, total, bins2, oor2, total2, n>>

Inc(S, lens) == IncSeqs(S, lens)
Even(g) == {2 * k : k \in 0..(g - 1)}
D1(A) == {<<a>> : a \in A}
D2(A, B) == {<<a, b>> : a \in A, b \in B}
D3(A, B, C) == {<<a, b, c>> : a \in A, b \in B, c \in C}
Small == Inc(Even(3), 2..3)                        \* 0-2, 0-4, 2-4, 0-2-4
OneCell3 == D3({<<0, 2>>}, {<<2, 4>>}, {<<0, 4>>})                 \* a single cell in three dimensions
EdgesQuick == D1(Inc(Even(5), 2..5)) \cup D2(Small, Small) \cup D3({<<0, 2, 4>>, <<0, 4>>}, {<<0, 2, 4>>}, {<<2, 4>>}) \cup OneCell3
EdgesThorough == D1(Inc(Even(6), 2..6)) \cup D2(Inc(Even(4), 2..4), Small) \cup D3({<<0, 2, 4>>, <<0, 4>>}, {<<0, 2, 4>>, <<2, 4>>}, {<<0, 2, 4>>, <<0, 4>>})
EdgesExport == D1(Inc(Even(6), 2..6)) \cup D2(Small, Small) \cup D3({<<0, 2, 4>>, <<0, 4>>}, {<<0, 2, 4>>}, {<<0, 2, 4>>, <<2, 4>>}) \cup OneCell3
EdgesHist == D1({<<0, 2>>, <<0, 2, 4, 6>>, <<0, 2, 8, 10, 12>>, <<0, 10, 12>>}) \cup D2(Small, {<<0, 2, 4>>, <<0, 6>>})
             \cup D3({<<0, 2, 4>>}, {<<0, 2, 4>>, <<0, 4>>}, {<<0, 2, 4>>})

EdgesTwin == D1({<<0, 2>>, <<0, 2, 8, 10>>}) \cup D2({<<0, 2, 4>>}, {<<0, 4>>}) \cup OneCell3

W3 == {1, 2, -1}
W4 == {1, 2, -1, 0}
W5 == {1, 2, -1, 3, 0}

\* coordinates: every integer from m below the first to m above the last edge (m = 2 in one dimension)
CoordValsM(e, m) == (e[1] - m)..(e[Len(e)] + m)
CoordVals(e) == CoordValsM(e, 2)
Coords(E) == CASE Len(E) = 1 -> {<<x>> : x \in CoordVals(E[1])}
               [] Len(E) = 2 -> {<<x, y>> : x \in CoordValsM(E[1], 1), y \in CoordValsM(E[2], 1)}
               [] Len(E) = 3 -> {<<x, y, z>> : x \in CoordValsM(E[1], 1), y \in CoordValsM(E[2], 1), z \in CoordValsM(E[3], 1)}

Init == /\ kind \in {"structure", "element"}
        /\ edges \in EdgeChoices
        /\ bins = InitBins(edges, 1, 0) /\ oor = 0 /\ total = 0
        /\ bins2 = InitBins(edges, 1, 0) /\ oor2 = 0 /\ total2 = 0
        /\ n = 0 /\ h = <<>>

Whichs == IF Twin THEN {1, 2} ELSE {1}
\* the common body: histogram.fill(coord, weight) on histogram number `which`
DoFill(c, w, which) ==
  LET r == FillOp(IF which = 1 THEN bins ELSE bins2, IF which = 1 THEN oor ELSE oor2, edges, c, w) IN
  /\ n < MaxFills
  /\ IF which = 1
     THEN bins' = r.bins /\ oor' = r.oor /\ total' = total + w /\ UNCHANGED <<bins2, oor2, total2>>
     ELSE bins2' = r.bins /\ oor2' = r.oor /\ total2' = total2 + w /\ UNCHANGED <<bins, oor, total>>
  /\ n' = n + 1
  /\ h' = Append(h, [c |-> c, w |-> w, idx |-> IdxVec(c, edges), bins |-> r.bins, oor |-> r.oor,
                     which |-> which, ok |-> TRUE, bad |-> ""])
  /\ UNCHANGED <<kind, edges>>

\* histogram.fill(coord, weight=1)
Fill == kind = "structure" /\ \E c \in Coords(edges), w \in Weights, which \in Whichs : DoFill(c, w, which)
\* Histogram.fill(value): data of the value with weight 1
ElemFill == kind = "element" /\ \E c \in Coords(edges), which \in Whichs : DoFill(c, 1, which)
\* a coordinate of the wrong dimension: get_bin_on_value - "arg and edges must have the same length (otherwise
\* LenaValueError is raised)"; nothing is filled, the histogram stays usable.
\* forms: one coordinate too few / too many, none at all, (one dimension) the number wrapped in a list
BadForms == IF Len(edges) = 1 THEN {"listed", "empty"} ELSE {"short", "long", "empty"}
BadFill == /\ n < MaxFills /\ n' = n + 1
           /\ \E form \in BadForms, which \in Whichs :
                h' = Append(h, [c |-> <<>>, w |-> 1, idx |-> <<>>, bins |-> IF which = 1 THEN bins ELSE bins2,
                                oor |-> IF which = 1 THEN oor ELSE oor2, which |-> which, ok |-> FALSE, bad |-> form])
           /\ UNCHANGED <<kind, edges, bins, oor, total, bins2, oor2, total2>>

Next == Fill \/ ElemFill \/ BadFill
Spec == Init /\ [][Next]_vars

(***************************************************************************)
(* Properties.                                                             *)
(***************************************************************************)
TypeOK == AllIncreasing(edges) /\ ShapeOK(bins, edges, 1)
\* "the sum of all bins plus n_out_of_range always equals the total filled weight"
Conservation == SumB(bins, Len(edges)) + oor = total /\ SumB(bins2, Len(edges)) + oor2 = total2
\* every coordinate lies in at most one cell, and in none exactly when some index is an under/overflow
\* (they depend on the edges only: evaluated once per edge configuration)
OneCell == n = 0 => \A c \in Coords(edges) :
             LET iv == IdxVec(c, edges)
                 inrange == \A d \in 1..Len(edges) : 0 <= iv[d] /\ iv[d] < NB(edges[d])
             IN CellsOf(c, edges) = IF inrange THEN {iv} ELSE {}
\* half-open intervals: the reported index is the bin [low, high) containing the value
HalfOpen == n = 0 => \A d \in 1..Len(edges) : \A x \in CoordVals(edges[d]) :
              LET e == edges[d]
                  i == Idx(x, e)
              IN /\ i \in -1..NB(e)
                 /\ i = -1 <=> x < e[1]
                 /\ i = NB(e) <=> x >= e[Len(e)]
                 /\ (0 <= i /\ i < NB(e)) => e[i + 1] <= x /\ x < e[i + 2]
\* each fill adds the weight to exactly the right cell or to n_out_of_range and changes nothing else
\* (the coordinate and weight of the step are the last entry of the ghost history)
\* A fill of one histogram leaves the other (made from the same edges) alone; a fill that raises changes nothing.
ExactlyOne == [][LET f == h'[Len(h')] IN
                   /\ Len(h') = Len(h) + 1 /\ edges' = edges /\ kind' = kind
                   /\ ~f.ok => UNCHANGED <<bins, oor, total, bins2, oor2, total2>>
                   /\ (f.ok /\ f.which = 1) => /\ FillRefOK(bins, oor, bins', oor', edges, f.c, f.w) /\ total' = total + f.w
                                               /\ UNCHANGED <<bins2, oor2, total2>>
                   /\ (f.ok /\ f.which = 2) => /\ FillRefOK(bins2, oor2, bins2', oor2', edges, f.c, f.w) /\ total2' = total2 + f.w
                                               /\ UNCHANGED <<bins, oor, total>>
                   /\ (f.ok /\ kind = "element") => f.w = 1]_vars
\* the whole history at once (export configs, where h is part of the state):
\* every cell holds the weight of the fills that fell into it
RefCell(cell, wh) == SumSeq([k \in 1..Len(h) |-> IF h[k].ok /\ h[k].which = wh /\ Inside(h[k].c, cell, edges) THEN h[k].w ELSE 0])
RefOor(wh) == SumSeq([k \in 1..Len(h) |-> IF h[k].ok /\ h[k].which = wh /\ CellsOf(h[k].c, edges) = {} THEN h[k].w ELSE 0])
HistoryRef == /\ \A cell \in Cells(edges) : Get(bins, cell) = RefCell(cell, 1) /\ Get(bins2, cell) = RefCell(cell, 2)
              /\ oor = RefOor(1) /\ oor2 = RefOor(2)
              /\ Len(h) = n

Emitted == (n = MaxFills) => PrintT(ToJson([kind |-> kind, edges |-> edges, fills |-> h]))
=============================================================================
