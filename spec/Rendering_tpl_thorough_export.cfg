SPECIFICATION Spec
CONSTANTS Parts = {"tpl"} MaxSrc = 5 MaxRows = 3 Deep = FALSE
INVARIANT Emitted
CHECK_DEADLOCK FALSE
