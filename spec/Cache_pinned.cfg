SPECIFICATION Spec
CONSTANTS MaxN = 2
  DataProfiles <- DataQuick
  Forms <- FormsQuick
  StopKinds = {"close"}
  Scenarios <- ScenQuick
  Reruns = {FALSE, TRUE}
  RerunScenarios <- ScenRerunQuick
  RerunData <- DataRerunQuick
  RerunForms <- FormsRerunQuick
  Holds = {}
  HoldScenarios = {}
  HoldData = {}
  HoldForms = {}
  HoldRc = {}
  KeepHistory = FALSE
  Design = "final_name"
VIEW view
INVARIANT TypeOK
INVARIANT NoTruncated
INVARIANT StoredIsLastComplete
INVARIANT FirstRunTransparent
INVARIANT LoadIsStored
INVARIANT LoadNoPull
INVARIANT RestoreFirstRun
INVARIANT FirstRunWhenNothingLoadable
PROPERTY CompleteIsComplete
PROPERTY DropRestores
PROPERTY InterruptKeepsLoaded
CHECK_DEADLOCK FALSE
