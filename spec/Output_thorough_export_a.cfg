SPECIFICATION Spec
CONSTANTS NP = 1 MaxRuns = 3 MaxTouch = 3
  Settings <- SettingsQuick
  CreatedSetsChanged = TRUE
  KeepHistory = TRUE
INVARIANT Emitted
CHECK_DEADLOCK FALSE
