SPECIFICATION Spec
CONSTANTS MaxRuns = 3 MaxTouch = 3
  Scens <- ScenPlain1
  Settings <- SettingsQuick
  CreatedSetsChanged = TRUE
  Reuses = {FALSE, TRUE}
  AutoReload = TRUE
  KeepHistory = TRUE
INVARIANT Emitted
CHECK_DEADLOCK FALSE
