-------------------------- MODULE IsolationNestSem --------------------------
(***************************************************************************)
(* Declarative part of C04 model A', nested Splits: the branches of a      *)
(* Split (or Zip) may be Splits themselves, bare or behind a prefix of     *)
(* elements in a sequence, to any depth.  No constants or variables:       *)
(* shared by IsolationNest.tla and Trace_IsolationNest.tla.                *)
(*                                                                         *)
(* A node is a record                                                      *)
(*   [muts, end, stop, name, ibs, sub]                                     *)
(*   leaf   a branch of IsolationSem (end = "seq" | "store" | "count" |    *)
(*          "fr"; stop = None), ibs = None, sub = <<>>                     *)
(*   split  end = "split": Split(sub, bufsize = ibs) behind the elements   *)
(*          muts: Sequence(muts..., Split) / FillComputeSeq(muts..., Split)*)
(*          or, when muts = <<>>, also the bare Split                      *)
(* The leaves of a tree are numbered depth first from 1.                   *)
(*                                                                         *)
(* TypeOf follows lena.core.split._get_seq_with_type: a Split whose        *)
(* sequences are all fill/compute has fill and compute and is used as a    *)
(* fill/compute sequence ("fc"), all fill/request: "fr", otherwise it has  *)
(* only run() ("sequence": the outer Split runs it on every buffer).       *)
(*                                                                         *)
(* Declarative reference: leaf l of the tree yields what the branch        *)
(*   prefix elements of its ancestors \o its own elements                  *)
(* yields ALONE on pure values (IsolationSem!SeqBlocks / Alone), the flow  *)
(* cut into the blocks of the root bufsize refined by the bufsize of every *)
(* run-type Split above the leaf.                                          *)
(***************************************************************************)
EXTENDS IsolationSem

LeafN(b) == [muts |-> b.muts, end |-> b.end, stop |-> b.stop, name |-> b.name, ibs |-> None, sub |-> <<>>]
SplitN(pre, ibs, sub) == [muts |-> pre, end |-> "split", stop |-> None, name |-> "", ibs |-> ibs, sub |-> sub]
IsSplit(n) == n.end = "split"

RECURSIVE NL(_), NLs(_)
NL(n) == IF IsSplit(n) THEN NLs(n.sub) ELSE 1
NLs(ns) == IF ns = <<>> THEN 0 ELSE NL(Head(ns)) + NLs(Tail(ns))

RECURSIVE TypeOf(_)
TypeOf(n) == IF ~IsSplit(n) THEN (IF n.end = "seq" THEN "sequence" ELSE IF IsFC(n) THEN "fc" ELSE "fr")
             ELSE LET ts == {TypeOf(n.sub[j]) : j \in 1..Len(n.sub)} IN
                  IF ts = {"fc"} THEN "fc" ELSE IF ts = {"fr"} THEN "fr" ELSE "sequence"
TypesOf(ns) == {TypeOf(ns[j]) : j \in 1..Len(ns)}

NSplits(ns) == Cardinality({j \in 1..Len(ns) : IsSplit(ns[j])})

(***************************************************************************)
(* Well-formed nested Splits (the scenarios "each branch alone" is defined *)
(* for):                                                                   *)
(*  - a run-type Split that is not the root is run once per buffer of its  *)
(*    parent and would call compute() of a fill/compute branch after every *)
(*    such run: no fill/compute sequences below a nested run-type Split    *)
(*  - FillRequestSeq.fill is not implemented in lena: no prefix in front   *)
(*    of a fill/request Split                                              *)
(*  - the bufsize of a Split that is filled is not used: None              *)
(*  - Count.run in a prefix would look one value ahead through the blocks; *)
(*    a Variable in a prefix would be composed with the one of a leaf      *)
(*    (C14): prefixes have neither                                         *)
(***************************************************************************)
PrefixOK(muts) == \A j \in 1..Len(muts) : muts[j].t \notin {"cnt", "var", "vart"}
WFSplit(n) == /\ Len(n.sub) >= 1
              /\ PrefixOK(n.muts)
              /\ TypeOf(n) = "sequence" => TypesOf(n.sub) \subseteq {"sequence", "fr"}
              /\ TypeOf(n) = "fr" => n.muts = <<>>
              /\ TypeOf(n) # "sequence" => n.ibs = None
RECURSIVE WF(_)
WF(n) == IF ~IsSplit(n) THEN n.stop = None /\ n.end \in {"seq", "store", "count", "fr"} /\ n.sub = <<>>
         ELSE WFSplit(n) /\ \A j \in 1..Len(n.sub) : WF(n.sub[j])
RECURSIVE LeafEnds(_)
LeafEnds(ns) == IF ns = <<>> THEN {}
                ELSE (IF IsSplit(Head(ns)) THEN LeafEnds(Head(ns).sub) ELSE {Head(ns).end}) \cup LeafEnds(Tail(ns))
\* Zip yields tuples of one result of every sequence and stops with the shortest: comparable per branch only
\* when all of them yield equally many
ZipOK(root) == /\ Cardinality(LeafEnds(root)) = 1 /\ LeafEnds(root) \subseteq {"store", "count", "fr"}
               /\ \A j \in 1..Len(root) : NL(root[j]) = NL(root[1])
DrvOK(root, drv) == /\ drv = "fill" => TypesOf(root) = {"fc"}
                    /\ drv = "fillreq" => TypesOf(root) = {"fr"}
                    /\ drv = "zip" => ZipOK(root)
WFRoot(root, drv) == /\ root # <<>> /\ \A j \in 1..Len(root) : WF(root[j])
                     /\ DrvOK(root, drv)

(***************************************************************************)
(* Declarative: every leaf alone.                                          *)
(***************************************************************************)
RECURSIVE RefineBlocks(_, _)
RefineBlocks(blocks, ibs) == IF blocks = <<>> THEN <<>>
                             ELSE BlocksOf(Head(blocks), ibs) \o RefineBlocks(Tail(blocks), ibs)
\* the effective branch of every leaf and the blocks it is run on
RECURSIVE Eff(_, _, _), EffList(_, _, _)
Eff(n, pres, blocks) ==
  IF ~IsSplit(n) THEN <<[b |-> Branch(pres \o n.muts, n.end, n.stop, n.name), blocks |-> blocks]>>
  ELSE EffList(n.sub, pres \o n.muts, IF TypeOf(n) = "sequence" THEN RefineBlocks(blocks, n.ibs) ELSE blocks)
EffList(ns, pres, blocks) == IF ns = <<>> THEN <<>> ELSE Eff(Head(ns), pres, blocks) \o EffList(Tail(ns), pres, blocks)
AloneB(b, xs, blocks) == IF b.end = "seq" THEN SeqBlocks(b, blocks, 0) ELSE Alone(b, xs, None)
EffOf(root, n, bs, shape) == EffList(root, <<>>, BlocksOf(FlowS(n, shape), bs))
ExpectedOf(root, n, bs, shape) ==
  LET e == EffOf(root, n, bs, shape) IN [l \in 1..Len(e) |-> AloneB(e[l].b, FlowS(n, shape), e[l].blocks)]

(***************************************************************************)
(* Bounded sets of trees.                                                  *)
(***************************************************************************)
RECURSIVE ListsUpTo(_, _)
ListsUpTo(S, n) == IF n = 0 THEN {<<>>}
                   ELSE LET Pr == ListsUpTo(S, n - 1) IN Pr \cup {Append(p, a) : p \in {x \in Pr : Len(x) = n - 1}, a \in S}
\* nodes of depth <= d over the leaves L, prefixes P, inner bufsizes IB (None among them), <= w sequences per
\* nested Split; chain: at most one of the sequences of a Split is a Split
RECURSIVE Nodes(_, _, _, _, _, _)
Nodes(L, P, IB, d, w, chain) ==
  IF d = 0 THEN L
  ELSE LET Pr == Nodes(L, P, IB, d - 1, w, chain)
           Ch == {c \in ListsUpTo(Pr, w) : c # <<>> /\ (chain => NSplits(c) <= 1)}
       IN Pr \cup {n \in {SplitN(pre, ibs, c) : pre \in P, ibs \in IB, c \in Ch} : WFSplit(n)}
\* the sequences of the root: <= w, at least one of them a Split
RootLists(S, w, chain) == {c \in ListsUpTo(S, w) : NSplits(c) >= 1 /\ (chain => NSplits(c) <= 1)}

Lv(T) == {LeafN(b) : b \in T}
DictOnly == {"dict"}
OtherClasses == AllClasses \ {"dict"}
NoPre == {<<>>}
P2 == {<<>>, <<Inc("hits"), SetN("n", "b", 3)>>}
IB2 == {None, 1}
L3 == Lv({S1, F1, R1})
L5 == Lv({S1, S3, F1, F3, R1})
L8 == Lv({S1, S3, S4, F1, F3, F5, R1, R2})
\* (an operator with a parameter: TLC evaluates every constant definition without parameters when it loads the module)
RootsOf(family) ==
  CASE family = "guard" -> RootLists(Nodes(L3, NoPre, {None}, 1, 2, TRUE), 2, TRUE)
    \* quick: one level of nesting (two sequences, one of them a Split of <= 2), and chains of depth 2
    [] family = "quick" -> RootLists(Nodes(L5, P2, IB2, 1, 2, TRUE), 2, TRUE)
                           \cup RootLists(Nodes(L3, NoPre, {None}, 2, 2, TRUE), 2, TRUE)
    \* thorough: sibling Splits; three leaf kinds more and all bufsizes; three sequences at the root; chains of
    \* depth 2 over all quick leaves and of depth 3
    [] family = "thorough" -> RootLists(Nodes(L5, NoPre, IB2, 1, 2, FALSE), 2, FALSE)
                              \cup RootLists(Nodes(L8, P2, BufAll, 1, 2, TRUE), 2, TRUE)
                              \cup RootLists(Nodes(L3, NoPre, {None}, 1, 2, TRUE), 3, TRUE)
                              \cup RootLists(Nodes(L5, NoPre, {None}, 2, 2, TRUE), 2, TRUE)
                              \cup RootLists(Nodes(L3, NoPre, {None}, 3, 2, TRUE), 2, TRUE)
=============================================================================
