SPECIFICATION Spec
CONSTANTS MaxLen = 4
  MaxRuns = 3
  Kinds = {"ToCSV", "HistToGraph", "ScaleTo"}
  ConvOpts = {"absent", "F", "T"}
  Memory = "none"
INVARIANT ElementStateless
INVARIANT OneOutputPerValue
INVARIANT RowCount
CHECK_DEADLOCK FALSE
