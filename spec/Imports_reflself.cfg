\* C20 self-test of the reflective-reference dimension on lenaverif/fixtures/c20_refl (constants generated
\* from that tree): with the bad_* functions ReflectiveResolve must be violated
SPECIFICATION Spec
CONSTANTS
  EntryLists <- D_EntriesQuick
  ChainCalls = TRUE
INVARIANT TypeOK
INVARIANT ReflectiveResolve
CHECK_DEADLOCK FALSE
