SPECIFICATION Spec
CONSTANTS MaxLen = 2 MaxN = 4 Infinite = TRUE MaxOut = 4
  Vals = "nat" Stops = FALSE MaxRuns = 1 MaxLead = 1
  Alphabet <- AlphaC02Ext
  Must <- ExtC02
  Pairs <- OnlyPairs
INVARIANT Emitted
CONSTRAINT Bounded
CHECK_DEADLOCK FALSE
