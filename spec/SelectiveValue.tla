--------------------------- MODULE SelectiveValue ---------------------------
(***************************************************************************)
(* C10, the anatomy of ONE value in front of a selective element.          *)
(*                                                                         *)
(* Selective.tla treats an unselected value as an atom U(i).  Here the     *)
(* atom is opened: a value is bare data or a (data, context) pair; the     *)
(* data has an interior (parts that carry contexts of their own, or a      *)
(* one-shot source that is used up by reading), the context is a tree in   *)
(* which the element looks for its option along a key path k1. ... .kD.    *)
(* The element decides from the TYPE of the data and from the option; a    *)
(* value it does not select leaves the element as the same object with     *)
(* every cell as it was: context, interior of the data, contexts of the    *)
(* parts, position of the source - and the decision itself never fails,    *)
(* whatever the shape of the context.                                      *)
(*                                                                         *)
(* Dimensions enumerated (constants Modes, Depths):                        *)
(*   rule   [mode, depth]                                                  *)
(*          veto      data of the element's type is transformed unless the *)
(*                    option says False      (ToCSV output.to_csv, Write   *)
(*                    output.write, HistToGraph histogram.to_graph)        *)
(*          require   values whose option equals a given value are         *)
(*                    transformed, whatever the data  (RenderLaTeX,        *)
(*                    LaTeXToPDF, PDFToPNG: output.filetype)               *)
(*          data      the data alone decides (MapBins, IterateBins, RunIf) *)
(*          presence  iterable data and the key is present (MapGroup)      *)
(*   data   plain | target | target_cp | near_cp | lazy | cont_cp          *)
(*          target     of the type the element acts on                     *)
(*          target_cp  ... and its parts are (data, context) pairs         *)
(*          near_cp    outer type of the target, parts with contexts, but  *)
(*                     the inner test of the element fails                 *)
(*          lazy       a one-shot iterable without length                  *)
(*          cont_cp    a foreign container of (data, context) pairs        *)
(*   ctx    bare                 the value is not a pair                   *)
(*          absent(l, empty|other)   the dictionaries down to level l-1    *)
(*                               exist, the one at level l-1 lacks key k_l *)
(*          cut(l, str|none|tuple|int|list)   key k_l (l < depth) is       *)
(*                               present but is not a dictionary           *)
(*          leaf(v)              the whole path is present; v = enable |   *)
(*                               disable | other | zero | none | dict      *)
(*                                                                         *)
(* Operational part (the loop body of a run element, one action per step): *)
(*   Split      data, context = get_data_context(val)                      *)
(*   Descend    one level of the option look-up: a missing key or a        *)
(*              non-dictionary on the way gives the default - nothing is   *)
(*              inserted, nothing is raised                                *)
(*   DataTest   type test of the data: reads the type only                 *)
(*   Decide     unselected -> Pass; selected -> Transform; where the       *)
(*              documentation leaves the choice open, either               *)
(*   Pass       yield val                                                  *)
(*   Transform  what happens to a selected value is not this property's    *)
(*              business: any cell may be written, a source may be read,   *)
(*              an exception may be raised                                 *)
(* Declarative part: Lookup / Verdict written from the documentation of    *)
(* lena.context.get_recursively and of the elements.                       *)
(***************************************************************************)
EXTENDS Naturals, Sequences, FiniteSets, TLC, Json

CONSTANTS Modes, Depths

DataKinds == {"plain", "target", "target_cp", "near_cp", "lazy", "cont_cp"}
NonDicts  == {"str", "none", "tuple", "int", "list"}
Leaves    == {"enable", "disable", "other", "zero", "none", "dict"}

Rules == {r \in [mode : Modes, depth : Depths] : r.mode = "presence" => r.depth = 1}

Shapes(depth) ==
    {[k |-> "bare", l |-> 0, v |-> "-"]}
    \cup [k : {"absent"}, l : 1..depth, v : {"empty", "other"}]
    \cup [k : {"cut"}, l : 1..(depth - 1), v : NonDicts]
    \cup [k : {"leaf"}, l : {depth}, v : Leaves]
Values(depth) == [d : DataKinds, c : Shapes(depth)]

(***************************************************************************)
(* Declarative part                                                        *)
(***************************************************************************)
\* get_recursively(context, "k1. ... .kD", default): the value at the end of the path if every object on the
\* way is a dictionary that has the next key, otherwise the default
Lookup(c) == IF c.k = "leaf" THEN c.v ELSE "default"
HasFirstKey(c) == c.k \in {"cut", "leaf"} \/ (c.k = "absent" /\ c.l > 1)

DataOK(mode, d) == CASE mode = "require" -> TRUE
                     [] mode = "presence" -> d # "plain"                 \* iterable
                     [] OTHER -> d \in {"target", "target_cp"}
\* "yes" / "no" / "open" (the documentation says `False`, the value is merely falsy or of an odd type)
CtxSel(mode, c) == CASE mode = "veto" -> (IF Lookup(c) = "disable" THEN "no"
                                          ELSE IF Lookup(c) \in {"enable", "default"} THEN "yes" ELSE "open")
                     [] mode = "require" -> (IF Lookup(c) = "enable" THEN "yes" ELSE "no")
                     [] mode = "presence" -> (IF HasFirstKey(c) THEN "yes" ELSE "no")
                     [] OTHER -> "yes"
Verdict(r, x) == IF ~DataOK(r.mode, x.d) \/ CtxSel(r.mode, x.c) = "no" THEN "unselected"
                 ELSE IF CtxSel(r.mode, x.c) = "yes" THEN "selected" ELSE "open"

\* the cells of a value that an element could change
Cells(x) == (IF x.c.k # "bare" THEN {"ctx"} ELSE {})
            \cup (IF x.d # "plain" THEN {"data"} ELSE {})
            \cup (IF x.d \in {"target_cp", "near_cp", "cont_cp"} THEN {"parts"} ELSE {})

(***************************************************************************)
(* Operational part                                                        *)
(***************************************************************************)
VARIABLES rule, val,            \* scenario
          pc, lvl, found, dok,  \* the element's own bookkeeping
          yielded,              \* "none" | "same" (the object itself) | "new"
          written, cursor, raised
vars == <<rule, val, pc, lvl, found, dok, yielded, written, cursor, raised>>

InitWith(r, x) == /\ rule = r /\ val = x
                  /\ pc = "split" /\ lvl = 0 /\ found = "?" /\ dok = FALSE
                  /\ yielded = "none" /\ written = {} /\ cursor = 0 /\ raised = FALSE
Init == \E r \in Rules : \E x \in Values(r.depth) : InitWith(r, x)

\* what stands at level i of the path (0: the context itself; a bare value gets a fresh empty context)
NodeAt(c, i) == CASE i = 0 -> "dict"
                  [] c.k = "bare" -> "missing"
                  [] c.k = "absent" -> (IF i < c.l THEN "dict" ELSE "missing")
                  [] c.k = "cut" -> (IF i < c.l THEN "dict" ELSE IF i = c.l THEN "nondict" ELSE "missing")
                  [] OTHER -> (IF i < c.l THEN "dict" ELSE "value")

Split == /\ pc = "split"
         /\ pc' = (IF rule.mode = "data" THEN "datatest" ELSE "descend")
         /\ found' = (IF rule.mode = "data" THEN "default" ELSE found)
         /\ UNCHANGED <<rule, val, lvl, dok, yielded, written, cursor, raised>>
Descend == /\ pc = "descend"
           /\ LET nxt == NodeAt(val.c, lvl + 1) IN
              IF nxt = "missing" \/ (nxt = "nondict" /\ lvl + 1 < rule.depth)
              THEN /\ found' = "default" /\ pc' = "datatest" /\ lvl' = lvl       \* no insertion, no exception
              ELSE IF lvl + 1 = rule.depth
                   THEN /\ found' = val.c.v /\ pc' = "datatest" /\ lvl' = lvl + 1
                   ELSE /\ lvl' = lvl + 1 /\ UNCHANGED <<found, pc>>
           /\ UNCHANGED <<rule, val, dok, yielded, written, cursor, raised>>
DataTest == /\ pc = "datatest"
            /\ dok' = DataOK(rule.mode, val.d)        \* isinstance / hasattr: the interior is not looked at
            /\ pc' = "decide"
            /\ UNCHANGED <<rule, val, lvl, found, yielded, written, cursor, raised>>
OpCtxSel == CASE rule.mode = "veto" -> (IF found = "disable" THEN "no"
                                        ELSE IF found \in {"enable", "default"} THEN "yes" ELSE "open")
              [] rule.mode = "require" -> (IF found = "enable" THEN "yes" ELSE "no")
              [] rule.mode = "presence" -> (IF found = "default" THEN "no" ELSE "yes")
              [] OTHER -> "yes"
Decide == /\ pc = "decide"
          /\ \/ /\ (~dok \/ OpCtxSel \in {"no", "open"}) /\ pc' = "pass"
             \/ /\ dok /\ OpCtxSel \in {"yes", "open"} /\ pc' = "transform"
          /\ UNCHANGED <<rule, val, lvl, found, dok, yielded, written, cursor, raised>>
Pass == /\ pc = "pass"
        /\ yielded' = "same" /\ pc' = "done"
        /\ UNCHANGED <<rule, val, lvl, found, dok, written, cursor, raised>>
Transform == /\ pc = "transform"
             /\ written' \in SUBSET Cells(val)
             /\ cursor' \in (IF val.d = "lazy" THEN {0, 1} ELSE {0})
             /\ raised' \in BOOLEAN
             /\ yielded' \in (IF raised' THEN {"none"} ELSE {"new", "same"})
             /\ pc' = "done"
             /\ UNCHANGED <<rule, val, lvl, found, dok>>
Next == Split \/ Descend \/ DataTest \/ Decide \/ Pass \/ Transform
Spec == Init /\ [][Next]_vars

(***************************************************************************)
(* Properties                                                              *)
(***************************************************************************)
TypeOK == /\ rule \in Rules /\ val \in Values(rule.depth)
          /\ lvl \in 0..rule.depth /\ written \subseteq Cells(val) /\ cursor \in 0..1
\* the look-up of the loop finds what the documentation of get_recursively says
LookupAgrees == pc \in {"decide", "pass", "transform", "done"} /\ rule.mode # "data" => found = Lookup(val.c)
\* an unselected value is passed (and the machine never passes a value the documentation calls selected)
DecisionAgrees == pc = "done" /\ Verdict(rule, val) = "unselected" => yielded = "same" /\ ~raised
PassedOnlyIfNotSelected == pc = "pass" => Verdict(rule, val) # "selected"
TransformedOnlyIfNotUnselected == pc = "transform" => Verdict(rule, val) # "unselected"
\* ... as the very same object with every cell untouched, and nothing raised on the way
UnselUntouched == Verdict(rule, val) = "unselected" =>
                      /\ written = {} /\ cursor = 0 /\ ~raised
                      /\ yielded \in {"none", "same"}
                      /\ pc = "done" => yielded = "same"

\* export (S2C): the verdict for every rule and value
Emitted_ == pc = "decide" => PrintT(ToJson([mode |-> rule.mode, depth |-> rule.depth, d |-> val.d,
                                            ck |-> val.c.k, cl |-> val.c.l, cv |-> val.c.v,
                                            verdict |-> Verdict(rule, val), cells |-> Cells(val)]))
=============================================================================
