SPECIFICATION Spec
CONSTANTS U = "filter" F = "tiny"
INVARIANT EmitFilter
CHECK_DEADLOCK FALSE
