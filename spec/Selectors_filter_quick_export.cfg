SPECIFICATION Spec
CONSTANTS U = "filter" F = "tiny"
INVARIANT TypeOK
INVARIANT Compositional
INVARIANT RoeFalseNeverRaises
INVARIANT NothingInvented
INVARIANT FilterKeeps
INVARIANT SecondRunSame
INVARIANT FilterOrder
INVARIANT Inside
INVARIANT EmitFilter
CHECK_DEADLOCK FALSE
