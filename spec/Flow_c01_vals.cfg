SPECIFICATION Spec
CONSTANTS MaxLen = 2 MaxN = 11 Infinite = FALSE MaxOut = 100
  Vals = "special" Stops = FALSE MaxRuns = 1 MaxLead = 0
  Alphabet <- AlphaVals
  Must <- NoMust
  Pairs <- OnlyBare
INVARIANT OpEqDen
INVARIANT OutIsPrefix
INVARIANT Regroup
INVARIANT NoDataInvisible
INVARIANT EmptyIsIdentity
INVARIANT Emitted
CHECK_DEADLOCK FALSE
