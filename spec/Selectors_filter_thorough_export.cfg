SPECIFICATION Spec
CONSTANTS U = "filter" F = "small"
INVARIANT EmitFilter
CHECK_DEADLOCK FALSE
