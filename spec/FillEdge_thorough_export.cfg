SPECIFICATION Spec
CONSTANTS MaxN = 4
  Chains <- ChainsThorough
  Drivers = {"fill"}
  Bufs <- BufQuick
  FillTruth = "truth"
  RunStop = "error"
INVARIANT DriversAgree
INVARIANT NoQuietEnd
INVARIANT TruthOnly
INVARIANT BufBound
INVARIANT Emitted
CHECK_DEADLOCK FALSE
