SPECIFICATION USpec
CONSTANTS MaxN = 10 Bound = 7 MaxStep = 4 MaxOps = 6
  UNs = {0, 4}
INVARIANT RunsIndependent
INVARIANT ExhaustedOnlyAtEnd
INVARIANT FillOpEqDecl
INVARIANT StopSafe
CHECK_DEADLOCK FALSE
