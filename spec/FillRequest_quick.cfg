SPECIFICATION Spec
CONSTANTS MaxBlock = 3 MaxOps = 7 MaxLen = 7
  Ms = {1, 2, 9}
  Takes = {0, 1}
  Srcs = {"iter", "list"}
  SplitBufs <- SplitBufsQuick
  Rets = {"gen", "own", "iter", "tuple"}
  Variant = "intended"
INVARIANT RunIsBlocks
INVARIANT RunPrefix
INVARIANT EmptyFlowNothing
INVARIANT RemainderOnlyIfYor
INVARIANT ResultCount
INVARIANT Terminates
INVARIANT Accounted
INVARIANT ConcatEqRun
INVARIANT RetIndependent
INVARIANT YorFlushes
INVARIANT AfterRequest
INVARIANT OneBlock
INVARIANT SecondRequestEmpty
INVARIANT SplitEqRun
INVARIANT SplitPerBuffer
INVARIANT SeqEqRun
INVARIANT Emitted
CHECK_DEADLOCK FALSE
