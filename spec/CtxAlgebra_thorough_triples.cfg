SPECIFICATION Spec
CONSTANTS
  K = {"a", "b"}
  NC = 2
  Levels <- LevelsThorough
  Ops <- InterOnly
  UPair <- V1
  UTriple <- V2r
INVARIANT InterIsRef
INVARIANT DiffIsRef
INVARIANT UpdRecIsRef
INVARIANT InterKeepsClass
INVARIANT NestedIsRef
PROPERTY ArgsUnchanged
INVARIANT InterLevels
INVARIANT InterAlgebra
CHECK_DEADLOCK FALSE
