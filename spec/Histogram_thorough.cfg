SPECIFICATION Spec
CONSTANTS MaxFills = 3
  Weights <- W4
  Twin = FALSE
  EdgeChoices <- EdgesThorough
VIEW view
INVARIANT TypeOK
INVARIANT Conservation
INVARIANT OneCell
INVARIANT HalfOpen
PROPERTY ExactlyOne
CHECK_DEADLOCK FALSE
