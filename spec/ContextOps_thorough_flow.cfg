SPECIFICATION Spec
CONSTANTS
  KeyOrder <- KO2
  Ctxs <- FlowCtxs
  Flows <- FlowsAll3
  Calls <- CallsFlowThorough
INVARIANT GetIsRef
INVARIANT ContainsIsRef
INVARIANT FormatIsRef
INVARIANT UpdateIsRef
INVARIANT DeleteIsRef
INVARIANT NotationsAgree
INVARIANT FuwIsRef
INVARIANT ContainsAgreesWithGet
INVARIANT GetAfterStrToDict
INVARIANT FormatExact
INVARIANT CanonInjective
INVARIANT Frame
INVARIANT UpdateTarget
INVARIANT UpdateMissing
INVARIANT DeleteExact
INVARIANT FuwExact
INVARIANT OnlyDocumentedExceptions
INVARIANT FlowIsFunction
PROPERTY ElementStateless
PROPERTY QueriesPure
CHECK_DEADLOCK FALSE
