SPECIFICATION Spec
CONSTANTS MaxPre = 2 MaxN = 4
  PreAlphabet <- AlphaSmall
  Accs <- AccsSmall
  Posts <- PostsSmall
  FlowKinds = {"ctx"}
  Drivers = {"run", "fill", "persist", "split"}
  Places = {"afterstop"}
  StopFlag = "per_branch"
  CopyMode = "per_branch"
  AdapterHides = TRUE
  VarCopy = "per_value"
  Bufs <- BufQuick
INVARIANT DriversAgree
INVARIANT FillReaches
INVARIANT StopSound
INVARIANT ComputeOnce
INVARIANT BufBound
CHECK_DEADLOCK FALSE
