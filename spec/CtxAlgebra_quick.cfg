SPECIFICATION Spec
CONSTANTS
  K = {"a", "b"}
  NC = 2
  Levels <- LevelsQuick
  Ops <- AllOps
  UPair <- V2rq
  UTriple <- V1
INVARIANT InterIsRef
INVARIANT DiffIsRef
INVARIANT UpdRecIsRef
INVARIANT InterKeepsClass
INVARIANT NestedIsRef
PROPERTY ArgsUnchanged
CHECK_DEADLOCK FALSE
