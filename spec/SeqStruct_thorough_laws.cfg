SPECIFICATION Spec
CONSTANTS
  Scenarios <- ScThorough
INVARIANT BuildSanity
INVARIANT ItemLaws
INVARIANT SliceLaws
INVARIANT FlatLaws
INVARIANT AlterLaws
INVARIANT ClassLaws
INVARIANT ReprLaws
CHECK_DEADLOCK FALSE
