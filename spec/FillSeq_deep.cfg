SPECIFICATION Spec
CONSTANTS MaxPre = 3 MaxN = 4
  PreAlphabet <- AlphaSmall
  Accs <- AccsSmall
  Posts <- PostsSmall
  Pairs = {TRUE}
  Drivers = {"run", "fill", "split"}
  Bufs <- BufQuick
INVARIANT DriversAgree
INVARIANT FillReaches
INVARIANT StopSound
INVARIANT ComputeOnce
INVARIANT BufBound
CHECK_DEADLOCK FALSE
