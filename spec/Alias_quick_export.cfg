SPECIFICATION Spec
CONSTANTS MaxLen = 4 CopyOnCompute = "each"
INVARIANT Emitted
CHECK_DEADLOCK FALSE
