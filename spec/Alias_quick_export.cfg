SPECIFICATION Spec
CONSTANTS MaxLen = 4 CopyOnCompute = TRUE
INVARIANT Emitted
CHECK_DEADLOCK FALSE
