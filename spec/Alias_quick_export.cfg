SPECIFICATION Spec
CONSTANTS MaxLen = 4 Classes <- QuickClasses CopyOnCompute = "each"
INVARIANT Emitted
CHECK_DEADLOCK FALSE
