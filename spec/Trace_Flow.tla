----------------------------- MODULE Trace_Flow -----------------------------
(***************************************************************************)
(* Validation of runs recorded from real lena pipelines (Sequence, nested  *)
(* Sequences, Source) against the declarative semantics of FlowSem.tla.    *)
(* Record: [prog, n, pairs, out, pulls, lazy, alive]                       *)
(*   out    projected values delivered by the real pipeline                *)
(*   pulls  number of values pulled from the instrumented input at each    *)
(*          delivery (checked only when lazy = TRUE: streaming vocabulary) *)
(*   alive  largest number of input values found alive (weak references)   *)
(*          at any pull or delivery of the run; -1: not measured.  A       *)
(*          pipeline of streaming elements keeps alive only what its       *)
(*          elements document (AliveBound), however long the flow is       *)
(***************************************************************************)
EXTENDS FlowSem, Json, IOUtils

Trace == JsonDeserialize(IOEnv.TRACE_FILE)
VARIABLE i
ToSet(sq) == {sq[k] : k \in 1..Len(sq)}
NormVal(v) == [d |-> v.d, c |-> ToSet(v.c), h |-> v.h]
NormOut(o) == [k \in 1..Len(o) |-> NormVal(o[k])]
FlowOf(n, pairs) == [j \in 1..n |-> Val(j - 1, {}, pairs)]
Ok(r) == LET xs == FlowOf(r.n, r.pairs) IN
         /\ NormOut(r.out) = Sem(r.prog, xs)
         /\ r.lazy => \A j \in 1..Len(r.pulls) : r.pulls[j] <= MinNeed(r.prog, xs, j)
         /\ r.alive >= 0 => r.alive <= AliveBound(r.prog)
Init == i = 1
Next == i <= Len(Trace) /\ Ok(Trace[i]) /\ i' = i + 1
Spec == Init /\ [][Next]_i
Accepted == /\ PrintT(<<"ACCEPTED", TLCGet("stats").diameter - 1>>)
            /\ TLCGet("stats").diameter - 1 = Len(Trace)
=============================================================================
