SPECIFICATION Spec
CONSTANTS MaxBlock = 5 MaxOps = 9 MaxLen = 12
  Ms = {0, 1, 2, 9}
  Takes = {0, 1, 2}
  Srcs = {"iter", "list", "tuple"}
  SplitBufs <- SplitBufsThorough
  Variant = "intended"
INVARIANT RunIsBlocks
INVARIANT RunPrefix
INVARIANT EmptyFlowNothing
INVARIANT RemainderOnlyIfYor
INVARIANT ResultCount
INVARIANT Terminates
INVARIANT Accounted
INVARIANT ConcatEqRun
INVARIANT YorFlushes
INVARIANT AfterRequest
INVARIANT OneBlock
INVARIANT SecondRequestEmpty
INVARIANT SplitEqRun
INVARIANT SplitPerBuffer
INVARIANT SeqEqRun
CHECK_DEADLOCK FALSE
