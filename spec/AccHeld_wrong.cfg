SPECIFICATION HSpec
CONSTANTS MaxLen = 3 Wide = FALSE WrongReset = TRUE
  Kinds <- HeldKinds
PROPERTY HeldUnchanged
CHECK_DEADLOCK FALSE
