SPECIFICATION Spec
CONSTANTS MaxOps = 2
  Depth = 1
VIEW view
INVARIANT Laws
INVARIANT MetricLaws
INVARIANT SphLaws
PROPERTY InPlace
CHECK_DEADLOCK FALSE
