SPECIFICATION Spec
CONSTANTS MaxRuns = 3
  DataSets <- DataMC
  BranchLists <- BrQuick
  BufSizes = {1, 2, 3, 1000}
  Edges1 <- E1
  EdgesY <- EY
  Caches = {FALSE, TRUE}
  WriteAlways = FALSE
VIEW view
INVARIANT BufBound
INVARIANT PerBranch
INVARIANT FilesRef
INVARIANT OneResultPerBranch
INVARIANT NoRedo
INVARIANT RedoRef
INVARIANT RunIsSem
INVARIANT CacheRef
CHECK_DEADLOCK FALSE
