SPECIFICATION Spec
CONSTANTS MaxLen = 2
  Pool <- PoolK
  Starts <- StartsK
  Xs = {2}
  Nested = FALSE
  Ys <- DataK
  Extra <- ExtraK
  Variant = "combine-via-call"
  CopyVarContext = TRUE
  ExtendByCompose = TRUE
  PathKeys = FALSE
INVARIANT CombineTuple
CHECK_DEADLOCK FALSE
