SPECIFICATION Spec
CONSTANTS MaxLen = 2 MaxN = 6 Infinite = FALSE MaxOut = 100
  Vals = "nat" Stops = FALSE MaxRuns = 1 MaxLead = 2
  Alphabet <- AlphaC01Ext
  Must <- ExtC01
  Pairs <- Both
INVARIANT Emitted
CHECK_DEADLOCK FALSE
