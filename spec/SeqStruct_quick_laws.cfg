SPECIFICATION Spec
CONSTANTS
  Scenarios <- ScQuick
INVARIANT BuildSanity
INVARIANT ItemLaws
INVARIANT SliceLaws
INVARIANT FlatLaws
INVARIANT AlterLaws
INVARIANT ClassLaws
INVARIANT ReprLaws
CHECK_DEADLOCK FALSE
