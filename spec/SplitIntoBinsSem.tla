-------------------------- MODULE SplitIntoBinsSem --------------------------
(***************************************************************************)
(* Declarative semantics of lena.structures.SplitIntoBins / IterateBins /  *)
(* MapBins over tagged harness analyses (lenaverif/binslib.py).  No        *)
(* constants or variables: shared by SplitIntoBins.tla and                 *)
(* Trace_SplitIntoBins.tla.                                                *)
(*                                                                         *)
(* edges  sequence (one per dimension) of strictly increasing integer      *)
(*        sequences (ranks of the real numbers: only comparisons are used) *)
(* flow   sequence of [x |-> coordinates, h |-> has a context, p |-> is a  *)
(*        (data, context) pair]; a value is identified by its position     *)
(* result of an inner analysis for one cell: [t |-> tag, ids |-> positions *)
(*        seen by the accumulator, src |-> position of the last value with *)
(*        a context (0: none), mut |-> last write of the context-mutating  *)
(*        pre-element (0: none)]                                           *)
(***************************************************************************)
EXTENDS Integers, Sequences, FiniteSets, TLC, Json

(***************************************************************************)
(* Cells: half-open intervals [e[i], e[i+1]).                              *)
(***************************************************************************)
\* 0 = underflow, Len(e) = overflow (the upper edge is excluded), otherwise the cell number
CellOf1(x, e) == IF x < e[1] THEN 0
                 ELSE IF x >= e[Len(e)] THEN Len(e)
                 ELSE CHOOSE i \in 1..(Len(e) - 1) : e[i] <= x /\ x < e[i + 1]
CellOf(xs, edges) == [d \in 1..Len(edges) |-> CellOf1(xs[d], edges[d])]
NCells(e) == Len(e) - 1
IsCell(idx, edges) == \A d \in 1..Len(edges) : idx[d] >= 1 /\ idx[d] <= NCells(edges[d])
Cells(edges) == IF Len(edges) = 1 THEN {<<i>> : i \in 1..NCells(edges[1])}
                ELSE {<<i, j>> : i \in 1..NCells(edges[1]), j \in 1..NCells(edges[2])}
\* cells in the order of itertools.product: the last index runs fastest
CellSeq(edges) == IF Len(edges) = 1 THEN [i \in 1..NCells(edges[1]) |-> <<i>>]
                  ELSE [n \in 1..(NCells(edges[1]) * NCells(edges[2])) |->
                          <<((n - 1) \div NCells(edges[2])) + 1, ((n - 1) % NCells(edges[2])) + 1>>]
CellEdges(idx, edges) == [d \in 1..Len(edges) |-> <<edges[d][idx[d]], edges[d][idx[d] + 1]>>]

(***************************************************************************)
(* How the user writes the edges: nested Python sequences, each level a    *)
(* list or a tuple.  form: "l" lists at every level, "t" tuples at every   *)
(* level, "lt" a list of tuples, "tl" a tuple of lists (the last two only  *)
(* for more than one dimension).  One-dimensional edges are written flat.  *)
(* The dimension is the nesting depth - whatever the container types.      *)
(***************************************************************************)
Forms(dim) == IF dim = 1 THEN {"l", "t"} ELSE {"l", "t", "lt", "tl"}
OuterC(form) == IF form \in {"l", "lt"} THEN "list" ELSE "tuple"
InnerC(form) == IF form \in {"l", "tl"} THEN "list" ELSE "tuple"
Axis(c, e) == [c |-> c, leaf |-> TRUE, xs |-> e]
EdgesWritten(edges, form) == IF Len(edges) = 1 THEN Axis(OuterC(form), edges[1])
                        ELSE [c |-> OuterC(form), leaf |-> FALSE, xs |-> [d \in 1..Len(edges) |-> Axis(InnerC(form), edges[d])]]
\* what SplitIntoBins (init_bins, get_bin_on_value, histogram, iter_bins_with_edges) must read from it
DimWritten(w) == IF w.leaf THEN 1 ELSE Len(w.xs)
AxesWritten(w) == IF w.leaf THEN <<w.xs>> ELSE [d \in 1..Len(w.xs) |-> w.xs[d].xs]

\* positions of the values of flow[1..n] whose argument falls into cell idx, in arrival order
RECURSIVE SubFlowUpTo(_, _, _, _)
SubFlowUpTo(flow, edges, idx, n) ==
  IF n = 0 THEN <<>>
  ELSE SubFlowUpTo(flow, edges, idx, n - 1) \o (IF CellOf(flow[n].x, edges) = idx THEN <<n>> ELSE <<>>)
SubFlow(flow, edges, idx) == SubFlowUpTo(flow, edges, idx, Len(flow))

(***************************************************************************)
(* Inner analyses (binslib.KINDS): what one private copy computes from a   *)
(* sub-flow given as the sequence of positions sub.                        *)
(***************************************************************************)
R(t, ids, src, mut) == [t |-> t, ids |-> ids, src |-> src, mut |-> mut]
RECURSIVE LastCtx(_, _)
LastCtx(flow, sub) == IF sub = <<>> THEN 0
                      ELSE IF flow[sub[Len(sub)]].h THEN sub[Len(sub)]
                      ELSE LastCtx(flow, SubSeq(sub, 1, Len(sub) - 1))
Shift == 100
InnerSem(kind, flow, sub) ==
  LET src == LastCtx(flow, sub)  n == Len(sub) IN
  CASE kind = "collect" -> <<R("c", sub, src, 0)>>
    [] kind = "collect2" -> <<R("c", sub, src, 0), R("cn", <<n>>, src, 0)>>               \* two results
    [] kind = "nonempty" -> IF n = 0 THEN <<>> ELSE <<R("c", sub, src, 0)>>               \* none for an empty cell
    [] kind = "pervalue" -> [k \in 1..n |-> R("c", SubSeq(sub, 1, k), src, 0)]           \* one per value
    [] kind = "shift" -> <<R("c", [j \in 1..n |-> sub[j] + Shift], src, 0)>>             \* pre-element maps the data
    [] kind = "mutate" ->                                                               \* pre-element writes into the context
         <<R("c", sub, IF n > 0 /\ flow[sub[n]].h THEN sub[n] ELSE 0, IF n > 0 THEN sub[n] ELSE 0)>>
    [] kind = "post" -> <<R("pc", sub, src, 0)>>                                        \* post-element re-tags
    [] kind = "postdup" -> <<R("pc", sub, src, 0), R("qc", sub, src, 0),                \* post-element doubles
                             R("pcn", <<n>>, src, 0), R("qcn", <<n>>, src, 0)>>

Min(S) == CHOOSE m \in S : \A k \in S : m <= k
\* zip of per-cell result sequences: as many histograms as the shortest of them
ZipCells(res, cells) == LET n == Min({Len(res[idx]) : idx \in cells}) IN
                        [k \in 1..n |-> [idx \in cells |-> res[idx][k]]]
\* SplitIntoBins(seq(kind), arg, edges): fill(flow...); compute()
SIBSem(kind, edges, flow) ==
  ZipCells([idx \in Cells(edges) |-> InnerSem(kind, flow, SubFlow(flow, edges, idx))], Cells(edges))
\* the inside value filled last (0: none): its context is the one the histograms carry
RECURSIVE LastInside(_, _, _)
LastInside(flow, edges, n) == IF n = 0 THEN 0
                              ELSE IF IsCell(CellOf(flow[n].x, edges), edges) THEN n
                              ELSE LastInside(flow, edges, n - 1)

(***************************************************************************)
(* Contexts.  A context of the harness is [src |-> position of the value   *)
(* it came with (0: no context), mut |-> what an inner context-mutating    *)
(* element wrote into it in place (0: nothing)].                           *)
(* The histograms carry the context of the inside value filled last, as it *)
(* arrived (a snapshot taken before the cell's own sequence runs), plus    *)
(* context.variable of the argument variable - no key written by an inner  *)
(* element.  The flow values themselves are changed only by the inner      *)
(* elements of the cell they go to, never by SplitIntoBins.                *)
(***************************************************************************)
Ctx(src, mut) == [src |-> src, mut |-> mut]
ArrivingCtx(flow, i) == Ctx(IF flow[i].h THEN i ELSE 0, 0)
HistCtxSem(edges, flow) == LET l == LastInside(flow, edges, Len(flow)) IN
                           IF l = 0 THEN Ctx(0, 0) ELSE ArrivingCtx(flow, l)
Mutates(kind) == kind = "mutate"
\* (p: the value is a (data, context) pair - possibly with an empty context {} of its own, which a
\* mutating inner element then writes into; a bare value has no context object of its own)
FlowCtxSem(kind, edges, flow) ==
  [i \in 1..Len(flow) |->
     IF Mutates(kind) /\ flow[i].p /\ IsCell(CellOf(flow[i].x, edges), edges)
     THEN Ctx(ArrivingCtx(flow, i).src, i) ELSE ArrivingCtx(flow, i)]

(***************************************************************************)
(* IterateBins and MapBins on a histogram h (a function on Cells(edges)).  *)
(***************************************************************************)
IterSem(h, edges) == [n \in 1..Len(CellSeq(edges)) |->
                        LET idx == CellSeq(edges)[n] IN [idx |-> idx, e |-> CellEdges(idx, edges), content |-> h[idx]]]
\* re-tagging done by binslib.PostTag
PTag(t) == CASE t = "c" -> "pc" [] t = "cn" -> "pcn" [] t = "pc" -> "ppc" [] t = "qc" -> "pqc"
             [] t = "pcn" -> "ppcn" [] t = "qcn" -> "pqcn"
QTag(t) == CASE t = "c" -> "qc" [] t = "cn" -> "qcn" [] t = "pc" -> "qpc" [] t = "qc" -> "qqc"
             [] t = "pcn" -> "qpcn" [] t = "qcn" -> "qqcn"
\* what the mapping sequence yields for one cell content
MapRes(m, r) == CASE m = "tag" -> <<[r EXCEPT !.t = PTag(r.t)]>>
                  [] m = "dup" -> <<[r EXCEPT !.t = PTag(r.t)], [r EXCEPT !.t = QTag(r.t)]>>
                  [] m = "drop" -> IF r.ids = <<>> THEN <<>> ELSE <<[r EXCEPT !.t = PTag(r.t)]>>
                  \* a stateful mapping element appends how many values it has seen: 1, every cell is
                  \* mapped by its own deep copy of the sequence
                  [] m = "seen" -> <<[r EXCEPT !.t = PTag(r.t), !.ids = Append(r.ids, 1)]>>
                  \* a mapping whose data result depends on the cell's context (appends its src): the
                  \* sequence is applied to the cell, not to its data part
                  [] m = "src" -> <<[r EXCEPT !.t = PTag(r.t), !.ids = Append(r.ids, r.src)]>>
MapSem(m, h, edges) == ZipCells([idx \in Cells(edges) |-> MapRes(m, h[idx])], Cells(edges))

\* nested-sequence form of a histogram's bins (JSON)
Nest(h, edges) == IF Len(edges) = 1 THEN [i \in 1..NCells(edges[1]) |-> h[<<i>>]]
                  ELSE [i \in 1..NCells(edges[1]) |-> [j \in 1..NCells(edges[2]) |-> h[<<i, j>>]]]
=============================================================================
