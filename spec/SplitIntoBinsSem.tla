-------------------------- MODULE SplitIntoBinsSem --------------------------
(***************************************************************************)
(* Declarative semantics of lena.structures.SplitIntoBins / IterateBins /  *)
(* MapBins over tagged harness analyses (lenaverif/binslib.py).  No        *)
(* constants or variables: shared by SplitIntoBins.tla and                 *)
(* Trace_SplitIntoBins.tla.                                                *)
(*                                                                         *)
(* edges  sequence (one per dimension) of strictly increasing integer      *)
(*        sequences (ranks of the real numbers: only comparisons are used) *)
(* flow   sequence of [x |-> coordinates, h |-> has a context, p |-> is a  *)
(*        (data, context) pair, f |-> "none" or the name of the exception  *)
(*        the inner analysis raises when it is filled with this value (a   *)
(*        truncated record)]; a value is identified by its position        *)
(* result of an inner analysis for one cell: [t |-> tag, ids |-> positions *)
(*        seen by the accumulator, src |-> position of the last value with *)
(*        a context (0: none), mut |-> last write of the context-mutating  *)
(*        pre-element (0: none)]                                           *)
(***************************************************************************)
EXTENDS Integers, Sequences, FiniteSets, TLC, Json

(***************************************************************************)
(* Cells: half-open intervals [e[i], e[i+1]).                              *)
(***************************************************************************)
\* 0 = underflow, Len(e) = overflow (the upper edge is excluded), otherwise the cell number
CellOf1(x, e) == IF x < e[1] THEN 0
                 ELSE IF x >= e[Len(e)] THEN Len(e)
                 ELSE CHOOSE i \in 1..(Len(e) - 1) : e[i] <= x /\ x < e[i + 1]
CellOf(xs, edges) == [d \in 1..Len(edges) |-> CellOf1(xs[d], edges[d])]
NCells(e) == Len(e) - 1
IsCell(idx, edges) == \A d \in 1..Len(edges) : idx[d] >= 1 /\ idx[d] <= NCells(edges[d])
Cells(edges) == IF Len(edges) = 1 THEN {<<i>> : i \in 1..NCells(edges[1])}
                ELSE {<<i, j>> : i \in 1..NCells(edges[1]), j \in 1..NCells(edges[2])}
\* cells in the order of itertools.product: the last index runs fastest
CellSeq(edges) == IF Len(edges) = 1 THEN [i \in 1..NCells(edges[1]) |-> <<i>>]
                  ELSE [n \in 1..(NCells(edges[1]) * NCells(edges[2])) |->
                          <<((n - 1) \div NCells(edges[2])) + 1, ((n - 1) % NCells(edges[2])) + 1>>]
CellEdges(idx, edges) == [d \in 1..Len(edges) |-> <<edges[d][idx[d]], edges[d][idx[d] + 1]>>]

(***************************************************************************)
(* How the user writes the edges: nested Python sequences, each level a    *)
(* list or a tuple.  form: "l" lists at every level, "t" tuples at every   *)
(* level, "lt" a list of tuples, "tl" a tuple of lists (the last two only  *)
(* for more than one dimension).  One-dimensional edges are written flat.  *)
(* The dimension is the nesting depth - whatever the container types.      *)
(***************************************************************************)
Forms(dim) == IF dim = 1 THEN {"l", "t"} ELSE {"l", "t", "lt", "tl"}
OuterC(form) == IF form \in {"l", "lt"} THEN "list" ELSE "tuple"
InnerC(form) == IF form \in {"l", "tl"} THEN "list" ELSE "tuple"
Axis(c, e) == [c |-> c, leaf |-> TRUE, xs |-> e]
EdgesWritten(edges, form) == IF Len(edges) = 1 THEN Axis(OuterC(form), edges[1])
                        ELSE [c |-> OuterC(form), leaf |-> FALSE, xs |-> [d \in 1..Len(edges) |-> Axis(InnerC(form), edges[d])]]
\* what SplitIntoBins (init_bins, get_bin_on_value, histogram, iter_bins_with_edges) must read from it
DimWritten(w) == IF w.leaf THEN 1 ELSE Len(w.xs)
AxesWritten(w) == IF w.leaf THEN <<w.xs>> ELSE [d \in 1..Len(w.xs) |-> w.xs[d].xs]

\* positions of the values of flow[1..n] whose argument falls into cell idx, in arrival order
RECURSIVE SubFlowUpTo(_, _, _, _)
SubFlowUpTo(flow, edges, idx, n) ==
  IF n = 0 THEN <<>>
  ELSE SubFlowUpTo(flow, edges, idx, n - 1) \o (IF CellOf(flow[n].x, edges) = idx THEN <<n>> ELSE <<>>)
SubFlow(flow, edges, idx) == SubFlowUpTo(flow, edges, idx, Len(flow))

(***************************************************************************)
(* Abnormal values.  The inner analysis cannot digest a value with         *)
(* f # "none": its first element raises that exception before anything is  *)
(* recorded or written.  A private copy of the analysis run on the         *)
(* sub-flow of a cell raises at exactly these values; with a caller that   *)
(* catches the exception and goes on it has recorded the others.           *)
(* SplitIntoBins is that caller's view of all the private copies: fill()   *)
(* raises the same exception for exactly the failing values INSIDE the     *)
(* edges (a value outside the edges never reaches an analysis).            *)
(***************************************************************************)
Recorded(flow, sub) == SelectSeq(sub, LAMBDA i : flow[i].f = "none")
ErrsSem(edges, flow, n) ==
  LET S == SelectSeq([i \in 1..n |-> i], LAMBDA i : flow[i].f # "none" /\ IsCell(CellOf(flow[i].x, edges), edges)) IN
  [j \in 1..Len(S) |-> [pos |-> S[j], exc |-> flow[S[j]].f]]

(***************************************************************************)
(* Inner analyses (binslib.KINDS): what one private copy computes from a   *)
(* sub-flow given as the sequence of positions sub.                        *)
(***************************************************************************)
R(t, ids, src, mut) == [t |-> t, ids |-> ids, src |-> src, mut |-> mut]
RECURSIVE LastCtx(_, _)
LastCtx(flow, sub) == IF sub = <<>> THEN 0
                      ELSE IF flow[sub[Len(sub)]].h THEN sub[Len(sub)]
                      ELSE LastCtx(flow, SubSeq(sub, 1, Len(sub) - 1))
Shift == 100
InnerSem0(kind, flow, sub) ==
  LET src == LastCtx(flow, sub)  n == Len(sub) IN
  CASE kind = "collect" -> <<R("c", sub, src, 0)>>
    [] kind = "collect2" -> <<R("c", sub, src, 0), R("cn", <<n>>, src, 0)>>               \* two results
    [] kind = "nonempty" -> IF n = 0 THEN <<>> ELSE <<R("c", sub, src, 0)>>               \* none for an empty cell
    [] kind = "pervalue" -> [k \in 1..n |-> R("c", SubSeq(sub, 1, k), src, 0)]           \* one per value
    [] kind = "shift" -> <<R("c", [j \in 1..n |-> sub[j] + Shift], src, 0)>>             \* pre-element maps the data
    [] kind = "mutate" ->                                                               \* pre-element writes into the context
         <<R("c", sub, IF n > 0 /\ flow[sub[n]].h THEN sub[n] ELSE 0, IF n > 0 THEN sub[n] ELSE 0)>>
    [] kind = "post" -> <<R("pc", sub, src, 0)>>                                        \* post-element re-tags
    [] kind = "postdup" -> <<R("pc", sub, src, 0), R("qc", sub, src, 0),                \* post-element doubles
                             R("pcn", <<n>>, src, 0), R("qcn", <<n>>, src, 0)>>

(***************************************************************************)
(* Analyses whose compute() changes their own state: what the k-th         *)
(* compute() of ONE private copy yields depends on the compute() calls it  *)
(* has served before.  ns[j] = number of flow values filled before the     *)
(* j-th compute() (j <= k), sub = the values recorded before the k-th.     *)
(*   "seen"  a post-element counts the results it has processed and        *)
(*           appends the count to the data: k for the k-th compute()       *)
(*   "log"   the accumulator yields its own context object (no copy), a    *)
(*           post-element increments a counter in that object in place;    *)
(*           the object is replaced when a value with a context is filled: *)
(*           the count is the number of compute() calls since then         *)
(* Cells that share state (one object for several cells) show counts that  *)
(* no private copy can produce.                                            *)
(***************************************************************************)
Stateful(kind) == kind \in {"seen", "log"}
InnerSemH(kind, flow, sub, k, ns) ==
  LET src == LastCtx(flow, sub) IN
  CASE kind = "seen" -> <<R("pc", Append(sub, k), src, 0)>>
    [] kind = "log" -> <<R("c", sub, src, Cardinality({j \in 1..k : ns[j] >= src}))>>
    [] OTHER -> InnerSem0(kind, flow, sub)
\* a fresh private copy asked once
InnerSem(kind, flow, sub) == InnerSemH(kind, flow, sub, 1, <<Len(flow)>>)

Min(S) == CHOOSE m \in S : \A k \in S : m <= k
\* zip of per-cell result sequences: as many histograms as the shortest of them
ZipCells(res, cells) == LET n == Min({Len(res[idx]) : idx \in cells}) IN
                        [k \in 1..n |-> [idx \in cells |-> res[idx][k]]]
\* SplitIntoBins(seq(kind), arg, edges): the k-th compute(), called after ns[k] values of the flow (the
\* earlier ones after ns[1], .., ns[k-1] values); failing values are caught by the caller
SIBSemH(kind, edges, flow, ns, k) ==
  ZipCells([idx \in Cells(edges) |->
              InnerSemH(kind, flow, Recorded(flow, SubFlowUpTo(flow, edges, idx, ns[k])), k, ns)], Cells(edges))
\* SplitIntoBins(seq(kind), arg, edges): fill(flow...); compute()
SIBSem(kind, edges, flow) == SIBSemH(kind, edges, flow, <<Len(flow)>>, 1)
\* the inside value filled last (0: none): its context is the one the histograms carry
RECURSIVE LastInside(_, _, _)
LastInside(flow, edges, n) == IF n = 0 THEN 0
                              ELSE IF IsCell(CellOf(flow[n].x, edges), edges) THEN n
                              ELSE LastInside(flow, edges, n - 1)
\* the same among the values the analyses could digest
RECURSIVE LastInsideGood(_, _, _)
LastInsideGood(flow, edges, n) == IF n = 0 THEN 0
                                  ELSE IF IsCell(CellOf(flow[n].x, edges), edges) /\ flow[n].f = "none" THEN n
                                  ELSE LastInsideGood(flow, edges, n - 1)

(***************************************************************************)
(* Contexts.  A context of the harness is [src |-> position of the value   *)
(* it came with (0: no context), mut |-> what an inner context-mutating    *)
(* element wrote into it in place (0: nothing)].                           *)
(* The histograms carry the context of the inside value filled last, as it *)
(* arrived (a snapshot taken before the cell's own sequence runs), plus    *)
(* context.variable of the argument variable - no key written by an inner  *)
(* element.  The flow values themselves are changed only by the inner      *)
(* elements of the cell they go to, never by SplitIntoBins.                *)
(***************************************************************************)
Ctx(src, mut) == [src |-> src, mut |-> mut]
ArrivingCtx(flow, i) == Ctx(IF flow[i].h THEN i ELSE 0, 0)
HistCtxAt(flow, l) == IF l = 0 THEN Ctx(0, 0) ELSE ArrivingCtx(flow, l)
\* (as the code does it: the context is kept after the cell's fill has returned)
HistCtxSem(edges, flow) == HistCtxAt(flow, LastInsideGood(flow, edges, Len(flow)))
\* The statement does not say whether an inside value on which the cell's analysis raised counts as
\* "filled last": both are allowed (one and the same when no value fails).
HistCtxSet(edges, flow) == {HistCtxSem(edges, flow), HistCtxAt(flow, LastInside(flow, edges, Len(flow)))}
Mutates(kind) == kind = "mutate"
\* (p: the value is a (data, context) pair - possibly with an empty context {} of its own, which a
\* mutating inner element then writes into; a bare value has no context object of its own)
FlowCtxSem(kind, edges, flow) ==
  [i \in 1..Len(flow) |->
     IF Mutates(kind) /\ flow[i].p /\ flow[i].f = "none" /\ IsCell(CellOf(flow[i].x, edges), edges)
     THEN Ctx(ArrivingCtx(flow, i).src, i) ELSE ArrivingCtx(flow, i)]

(***************************************************************************)
(* IterateBins and MapBins on a histogram h (a function on Cells(edges)).  *)
(***************************************************************************)
IterSem(h, edges) == [n \in 1..Len(CellSeq(edges)) |->
                        LET idx == CellSeq(edges)[n] IN [idx |-> idx, e |-> CellEdges(idx, edges), content |-> h[idx]]]
\* context.bin of a yielded cell describes the cell: its edges, and their rendering (edges_str) in terms
\* of the variable the histogram IT comes from was split by (var: the name(s) in context.variable of that
\* histogram).  IterateBins keeps nothing from one histogram (or one run) to the next: what it yields
\* for a histogram is a function of that histogram alone.
BinSem(idx, edges, var) == [e |-> CellEdges(idx, edges), var |-> var]
IterSemV(h, edges, var) == [n \in 1..Len(CellSeq(edges)) |->
                             LET idx == CellSeq(edges)[n] IN
                             [idx |-> idx, e |-> CellEdges(idx, edges), content |-> h[idx], bin |-> BinSem(idx, edges, var)]]
\* re-tagging done by binslib.PostTag
PTag(t) == CASE t = "c" -> "pc" [] t = "cn" -> "pcn" [] t = "pc" -> "ppc" [] t = "qc" -> "pqc"
             [] t = "pcn" -> "ppcn" [] t = "qcn" -> "pqcn"
QTag(t) == CASE t = "c" -> "qc" [] t = "cn" -> "qcn" [] t = "pc" -> "qpc" [] t = "qc" -> "qqc"
             [] t = "pcn" -> "qpcn" [] t = "qcn" -> "qqcn"
\* what the mapping sequence yields for one cell content
MapRes(m, r) == CASE m = "tag" -> <<[r EXCEPT !.t = PTag(r.t)]>>
                  [] m = "dup" -> <<[r EXCEPT !.t = PTag(r.t)], [r EXCEPT !.t = QTag(r.t)]>>
                  [] m = "drop" -> IF r.ids = <<>> THEN <<>> ELSE <<[r EXCEPT !.t = PTag(r.t)]>>
                  \* a stateful mapping element appends how many values it has seen: 1, every cell is
                  \* mapped by its own deep copy of the sequence
                  [] m = "seen" -> <<[r EXCEPT !.t = PTag(r.t), !.ids = Append(r.ids, 1)]>>
                  \* a mapping whose data result depends on the cell's context (appends its src): the
                  \* sequence is applied to the cell, not to its data part
                  [] m = "src" -> <<[r EXCEPT !.t = PTag(r.t), !.ids = Append(r.ids, r.src)]>>
MapSem(m, h, edges) == ZipCells([idx \in Cells(edges) |-> MapRes(m, h[idx])], Cells(edges))

\* nested-sequence form of a histogram's bins (JSON)
Nest(h, edges) == IF Len(edges) = 1 THEN [i \in 1..NCells(edges[1]) |-> h[<<i>>]]
                  ELSE [i \in 1..NCells(edges[1]) |-> [j \in 1..NCells(edges[2]) |-> h[<<i, j>>]]]
=============================================================================
