SPECIFICATION TSpec
CONSTANTS MaxLen = 0 Wide = FALSE
  Kinds <- AllKinds
INVARIANT Aggregate
INVARIANT Yielded
INVARIANT FreshEquiv
INVARIANT ContextOfLast
INVARIANT NoMemory
INVARIANT VarianceIdentity
INVARIANT DSumOrderFree
INVARIANT NumericKinds
PROPERTY ResetIsFresh
PROPERTY ComputeIdempotent
POSTCONDITION Accepted
CHECK_DEADLOCK FALSE
