SPECIFICATION Spec
CONSTANTS MaxFlow = 3 MaxVals = 4
INVARIANT ProtocolOk
INVARIANT ExpectedYields
INVARIANT AtMostOneOpen
INVARIANT YieldWhileOpen
INVARIANT EveryOpenedClosed
INVARIANT ClosedAlsoOnFaults
INVARIANT UserFileNotClosed
INVARIANT OnlyNeededEnabled
INVARIANT FillsInOrder
INVARIANT WriteAfterFills
INVARIANT EachKeyOnce
INVARIANT Emitted
CHECK_DEADLOCK FALSE
