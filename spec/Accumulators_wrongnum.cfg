SPECIFICATION Spec
CONSTANTS MaxLen = 3 Wide = FALSE
  Kinds <- NumKinds
  WrongNumReset <- TrueConst
INVARIANT FreshEquiv
CHECK_DEADLOCK FALSE
