\* C20 model check: constants are generated from the tree under test (D_* in the data module)
SPECIFICATION Spec
CONSTANTS
  EntryLists <- D_EntriesThorough
  ChainCalls = TRUE
INVARIANT TypeOK
INVARIANT LoadedIsClosure
INVARIANT NamesAreStatic
INVARIANT ImportsSucceed
INVARIANT AllAdvertised
INVARIANT GlobalsResolve
INVARIANT LocalsResolve
INVARIANT ChainsResolve
INVARIANT ReflectiveResolve
CHECK_DEADLOCK FALSE
