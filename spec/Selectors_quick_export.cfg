SPECIFICATION XSpec
CONSTANTS U = "ex23q" F = "one"
INVARIANT EmitVec
CHECK_DEADLOCK FALSE
