SPECIFICATION XSpec
CONSTANTS U = "ex2q" F = "one"
INVARIANT EmitVec
CHECK_DEADLOCK FALSE
