SPECIFICATION Spec
CONSTANTS MaxLen = 4 Wide = FALSE
  Kinds <- AllKinds
INVARIANT Aggregate
INVARIANT Yielded
INVARIANT FreshEquiv
INVARIANT ContextOfLast
INVARIANT NoMemory
INVARIANT VarianceIdentity
INVARIANT DSumOrderFree
INVARIANT NumericKinds
PROPERTY ResetIsFresh
PROPERTY ComputeIdempotent
INVARIANT Emitted
CHECK_DEADLOCK FALSE
