SPECIFICATION Spec
CONSTANTS MaxLen = 4 Wide = FALSE
  Kinds <- NumKinds
INVARIANT Aggregate
INVARIANT Yielded
INVARIANT FreshEquiv
INVARIANT ContextOfLast
INVARIANT NoMemory
INVARIANT NumericKinds
PROPERTY ResetIsFresh
PROPERTY ComputeIdempotent
CHECK_DEADLOCK FALSE
