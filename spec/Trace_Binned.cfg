SPECIFICATION Spec
INVARIANT Known
POSTCONDITION Accepted
CHECK_DEADLOCK FALSE
