SPECIFICATION Spec
CONSTANTS
  K = {"a", "b"}
  NC = 2
  Variant = "strcache"
  Kinds <- KindsGuardHist
INVARIANT InitOK
INVARIANT MutatedIsPrivate
PROPERTY StepsOK
CHECK_DEADLOCK FALSE
