------------------------------- MODULE Vector3 -------------------------------
(***************************************************************************)
(* lena.math.vector3 as a state machine on one (mutable) vector `a`.       *)
(*                                                                         *)
(* Code: lena/math/vector3.py.  Components are exact rationals; square     *)
(* roots are taken only where they are rational (Pythagorean vectors) and  *)
(* angles are given by rational (cos, sin) pairs - the harness passes      *)
(* atan2(sin, cos) and compares the transcendental results within 1e-9,    *)
(* the ring operations exactly.                                            *)
(*                                                                         *)
(* Actions that the documentation describes as creating new vectors        *)
(* (+ - * / neg, cross, norm, proj, rotate, from_spherical) leave `a`      *)
(* unchanged; setting an attribute (x y z, v[i], r, rho, phi, theta)       *)
(* changes `a` in place.                                                   *)
(***************************************************************************)
EXTENDS MathFnsSem, TLC, Json

CONSTANTS MaxOps, Depth

VARIABLES a,     \* the vector <<x, y, z>>
          a0,    \* ghost: the vector at the start
          n, h   \* operations made; ghost history (hidden by the VIEW of the MC configs)
vars == <<a, a0, n, h>>
view == <<a, n>>

\* ---- vector operations, like the code ---------------------------------------
\* (V, VAdd, VMulS, VSub, VNeg, VDiv, Dot, Cross, Mag2, Rho2: MathFnsSem.tla)
\* rational square roots
IsSq(k) == \E m \in 0..400 : m * m = k
ISqrt(k) == CHOOSE m \in 0..400 : m * m = k
HasSqrt(p) == p[1] >= 0 /\ IsSq(p[1]) /\ IsSq(p[2])
Sqrt(p) == <<ISqrt(p[1]), ISqrt(p[2])>>
HasMag(p) == HasSqrt(Mag2(p))
Mag(p) == Sqrt(Mag2(p))
Norm(p) == LET m == Mag(p) IN <<RDiv(p[1], m), RDiv(p[2], m), RDiv(p[3], m)>>
Clip1(x) == RMax(RMin(RI(1), x), RI(-1))
CosTheta(p) == Clip1(RDiv(p[3], Mag(p)))
Cosine(p, q) == Clip1(Dot(Norm(p), Norm(q)))
SProj(p, q) == Dot(p, Norm(q))
Proj(p, q) == VMulS(Norm(q), SProj(p, q))
\* an angle is a pair <<cos, sin>> of rationals
FromSph(r, phi, th) == <<RMul(RMul(r, phi[1]), th[2]), RMul(RMul(r, phi[2]), th[2]), RMul(r, th[1])>>
\* azimuth (atan2(y, x), 0 for x = y = 0) and polar angle of a vector with rational rho and r
PhiOf(p) == IF RIsZero(Rho2(p)) THEN <<RI(1), RI(0)>> ELSE LET rho == Sqrt(Rho2(p)) IN <<RDiv(p[1], rho), RDiv(p[2], rho)>>
ThetaOf(p) == <<RDiv(p[3], Mag(p)), RDiv(Sqrt(Rho2(p)), Mag(p))>>
\* rotate(theta, B): Rodrigues' formula as written in the code
Rotate(p, th, q) == LET k == Norm(q)
                        vpar == Proj(p, k)
                        vort == VSub(p, vpar)
                    IN VSub(VAdd(vpar, VMulS(vort, th[1])), VMulS(Cross(p, k), th[2]))
\* vector3.isclose(B, rel_tol, abs_tol): dist <= max(rel_tol * max(|A|, |B|), abs_tol).  For B = A (1 - t eps)
\* with 0 <= t eps < 1 the distance is t eps |A| and the greater magnitude |A|: in units of eps |A| the test reads
\* t <= max(rel_tol / eps, abs_tol / (eps |A|))
VCloseU(t, relU, absU) == RLe(t, RMax(relU, absU))
RSq(x) == RMul(x, x)
\* axes of rotation: small magnitudes keep the rationals within TLC's integers
RotAxis(q) == HasMag(q) /\ ~RIsZero(Mag2(q)) /\ RLe(Mag2(q), RI(9))

\* ---- universes ---------------------------------------------------------------
Small == IF Depth = 1 THEN {-1, 0, 2} ELSE {-2, -1, 0, 1, 3}
Pyth == {V(0, 3, 4), V(3, 4, 0), V(-3, 0, 4), V(3, 4, 12), V(-4, 3, -12), V(1, 2, 2), V(2, -1, -2), V(2, 3, 6), V(0, 0, -2),
         V(0, 5, 0), <<<<3, 2>>, RI(2), RI(0)>>}
VecsA == {V(x, y, z) : x \in Small, y \in Small, z \in Small} \cup Pyth
VecsB == {V(0, 0, 0), V(1, 0, 0), V(0, -1, 0), V(0, 0, 2), V(1, 2, 2), V(-1, 2, 0), V(3, 4, 12), V(2, 0, -1), <<<<1, 2>>, RI(0), <<-3, 2>>>>}
Scalars == {RI(0), RI(1), RI(-2), <<1, 2>>, RI(3)}
Phis == {<<RI(1), RI(0)>>, <<RI(0), RI(1)>>, <<RI(-1), RI(0)>>, <<RI(0), RI(-1)>>, <<<<3, 5>>, <<4, 5>>>>, <<<<-3, 5>>, <<4, 5>>>>,
         <<<<-4, 5>>, <<-3, 5>>>>, <<<<3, 5>>, <<-4, 5>>>>}
Thetas == {<<RI(1), RI(0)>>, <<RI(0), RI(1)>>, <<RI(-1), RI(0)>>, <<<<3, 5>>, <<4, 5>>>>, <<<<-4, 5>>, <<3, 5>>>>}
Radii == {RI(1), RI(5), <<1, 2>>, RI(0)}
NewVals == {RI(0), RI(7), <<-1, 2>>}

Init == a \in VecsA /\ a0 = a /\ n = 0 /\ h = <<>>
\* (operations start from vectors whose rationals are small enough for TLC's 32-bit arithmetic)
Tame(p) == \A j \in 1..3 : p[j][2] <= 30 /\ Abs(p[j][1]) <= 400
Op == n < MaxOps /\ Tame(a) /\ n' = n + 1 /\ a0' = a0
Log(r) == h' = Append(h, r)

\* a + b, a - b, b + a, c * a, a * c, a / c, -a, a.dot(b), a.cross(b), ==, !=, r^2, rho^2, bool(a)
Algebra == Op /\ \E b \in VecsB, s \in Scalars :
  /\ a' = a
  /\ Log([op |-> "algebra", b |-> b, s |-> s, add |-> VAdd(a, b), radd |-> VAdd(b, a), sub |-> VSub(a, b),
          mul |-> VMulS(a, s), div |-> IF RIsZero(s) THEN a ELSE VDiv(a, s), neg |-> VNeg(a),
          dot |-> Dot(a, b), cross |-> Cross(a, b), eq |-> (a = b), r2 |-> Mag2(a), rho2 |-> Rho2(a),
          nonzero |-> ~RIsZero(Mag2(a)), a |-> a'])
\* r, rho, norm(), getcostheta(), phi, theta  (where the square roots are rational)
Metric ==
  /\ Op /\ HasMag(a) /\ ~RIsZero(Mag2(a)) /\ HasSqrt(Rho2(a))
  /\ a' = a
  /\ Log([op |-> "metric", r |-> Mag(a), rho |-> Sqrt(Rho2(a)), norm |-> Norm(a), costheta |-> CosTheta(a),
          phi |-> PhiOf(a), theta |-> ThetaOf(a), a |-> a'])
\* a.cosine(b), a.angle(b), a.proj(b), a.scalar_proj(b)
Angles == Op /\ HasMag(a) /\ ~RIsZero(Mag2(a)) /\ \E b \in VecsB :
  /\ HasMag(b) /\ ~RIsZero(Mag2(b))
  /\ a' = a
  /\ Log([op |-> "angles", b |-> b, cosine |-> Cosine(a, b), sproj |-> SProj(a, b), proj |-> Proj(a, b), a |-> a'])
\* v.x = val / v.setx(val) / v[i] = val
SetCoord == Op /\ \E i \in 1..3, val \in NewVals, how \in {"attr", "set", "item"} :
  /\ a' = [a EXCEPT ![i] = val]
  /\ Log([op |-> "setcoord", i |-> i, val |-> val, how |-> how, a |-> a'])
\* v.r = val : same direction, new magnitude
SetR == Op /\ HasMag(a) /\ ~RIsZero(Mag2(a)) /\ \E val \in Radii :
  /\ a' = VMulS(a, RDiv(val, Mag(a)))
  /\ Log([op |-> "setr", val |-> val, a |-> a'])
\* v.rho = val : z stays, x and y are rescaled
SetRho == Op /\ HasSqrt(Rho2(a)) /\ ~RIsZero(Rho2(a)) /\ \E val \in Radii :
  /\ LET sc == RDiv(val, Sqrt(Rho2(a))) IN a' = <<RMul(a[1], sc), RMul(a[2], sc), a[3]>>
  /\ Log([op |-> "setrho", val |-> val, a |-> a'])
\* v.phi = angle / v.theta = angle : from_spherical(r, phi, theta) with the other two kept
SetPhi == Op /\ HasMag(a) /\ ~RIsZero(Mag2(a)) /\ HasSqrt(Rho2(a)) /\ \E phi \in Phis :
  /\ a' = FromSph(Mag(a), phi, ThetaOf(a))
  /\ Log([op |-> "setphi", ang |-> phi, a |-> a'])
SetTheta == Op /\ HasMag(a) /\ ~RIsZero(Mag2(a)) /\ HasSqrt(Rho2(a)) /\ ~RIsZero(Rho2(a)) /\ \E th \in Thetas :
  /\ a' = FromSph(Mag(a), PhiOf(a), th)
  /\ Log([op |-> "settheta", ang |-> th, a |-> a'])
\* vector3.from_spherical(r, phi, theta)
Spherical == Op /\ n = 0 /\ a = V(0, 3, 4) /\ \E r \in Radii, phi \in Phis, th \in Thetas :
  /\ a' = a
  /\ Log([op |-> "from_spherical", r |-> r, phi |-> phi, theta |-> th, v |-> FromSph(r, phi, th), a |-> a'])
\* a.rotate(theta, b)
RotateA == Op /\ \E b \in VecsB, th \in Phis :
  /\ RotAxis(b)
  /\ a' = a
  /\ Log([op |-> "rotate", b |-> b, ang |-> th, v |-> Rotate(a, th, b), a |-> a'])
\* a.isclose(a * (1 - t * rel)[, rel_tol, abs_tol]) for a Pythagorean a: distance = t * rel * |a|
IsCloseA == Op /\ HasMag(a) /\ ~RIsZero(Mag2(a)) /\ \E t \in {<<1, 2>>, <<1, 1>>, <<2, 1>>, <<0, 1>>, <<3, 2>>}, tol \in {"default", "rel", "abs", "both"} :
  /\ tol = "default" => t \notin {<<1, 1>>, <<3, 2>>}          \* 1e-9 is not exact in floating point: no boundary case
  /\ LET relU == IF tol = "abs" THEN RI(0) ELSE RI(1)          \* rel_tol = eps (or 0)
         absU == IF tol \in {"abs", "both"} THEN <<3, 2>> ELSE RI(0)      \* abs_tol = 1.5 eps |a| (or 0)
     IN /\ a' = a
        /\ Log([op |-> "isclose", t |-> t, tol |-> tol, relU |-> relU, absU |-> absU, mag |-> Mag(a),
                ok |-> VCloseU(t, relU, absU), a |-> a'])
Next == Algebra \/ Metric \/ Angles \/ SetCoord \/ SetR \/ SetRho \/ SetPhi \/ SetTheta \/ Spherical \/ RotateA \/ IsCloseA
Spec == Init /\ [][Next]_vars

(***************************************************************************)
(* Laws (identities of the operations above over the whole universe).      *)
(***************************************************************************)
Us == {V(1, 0, 0), V(0, 2, -1), <<<<1, 2>>, RI(-1), RI(3)>>}
Laws == n = 0 => \A b \in VecsB :
  /\ VAdd(a, b) = VAdd(b, a) /\ Dot(a, b) = Dot(b, a)                          \* commutativity
  /\ Cross(a, b) = VNeg(Cross(b, a)) /\ Cross(a, a) = V(0, 0, 0)               \* anticommutativity
  /\ VAdd(VSub(a, b), b) = a /\ VSub(a, a) = V(0, 0, 0) /\ VNeg(VNeg(a)) = a
  /\ RIsZero(Dot(a, Cross(a, b))) /\ RIsZero(Dot(b, Cross(a, b)))             \* a x b is orthogonal to both
  /\ RAdd(Mag2(Cross(a, b)), RMul(Dot(a, b), Dot(a, b))) = RMul(Mag2(a), Mag2(b))   \* Lagrange's identity
  /\ \A s \in Scalars :
       /\ Dot(VMulS(a, s), b) = RMul(s, Dot(a, b)) /\ Cross(VMulS(a, s), b) = VMulS(Cross(a, b), s)   \* bilinearity
       /\ VMulS(VAdd(a, b), s) = VAdd(VMulS(a, s), VMulS(b, s))
       /\ ~RIsZero(s) => VMulS(VDiv(a, s), s) = a
  /\ \A u \in Us :
       /\ Dot(VAdd(a, b), u) = RAdd(Dot(a, u), Dot(b, u))
       /\ Cross(VAdd(a, b), u) = VAdd(Cross(a, u), Cross(b, u))
       /\ VAdd(VAdd(a, b), u) = VAdd(a, VAdd(b, u))
       /\ Dot(a, Cross(b, u)) = Dot(Cross(a, b), u)                            \* triple product
MetricLaws == (n = 0 /\ HasMag(a) /\ ~RIsZero(Mag2(a))) =>
  /\ Mag2(Norm(a)) = RI(1) /\ VMulS(Norm(a), Mag(a)) = a                       \* unit vector in the direction of a
  /\ RMul(Mag(a), Mag(a)) = Mag2(a)
  /\ \A b \in VecsB : (HasMag(b) /\ ~RIsZero(Mag2(b))) =>
       /\ RMul(Cosine(a, b), RMul(Mag(a), Mag(b))) = Dot(a, b)                 \* a.b = |a||b| cos
       /\ VAdd(Proj(a, b), VSub(a, Proj(a, b))) = a /\ RIsZero(Dot(VSub(a, Proj(a, b)), b))
       /\ \A th \in Phis : RotAxis(b) =>
            LET r == Rotate(a, th, b) IN
            /\ Mag2(r) = Mag2(a) /\ Dot(r, b) = Dot(a, b)                      \* length and axial component kept
            /\ th = <<RI(1), RI(0)>> => r = a                                  \* rotation through 0
            /\ Dot(VSub(a, Proj(a, b)), VSub(r, Proj(r, b))) = RMul(th[1], Mag2(VSub(a, Proj(a, b))))   \* by the angle
            /\ Dot(Cross(VSub(a, Proj(a, b)), VSub(r, Proj(r, b))), Norm(b)) = RMul(th[2], Mag2(VSub(a, Proj(a, b))))   \* right hand rule
  /\ HasSqrt(Rho2(a)) =>
       /\ FromSph(Mag(a), PhiOf(a), ThetaOf(a)) = a                            \* spherical round trip
       /\ RAdd(RSq(ThetaOf(a)[1]), RSq(ThetaOf(a)[2])) = RI(1)
SphLaws == n = 0 => \A r \in Radii, phi \in Phis, th \in Thetas :
  LET v == FromSph(r, phi, th) IN
  /\ Mag2(v) = RSq(r) /\ v[3] = RMul(r, th[1])
  /\ RAdd(RSq(phi[1]), RSq(phi[2])) = RI(1) /\ RAdd(RSq(th[1]), RSq(th[2])) = RI(1) /\ RLe(RI(0), th[2])
\* in-place / new-vector semantics, on the last logged operation
L == h'[Len(h')]
InPlace == [][LET o == L.op IN
              /\ Len(h') = Len(h) + 1
              /\ o \in {"algebra", "metric", "angles", "from_spherical", "rotate", "isclose"} => a' = a
              /\ o = "setcoord" => (a'[L.i] = L.val /\ \A j \in 1..3 : j # L.i => a'[j] = a[j])
              /\ o = "setr" => (Mag2(a') = RSq(L.val) /\ Cross(a', a) = V(0, 0, 0) /\ RLe(RI(0), Dot(a', a)))
              /\ o = "setrho" => (Rho2(a') = RSq(L.val) /\ a'[3] = a[3] /\ RSub(RMul(a'[1], a[2]), RMul(a'[2], a[1])) = RI(0))
              /\ o = "setphi" => (Mag2(a') = Mag2(a) /\ a'[3] = a[3] /\ Rho2(a') = Rho2(a))
              /\ o = "settheta" => (Mag2(a') = Mag2(a) /\ a'[3] = RMul(Mag(a), L.ang[1]))]_vars

Emitted == (n = MaxOps) => PrintT(ToJson([start |-> a0, ops |-> h]))
=============================================================================
