SPECIFICATION Spec
CONSTANTS MaxN = 3
  DataProfiles <- DataThorough
  Forms <- FormsThorough
  StopKinds = {"close", "abandon", "keep"}
  Scenarios <- ScenAll
  Reruns = {FALSE, TRUE}
  RerunScenarios <- ScenRerunThorough
  RerunData <- DataRerunThorough
  RerunForms <- FormsAll
  Holds = {TRUE}
  HoldScenarios <- ScenHoldThorough
  HoldData <- DataHoldThorough
  HoldForms <- FormsHoldThorough
  HoldRc = {FALSE, TRUE}
  KeepHistory = TRUE
  Design = "rename"
VIEW view
CHECK_DEADLOCK FALSE
ACTION_CONSTRAINT EmitEdge
