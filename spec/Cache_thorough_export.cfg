SPECIFICATION Spec
CONSTANTS MaxN = 3
  DataProfiles <- DataThorough
  Forms <- FormsThorough
  StopKinds = {"close", "abandon", "keep"}
  Scenarios <- ScenAll
  Reruns = {FALSE, TRUE}
  RerunScenarios <- ScenRerunThorough
  RerunData <- DataRerunThorough
  RerunForms <- FormsAll
  Holds = {TRUE}
  HoldScenarios <- ScenHoldThorough
  HoldData <- DataHoldThorough
  HoldForms <- FormsHoldThorough
  HoldRc = {FALSE, TRUE}
  Muts = {TRUE}
  MutScenarios <- ScenMutThorough
  MutData <- DataMutThorough
  MutForms <- FormsMutThorough
  MutRc = {FALSE, TRUE}
  MaxRep = 2
  KeepHistory = TRUE
  Design = "rename"
VIEW view
CHECK_DEADLOCK FALSE
ACTION_CONSTRAINT EmitEdge
