SPECIFICATION Spec
CONSTANTS MaxN = 3
  LenProfiles <- LensThorough
  Forms <- FormsThorough
  StopKinds = {"close", "abandon"}
  Scenarios <- ScenAll
  Reruns = {FALSE, TRUE}
  RerunScenarios <- ScenRerunThorough
  RerunLens <- LensRerunThorough
  RerunForms <- FormsAll
  KeepHistory = TRUE
  Design = "rename"
VIEW view
CHECK_DEADLOCK FALSE
ACTION_CONSTRAINT EmitEdge
