SPECIFICATION Spec
CONSTANTS MaxN = 3
  LenProfiles <- LensThorough
  Forms = {"seq", "source", "seq_calter", "source_calter", "seq_malter", "source_malter"}
  StopKinds = {"close", "abandon"}
  Scenarios <- ScenAll
  KeepHistory = TRUE
  Design = "rename"
VIEW view
CHECK_DEADLOCK FALSE
ACTION_CONSTRAINT EmitEdge
