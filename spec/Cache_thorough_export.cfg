SPECIFICATION Spec
CONSTANTS MaxN = 3
  LenProfiles <- LensThorough
  Forms <- FormsThorough
  StopKinds = {"close", "abandon"}
  Scenarios <- ScenAll
  KeepHistory = TRUE
  Design = "rename"
VIEW view
CHECK_DEADLOCK FALSE
ACTION_CONSTRAINT EmitEdge
