SPECIFICATION TSpec
CONSTANTS MaxN = 0 Infinite = FALSE MaxOut = 0 MaxPos = 0 Stops = FALSE Guard = "none"
  Scen <- ScenGuard
POSTCONDITION Accepted
CHECK_DEADLOCK FALSE
