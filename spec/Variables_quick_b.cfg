SPECIFICATION Spec
CONSTANTS MaxLen = 3
  Pool <- Pool3
  Starts <- StartsB
  Xs = {2}
  Nested = TRUE
  Ys <- NoData
  Extra <- NoElems
  Variant = "doc"
  CopyVarContext = TRUE
  ExtendByCompose = TRUE
INVARIANT DataEq
INVARIANT ComposeEqSeq
INVARIANT CombineTuple
INVARIANT TypedDeclarative
INVARIANT NestedFlattens
INVARIANT CarriesName
INVARIANT CarriesAttributes
INVARIANT FrameVariableOnly
INVARIANT VarUnchanged
INVARIANT Repeatable
CHECK_DEADLOCK FALSE
