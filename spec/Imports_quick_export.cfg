\* C20 export of the model's predictions (loaded modules, namespaces, unresolved references)
SPECIFICATION Spec
CONSTANTS
  EntryLists <- D_EntriesQuick
  ChainCalls = FALSE
INVARIANT Emitted
CHECK_DEADLOCK FALSE
