SPECIFICATION Spec
CONSTANTS MaxPre = 0 MaxN = 3
  PreAlphabet <- AlphaSmall
  Accs <- AccsSmall
  Posts <- PostsSmall
  FlowKinds = {"ctx"}
  Drivers = {"split"}
  Places = {"afterstop"}
  StopFlag = "per_buffer"
  CopyMode = "per_branch"
  AdapterHides = TRUE
  VarCopy = "per_value"
  Bufs <- BufQuick
INVARIANT DriversAgree
INVARIANT FillReaches
INVARIANT StopSound
INVARIANT ComputeOnce
INVARIANT BufBound
CHECK_DEADLOCK FALSE
