SPECIFICATION Spec
CONSTANTS MaxDepth = 3
  Families <- FamNoRepass
  StoreByCopy = TRUE
  TailKeepsSets = TRUE
  SplitContinues = TRUE
  SkipEmpty = TRUE
  SkipGetters = TRUE
  SplitCachesExport = FALSE
  SrcFRepass = FALSE
  MFRunCopies = TRUE
  AlterApplied = FALSE
INVARIANT SeenIsExpected
CHECK_DEADLOCK FALSE
