SPECIFICATION Spec
CONSTANTS MaxDepth = 3
  Families <- FamNoSkip2
  StoreByCopy = TRUE
  TailKeepsSets = TRUE
  SplitContinues = TRUE
  SkipEmpty = FALSE
  SkipGetters = TRUE
  SplitCachesExport = FALSE
  SrcFRepass = TRUE
  MFRunCopies = TRUE
  AlterApplied = FALSE
INVARIANT SeenIsExpected
CHECK_DEADLOCK FALSE
