SPECIFICATION Spec
CONSTANTS MaxDepth = 3
  Families <- FamShareQ
  StoreByCopy = TRUE
  TailKeepsSets = TRUE
  SplitContinues = TRUE
  SkipEmpty = TRUE
  SkipGetters = FALSE
  SplitCachesExport = FALSE
  SrcFRepass = TRUE
  MFRunCopies = TRUE
  AlterApplied = FALSE
INVARIANT Emitted
CHECK_DEADLOCK FALSE
