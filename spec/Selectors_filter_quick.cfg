SPECIFICATION Spec
CONSTANTS U = "filter" F = "tiny"
INVARIANT TypeOK
INVARIANT Compositional
INVARIANT RoeFalseNeverRaises
INVARIANT FilterKeeps
INVARIANT FilterOrder
INVARIANT Inside
CHECK_DEADLOCK FALSE
