SPECIFICATION Spec
CONSTANTS MaxRuns = 2
  Scenarios <- ScThorough
INVARIANT OpEqDen
INVARIANT InterBoth
INVARIANT InterStateless
INVARIANT AllActiveAtStart
INVARIANT OutIsPrefix
INVARIANT BufBound
INVARIANT SrcOnlyOnEmpty
INVARIANT BufsizeIndependent
INVARIANT EmptySplitIdentity
INVARIANT EmptyFlowEachOnce
INVARIANT OnceOnly
INVARIANT FRAccount
CHECK_DEADLOCK FALSE
