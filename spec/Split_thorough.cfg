SPECIFICATION Spec
CONSTANTS MaxBr = 3 MaxN = 6 MaxRuns = 2
  Kinds <- KindsQuick
  BufSizes <- BufThorough
INVARIANT OpEqDen
INVARIANT AllActiveAtStart
INVARIANT OutIsPrefix
INVARIANT BufBound
INVARIANT SrcOnlyOnEmpty
INVARIANT BufsizeIndependent
INVARIANT EmptySplitIdentity
INVARIANT EmptyFlowEachOnce
INVARIANT OnceOnly
INVARIANT FRAccount
CHECK_DEADLOCK FALSE
