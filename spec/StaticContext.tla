--------------------------- MODULE StaticContext ---------------------------
(***************************************************************************)
(* lena static context: the OPERATIONAL machine.                           *)
(*                                                                         *)
(* A pipeline is a Python expression such as                               *)
(*    Sequence(SetContext("a", 1), MakeFilename("{{a}}_{{b}}"),            *)
(*             Split([(SetContext("b", 2), StoreContext()), Sum()]))       *)
(* Python evaluates it inside-out and left to right: every constructor     *)
(* runs when its closing bracket is reached.  The machine follows that     *)
(* order, one action per constructor call:                                 *)
(*                                                                         *)
(*   Place(leaf)  SetContext.__init__ (runs its own _set_context({})),     *)
(*                StoreContext / UpdateContextFromStatic / MakeFilename /  *)
(*                Write / Cache / data element / bare accumulator          *)
(*   Open(kind)   the interpreter starts evaluating the arguments of a     *)
(*                Sequence( / Source( / Split([                            *)
(*   Close        LenaSequence.__init__: self._set_context({}) under       *)
(*                try/except LenaKeyError  (lena_sequence.py:36-39);       *)
(*                Source.__init__ additionally builds self._tail, a        *)
(*                Sequence of its elements after the first (source.py:61), *)
(*                whose constructor threads {} through those elements once *)
(*                more; LenaSplit.__init__: _set_context({}) returns at    *)
(*                once (split.py:125-127)                                  *)
(*   UseRoot      root._get_context(), then the values of one of the       *)
(*                family's inputs (by default (0, {"rt": 0}),              *)
(*                (0, {"rt": 1}); a family may add values whose run-time   *)
(*                context carries keys that are static keys as well) are   *)
(*                run through the finished pipeline, element by element    *)
(*                (OpRoot: MakeFilename.__call__ per value); every Cache   *)
(*                leaves its file (disk)                                   *)
(*   Again        the same program is executed once more (a new process:   *)
(*                all objects are constructed again, token by token as     *)
(*                recorded in script) while the files of the first         *)
(*                execution exist; Split.__init__ looks at the disk        *)
(*                (alter_sequence of every branch, core/meta.py)           *)
(*                                                                         *)
(* The passes are transcribed from the code:                               *)
(*   SeqLoop   LenaSequence._set_context (lena_sequence.py:95-133):        *)
(*             "if hasattr(el, '_set_context') and context" (empty         *)
(*             context is skipped), LenaKeyError from el._set_context is   *)
(*             latched in _exc and the pass returns, LenaKeyError from     *)
(*             el._get_context is latched and re-raised                    *)
(*   SetCtx    per element kind: SetContext formats + updates in place     *)
(*             and latches _exc (meta/elements.py:55-65); StoreContext,    *)
(*             UpdateContextFromStatic, MakeFilename store; Write / Cache  *)
(*             re-derive their name when it can be formatted and keep the  *)
(*             old one otherwise (write.py:286-298, cache.py:159-168);     *)
(*             LenaSplit._set_context deep-copies per branch               *)
(*   GetCtx    _static_context if it was ever set, else raise the latched  *)
(*             exception; LenaSplit._get_context intersects                *)
(*                                                                         *)
(* Object identity of the dictionary that is threaded through a pass is    *)
(* modelled by al, the set of storing elements that hold a reference to    *)
(* the very object currently being threaded: an in-place update by a       *)
(* SetContext is visible to all of them; every _get_context() (deep copy / *)
(* intersection) and every per-branch deepcopy starts a fresh object.      *)
(*                                                                         *)
(* Design switches (constants):                                            *)
(*   StoreByCopy  TRUE: MakeFilename and UpdateContextFromStatic copy what *)
(*                they are handed (as StoreContext does); FALSE: they keep *)
(*                the reference (make_filename.py:97, elements.py:129)     *)
(*   TailKeepsSets TRUE: the tail Sequence a Source builds contains the    *)
(*                SetContext / StoreContext elements of the Source too;    *)
(*                FALSE: only its data elements (source.py:61)             *)
(*   SplitContinues TRUE: LenaSplit._set_context goes on with the other    *)
(*                branches when one raises; FALSE: it is left (split.py)   *)
(*   MFRunCopies  TRUE: MakeFilename.__call__ works on a deep copy of the  *)
(*                context it holds (make_filename.py:142); FALSE: on a     *)
(*                copy of the top level, into which the run-time context   *)
(*                is merged recursively (the nested dictionaries are the   *)
(*                held ones) - RunKeepsStatic is violated                  *)
(*                (StaticContext_mfshare.cfg)                              *)
(*   AlterApplied FALSE: alter_sequence returns the branch it was given    *)
(*                (core/meta.py:28-30); TRUE: a Sequence branch with a     *)
(*                filled Cache becomes Source(cache, elements after it) -  *)
(*                the SetContext elements before the Cache are lost in     *)
(*                the second execution (StaticContext_alter.cfg)           *)
(* With (TRUE, TRUE) all properties below hold; with either switch FALSE   *)
(* TLC finds counterexamples to SeenIsExpected (StaticContext_alias.cfg,   *)
(* StaticContext_tail.cfg), e.g. Sequence(SetContext a, MakeFilename,      *)
(* SetContext b) and Source(SetContext a, Sequence(), SetContext b, UCFS). *)
(***************************************************************************)
EXTENDS StaticSem, Json

\* Families: the bounded universes explored by one run.  A family is
\*   [id, leaves (alphabet), maxtok, roots]; it is chosen in Init and never changes.
CONSTANTS MaxDepth, Families, StoreByCopy, TailKeepsSets, SplitContinues, SkipEmpty, SkipGetters, SplitCachesExport, SrcFRepass,
          MFRunCopies, AlterApplied

VARIABLES fam,     \* the family of this behaviour
          els,     \* objects constructed so far (construction order): the program as written
          eff,     \* the Split branches alter_sequence replaced: branch id -> [k, ch] of the object
                   \* that is wired instead (always empty unless the defect model AlterApplied)
          open,    \* stack of brackets being evaluated: [k, ch]
          st,      \* per object: [has, ctx, exc, nm]
          pol,     \* how bare accumulator branches count (freedom of the statement)
          phase,   \* "build" "built" "done"
          gctx,    \* result of root._get_context()
          rt,      \* run-time contexts that left the pipeline
          peek,    \* node whose _get_context() was requested right after it was built (0: none)
          vin,     \* run-time contexts of the values that were sent through the pipeline
          gen,     \* 1: first execution of the program, 2: it is executed again
          script,  \* gen 1: the constructor calls so far; gen 2: the calls still to be repeated
          disk,    \* names of the cache files that exist
          first    \* gen 2: what the first execution ended with
vars == <<fam, els, eff, open, st, pol, phase, gctx, rt, peek, vin, gen, script, disk, first>>
\* tokens evaluated so far: every leaf and every bracket is an object or still open
\* (with object sharing: every position at which an object is placed counts)
ntok == IF fam.share = {} THEN Len(els) + Len(open) ELSE Len(open) + SumCh(els) + SumCh(open)

\* cset / cctx: only used by the defect model SplitCachesExport (a Split that keeps the first
\* intersection it computed)
\* fv: only used by the defect model fam.setcaches (a SetContext that keeps the value it formatted first)
St0 == [has |-> FALSE, ctx |-> Empty, exc |-> "", nm |-> <<>>, cset |-> FALSE, cctx |-> Empty, fv |-> <<>>]
NoRes == [ctx |-> Empty, exc |-> ""]

HasSet(k) == k \in {"set", "store", "ucfs", "mf", "mfd", "mfe", "write", "cache", "seq", "src", "srcf", "split"}
HasGet(k) == k \in {"set", "seq", "src", "srcf", "split"}
HasNoData(k) == k \in {"set", "store"}

(***************************************************************************)
(* The passes.  All operators take the element table E and the object      *)
(* states s and return the new states.                                     *)
(***************************************************************************)
RECURSIVE SetCtx(_, _, _, _, _, _), SeqLoop(_, _, _, _, _, _), SplitSet(_, _, _, _, _, _),
          GetCtx(_, _, _, _), SplitGet(_, _, _, _, _)

\* el._get_context() of a SetContext / Sequence / Source
GetCtx(E, p, e, s) ==
  IF s[e].has THEN [ctx |-> s[e].ctx, exc |-> ""] ELSE [ctx |-> Empty, exc |-> s[e].exc]

\* LenaSplit._get_context: contexts of the branches that have one, in order
SplitGet(E, p, bs, s, got) ==
  IF bs = <<>> THEN [ctx |-> IF got = <<>> THEN Empty ELSE InterAll(got), exc |-> "", n |-> Len(got)]
  ELSE LET b == Head(bs) IN
    IF ~HasGet(E[b].k) THEN SplitGet(E, p, Tail(bs), s, got)
    ELSE LET g == GetCtx(E, p, b, s) IN
         IF g.exc # "" THEN [ctx |-> Empty, exc |-> g.exc, n |-> 0]
         ELSE SplitGet(E, p, Tail(bs), s, Append(got, g.ctx))

\* what a Split exports, with the freedom for bare accumulator branches:
\* s[e].ctx is what the Split last received
SplitExport(E, p, e, s) ==
  LET g == SplitGet(E, p, E[e].ch, s, <<>>)
      nacc == Cardinality({j \in 1..Len(E[e].ch) : E[E[e].ch[j]].k = "acc"})
  IN IF g.exc # "" THEN [ctx |-> Empty, exc |-> g.exc]
     ELSE IF p = "code" \/ nacc = 0 THEN [ctx |-> g.ctx, exc |-> ""]
     ELSE IF g.n = 0 THEN [ctx |-> s[e].ctx, exc |-> ""]
     ELSE IF p = "identity" THEN [ctx |-> Inter2(g.ctx, s[e].ctx), exc |-> ""]
     ELSE [ctx |-> g.ctx, exc |-> ""]
Get1(E, p, e, s) == IF E[e].k = "split" THEN SplitExport(E, p, e, s)
                    ELSE LET g == GetCtx(E, p, e, s) IN [ctx |-> g.ctx, exc |-> g.exc]

\* el._get_context() as a step: in the defect model SplitCachesExport a Split answers with the
\* first intersection it ever computed
GetAndCache(E, p, e, s) ==
  LET g0 == Get1(E, p, e, s)
      isSplit == SplitCachesExport /\ E[e].k = "split"
  IN IF isSplit /\ s[e].cset THEN [g |-> [ctx |-> s[e].cctx, exc |-> ""], s |-> s]
     ELSE IF isSplit /\ g0.exc = "" THEN [g |-> g0, s |-> [s EXCEPT ![e].cset = TRUE, ![e].cctx = g0.ctx]]
     ELSE [g |-> g0, s |-> s]

\* el._set_context(c); al = storing elements aliasing the object c.
\* Result [s, al, exc]: exc # "" means LenaKeyError(exc) propagates to the caller.
SetCtx(E, p, e, c, al, s) ==
  CASE E[e].k = "set" ->
         \* defect model setcaches: the value formatted first is used at every later call - an
         \* object placed at two positions is resolved against the other position's prefix
         LET r == IF fam.setcaches /\ s[e].fv # <<>>
                  THEN [ok |-> TRUE, v |-> s[e].fv[1], key |-> "", keys |-> {}] ELSE Eval(E[e].v, c)
             fv2 == IF fam.setcaches /\ E[e].v.t = "fmt" THEN <<r.v>> ELSE s[e].fv IN
         IF r.ok
         THEN LET c2 == Put(c, E[e].p, r.v) IN
              [s |-> [j \in DOMAIN s |-> IF j = e THEN [s[j] EXCEPT !.has = TRUE, !.ctx = c2, !.fv = fv2]
                                         ELSE IF j \in al THEN [s[j] EXCEPT !.ctx = c2] ELSE s[j]],
               al |-> al, exc |-> ""]
         ELSE [s |-> [s EXCEPT ![e].exc = r.key], al |-> al, exc |-> r.key]
    [] E[e].k = "store" ->
         [s |-> [s EXCEPT ![e] = [@ EXCEPT !.has = TRUE, !.ctx = c]], al |-> al, exc |-> ""]
    [] E[e].k = "ucfs" \/ IsMF(E[e].k) ->
         [s |-> [s EXCEPT ![e] = [@ EXCEPT !.has = TRUE, !.ctx = c]],
          al |-> IF StoreByCopy THEN al ELSE al \cup {e}, exc |-> ""]
    [] E[e].k \in {"write", "cache"} ->
         LET r == Fmt(E[e].v.toks, c) IN
         [s |-> IF r.ok /\ (\E j \in 1..Len(E[e].v.toks) : E[e].v.toks[j].f) THEN [s EXCEPT ![e] = [@ EXCEPT !.has = TRUE, !.nm = r.s]] ELSE s,
          al |-> al, exc |-> ""]
    [] E[e].k \in {"seq", "src", "srcf"} ->
         LET r == SeqLoop(E, p, E[e].ch, c, al, s) IN
         IF r.exc = ""
         THEN [s |-> [r.s EXCEPT ![e] = [@ EXCEPT !.has = TRUE, !.ctx = r.ctx]], al |-> r.al, exc |-> ""]
         ELSE [s |-> [r.s EXCEPT ![e].exc = r.exc], al |-> r.al,
               exc |-> IF r.raise THEN r.exc ELSE ""]
    [] E[e].k = "split" ->
         IF c = Empty THEN [s |-> s, al |-> al, exc |-> ""]
         ELSE LET r == SplitSet(E, p, E[e].ch, c, al,
                                [s EXCEPT ![e] = [@ EXCEPT !.has = TRUE, !.ctx = c]]) IN
              [s |-> r.s, al |-> al, exc |-> r.exc]
    [] OTHER -> [s |-> s, al |-> al, exc |-> ""]

\* LenaSplit._set_context: seq._set_context(deepcopy(context)) for every branch that has it
SplitSet(E, p, bs, c, al, s) ==
  IF bs = <<>> THEN [s |-> s, exc |-> ""]
  ELSE LET b == Head(bs) IN
    IF ~HasSet(E[b].k) THEN SplitSet(E, p, Tail(bs), c, al, s)
    ELSE LET r == SetCtx(E, p, b, c, {}, s) IN
         \* a branch whose nested sequence has an unresolved key raises; SplitContinues: the
         \* error stays stored in that branch (it surfaces in _get_context) and the other
         \* branches still receive their copy; otherwise the loop is left (split.py:132-136)
         IF r.exc # "" /\ ~SplitContinues THEN [s |-> r.s, exc |-> r.exc]
         ELSE SplitSet(E, p, Tail(bs), c, al, r.s)

\* the loop of LenaSequence._set_context over the elements ch
SeqLoop(E, p, ch, c, al, s) ==
  IF ch = <<>> THEN [s |-> s, al |-> al, exc |-> "", raise |-> FALSE, ctx |-> c]
  ELSE LET e == Head(ch)
           \* "if hasattr(el, '_set_context') and context" (SkipEmpty = FALSE: without "and context")
           \* SkipGetters = TRUE: as written, whatever the element; FALSE: only elements without
           \* _get_context are skipped - an element that answers _get_context() next (SetContext,
           \* nested sequence) would otherwise answer with what it resolved at ANOTHER position
           r1 == IF HasSet(E[e].k) /\ (c # Empty \/ ~SkipEmpty \/ (~SkipGetters /\ HasGet(E[e].k)))
                 THEN SetCtx(E, p, e, c, al, s)
                 ELSE [s |-> s, al |-> al, exc |-> ""]
       IN
    IF r1.exc # "" THEN [s |-> r1.s, al |-> r1.al, exc |-> r1.exc, raise |-> FALSE, ctx |-> c]
    ELSE IF HasGet(E[e].k)
    THEN LET q == GetAndCache(E, p, e, r1.s) g == q.g IN
         IF g.exc # "" THEN [s |-> q.s, al |-> r1.al, exc |-> g.exc, raise |-> TRUE, ctx |-> c]
         ELSE SeqLoop(E, p, Tail(ch), g.ctx, {}, q.s)
    ELSE SeqLoop(E, p, Tail(ch), c, r1.al, r1.s)

\* LenaSequence.__init__ of object n: try: self._set_context({}) except LenaKeyError: pass
InitPass(E, p, n, s) == SetCtx(E, p, n, Empty, {}, s).s

\* Source.__init__ : LenaSequence.__init__, then self._tail = Sequence(...) whose own
\* LenaSequence.__init__ threads {} through the same element objects once more (the tail
\* object itself is not part of the tree, only its effect on the elements matters)
SourceInit(E, p, n, s) ==
  LET s1 == InitPass(E, p, n, s)
      IsData(e) == ~HasNoData(E[e].k)
      tail == IF TailKeepsSets THEN E[n].ch ELSE SelectSeq(E[n].ch, IsData)
  IN IF E[n].ch = <<>> THEN s1 ELSE SeqLoop(E, p, tail, Empty, {}, s1).s

\* Source(.., generator, rest..): the tail leaves out the first data element (the generator)
SourceInitF(E, p, n, s) ==
  LET s1 == InitPass(E, p, n, s)
      ch == E[n].ch
      gp == GenPos(E, ch, 1)
      IsTail(e) == e # ch[gp] /\ (TailKeepsSets \/ ~HasNoData(E[e].k))
      tail == SelectSeq(ch, IsTail)
      s2 == SeqLoop(E, p, tail, Empty, {}, s1).s
  \* the tail lacks the generator, which may export static context: SrcFRepass = the Source sets
  \* its static context once more after building the tail (FALSE: it does not, source.py:64)
  IN IF SrcFRepass THEN InitPass(E, p, n, s2) ELSE s2

Construct(E, p, n, s) ==
  CASE E[n].k = "seq" -> InitPass(E, p, n, s)
    [] E[n].k = "src" -> SourceInit(E, p, n, s)
    [] E[n].k = "srcf" -> SourceInitF(E, p, n, s)
    [] OTHER -> s          \* LenaSplit.__init__: empty context, returns at once

(***************************************************************************)
(* Split.__init__: seqs = [meta.alter_sequence(seq) for seq in seqs]       *)
(* (split.py:196).  alter_sequence flattens a Sequence branch and asks its *)
(* elements; Cache.alter_sequence (cache.py:171-205) answers, when a Cache *)
(* of the branch finds its file, with                                      *)
(*     Source(SourceEl(cache, call="_load_flow"), *elements after it)      *)
(* meta.alter_sequence computes that answer and returns the branch it was  *)
(* given (AlterApplied = FALSE); the defect model returns the answer.      *)
(* Either way the answer is constructed: the constructor of that Source    *)
(* threads {} through the element objects after the Cache (which are the   *)
(* objects of the branch) - harmless as long as an empty context is        *)
(* skipped (SkipEmpty).                                                    *)
(* dk = names of the files that exist.  Result [E, s].                     *)
(***************************************************************************)
RECURSIVE Flat(_, _)
Flat(E, ch) == IF ch = <<>> THEN <<>>
               ELSE (IF E[Head(ch)].k = "seq" THEN Flat(E, E[Head(ch)].ch) ELSE <<Head(ch)>>) \o Flat(E, Tail(ch))
CacheFiles(E, s) == {s[j].nm : j \in {i \in 1..Len(E) : E[i].k = "cache" /\ s[i].has}}
AlterBranch(E, p, b, s, dk) ==
  LET fl == Flat(E, E[b].ch)
      filled == {j \in 1..Len(fl) : E[fl[j]].k = "cache" /\ s[fl[j]].has /\ s[fl[j]].nm \in dk}
  IN IF E[b].k # "seq" \/ filled = {} THEN [E |-> E, s |-> s]
     ELSE LET last == CHOOSE j \in filled : \A j2 \in filled : j2 <= j
              \* a new Source object: the cache generates the flow (it is not initialised again)
              E2 == [E EXCEPT ![b] = [@ EXCEPT !.k = "src", !.ch = SubSeq(fl, last + 1, Len(fl))]]
              s2 == SourceInit(E2, p, b, [s EXCEPT ![b] = St0])
          IN IF AlterApplied THEN [E |-> E2, s |-> s2]
             \* the new object is dropped, the Sequence object stays the branch
             ELSE [E |-> E, s |-> [s2 EXCEPT ![b] = s[b]]]
RECURSIVE AlterBranches(_, _, _, _, _)
AlterBranches(E, p, bs, s, dk) ==
  IF bs = <<>> THEN [E |-> E, s |-> s]
  ELSE LET r == AlterBranch(E, p, Head(bs), s, dk) IN AlterBranches(r.E, p, Tail(bs), r.s, dk)

(***************************************************************************)
(* The run, element by element.  seen[i] = the static context element i    *)
(* holds; every operator returns [vals, seen].  An element sees the values *)
(* in their order, and nothing an element holds depends on another         *)
(* element's run: element-major order is as good as the lazy value-major   *)
(* order of the generators.                                                *)
(***************************************************************************)
\* MakeFilename.__call__ for one value (make_filename.py:133-150): [s, rc]
MFCall(k, tpl, s, rc) ==
  IF Get(rc, <<"output", OutField(k)>>).ok THEN [s |-> s, rc |-> rc]
  ELSE LET \* full_context = deepcopy(self._context); full_context.update(context)
           \* defect model: full_context = self._context.copy(); update_recursively(full_context, context)
           \* - the nested dictionaries of full_context are the held ones
           full == IF MFRunCopies THEN OverTop(s, rc) ELSE UpdRec(s, rc)
           s2 == IF MFRunCopies THEN s
                 ELSE Dict([key \in DOMAIN s.m |->
                              IF key \in DOMAIN rc.m /\ IsDict(s.m[key]) /\ IsDict(rc.m[key])
                              THEN UpdRec(s.m[key], rc.m[key]) ELSE s.m[key]])
           r == Fmt(tpl.toks, full)
       IN [s |-> s2, rc |-> IF r.ok THEN Put(rc, <<"output", OutField(k)>>, Leaf("str", r.s)) ELSE rc]
RECURSIVE MFCalls(_, _, _, _, _)
MFCalls(k, tpl, s, vals, out) ==
  IF vals = <<>> THEN [s |-> s, out |-> out]
  ELSE LET c == MFCall(k, tpl, s, Head(vals)) IN MFCalls(k, tpl, c.s, Tail(vals), Append(out, c.rc))

RECURSIVE OpList(_, _, _, _, _), OpCat(_, _, _, _, _), OpSrcF(_, _, _, _)
OpBranches(E, in, seen, bs, vals) ==
  LET IsAcc(b) == E[b].k = "acc"
      NotAcc(b) == ~IsAcc(b)
      r1 == OpCat(E, in, seen, SelectSeq(bs, NotAcc), vals)
      r2 == OpCat(E, in, r1.seen, SelectSeq(bs, IsAcc), vals)
  IN [vals |-> r1.vals \o r2.vals, seen |-> r2.seen]
OpList(E, in, seen, ch, vals) ==
  IF ch = <<>> THEN [vals |-> vals, seen |-> seen]
  ELSE LET e == Head(ch) IN
    CASE E[e].k = "ucfs" ->      \* update_recursively(context, deepcopy(self._context))
           LET F(rc) == UpdRec(rc, seen[e]) IN OpList(E, in, seen, Tail(ch), MapSeq(F, vals))
      [] IsMF(E[e].k) ->
           LET r == MFCalls(E[e].k, E[e].v, seen[e], vals, <<>>)
           IN OpList(E, in, [seen EXCEPT ![e] = r.s], Tail(ch), r.out)
      [] E[e].k = "seq" -> LET r == OpList(E, in, seen, E[e].ch, vals) IN OpList(E, in, r.seen, Tail(ch), r.vals)
      [] E[e].k = "split" -> LET r == OpBranches(E, in, seen, E[e].ch, vals) IN OpList(E, in, r.seen, Tail(ch), r.vals)
      [] OTHER -> OpList(E, in, seen, Tail(ch), vals)
OpCat(E, in, seen, l, vals) ==
  IF l = <<>> THEN [vals |-> <<>>, seen |-> seen]
  ELSE LET b == Head(l)
           r == CASE E[b].k = "acc" -> [vals |-> IF vals = <<>> THEN <<Empty>> ELSE <<vals[Len(vals)]>>, seen |-> seen]
                  [] E[b].k = "src" -> OpList(E, in, seen, E[b].ch, in)
                  [] E[b].k = "srcf" -> OpSrcF(E, in, seen, b)
                  [] OTHER -> OpList(E, in, seen, E[b].ch, vals)
           q == OpCat(E, in, r.seen, Tail(l), vals)
       IN [vals |-> r.vals \o q.vals, seen |-> q.seen]
OpSrcF(E, in, seen, n) ==
  LET ch == E[n].ch
      gp == GenPos(E, ch, 1)
      g == ch[gp]
      r0 == CASE E[g].k = "src" -> OpList(E, in, seen, E[g].ch, in)
              [] E[g].k = "srcf" -> OpSrcF(E, in, seen, g)
              [] OTHER -> OpBranches(E, in, seen, E[g].ch, <<>>)
  IN OpList(E, in, r0.seen, SubSeq(ch, gp + 1, Len(ch)), r0.vals)
OpRoot(E, in, seen) == LET r == Len(E) IN
  IF E[r].k = "split" THEN OpBranches(E, in, seen, E[r].ch, in)
  ELSE IF E[r].k = "srcf" THEN OpSrcF(E, in, seen, r)
  ELSE OpList(E, in, seen, E[r].ch, in)

(***************************************************************************)
(* Actions.                                                                *)
(***************************************************************************)
\* the element table as the objects are wired
Wired(E, a) == IF DOMAIN a = {} THEN E
               ELSE [j \in 1..Len(E) |-> IF j \in DOMAIN a THEN [E[j] EXCEPT !.k = a[j].k, !.ch = a[j].ch] ELSE E[j]]
Eff == Wired(els, eff)

Init == /\ fam \in Families
        /\ els = <<>> /\ open = <<>> /\ st = <<>> /\ pol = "code" /\ phase = "build"
        /\ gctx = NoRes /\ rt = <<>> /\ peek = 0
        /\ eff = <<>> /\ vin = <<>> /\ gen = 1 /\ script = <<>> /\ disk = {} /\ first = [st |-> <<>>, gctx |-> NoRes, rt |-> <<>>]

Top == open[Len(open)]
AddChild(stack, id) == [stack EXCEPT ![Len(stack)].ch = Append(@, id)]

\* a srcf bracket still waits for its generator (only SetContext / StoreContext so far)
NoGenYet(fr) == fr.k = "srcf" /\ \A j \in 1..Len(fr.ch) : els[fr.ch[j]].k \in {"set", "store"}
Open(kind) ==
  /\ phase = "build" /\ ntok < fam.maxtok /\ Len(open) < fam.depth
  /\ kind = "srcf" => fam.srcf
  /\ kind \in fam.nodes
  /\ IF open = <<>> THEN els = <<>> /\ kind \in fam.roots
     ELSE IF Top.k = "split" THEN (IF Top.gen THEN kind \in {"src", "srcf"} ELSE kind \in {"seq", "src", "srcf"})
     ELSE IF NoGenYet(Top) THEN kind \in {"src", "srcf", "split"}
     ELSE kind \in {"seq", "split"}
  /\ open' = Append(open, [k |-> kind, ch |-> <<>>,
                           gen |-> open # <<>> /\ kind = "split" /\ NoGenYet(Top)])
  /\ UNCHANGED <<fam, els, eff, st, pol, phase, gctx, rt, peek, vin, gen, disk, first>>

HasFields(tpl) == \E j \in 1..Len(tpl.toks) : tpl.toks[j].f
\* SetContext.__init__ : try: self._set_context({}) except LenaKeyError: pass
LeafInit(leaf) ==
  IF leaf.k = "set"
  THEN LET r == Eval(leaf.v, Empty) IN
       IF r.ok THEN [St0 EXCEPT !.has = TRUE, !.ctx = Put(Empty, leaf.p, r.v)]
       ELSE [St0 EXCEPT !.exc = r.key]
  ELSE IF leaf.k \in {"write", "cache"} /\ ~HasFields(leaf.v)
  \* Write / Cache with a constant name: set in __init__, _set_context returns at once
  \* ("if '{' not in self._orig_outdir: return", write.py:290, cache.py:161)
  THEN [St0 EXCEPT !.has = TRUE, !.nm = [j \in 1..Len(leaf.v.toks) |-> leaf.v.toks[j].l]]
  ELSE St0

Place(leaf, newpol) ==
  /\ phase = "build" /\ ntok < fam.maxtok /\ open # <<>>
  /\ IF Top.k = "split" THEN leaf.k = "acc" /\ ~Top.gen
     ELSE IF NoGenYet(Top) THEN leaf.k \in {"set", "store"}
     ELSE leaf.k # "acc"
  \* the freedom for bare accumulators is chosen when the first one appears
  /\ IF leaf.k = "acc" /\ \A j \in 1..Len(els) : els[j].k # "acc"
     THEN newpol \in Policies ELSE newpol = pol
  \* a pipeline with two Caches is not run (they may name the same file: C18's subject)
  /\ (fam.again /\ leaf.k = "cache") => \A j \in 1..Len(els) : els[j].k # "cache"
  /\ pol' = newpol
  /\ els' = Append(els, [k |-> leaf.k, p |-> leaf.p, v |-> leaf.v, ch |-> <<>>])
  /\ st' = Append(st, LeafInit(leaf))
  /\ open' = AddChild(open, Len(els) + 1)
  /\ UNCHANGED <<fam, eff, phase, gctx, rt, peek, vin, gen, disk, first>>

\* Reuse(j): an object that exists already (a leaf or a finished Sequence) is named once more as
\* an argument of the bracket being evaluated: ONE object at two positions of the program.  No
\* constructor runs; the enclosing constructors will thread their contexts through it once per
\* position.
Reuse(j) ==
  /\ phase = "build" /\ fam.share # {} /\ ntok < fam.maxtok /\ open # <<>>
  /\ j \in 1..Len(els) /\ els[j].k \in fam.share
  /\ IF Top.k = "split" THEN els[j].k = "seq" /\ ~Top.gen
     ELSE IF NoGenYet(Top) THEN els[j].k \in {"set", "store"}
     ELSE els[j].k \notin {"acc", "src", "srcf", "split"}
  /\ open' = AddChild(open, j)
  /\ UNCHANGED <<fam, els, eff, st, pol, phase, gctx, rt, peek, vin, gen, disk, first>>

\* Close(pk): the constructor of the innermost open bracket runs; pk = TRUE: its _get_context() is
\* requested at once (before the object is placed anywhere) - at most once per behaviour
Close(pk) ==
  /\ phase = "build" /\ open # <<>>
  /\ Top.k = "split" => Top.ch # <<>>
  /\ ~NoGenYet(Top)
  /\ pk => (fam.peek /\ peek = 0)
  /\ LET n == Len(els) + 1
         node == [k |-> Top.k, p |-> <<>>, v |-> NoTpl, ch |-> Top.ch]
         \* Split.__init__ first asks alter_sequence about every branch
         E0 == Append(Eff, node)
         alt == IF Top.k = "split" /\ disk # {} THEN AlterBranches(E0, pol, Top.ch, Append(st, St0), disk)
                ELSE [E |-> E0, s |-> Append(st, St0)]
         new == {j \in 1..Len(E0) : alt.E[j] # E0[j]}
         rest == SubSeq(open, 1, Len(open) - 1)
     IN /\ els' = Append(els, node)
        /\ eff' = (IF Top.k = "split" /\ AlterApplied
                   THEN [j \in DOMAIN eff \cup new |-> [k |-> alt.E[j].k, ch |-> alt.E[j].ch]] ELSE eff)
        /\ st' = (IF pk THEN GetAndCache(alt.E, pol, n, Construct(alt.E, pol, n, alt.s)).s
                  ELSE Construct(alt.E, pol, n, alt.s))
        /\ peek' = (IF pk THEN n ELSE peek)
        /\ IF rest = <<>> THEN open' = rest /\ phase' = "built"
           ELSE open' = AddChild(rest, n) /\ UNCHANGED phase
  /\ UNCHANGED <<fam, pol, gctx, rt, vin, gen, disk, first>>

Root == Len(els)
Seen == [j \in 1..Len(els) |-> st[j].ctx]
\* the finished pipeline is used: root._get_context(), then the values of one of the family's
\* inputs are run through it (the second execution gets the values of the first); nothing any
\* object holds may change (RunKeepsStatic); the Caches leave their files
UseRoot == /\ phase = "built"
           /\ \E in \in fam.rtins :
                /\ gen = 2 => in = vin
                /\ LET r == OpRoot(els, in, Seen) IN
                   /\ vin' = in
                   /\ rt' = r.vals
                   /\ st' = [j \in DOMAIN st |-> [st[j] EXCEPT !.ctx = r.seen[j]]]
           /\ gctx' = Get1(Eff, pol, Root, st)
           /\ disk' = disk \cup CacheFiles(els, st)
           /\ phase' = "done"
           /\ UNCHANGED <<fam, els, eff, open, pol, peek, gen, script, first>>

\* the program is executed again: every object is constructed anew by the same calls
Again == /\ phase = "done" /\ fam.again /\ gen = 1
         /\ gen' = 2 /\ phase' = "build"
         /\ els' = <<>> /\ eff' = <<>> /\ open' = <<>> /\ st' = <<>> /\ pol' = "code"
         /\ peek' = 0 /\ gctx' = NoRes /\ rt' = <<>>
         /\ first' = [st |-> st, gctx |-> gctx, rt |-> rt]
         /\ UNCHANGED <<fam, vin, script, disk>>

\* one constructor call = one token of the program text
NoLeaf == [k |-> "data", p |-> <<>>, v |-> NoTpl]
Tok(op, leaf, kind, pk, np) == [op |-> op, leaf |-> leaf, kind |-> kind, pk |-> pk, np |-> np]
Tokens == {Tok("place", leaf, "", FALSE, np) : leaf \in fam.leaves, np \in Policies}
          \cup {Tok("open", NoLeaf, kind, FALSE, "code") : kind \in {"seq", "src", "srcf", "split"}}
          \cup {Tok("close", NoLeaf, "", pk, "code") : pk \in BOOLEAN}
Do(t) == CASE t.op = "place" -> Place(t.leaf, t.np)
           [] t.op = "open" -> Open(t.kind)
           [] OTHER -> Close(t.pk)
Build == \/ /\ gen = 1
            /\ \E t \in Tokens : Do(t) /\ script' = (IF fam.again THEN Append(script, t) ELSE script)
         \/ /\ gen = 2 /\ script # <<>>
            /\ Do(Head(script)) /\ script' = Tail(script)
         \/ /\ gen = 1 /\ ~fam.again
            /\ \E j \in 1..Len(els) : Reuse(j) /\ script' = script
Next == Build \/ UseRoot \/ Again
Spec == Init /\ [][Next]_vars
Done == phase = "done"

(***************************************************************************)
(* Properties.                                                             *)
(***************************************************************************)
\* completed components: the objects that are not (yet) enclosed by a finished constructor
Components == IF phase = "build" THEN UNION {Range(open[j].ch) : j \in 1..Len(open)} ELSE {Root}

\* element i holds what the declarative fold says it receives
HoldsExpected(i, in) ==
  CASE els[i].k \in {"store", "ucfs"} \/ IsMF(els[i].k) -> in.err \/ st[i].ctx = in.ctx
    [] els[i].k \in {"write", "cache"} ->
         LET x == NameOf(els, i, in) IN (~x.free /\ x.ok) => (st[i].has /\ st[i].nm = x.s)
    [] OTHER -> TRUE

\* A Split keeps no context of its own: _get_context() intersects what its branches hold at the
\* moment it is asked.  The enclosing sequence asks right after handing the context over (that is
\* what the followers see - checked through them); asked again later, a Split with an object
\* below it that is also placed elsewhere answers with that object's latest position: not fixed.
RECURSIVE OccSum(_, _)
OccSum(s, x) == IF s = <<>> THEN 0
                ELSE Cardinality({j \in 1..Len(Head(s).ch) : Head(s).ch[j] = x}) + OccSum(Tail(s), x)
Occ(x) == OccSum(els, x) + OccSum(open, x)
LiveShared(n) == fam.share # {} /\ els[n].k = "split" /\ \E x \in Below(els, n) \ {n} : Occ(x) > 1
\* a sequence / Split that received a context exports the fold, or raises naming the key
ExportsExpected(n, in) ==
  IsNode(els[n]) /\ ~in.err /\ ~LiveShared(n) =>
    LET out == OutOf(els, pol, n, in) g == Get1(Eff, pol, n, st) IN
    IF out.err THEN g.exc = out.key /\ g.exc \in Unresolved(els, pol, n, in) ELSE g.exc = "" /\ g.ctx = out.ctx

\* SeenIsExpected, at every step: inside every completed component every element holds the
\* fold relative to that component (which so far received nothing from outside)
SeenIsExpectedTree ==
  \A r \in Components :
    LET w == Walk(els, pol, {}, r, Empty) IN
    \A i \in DOMAIN w.acc : HoldsExpected(i, w.acc[i]) /\ ExportsExpected(i, w.acc[i])
\* With object sharing an object has one fold per position (InsOf).  An object that occurs
\* once (below objects that occur once) is held to its fold exactly as above: the observers that
\* follow an occurrence of a shared object in the same branch see the value RESOLVED for that
\* occurrence.  A shared object itself necessarily holds one context: one of its positions'.
InsAll(i) == UNION {InsOf(els, pol, r, Empty, i) : r \in Components}
SeenIsExpectedShared ==
  \A i \in UNION {Below(els, r) : r \in Components} :
    LET ins == InsAll(i) IN
    (\A in \in ins : ~in.err) => \E in \in ins : HoldsExpected(i, in) /\ ExportsExpected(i, in)
SeenIsExpected == IF fam.share = {} THEN SeenIsExpectedTree ELSE SeenIsExpectedShared

\* Causal: evaluating later elements, or finishing a constructor, changes nothing that an
\* object outside the finished constructor's own subtree holds
Causal ==
  [][phase = "build" =>
       \A i \in DOMAIN st :
        st'[i] # st[i] => /\ Len(els') = Len(els) + 1 /\ IsNode(els'[Len(els')])
                          /\ i \in Below(els', Len(els'))]_vars

\* requesting the context of a freshly built node changes nothing
PeekIsPure == [][(peek' # peek /\ peek' # 0) =>
                   st' = Construct(els', pol, Len(els'), Append(st, St0))]_vars

\* running values through the finished pipeline changes nothing an object holds - whatever
\* run-time contexts the values carry
RunKeepsStatic == [][phase = "built" => st' = st]_vars

\* the second execution of a program (new objects, the files of the first execution on the disk)
\* ends like the first one in everything the statement fixes: what the consumers hold, what
\* the nodes export, the root context, the run-time contexts.  (What a SetContext keeps for
\* itself, and everything behind an unresolved key, may differ: the Source that alter_sequence
\* builds and drops threads contexts through the elements after a filled Cache once more.)
\* SeenIsExpected is checked at every step of both executions.
ObsState(E, i, s, in) ==
  CASE els[i].k \in {"store", "ucfs"} \/ IsMF(els[i].k) -> [c |-> s[i].ctx, h |-> TRUE, n |-> <<>>]
    [] els[i].k \in {"write", "cache"} ->
         IF NameOf(els, i, in).ok THEN [c |-> Empty, h |-> s[i].has, n |-> s[i].nm] ELSE [c |-> Empty, h |-> TRUE, n |-> <<>>]
    [] IsNode(els[i]) -> LET g == Get1(E, pol, i, s) IN [c |-> g.ctx, h |-> g.exc = "", n |-> <<>>]
    [] OTHER -> [c |-> Empty, h |-> TRUE, n |-> <<>>]
Repeatable ==
  (gen = 2 /\ Done) =>
    LET w == Walk(els, pol, {}, Root, Empty).acc IN
    /\ \A i \in DOMAIN w : ~w[i].err => ObsState(Eff, i, st, w[i]) = ObsState(els, i, first.st, w[i])
    /\ (gctx.exc = "") = (first.gctx.exc = "")
    /\ gctx.exc = "" => gctx = first.gctx
    /\ ~OutOf(els, pol, Root, Cur(Empty)).err => rt = first.rt

\* the fold of element i does not look at anything after i (document order = construction
\* order; enclosing nodes are constructed later but are not "after")
RECURSIVE Ancestors(_, _)
Ancestors(E, i) == LET ps == {n \in 1..Len(E) : i \in Range(E[n].ch)} IN
                   ps \cup UNION {Ancestors(E, n) : n \in ps}
PrefixOnly ==
  (phase = "built" /\ fam.share = {}) =>
    LET full == Walk(els, pol, {}, Root, Empty).acc IN
    \A i \in DOMAIN full :
       LET later == {j \in (i + 1)..Len(els) : j \notin Ancestors(els, i)} IN
       Walk(els, pol, later, Root, Empty).acc[i] = full[i]

\* ... nor at the other branches of the Splits that enclose i (also not at an unresolved key in
\* one of them)
SiblingIndependent ==
  (phase = "built" /\ fam.share = {}) =>
    LET full == Walk(els, pol, {}, Root, Empty).acc IN
    \A i \in DOMAIN full :
       LET anc == Ancestors(els, i) \cup {i}
           sib == UNION {Range(els[n].ch) \ anc : n \in {a \in anc : els[a].k = "split"}}
       IN Walk(els, pol, sib, Root, Empty).acc[i] = full[i]

\* UnresolvedSurfaces / root context
RootExpected ==
  Done =>
    LET out == OutOf(els, pol, Root, Cur(Empty)) IN
    IF out.err THEN gctx.exc = out.key ELSE gctx.exc = "" /\ gctx.ctx = out.ctx

\* NoLeakToRuntime: what leaves the pipeline is explained by the UpdateContextFromStatic and
\* MakeFilename elements alone; in particular without them no static key appears
ExpSeen == LET w == Walk(els, pol, {}, Root, Empty).acc IN
           [j \in 1..Len(els) |-> IF j \in DOMAIN w THEN w[j].ctx ELSE Empty]
NoErr == ~OutOf(els, pol, Root, Cur(Empty)).err
\* a shared UpdateContextFromStatic / MakeFilename whose positions receive different contexts
\* holds one of them: what it yields at the other positions is not fixed by the statement
SharedRunner == \E i \in 1..Len(els) : /\ (els[i].k = "ucfs" \/ IsMF(els[i].k))
                                        /\ Cardinality(InsOf(els, pol, Len(els), Empty, i)) > 1
RunFixed == NoErr /\ (fam.share = {} \/ ~SharedRunner)
NoLeakToRuntime ==
  Done => /\ RunFixed => rt \in RunReadings(els, vin, ExpSeen)
          \* without UpdateContextFromStatic a value leaves with the context it came with
          \* (MakeFilename adds to "output" only)
          /\ (\A j \in 1..Len(els) : els[j].k # "ucfs") =>
                \A j \in 1..Len(rt) : NoOut(rt[j]) \in {NoOut(vin[i]) : i \in 1..Len(vin)} \cup {Empty}

(***************************************************************************)
(* Alphabets.                                                              *)
(***************************************************************************)
SetC(path, t, ch) == [k |-> "set", p |-> path, v |-> [t |-> t, toks |-> <<Lit(ch)>>]]
SetF(path, toks) == [k |-> "set", p |-> path, v |-> [t |-> "fmt", toks |-> toks]]
Consumer(kind, toks) == [k |-> kind, p |-> <<>>, v |-> [t |-> "fmt", toks |-> toks]]
Plain(kind) == [k |-> kind, p |-> <<>>, v |-> NoTpl]
KA == <<"ka">>  KB == <<"kb">>  KC == <<"kc">>  KDE == <<"kd", "ke">>  KDF == <<"kd", "kf">>
KOX == <<"output", "kx">>
MFab == Consumer("mf", <<Fld(KA), Lit("_"), Fld(KB)>>)
Wa == Consumer("write", <<Fld(KA)>>)
Cc == Consumer("cache", <<Fld(KC), Lit(".pkl")>>)
LeavesCore == {SetC(KA, "int", "1"), SetC(KB, "int", "2"), SetF(KC, <<Fld(KA)>>),
               Plain("store"), MFab, Plain("ucfs")}
LeavesTiny == {SetC(KA, "int", "1"), SetC(KB, "int", "2"), Plain("store"), MFab, Plain("ucfs")}
LeavesQuick == LeavesCore \cup {SetC(KA, "int", "2"), Wa, Cc, Plain("data"), Plain("acc")}
LeavesFull == LeavesQuick \cup {SetC(KA, "str", "1"), SetF(KC, <<Lit("x"), Fld(KC)>>),
                                SetC(KDE, "int", "1"), SetC(KDE, "int", "2"), SetF(KB, <<Fld(KDE)>>),
                                SetC(KDF, "int", "1"), SetC(KDF, "int", "2"), SetC(KOX, "int", "1"),
                                Consumer("mf", <<Fld(KOX)>>),
                                Consumer("mf", <<Fld(KC)>>), Consumer("write", <<Fld(KB), Lit("_"), Fld(KDE)>>)}
AllRoots == {"seq", "src", "split"}
SeqRoots == {"seq", "src"}
SrcRoot == {"src"}
\* nested keys: recursive intersection
LeavesNested == {SetC(KDE, "int", "1"), SetC(KDF, "int", "1"), SetC(KDF, "int", "2")}
SeqRoot == {"seq"}
\* focused alphabets (small, deeper): shared Split copies; two different unresolved keys in
\* nested sequences; a static key under "output", where MakeFilename writes at run time
LeavesFocus1 == {SetC(KA, "int", "1"), SetC(KB, "int", "2")}
LeavesFocus2 == {SetC(KA, "int", "1"), SetF(KC, <<Fld(KA)>>), SetF(KB, <<Fld(KDE)>>), Plain("store")}
LeavesFocus2b == {SetC(KA, "int", "1"), SetF(KC, <<Fld(KA)>>), SetF(KB, <<Fld(KDE)>>)}
LeavesFocus3 == {SetC(KOX, "int", "1"), Plain("ucfs"), Consumer("mf", <<Fld(KOX)>>), Plain("store")}
LeavesMin == {SetC(KA, "int", "1"), SetC(KB, "int", "2"), Plain("ucfs"), MFab}

(***************************************************************************)
(* More leaves: values that look like nothing, several fields, the other   *)
(* MakeFilename fields, constant names, a static key named like a run-time *)
(* key.                                                                    *)
(***************************************************************************)
KRT == <<"rt">>
\* str(None) = "None", spelled in one-character tokens like every string
SetNone(path) == [k |-> "set", p |-> path, v |-> [t |-> "none", toks |-> <<Lit("N"), Lit("o"), Lit("n"), Lit("e")>>]]
SetEmptyStr(path) == [k |-> "set", p |-> path, v |-> [t |-> "str", toks |-> <<>>]]
LeavesFocus3b == {SetC(KOX, "int", "1"), SetC(KRT, "int", "5"), Plain("ucfs"), Consumer("mf", <<Fld(KOX)>>),
                  Consumer("mf", <<Fld(KRT)>>), Plain("store")}
LeavesFocus4 == {SetC(KA, "int", "0"), SetEmptyStr(KA), SetNone(KB), SetF(KC, <<Fld(KA), Lit("_"), Fld(KB)>>),
                 Wa, Consumer("mfd", <<Fld(KA)>>), Consumer("mfe", <<Fld(KB)>>),
                 Consumer("write", <<Lit("d")>>), Consumer("cache", <<Lit("c"), Lit(".pkl")>>), Plain("store")}
LeavesB == {SetC(KA, "int", "1"), SetC(KB, "int", "2"), MFab, Plain("ucfs")}
LeavesWide == LeavesFull \cup LeavesFocus3b \cup LeavesFocus4

(***************************************************************************)
(* Families (one TLC run explores all families of its configuration).      *)
(***************************************************************************)
Fam(id, leaves, maxtok, roots) == [id |-> id, leaves |-> leaves, maxtok |-> maxtok, roots |-> roots, depth |-> 3,
                                   srcf |-> FALSE, peek |-> FALSE, rtins |-> {RTIn}, again |-> FALSE,
                                   nodes |-> {"seq", "src", "srcf", "split"},
                                   \* share: kinds of objects that may be placed at several positions
                                   share |-> {}, setcaches |-> FALSE]
FamD(id, leaves, maxtok, roots, depth) == [Fam(id, leaves, maxtok, roots) EXCEPT !.depth = depth]
\* context requested before placement (stale caches); Source whose generator exports context
LeavesFocus6 == {SetC(KA, "int", "1"), Plain("store")}
LeavesFocus7 == {SetC(KA, "int", "1"), SetC(KB, "int", "2"), Plain("ucfs")}
FamPeek(id, leaves, maxtok, roots, depth) == [FamD(id, leaves, maxtok, roots, depth) EXCEPT !.peek = TRUE]
FamSrcF(id, leaves, maxtok, roots) == [Fam(id, leaves, maxtok, roots) EXCEPT !.srcf = TRUE]
SrcFRoot == {"srcf"}
\* a branch with an unresolved key next to sibling branches (depth 4: the key sits in a nested sequence)
LeavesFocus5 == {SetC(KA, "int", "1"), SetF(KB, <<Fld(KDE)>>)}
(***************************************************************************)
(* Three more dimensions of the statement's quantifier.                    *)
(*  F8  a key that one SetContext sets to a plain value and a formatting   *)
(*      field (of a SetContext, MakeFilename, Write, Cache) uses as a      *)
(*      dictionary: "kd.ke" cannot be resolved when the prefix says        *)
(*      kd = 1 - as unresolved as a missing key.                           *)
(*  F9  values whose run-time context carries static keys (a nested one    *)
(*      with another value, a sibling of a nested one, a plain one): what  *)
(*      MakeFilename / UpdateContextFromStatic hold is the same after      *)
(*      every value.                                                       *)
(*  F10 the program is executed twice (Again): the second execution finds  *)
(*      the files the Caches of the first one wrote.                       *)
(***************************************************************************)
KD == <<"kd">>
MFde == Consumer("mf", <<Fld(KDE)>>)
LeavesFocus8 == {SetC(KD, "int", "1"), SetC(KDE, "int", "2"), SetF(KB, <<Fld(KDE)>>), MFde,
                 Consumer("write", <<Fld(KDE)>>), Consumer("cache", <<Fld(KDE), Lit(".pkl")>>), Plain("store")}
RTV(m) == Dict(m @@ ("rt" :> Leaf("int", <<"0">>)))
Five == Leaf("int", <<"5">>)
\* the first value carries the key, the second does not
RTInNested == <<RTV("kd" :> Dict("ke" :> Five)), RT1>>
RTInSibling == <<RTV("kd" :> Dict("kf" :> Five)), RT1>>
RTInPlain == <<RTV("ka" :> Five), RT1>>
RTIns == {RTIn, RTInNested, RTInSibling, RTInPlain}
LeavesFocus9 == {SetC(KDE, "int", "1"), SetC(KDF, "int", "2"), SetC(KA, "int", "1"), MFde,
                 Consumer("mf", <<Fld(KA), Fld(KDF)>>), Plain("ucfs")}
LeavesFocus9q == {SetC(KDE, "int", "1"), SetC(KDF, "int", "2"), MFde, Consumer("mf", <<Fld(KDF)>>), Plain("ucfs")}
LeavesFocus10q == {SetC(KA, "int", "1"), Consumer("cache", <<Lit("c"), Lit(".pkl")>>),
                   Consumer("cache", <<Fld(KA), Lit(".pkl")>>), Plain("store")}
FamIn(id, leaves, maxtok, roots, rtins) == [Fam(id, leaves, maxtok, roots) EXCEPT !.rtins = rtins]
LeavesFocus10 == {SetC(KA, "int", "1"), Consumer("cache", <<Lit("c"), Lit(".pkl")>>),
                  Consumer("cache", <<Fld(KA), Lit(".pkl")>>), Plain("store"), Consumer("mf", <<Fld(KA)>>)}
FamAgain(id, leaves, maxtok, roots, nodes) == [Fam(id, leaves, maxtok, roots) EXCEPT !.again = TRUE, !.nodes = nodes]
SplitRoot == {"split"}
FamF8 == {Fam("F8", LeavesFocus8, 4, SeqRoot)}
FamF9 == {FamIn("F9", LeavesFocus9q, 4, SeqRoot, RTIns \ {RTInPlain})}
FamF10 == {FamAgain("F10", LeavesFocus10q, 5, SplitRoot, {"seq", "split"})}
FamNew == FamF8 \cup FamF9 \cup FamF10
FamNewT == {Fam("F8", LeavesFocus8, 5, SeqRoot), FamIn("F9", LeavesFocus9q, 5, SeqRoot, RTIns),
            FamAgain("F10", LeavesFocus10q, 6, SeqRoot, {"seq", "split"})}
FamMFShare == {FamIn("mfshare", LeavesFocus9, 3, SeqRoot, RTIns)}
\* without the empty-context skip the second execution differs (the Source alter_sequence builds
\* and drops re-initialises the elements after a filled Cache with {})
FamNoSkip2 == {FamAgain("noskip2", LeavesFocus10q, 5, SplitRoot, {"seq", "split"})}
FamAlter == {FamAgain("alter", LeavesFocus10q, 5, SplitRoot, {"seq", "split"})}
(***************************************************************************)
(*  F11 element OBJECT SHARING (action Reuse): one formatting / constant   *)
(*      SetContext, StoreContext, UpdateContextFromStatic, MakeFilename or *)
(*      nested Sequence object at two or more positions (two Split         *)
(*      branches, a nested sequence and its encloser, twice in a row).     *)
(***************************************************************************)
SetFca == SetF(KC, <<Fld(KA)>>)
LeavesShare == {SetC(KA, "int", "1"), SetC(KA, "int", "2"), SetFca, Plain("store")}
LeavesShare2 == {SetC(KA, "int", "1"), SetC(KA, "int", "2"), SetFca, Plain("store"), Plain("ucfs"),
                 Consumer("mf", <<Fld(KC)>>)}
ShareLeaves == {"set", "store", "ucfs", "mf"}
FamShare(id, leaves, maxtok, roots, nodes, share) ==
  [Fam(id, leaves, maxtok, roots) EXCEPT !.nodes = nodes, !.share = share]
FamShareQ == {FamShare("S1", LeavesShare2, 5, SeqRoot, {"seq"}, ShareLeaves),
              FamShare("S2", LeavesShare, 5, SeqRoot, {"seq", "split"}, {"set", "seq"})}
FamShareT == {FamShare("S1", LeavesShare2, 6, SeqRoot, {"seq", "split"}, ShareLeaves \cup {"seq"}),
              FamShare("S2", LeavesShare, 7, SeqRoot, {"seq", "split"}, {"set"})}
\* guard: a SetContext that keeps the value it formatted first
FamShareCache == {[FamShare("sharecache", LeavesShare, 6, SeqRoot, {"seq"}, {"set"}) EXCEPT !.setcaches = TRUE]}
FamQuick == {Fam("A4", LeavesQuick, 4, AllRoots), Fam("B5", LeavesB, 5, SeqRoots),
             Fam("F1", LeavesFocus1, 6, SeqRoot), Fam("F2", LeavesFocus2, 5, SeqRoot),
             Fam("F3", LeavesFocus3b, 4, SeqRoot), Fam("F4", LeavesFocus4, 4, SeqRoots),
             Fam("F5", LeavesFocus5, 6, SeqRoot),
             FamPeek("F6", LeavesFocus6, 5, SeqRoot, 3), FamSrcF("F7", LeavesFocus7, 5, SrcFRoot)}
FamCov == {Fam("A3", LeavesQuick, 3, AllRoots)}
FamT_A == {Fam("A5", LeavesQuick, 5, AllRoots)}
FamT_B == {Fam("B6", LeavesTiny, 6, SeqRoots)}
FamT_C == {Fam("C7", LeavesNested, 7, SeqRoot)}
FamT_D == {Fam("D6", LeavesCore, 6, SeqRoots)}
FamT_F == {Fam("F1", LeavesFocus1, 7, SeqRoot), Fam("F2d", LeavesFocus2b, 6, AllRoots),
           Fam("F2", LeavesFocus2, 5, SeqRoots), Fam("F3", LeavesFocus3b, 5, SeqRoot),
           Fam("F4", LeavesFocus4, 4, AllRoots)}
FamT_F1 == {f \in FamT_F : f.id \in {"F1", "F2d", "F2"}}
FamT_F2 == {f \in FamT_F : f.id \in {"F3", "F4"}} \cup {FamD("F5d", LeavesFocus5, 7, SeqRoot, 4),
            FamPeek("F6d", LeavesFocus6, 6, SeqRoots, 4),
            FamSrcF("F7d", LeavesFocus7 \cup {Plain("store")}, 6, {"srcf", "seq"})}
FamThorough == FamT_A \cup FamT_B \cup FamT_C \cup FamT_F \cup FamT_F2
FamCache == {FamPeek("cache", LeavesFocus6, 6, SeqRoot, 4)}
FamNoRepass == {FamSrcF("norepass", LeavesFocus7, 5, SrcFRoot)}
FamNoSkip == {FamSrcF("noskip", LeavesFocus7, 5, SrcFRoot)}
FamAbort == {FamD("abort", LeavesFocus5, 7, SeqRoot, 4)}
FamSim == {Fam("W8", LeavesWide, 8, AllRoots),
           [FamAgain("W8x", LeavesWide \cup LeavesFocus8 \cup LeavesFocus9, 8, AllRoots, {"seq", "src", "split"})
              EXCEPT !.rtins = RTIns]}
\* the quick export runs as three TLC processes side by side
FamQuickA == {f \in FamQuick : f.id \in {"A4", "B5", "F1"}}
FamQuickB == FamQuick \ FamQuickA
FamQuickAll == FamQuick \cup FamNew
FamThoroughAll == FamThorough \cup FamNewT
FamAlias == {Fam("alias", LeavesMin, 4, SeqRoots)}
FamTail == {Fam("tail", LeavesMin, 5, SrcRoot)}

(***************************************************************************)
(* Export of finished behaviours for the replay on the real code.          *)
(***************************************************************************)
ObsOf(i, in) ==
  CASE els[i].k \in {"store", "ucfs"} -> [free |-> in.err, ctx |-> in.ctx, ok |-> TRUE, s |-> <<>>, key |-> "", un |-> {}]
    [] IsMF(els[i].k) \/ els[i].k \in {"write", "cache"} ->
         LET x == NameOf(els, i, in) IN [free |-> x.free, ctx |-> in.ctx, ok |-> x.ok, s |-> x.s, key |-> "", un |-> {}]
    [] IsNode(els[i]) ->
         LET o == OutOf(els, pol, i, in) IN [free |-> in.err \/ LiveShared(i), ctx |-> o.ctx, ok |-> ~o.err, s |-> <<>>, key |-> o.key,
                                                 un |-> IF o.err THEN Unresolved(els, pol, i, in) ELSE {}]
    [] OTHER -> [free |-> TRUE, ctx |-> Empty, ok |-> TRUE, s |-> <<>>, key |-> "", un |-> {}]
\* for diagnosis only: the contexts that later positions of the same sequence receive
LateOf(i, w) ==
  LET ps == {n \in 1..Len(els) : i \in Range(els[n].ch)} IN
  IF ps = {} \/ IsNode(els[i]) \/ els[i].k \in {"set", "data", "acc"} THEN <<>>
  ELSE LET n == CHOOSE x \in ps : TRUE
           ch == els[n].ch
           pos == CHOOSE j \in 1..Len(ch) : ch[j] = i
       IN [j \in 1..(Len(ch) - pos + 1) |->
             IF pos + j <= Len(ch) THEN w[ch[pos + j]].ctx ELSE OutOf(els, pol, n, w[n]).ctx]
\* gens = 2: the observations are expected of the first execution and of a second one that finds
\* the files of the first (files: the cache files the first execution leaves)
Expectation ==
  LET w == Walk(els, pol, {}, Root, Empty).acc IN
  [fam |-> fam.id, els |-> els, pol |-> pol, peek |-> peek,
   \* alt: with object sharing, the expectation of every position of the object
   obs |-> [i \in 1..Len(els) |-> ObsOf(i, w[i]) @@
              [late |-> LateOf(i, w),
               alt |-> IF fam.share = {} THEN {} ELSE {ObsOf(i, in) : in \in InsOf(els, pol, Root, Empty, i)}]],
   noerr |-> RunFixed, share |-> fam.share # {},
   vin |-> IF vin = RTIn THEN <<>> ELSE vin,      \* <<>>: the default values
   gens |-> gen, files |-> IF fam.again THEN disk ELSE {},
   \* rt: what the machine produced (the reading of the code, "top"; NoLeakToRuntime compares it
   \* with the fold); rtm: the other reading where it differs
   rt |-> rt,
   rtm |-> LET m == RunRootV(els, [in |-> vin, mrg |-> "rec"], ExpSeen) IN IF m = rt THEN <<>> ELSE m]
Emitted == (Done /\ (fam.again => gen = 2)) => PrintT(ToJson(Expectation))
=============================================================================
