SPECIFICATION Spec
CONSTANTS MaxLen = 4
  Pool <- PoolK
  Starts <- StartsK
  Xs = {2}
  Nested = FALSE
  Ys <- DataK
  Extra <- ExtraK
  Variant = "doc"
  CopyVarContext = TRUE
  ExtendByCompose = TRUE
  PathKeys = FALSE
INVARIANT Emitted
CHECK_DEADLOCK FALSE
