SPECIFICATION Spec
CONSTANTS MaxRuns = 1
  DataSets <- DataQuick
  BranchLists <- BrExport
  BufSizes = {2}
  EdgesX <- EX1
  EdgesY <- EY1
  EdgesH <- EH1
  WriteAlways = FALSE
  ClosedLast = TRUE
VIEW view
INVARIANT PerCell
CHECK_DEADLOCK FALSE
