SPECIFICATION SSpec
CONSTANTS MaxLen = 2 MaxN = 4 Infinite = TRUE MaxOut = 4
  Vals = "nat" Stops = TRUE MaxRuns = 1 MaxLead = 0 MaxHints = 1 Wrong = "none"
  Alphabet <- AlphaSrcT
  SrcKinds <- AllKinds
  Must <- NoMust
  Pairs <- OnlyPairs
INVARIANT OpEqDen
INVARIANT OutIsPrefix
INVARIANT NoWorkBeforeDemand
INVARIANT PullOnlyWhenDrained
INVARIANT LazyEqDen
INVARIANT ReleasedByStage
PROPERTY NoPullAfterStop
PROPERTY NoPullAfterFinish
PROPERTY NoPullAfterEnd
PROPERTY HintIsNoPull
CONSTRAINT Bounded
CHECK_DEADLOCK FALSE
