SPECIFICATION Spec
CONSTANTS PairSrc = "file" CtxU = "tiny" MaxFlow = 3 KeyU = "five"
INVARIANT EmitFlow
CHECK_DEADLOCK FALSE
