SPECIFICATION Spec
CONSTANTS MaxLen = 4
  Pool <- Pool4
  Starts <- StartsAll
  Xs = {1, 2}
  Nested = TRUE
  CopyVarContext = TRUE
  ExtendByCompose = TRUE
INVARIANT Emitted
CHECK_DEADLOCK FALSE
