SPECIFICATION Spec
CONSTANTS MaxLen = 4
  Pool <- Pool3U
  Starts <- StartsAll
  Xs = {2}
  Nested = TRUE
  Ys <- NoData
  Extra <- NoElems
  Variant = "doc"
  CopyVarContext = TRUE
  ExtendByCompose = TRUE
  PathKeys = FALSE
INVARIANT Emitted
CHECK_DEADLOCK FALSE
