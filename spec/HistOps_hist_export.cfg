SPECIFICATION Spec
CONSTANTS MaxOps = 4
  HistChoices <- HistsExport
  Targets <- TargetsAll
  NevTargets <- NevAll
  AddWeights <- WeightsAll
  SeqOnly = FALSE
INVARIANT Emitted
CHECK_DEADLOCK FALSE
