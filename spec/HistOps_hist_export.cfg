SPECIFICATION Spec
CONSTANTS MaxOps = 4
  HistChoices <- HistsExport
  Targets <- TargetsAll
  NevTargets <- NevAll
  AddWeights <- WeightsAll
INVARIANT Emitted
CHECK_DEADLOCK FALSE
