SPECIFICATION Spec
CONSTANTS MaxTok = 6 MaxDepth = 3
  Leaves <- LeavesTiny
  RootKinds <- SeqRoots
  StoreByCopy = TRUE
  TailKeepsSets = TRUE
INVARIANT Emitted
CHECK_DEADLOCK FALSE
