------------------------------- MODULE RunSem -------------------------------
(***************************************************************************)
(* lena/core/adapters.py  FillRequest: declarative meaning, written from   *)
(* the class documentation.  No constants or variables: shared by          *)
(* FillRequest.tla and Trace_FillRequest.tla.                              *)
(*                                                                         *)
(* A configuration is a record                                             *)
(*   n      block size (the `bufsize' argument)                            *)
(*   bufIn  TRUE: buffer_input, FALSE: buffer_output                       *)
(*   reset  the element is reset after each of its requests                *)
(*   yor    yield_on_remainder                                             *)
(*   kind   "fc" fill/compute element, "fr" fill/request element,          *)
(*          "run" run-only element, "both" run and fill/request,           *)
(*          "frc" fill/request element whose methods have other names      *)
(*          (FillRequest(el, fill=.., request=.., reset_name=..)) and that *)
(*          carries data attributes named run, fill, request, compute,     *)
(*          reset                                                          *)
(*   m      number of results the element yields per request               *)
(*   pv     (run elements) additionally one result per value of the block  *)
(*   take   (run elements) 0: the element's run consumes its whole flow;   *)
(*          t > 0: it stops reading after t values (like Slice(t))         *)
(*                                                                         *)
(* The wrapped element is abstracted to its content: the values filled     *)
(* since it was last reset (or ever).  A request yields m results that     *)
(* carry the content, so blocks, resets and duplicates are visible;        *)
(* Sum / StoreFilled are projections of it.                                *)
(***************************************************************************)
EXTENDS SplitSem

\* m = 9: a data-dependent number of results (last value of the content modulo 3: 0, 1 or 2 results).  Results are
\* evaluated lazily by the real elements: each one carries the content at the moment it is yielded, which is the
\* content of the block because the adapter may reset the element only after the last result
NRes(cfg, e) == IF cfg.m # 9 THEN cfg.m ELSE IF e = <<>> THEN 0 ELSE e[Len(e)] % 3
Res(cfg, e) == [j \in 1..NRes(cfg, e) |-> [i |-> j, p |-> e]]
MaxRes(cfg) == IF cfg.m # 9 THEN cfg.m ELSE 2
PerValue(cfg, blk) == IF cfg.pv THEN [j \in 1..Len(blk) |-> [i |-> 0, p |-> <<blk[j]>>]] ELSE <<>>
AfterYield(cfg, e) == IF cfg.reset THEN <<>> ELSE e
\* the values of a block that the element's run reads
Taken(cfg, blk) == IF cfg.take = 0 \/ cfg.take >= Len(blk) THEN blk ELSE SubSeq(blk, 1, cfg.take)

(***************************************************************************)
(* run: "fill each value from a subslice of bufsize length, then yield     *)
(* results from request.  Repeat until the flow is exhausted.  If the flow *)
(* was empty nothing is yielded.  The last slice may contain less than     *)
(* bufsize values; if there were any and yield_on_remainder is True,       *)
(* request will be called for that."                                       *)
(***************************************************************************)
RECURSIVE RunBlocks(_, _, _)
RunBlocks(cfg, xs, acc) ==
  IF xs = <<>> THEN <<>>
  ELSE IF Len(xs) < cfg.n
       THEN (IF cfg.yor THEN PerValue(cfg, Taken(cfg, xs)) \o Res(cfg, acc \o Taken(cfg, xs)) ELSE <<>>)
       ELSE LET blk == SubSeq(xs, 1, cfg.n)
                e == acc \o Taken(cfg, blk)
            IN PerValue(cfg, Taken(cfg, blk)) \o Res(cfg, e)
                 \o RunBlocks(cfg, SubSeq(xs, cfg.n + 1, Len(xs)), AfterYield(cfg, e))
RunSem(cfg, xs) == RunBlocks(cfg, xs, <<>>)
\* the values of xs that lie in complete blocks
Complete(cfg, xs) == SubSeq(xs, 1, cfg.n * (Len(xs) \div cfg.n))

(***************************************************************************)
(* fill / request as state transformers.  State of the adapter:            *)
(*   el     content of the element                                         *)
(*   c      fills of the element since its last request (0..n)             *)
(*   bin    input buffer: values received while the element held a full    *)
(*          block (buffer_input)                                           *)
(*   bout   output buffer: results of full blocks taken out of the element *)
(*          by a later fill (buffer_output)                                *)
(*   fills  ghost: every value passed to el.fill, in order                 *)
(*   hung   ghost: a call did not return (only the legacy variant of       *)
(*          FillRequest.tla ever sets it)                                  *)
(***************************************************************************)
S0 == [el |-> <<>>, c |-> 0, bin |-> <<>>, bout |-> <<>>, fills |-> <<>>, hung |-> FALSE]

FillKind(cfg, s) == IF s.c < cfg.n THEN "plain" ELSE IF cfg.bufIn THEN "in" ELSE "out"
FillStep(cfg, s, v) ==
  CASE FillKind(cfg, s) = "plain" ->
         [s EXCEPT !.el = Append(@, v), !.c = @ + 1, !.fills = Append(@, v)]
    [] FillKind(cfg, s) = "in" ->
         [s EXCEPT !.bin = Append(@, v)]
    [] FillKind(cfg, s) = "out" ->
         [s EXCEPT !.bout = @ \o Res(cfg, s.el), !.el = Append(AfterYield(cfg, s.el), v),
                   !.c = 1, !.fills = Append(@, v)]

\* the loop of request() over the input buffer: [el, c, res, fills]
RECURSIVE Drain(_, _, _, _, _, _)
Drain(cfg, e, cc, b, res, fl) ==
  IF b = <<>> THEN [el |-> e, c |-> cc, res |-> res, fills |-> fl]
  ELSE LET e2 == Append(e, Head(b)) IN
       IF cc + 1 = cfg.n
       THEN Drain(cfg, AfterYield(cfg, e2), 0, Tail(b), res \o Res(cfg, e2), Append(fl, Head(b)))
       ELSE Drain(cfg, e2, cc + 1, Tail(b), res, Append(fl, Head(b)))

\* request(): [res, s]
RequestStep(cfg, s) ==
  LET full == s.c = cfg.n
      first == s.bout \o (IF full THEN Res(cfg, s.el) ELSE <<>>)
      e1 == IF full THEN AfterYield(cfg, s.el) ELSE s.el
      c1 == IF full THEN 0 ELSE s.c
      d == Drain(cfg, e1, c1, s.bin, <<>>, s.fills)
      rem == cfg.yor /\ d.c > 0
  IN [res |-> first \o d.res \o (IF rem THEN Res(cfg, d.el) ELSE <<>>),
      s |-> [el |-> IF rem THEN AfterYield(cfg, d.el) ELSE d.el, c |-> IF rem THEN 0 ELSE d.c,
             bin |-> <<>>, bout |-> <<>>, fills |-> d.fills, hung |-> s.hung]]

RECURSIVE FillMany(_, _, _)
FillMany(cfg, s, vs) == IF vs = <<>> THEN s ELSE FillMany(cfg, FillStep(cfg, s, Head(vs)), Tail(vs))

(***************************************************************************)
(* Split.run around a fill/request branch: "A FillRequestSeq is filled     *)
(* with the buffer contents.  After the buffer is finished, it yields all  *)
(* values from request()"; on an empty flow request() is called once.      *)
(***************************************************************************)
RECURSIVE SplitBlocks(_, _, _)
SplitBlocks(cfg, s, blocks) ==
  IF blocks = <<>> THEN <<>>
  ELSE LET r == RequestStep(cfg, FillMany(cfg, s, Head(blocks)))
       IN r.res \o SplitBlocks(cfg, r.s, Tail(blocks))
\* the same, block by block: what each request() of Split returns (Split yields it before it reads the next buffer)
RECURSIVE SplitPer(_, _, _)
SplitPer(cfg, s, blocks) ==
  IF blocks = <<>> THEN <<>>
  ELSE LET r == RequestStep(cfg, FillMany(cfg, s, Head(blocks)))
       IN <<r.res>> \o SplitPer(cfg, r.s, Tail(blocks))
SplitPerBlock(cfg, xs, bs) ==
  IF xs = <<>> THEN <<RequestStep(cfg, S0).res>> ELSE SplitPer(cfg, S0, BlocksOf(xs, bs))
SplitAround(cfg, xs, bs) ==
  IF xs = <<>> THEN RequestStep(cfg, S0).res ELSE SplitBlocks(cfg, S0, BlocksOf(xs, bs))

(***************************************************************************)
(* FillRequestSeq(..., FillRequest(el, n, ...), ..., bufsize = n2).run:    *)
(* the outer adapter fills blocks of n2 values into the inner one and      *)
(* requests after each complete outer block (and after a final partial     *)
(* one iff the outer yield_on_remainder is set).                           *)
(***************************************************************************)
RECURSIVE SeqBlocks(_, _, _, _, _)
SeqBlocks(cfg, s, xs, n2, oyor) ==
  IF xs = <<>> THEN <<>>
  ELSE IF Len(xs) < n2
       THEN (IF oyor THEN RequestStep(cfg, FillMany(cfg, s, xs)).res ELSE <<>>)
       ELSE LET r == RequestStep(cfg, FillMany(cfg, s, SubSeq(xs, 1, n2)))
            IN r.res \o SeqBlocks(cfg, r.s, SubSeq(xs, n2 + 1, Len(xs)), n2, oyor)
FRSeqRun(cfg, xs, n2, oyor) == SeqBlocks(cfg, S0, xs, n2, oyor)

IsPrefix(a, b) == Len(a) <= Len(b) /\ a = SubSeq(b, 1, Len(a))
=============================================================================
