SPECIFICATION Spec
CONSTANTS MaxV = 9
  Lens = {2, 3, 4, 5, 6, 7}
  LongV = 12
  LongLens = {10, 11, 12}
INVARIANT Emitted
INVARIANT SearchCorrect
INVARIANT LoopInv
INVARIANT ExactGuessCovered
PROPERTY Shrinks
PROPERTY BodyAgrees
CHECK_DEADLOCK TRUE
