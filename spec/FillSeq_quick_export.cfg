SPECIFICATION Spec
CONSTANTS MaxPre = 2 MaxN = 4
  PreAlphabet <- AlphaSmall
  Accs <- AccsSmall
  Posts <- PostsSmall
  Pairs = {TRUE, FALSE}
  Drivers = {"fill"}
  Bufs <- BufOne
INVARIANT DriversAgree
INVARIANT FillReaches
INVARIANT StopSound
INVARIANT ComputeOnce
INVARIANT Emitted
CHECK_DEADLOCK FALSE
