SPECIFICATION Spec
CONSTANTS MaxPre = 2 MaxN = 4
  PreAlphabet <- AlphaSmall
  Accs <- AccsSmall
  Posts <- PostsSmall
  FlowKinds = {"bare", "pairs", "ctx"}
  Drivers = {"fill"}
  Places = {"alone"}
  CopyMode = "per_branch"
  Bufs <- BufOne
INVARIANT DriversAgree
INVARIANT FillReaches
INVARIANT StopSound
INVARIANT ComputeOnce
INVARIANT Emitted
CHECK_DEADLOCK FALSE
