SPECIFICATION Spec
CONSTANTS MaxLen = 2 MaxN = 4 Infinite = FALSE MaxOut = 100
  Vals = "nat" Stops = FALSE MaxRuns = 1 MaxLead = 2
  Alphabet <- AlphaObjT
  Must <- ObjC01T
  Pairs <- Both
INVARIANT OpEqDen
INVARIANT OutIsPrefix
INVARIANT Regroup
INVARIANT NoWorkBeforeDemand
INVARIANT NoDataInvisible
INVARIANT LeadUntouched
INVARIANT SliceIsPySlice
INVARIANT Buffers
INVARIANT Emitted
CHECK_DEADLOCK FALSE
