---------------------------- MODULE Trace_Cache ----------------------------
(***************************************************************************)
(* Validation of histories recorded from the real lena Cache pipelines     *)
(* (lenaverif/cachelib.py).  Trace is a sequence of histories              *)
(*   [mu, vk, nc, shape, ev]   ev = sequence of events (vk: the value codes *)
(*   of the flow of each data version; mu: the consumer modified every      *)
(*   value in place after it had recorded it - a value that comes back      *)
(*   with k such modifications is recorded as 10000 * k + value)            *)
(*   [cmd, a, res, v, c, rc, pulled, wpre, wmid]                           *)
(* cmd: new / drop / data / start / restart / next / stop / release (c = 1 in a next *)
(* that raised: the exception object is kept); res: what the consumer    *)
(* saw (ok, val, stop, inj = injected exception of element a, exc = any    *)
(* other exception); v: the value (decoded to 100 * version + index, -1    *)
(* when it is not a flow value passed through all downstream elements);    *)
(* pulled / wpre / wmid: the upstream counters after the command.          *)
(* All histories are explored side by side (one initial state each); a     *)
(* history is a behaviour of Cache.tla (Design = "allowed") iff some branch *)
(* of the nondeterministic spec reaches its end; <<"AT", index, j>> is     *)
(* printed for every state reached (events 1..j-1 accepted).               *)
(***************************************************************************)
EXTENDS Cache, IOUtils
Trace == JsonDeserialize(IOEnv.TRACE_FILE)
VARIABLES hi, j
tvars == <<rr, hd, mu, memo, lens, vk, nc, shape, held, hg, ver, file, stored, intr, ph, rc, L, eager, cont, pos, out, pulled, wpre, wmid, h, hi, j>>
Ev == Trace[hi].ev
TInit == /\ hi \in 1..Len(Trace) /\ j = 1
         /\ InitWith(TRUE, TRUE, Trace[hi].mu, Trace[hi].vk, Trace[hi].nc, Trace[hi].shape)
\* a run fed by cache l touches nothing before l (inside a Split, eg, the source is read by Split.run itself)
UntouchedE(l, eg, e) == l > 0 => (eg \/ e.pulled = 0) /\ e.wpre = 0 /\ (l = 2 => e.wmid = 0)
Untouched(l, e) == UntouchedE(l, eager, e)
Match(e) ==
  \/ e.cmd = "new" /\ e.res = "ok" /\ New(e.rc)
  \* drop_cache(): "remove file with cache if that exists, pass otherwise" - it never raises here (the scratch files
  \* can always be removed): no file at all (before any run, twice in a row), a recompute=True cache
  \/ e.cmd = "drop" /\ e.c \in 1..nc /\ e.res = "ok" /\ Drop(e.c)
  \/ e.cmd = "data" /\ ChangeData
  \/ e.cmd = "start" /\ e.res = "ok" /\ Start(e.a) /\ UntouchedE(L', eager', e)
  \/ e.cmd = "restart" /\ e.res = "ok" /\ Restart /\ UntouchedE(L', eager', e)
  \/ e.cmd = "next" /\ e.res = "val" /\ Deliver /\ e.v = Cur[pos + 1] /\ Untouched(L, e)
  \/ e.cmd = "next" /\ e.res = "stop" /\ Exhaust /\ Untouched(L, e)
  \/ e.cmd = "next" /\ e.res = "inj" /\ e.a \in Sites /\ RaiseAt(e.a, e.c = 1) /\ Untouched(L, e)
  \/ e.cmd = "next" /\ e.res = "exc" /\ BrokenRaise /\ Untouched(L, e)
  \/ e.cmd = "stop" /\ e.res = "ok" /\ Stop(e.a) /\ Untouched(L, e)
  \* (what was kept may have been a run that only loaded: nothing suspended, nothing happens)
  \/ e.cmd = "release" /\ e.res = "ok" /\ (IF held # {} THEN Release ELSE UNCHANGED vars)
TNext == /\ j <= Len(Ev) /\ Match(Ev[j]) /\ j' = j + 1 /\ hi' = hi
TSpec == TInit /\ [][TNext]_tvars
\* side effect: events 1..j-1 of history hi are accepted (the harness takes the maximum per history)
AtPrinted == PrintT(<<"AT", hi, j>>)
=============================================================================
