SPECIFICATION Spec
CONSTANTS MaxN = 10 Bound = 7 MaxStep = 4
INVARIANT StreamEqSlice
INVARIANT PrefixOfSlice
INVARIANT HeldBound
INVARIANT LagExact
INVARIANT C2NoPull
INVARIANT FillEqRun
INVARIANT StopOnlyWhenSafe
CHECK_DEADLOCK FALSE
