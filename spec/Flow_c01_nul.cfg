SPECIFICATION Spec
CONSTANTS MaxLen = 2 MaxN = 4 Infinite = FALSE MaxOut = 100
  Alphabet <- AlphaNul
  Pairs <- Both
INVARIANT OpEqDen
INVARIANT OutIsPrefix
INVARIANT Regroup
INVARIANT Emitted
CHECK_DEADLOCK FALSE
