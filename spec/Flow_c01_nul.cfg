SPECIFICATION Spec
CONSTANTS MaxLen = 2 MaxN = 4 Infinite = FALSE MaxOut = 100
  Vals = "nat" Stops = FALSE MaxRuns = 1 MaxLead = 0
  Alphabet <- AlphaNul
  Must <- NoMust
  Pairs <- Both
INVARIANT OpEqDen
INVARIANT OutIsPrefix
INVARIANT Regroup
INVARIANT Emitted
CHECK_DEADLOCK FALSE
