SPECIFICATION TSpec
INVARIANT EndPrinted
CHECK_DEADLOCK FALSE
