------------------------------- MODULE ConvFlow -------------------------------
(***************************************************************************)
(* Flows of SEVERAL values through ONE converting element object (C12).    *)
(*                                                                         *)
(* The conversions of the statement are specified per value: "ToCSV writes *)
(* one row per cell (plus the rows duplicating the last edge when          *)
(* requested)", hist_to_graph "one point per cell", rescaling "to s".      *)
(* Convert.tla / HistOps.tla explore one value per element.  Here one      *)
(* element object (ToCSV(duplicate_last_bin=D), HistToGraph(get_coordinate *)
(* = m), ScaleTo(s)) receives a flow of histograms, each with the options  *)
(* of its OWN context (output.duplicate_last_bin True / False / absent,    *)
(* output.to_csv resp. histogram.to_graph True / False / absent), in one   *)
(* run() or split over several run() calls of the same object.             *)
(*                                                                         *)
(* Code: lena/output/to_csv.py ToCSV.run, lena/structures/elements.py      *)
(* HistToGraph.run, ScaleTo.__call__.  Feed is one pass of the loop body,  *)
(* NewRun a further run() of the same object.  The loop bodies are written *)
(* like the code (get_recursively(context, key, default)); `mem' is what a *)
(* run / the object could remember of earlier values.  Memory = "none" is  *)
(* the documented behaviour ("If output.duplicate_last_bin is present in   *)
(* context, it takes precedence over this element's value" - otherwise the *)
(* element's value holds).  Memory = "local" (a variable of run() carried  *)
(* from value to value) and "self" (stored on the object, surviving run()) *)
(* are the wrong variants that TLC must refute (ConvFlow_sticky*.cfg).     *)
(*                                                                         *)
(* ElementStateless: the output for value i is a function of value i, its  *)
(* own context options and the constructor arguments only (Ref, written    *)
(* from the documentation with CsvRef / CellList).                         *)
(***************************************************************************)
EXTENDS HistOpsSem, TLC, Json

CONSTANTS MaxLen,    \* values per flow
          MaxRuns,   \* run() calls of the one object
          Kinds,     \* element kinds explored
          ConvOpts,  \* per-value settings of output.to_csv / histogram.to_graph
          Memory     \* "none" | "local" | "self"

VARIABLES elem,   \* constructor arguments [kind, dup, mode, s]
          pool,   \* the histograms of the flow, taken cyclically
          flow,   \* values fed so far: [hi, dup, conv, run]
          run,    \* number of the current run() call
          out,    \* what was yielded for each value
          mem     \* [dup, conv]: what the run / the object remembers
vars == <<elem, pool, flow, run, out, mem>>

\* contents as in Convert.tla: 1, 2, 3, ... in iteration order, or a mix with zeros and negatives
RECURSIVE PatB(_, _, _, _)
PatB(E, d, base, p) == IF d > Len(E) THEN (IF p = 1 THEN base + 1 ELSE ((base * 7) % 6) - 2)
                       ELSE [j \in 1..NB(E[d]) |-> PatB(E, d + 1, base + (j - 1) * NCellsFrom(E, d + 1), p)]
H(E, p) == [edges |-> E, bins |-> PatB(E, 1, 0, p)]
Rot(s, k) == [i \in 1..Len(s) |-> s[((i - 1 + k) % Len(s)) + 1]]
Rots(s) == {Rot(s, k) : k \in 0..(Len(s) - 1)}
\* ToCSV: 1-, 2- (non-square) and 3-dimensional values in one flow
MixedPool == <<H(<<<<0, 2, 6, 8>>>>, 1), H(<<<<0, 2, 6>>, <<-2, 4, 8, 10>>>>, 1), H(<<<<0, 2>>, <<0, 4>>, <<2, 4, 6>>>>, 1)>>
\* HistToGraph has its field names from the constructor: flows of one dimension
Pool1 == <<H(<<<<0, 2, 6, 8>>>>, 1), H(<<<<-4, 0, 2>>>>, 2), H(<<<<0, 2>>>>, 1)>>
Pool2 == <<H(<<<<0, 2, 6>>, <<-2, 4, 8, 10>>>>, 1), H(<<<<0, 4>>, <<0, 2, 4>>>>, 2), H(<<<<0, 2, 4, 10>>, <<6, 8>>>>, 1)>>
\* ScaleTo: the second histogram of ZeroPool has integral zero ("raises LenaValueError for a zero ... scale")
ZeroPool == <<H(<<<<0, 2, 6, 8>>>>, 1), [edges |-> <<<<0, 2, 4>>>>, bins |-> <<3, -3>>], H(<<<<0, 2, 6>>, <<-2, 4, 8, 10>>>>, 1)>>
PoolsOf(kind) == CASE kind = "ToCSV" -> Rots(MixedPool) \cup Rots(Pool2)
                   [] kind = "HistToGraph" -> Rots(Pool1) \cup Rots(Pool2)
                   [] kind = "ScaleTo" -> Rots(ZeroPool)
Elems == {[kind |-> "ToCSV", dup |-> d, mode |-> "", s |-> 0] : d \in BOOLEAN}
         \cup {[kind |-> "HistToGraph", dup |-> FALSE, mode |-> m, s |-> 0] : m \in {"left", "right", "middle"}}
         \cup {[kind |-> "ScaleTo", dup |-> FALSE, mode |-> "", s |-> s] : s \in {1, 3}}
\* the element's own settings: duplicate_last_bin of the constructor; conversion is on unless the context says no
Defaults(e) == [dup |-> e.dup, conv |-> TRUE]
DupOpts(kind) == IF kind = "ToCSV" THEN {"T", "F", "absent"} ELSE {"absent"}
ConvOptsOf(kind) == IF kind = "ScaleTo" THEN {"absent"} ELSE ConvOpts

Init == /\ elem \in {e \in Elems : e.kind \in Kinds}
        /\ pool \in PoolsOf(elem.kind)
        /\ flow = <<>> /\ out = <<>> /\ run = 1
        /\ mem = Defaults(elem)

HistOf(v) == pool[v.hi]
Pass == [kind |-> "pass", rows |-> <<>>, cols |-> <<>>, bins |-> <<>>, exc |-> ""]
Rows(r) == [Pass EXCEPT !.kind = "rows", !.rows = r]
Cols(c) == [Pass EXCEPT !.kind = "cols", !.cols = c]
Scaled(b) == [Pass EXCEPT !.kind = "scaled", !.bins = b]
Raised(e) == [Pass EXCEPT !.kind = "raise", !.exc = e]
RECURSIVE RatB(_, _)
RatB(b, k) == IF k = 0 THEN RI(b) ELSE [j \in 1..Len(b) |-> RatB(b[j], k - 1)]

(***************************************************************************)
(* The loop bodies, like the code.                                         *)
(***************************************************************************)
\* lena.context.get_recursively(context, key, default)
Get3(v, name, default) == IF v[name] # "absent" THEN v[name] = "T" ELSE default
\* the default handed to get_recursively: the element's value (documented) or what is remembered (wrong variants)
DefaultOf(name) == IF Memory = "none" THEN Defaults(elem)[name] ELSE mem[name]
ToCsvBody(v) ==
  LET h == HistOf(v)
      conv == Get3(v, "conv", DefaultOf("conv"))
  IN IF ~conv THEN [out |-> Pass, mem |-> [mem EXCEPT !.conv = conv]]
     ELSE LET dup == Get3(v, "dup", DefaultOf("dup"))
              m2 == [dup |-> dup, conv |-> conv]
          IN CASE Len(h.edges) = 1 -> [out |-> Rows(Csv1Op(h.bins, h.edges, dup)), mem |-> m2]
               [] Len(h.edges) = 2 -> [out |-> Rows(Csv2Op(h.bins, h.edges, dup)), mem |-> m2]
               [] OTHER -> [out |-> Pass, mem |-> m2]       \* "not implemented": yielded unchanged
ToGraphBody(v) ==
  LET h == HistOf(v)
      conv == Get3(v, "conv", DefaultOf("conv"))
  IN [out |-> IF conv THEN Cols(HistToGraphOp(h.bins, h.edges, elem.mode)) ELSE Pass,
      mem |-> [mem EXCEPT !.conv = conv]]
ScaleToBody(v) ==
  LET h == HistOf(v)
      r == ScaleOp(Hist(h.edges, RatB(h.bins, Len(h.edges)), RI(0), NoneR), RI(elem.s))
  IN [out |-> IF r.ok THEN Scaled(r.h.bins) ELSE Raised(r.exc), mem |-> mem]
LoopBody(v) == CASE elem.kind = "ToCSV" -> ToCsvBody(v)
             [] elem.kind = "HistToGraph" -> ToGraphBody(v)
             [] elem.kind = "ScaleTo" -> ScaleToBody(v)

\* one more value of the flow of the current run(): the next histogram with its own context options
Feed == /\ Len(flow) < MaxLen
        /\ \E d \in DupOpts(elem.kind), c \in ConvOptsOf(elem.kind) :
             LET v == [hi |-> (Len(flow) % Len(pool)) + 1, dup |-> d, conv |-> c, run |-> run]
                 r == LoopBody(v)
             IN flow' = Append(flow, v) /\ out' = Append(out, r.out) /\ mem' = r.mem
        /\ UNCHANGED <<elem, pool, run>>
\* the flow ends; the same object gets another run(): local variables start anew, attributes stay
NewRun == /\ run < MaxRuns /\ Len(flow) < MaxLen
          /\ Len(flow) > 0 /\ flow[Len(flow)].run = run
          /\ run' = run + 1
          /\ mem' = IF Memory = "self" THEN mem ELSE Defaults(elem)
          /\ UNCHANGED <<elem, pool, flow, out>>
Next == Feed \/ NewRun
Spec == Init /\ [][Next]_vars

(***************************************************************************)
(* Reference: the conversion of ONE value (documentation; CsvRef and       *)
(* CellList are the declarative operators of HistOpsSem).                  *)
(***************************************************************************)
CoordRef(mode, pair) == CASE mode = "left" -> pair[1] [] mode = "right" -> pair[2] [] mode = "middle" -> CHOOSE x \in pair[1]..pair[2] : 2 * x = pair[1] + pair[2]
Ref(e, h, v) ==
  LET E == h.edges
      B == h.bins
      CL == CellList(B, E)
  IN CASE e.kind = "ToCSV" ->
            IF v.conv = "F" \/ Len(E) > 2 THEN Pass
            ELSE Rows(CsvRef(B, E, IF v.dup = "absent" THEN e.dup ELSE v.dup = "T"))
       [] e.kind = "HistToGraph" ->
            IF v.conv = "F" THEN Pass
            ELSE Cols([k \in 1..(Len(E) + 1) |-> [j \in 1..NCells(E) |-> IF k <= Len(E) THEN CoordRef(e.mode, CL[j].e[k]) ELSE CL[j].v]])
       [] e.kind = "ScaleTo" ->
            LET rb == RatB(B, Len(E))
                old == Integral(rb, E)
            IN IF RIsZero(old) THEN Raised("LenaValueError")
               ELSE Scaled(ScaleB(rb, Len(E), RDiv(RI(e.s), old)))
\* the output for value i depends on value i, its own context and the constructor arguments only
ElementStateless == \A i \in 1..Len(out) : out[i] = Ref(elem, HistOf(flow[i]), flow[i])
OneOutputPerValue == Len(out) = Len(flow)
\* the rows requested: one per cell, plus those of the last edges when (and only when) requested for THIS value
RowCount == \A i \in 1..Len(out) : out[i].kind = "rows" =>
  LET E == HistOf(flow[i]).edges
      req == IF flow[i].dup = "absent" THEN elem.dup ELSE flow[i].dup = "T"
      x == IF req THEN 1 ELSE 0
  IN Len(out[i].rows) = (IF Len(E) = 1 THEN NB(E[1]) + x ELSE (NB(E[1]) + x) * (NB(E[2]) + x))

Emitted == Len(flow) = MaxLen => PrintT(ToJson([elem |-> elem, pool |-> pool, flow |-> flow, out |-> out]))
=============================================================================
