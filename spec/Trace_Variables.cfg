SPECIFICATION Spec
CONSTANTS ExtendByCompose = TRUE
POSTCONDITION Accepted
CHECK_DEADLOCK FALSE
