SPECIFICATION Spec
CONSTANTS ExtendByCompose = TRUE Variant = "doc"
POSTCONDITION Accepted
CHECK_DEADLOCK FALSE
