SPECIFICATION Spec
CONSTANTS MaxRuns = 1
  Scenarios <- ScQuick
INVARIANT Emitted
CHECK_DEADLOCK FALSE
