SPECIFICATION Spec
CONSTANTS MaxBr = 2 MaxN = 4 MaxRuns = 1
  Kinds <- KindsQuick
  BufSizes <- BufQuick
INVARIANT Emitted
CHECK_DEADLOCK FALSE
