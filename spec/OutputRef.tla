------------------------------ MODULE OutputRef ------------------------------
(***************************************************************************)
(* Declarative part of C19, written from the statement and the docstrings  *)
(* of lena.output.Write / LaTeXToPDF / PDFToPNG.  No variables: the same    *)
(* predicates are invariants of the operational model (Output.tla) and are  *)
(* evaluated on the runs recorded from the real chain (Trace_Output.tla).   *)
(*                                                                         *)
(* A file is [a |-> TRUE, t |-> 0, d |-> 0] (absent) or                     *)
(* [a |-> FALSE, t |-> template version, d |-> data version] (content):     *)
(*   csv  d = version of the data it was converted from (t = 0)             *)
(*   tex  t = version of the template it was rendered from (d = 0)          *)
(*   pdf  t, d = versions of the tex and the csv read by the converter      *)
(*   png  t, d = those of the pdf it was converted from                     *)
(* A version -1 stands for any content that was never produced.             *)
(***************************************************************************)
EXTENDS Integers, Sequences, FiniteSets, TLC

Absent == [a |-> TRUE, t |-> 0, d |-> 0]
C(t, d) == [a |-> FALSE, t |-> t, d |-> d]
Kinds == <<"csv", "tex", "pdf", "png">>

\* the files of one plot that the current data (version dv) and template (version tv) produce
Current(tv, dv) == [csv |-> C(0, dv), tex |-> C(tv, 0), pdf |-> C(tv, dv), png |-> C(tv, dv)]

\* every derived artefact has been regenerated if anything it was rendered from was rewritten
\* or if it was missing.  w: which of csv / tex were written in this run, l: which converters ran,
\* pre: the files before the run
RegeneratedPdf(pre, w, l) == (w.csv \/ w.tex \/ pre.pdf.a) => l.pdf
RegeneratedPng(pre, l) == (l.pdf \/ pre.png.a) => l.png

\* output.changed of the yielded value: true whenever a file's content changed, and it stays true
\* downstream (so every later artefact is redone)
ChangedFlag(ch, w, l) == (w.csv \/ w.tex \/ l.pdf \/ l.png) => ch = "T"
\* (model only - the statement does not ask for it) a value for which nothing was done is not "changed"
ChangedExact(ch, w, l) == ch = "T" => l.png

\* a run whose inputs are unchanged rewrites no file and launches no converter
Nothing(w, l) == ~w.csv /\ ~w.tex /\ ~l.pdf /\ ~l.png
=============================================================================
