------------------------------ MODULE OutputRef ------------------------------
(***************************************************************************)
(* Declarative part of C19, written from the statement and the docstrings  *)
(* of lena.output.Write / LaTeXToPDF / PDFToPNG.  No variables: the same    *)
(* predicates are invariants of the operational model (Output.tla) and are  *)
(* evaluated on the runs recorded from the real chain (Trace_Output.tla).   *)
(*                                                                         *)
(* A plot has one or several sources (several: a group made by GroupBy /    *)
(* group_plots / MapGroup, rendered into ONE tex, pdf and png).             *)
(* A file is [a |-> TRUE, t |-> 0, d |-> <<>>] (absent) or                  *)
(* [a |-> FALSE, t |-> template version, d |-> data versions] (content):    *)
(*   csv[m] d = <<version of the data of source m>> (t = 0)                 *)
(*   tex    t = version of the template it was rendered from (d = <<>>)     *)
(*   pdf    t, d = versions of the tex and of every csv read by the         *)
(*          converter                                                       *)
(*   png    t, d = those of the pdf it was converted from                   *)
(* A version -1 stands for any content that was never produced.             *)
(***************************************************************************)
EXTENDS Integers, Sequences, FiniteSets, TLC

Absent == [a |-> TRUE, t |-> 0, d |-> <<>>]
C(t, d) == [a |-> FALSE, t |-> t, d |-> d]

\* the files of one plot that the current data (versions dvs, one per source) and template (tv) produce
Current(tv, dvs) == [csv |-> [m \in 1..Len(dvs) |-> C(0, <<dvs[m]>>)], tex |-> C(tv, <<>>),
                     pdf |-> C(tv, dvs), png |-> C(tv, dvs)]

\* w = [csv: which sources were written in this run, tex], l = [pdf, png: which converters ran],
\* pre = the files before the run
AnyCsv(w) == \E m \in 1..Len(w.csv) : w.csv[m]
\* every derived artefact has been regenerated if anything it was rendered from was rewritten
\* or if it was missing
RegeneratedPdf(pre, w, l) == (AnyCsv(w) \/ w.tex \/ pre.pdf.a) => l.pdf
RegeneratedPng(pre, l) == (l.pdf \/ pre.png.a) => l.png

\* output.changed of the yielded value: true whenever a file's content changed, and it stays true
\* downstream (so every later artefact is redone)
ChangedFlag(ch, w, l) == (AnyCsv(w) \/ w.tex \/ l.pdf \/ l.png) => ch = "T"
\* (model only - the statement does not ask for it) a value for which nothing was done is not "changed"
ChangedExact(ch, w, l) == ch = "T" => l.png

\* a run whose inputs are unchanged rewrites no file and launches no converter
Nothing(w, l) == ~AnyCsv(w) /\ ~w.tex /\ ~l.pdf /\ ~l.png
=============================================================================
