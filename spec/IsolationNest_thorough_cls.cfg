SPECIFICATION Spec
CONSTANTS Ns = {2} CopyMode = "deep"
  BufSizes <- BufAll
  Classes <- OtherClasses
  Family = "quick"
INVARIANT Isolated
INVARIANT YieldedStable
INVARIANT Emitted
CHECK_DEADLOCK FALSE
