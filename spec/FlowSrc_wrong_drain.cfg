SPECIFICATION SSpec
CONSTANTS MaxLen = 2 MaxN = 3 Infinite = TRUE MaxOut = 4
  Vals = "nat" Stops = TRUE MaxRuns = 1 MaxLead = 0 MaxHints = 0 Wrong = "drain-on-release"
  Alphabet <- AlphaSrcMC
  SrcKinds <- MCKinds
  Must <- NoMust
  Pairs <- OnlyPairs
PROPERTY NoPullAfterStop
CONSTRAINT Bounded
CHECK_DEADLOCK FALSE
