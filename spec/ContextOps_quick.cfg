SPECIFICATION Spec
CONSTANTS
  KeyOrder <- KO2
  Ctxs <- CtxQ2
  Flows <- SingleFlows
  Calls <- CallsQuick
INVARIANT GetIsRef
INVARIANT ContainsIsRef
INVARIANT FormatIsRef
INVARIANT UpdateIsRef
INVARIANT DeleteIsRef
INVARIANT NotationsAgree
INVARIANT FuwIsRef
PROPERTY QueriesPure
PROPERTY ElementStateless
CHECK_DEADLOCK FALSE
