SPECIFICATION Spec
CONSTANTS
  KeyOrder <- KO2
  Ctxs <- CtxQ2
  Calls <- CallsQuick
INVARIANT GetIsRef
INVARIANT ContainsIsRef
INVARIANT FormatIsRef
INVARIANT UpdateIsRef
INVARIANT DeleteIsRef
INVARIANT FuwIsRef
PROPERTY QueriesPure
CHECK_DEADLOCK FALSE
