SPECIFICATION Spec
CONSTANTS
  StripMode = "firstdot"
  TailLen = 2
  Rotate = FALSE
INVARIANT Named
INVARIANT Where
INVARIANT YieldedNamesLast
INVARIANT Distinct
INVARIANT StatedDistinct
INVARIANT ScenarioOK

CHECK_DEADLOCK FALSE
