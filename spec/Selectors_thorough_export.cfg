SPECIFICATION XSpec
CONSTANTS U = "ex2" F = "one"
INVARIANT EmitVec
CHECK_DEADLOCK FALSE
