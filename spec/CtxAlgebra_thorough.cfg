SPECIFICATION Spec
CONSTANTS
  K = {"a", "b"}
  NC = 3
  Levels <- LevelsThorough
  Ops <- AllOps
  UPair <- V2r
  UTriple <- V1
INVARIANT InterIsRef
INVARIANT DiffIsRef
INVARIANT UpdRecIsRef
INVARIANT InterKeepsClass
INVARIANT NestedIsRef
PROPERTY ArgsUnchanged
CHECK_DEADLOCK FALSE
