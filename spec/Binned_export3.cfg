SPECIFICATION Spec
CONSTANTS MaxRuns = 3
  DataSets <- DataExport3
  BranchLists <- BrExport3
  BufSizes = {0, 2, 1000}
  EdgesX <- EX1
  EdgesY <- EY0
  EdgesH <- EH2
  WriteAlways = FALSE
  ClosedLast = FALSE
INVARIANT PerCell
INVARIANT FilesRef
INVARIANT NoRedo
INVARIANT RedoRef
INVARIANT RunIsSem
INVARIANT Emitted
CHECK_DEADLOCK FALSE
