SPECIFICATION Spec
CONSTANTS PairSrc = "filesmall" CtxU = "ops3" MaxFlow = 3 KeyU = "six" Writ = "ends" NObj = 1
INVARIANT EmitFlow
CHECK_DEADLOCK FALSE
