SPECIFICATION Spec
CONSTANTS
  KeyOrder <- KO2
  Ctxs <- OneCtx
  Flows <- SingleFlows
  Calls <- MakeCalls
INVARIANT GetIsRef
INVARIANT ContainsIsRef
INVARIANT FormatIsRef
INVARIANT UpdateIsRef
INVARIANT DeleteIsRef
INVARIANT NotationsAgree
INVARIANT FuwIsRef
INVARIANT ContainsAgreesWithGet
INVARIANT GetAfterStrToDict
INVARIANT FormatExact
INVARIANT CanonInjective
INVARIANT Frame
INVARIANT UpdateTarget
INVARIANT UpdateMissing
INVARIANT DeleteExact
INVARIANT FuwExact
INVARIANT OnlyDocumentedExceptions
PROPERTY ElementStateless
CHECK_DEADLOCK FALSE
