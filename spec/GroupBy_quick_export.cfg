SPECIFICATION XSpec
CONSTANTS PairSrc = "file" CtxU = "falsyq" MaxFlow = 0 KeyU = "six"
INVARIANT EmitClasses
CHECK_DEADLOCK FALSE
