SPECIFICATION XSpec
CONSTANTS PairSrc = "file" CtxU = "mid" MaxFlow = 0 KeyU = "six"
INVARIANT EmitClasses
CHECK_DEADLOCK FALSE
