SPECIFICATION XSpec
CONSTANTS PairSrc = "file" CtxU = "falsyq" MaxFlow = 0 KeyU = "six" Writ = "ends" NObj = 0
INVARIANT EmitClasses
CHECK_DEADLOCK FALSE
