SPECIFICATION XSpec
CONSTANTS PairSrc = "file" CtxU = "falsyq" MaxFlow = 0 KeyU = "six" Writ = "ends"
INVARIANT EmitClasses
CHECK_DEADLOCK FALSE
