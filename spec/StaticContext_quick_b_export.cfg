SPECIFICATION Spec
CONSTANTS MaxTok = 5 MaxDepth = 3
  Leaves <- LeavesTiny
  RootKinds <- SeqRoots
  StoreByCopy = TRUE
  TailKeepsSets = TRUE
INVARIANT Emitted
CHECK_DEADLOCK FALSE
