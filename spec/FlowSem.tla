------------------------------ MODULE FlowSem ------------------------------
(***************************************************************************)
(* Stage vocabulary and declarative semantics of Lena pipelines.           *)
(* No constants or variables: used by Flow.tla (coroutine machine),        *)
(* FillSeq.tla and by Trace_Flow.tla (validation of recorded runs).        *)
(* Each stage kind is given by InitLoc / OnHave / OnEof / EarlyDone,       *)
(* written from the element's run method:                                  *)
(*   map     adapters.Run._call_run, Variable, UpdateContext, MakeFilename *)
(*   filter  lena/flow/filter.py Filter.run                                *)
(*   slice   lena/flow/iterators.py Slice.run (itertools.islice)           *)
(*   lagk, lastk   Slice._run_negative_islice branches A and C1            *)
(*   count   lena/flow/elements.py Count.run   runif  RunIf.run            *)
(*   reverse, end  Reverse.run, End.run                                    *)
(*   sum, last     fill/compute elements through adapters.Run._fc_run      *)
(*   split   lena/core/split.py Split.run with map/filter/Sum branches     *)
(***************************************************************************)
EXTENDS Integers, Sequences, FiniteSets, TLC

Inf == 1000
None == -1000
NoneD == -999      \* the data value None (harness callables and predicates treat it as this number)

(***************************************************************************)
(* Values: data is an integer, context is abstracted to a set of marks,    *)
(* h says whether the value is a (data, context) pair.                     *)
(***************************************************************************)
Val(d, c, h) == [d |-> d, c |-> c, h |-> h]

ApplyMap(f, v) ==
  CASE f = "inc" -> [v EXCEPT !.d = @ + 1]
    [] f = "dbl" -> [v EXCEPT !.d = @ * 2]
    [] f = "id" -> v                                                  \* Print, Context
    [] f = "nul" -> IF v.h \/ v.d % 2 = 0 THEN v ELSE [v EXCEPT !.d = NoneD]   \* user callable returning None
                                                  \* for odd bare data: None is a value like any other
    [] f = "tag" -> [v EXCEPT !.c = @ \cup {"t"}, !.h = TRUE]          \* user callable adding a key
    [] f = "var" -> [d |-> v.d + 10, c |-> v.c \cup {"variable"}, h |-> TRUE]   \* Variable("x", +10)
    \* a Variable whose description has keys named like methods (run="2023A", fill=1): Variable.__getattr__
    \* exposes them as DATA attributes; an element is recognised by callable methods, so it is a callable
    [] f = "varattr" -> [d |-> v.d + 10, c |-> v.c \cup {"variable"}, h |-> TRUE]
    [] f = "upd" -> [v EXCEPT !.c = @ \cup {"k"}, !.h = TRUE]          \* UpdateContext("k", 1)
    [] f = "mkfn" -> [v EXCEPT !.c = @ \cup {"output"}, !.h = TRUE]    \* MakeFilename("out")

Pred(p, v) == CASE p = "even" -> v.d % 2 = 0
                [] p = "lt2" -> v.d < 2
                [] p = "none" -> FALSE
                [] p = "all" -> TRUE

(***************************************************************************)
(* Stage descriptors.                                                      *)
(***************************************************************************)
Map(f) == [t |-> "map", f |-> f]
Filter(p) == [t |-> "filter", p |-> p]
Slice(a, b, s) == [t |-> "slice", a |-> a, b |-> b, s |-> s]   \* non-negative, itertools.islice
LagK(k) == [t |-> "lagk", k |-> k]        \* Slice(-k): all but the last k
LastK(k) == [t |-> "lastk", k |-> k]      \* Slice(-k, None): the last k
Count == [t |-> "count"]
RunIf(p, f) == [t |-> "runif", p |-> p, f |-> f]    \* f = "drop": the inner sequence yields nothing
Reverse == [t |-> "reverse"]
End == [t |-> "end"]
Sum == [t |-> "sum"]                      \* fill/compute accumulator run through adapters.Run
Last == [t |-> "last"]                    \* user fill/compute element: yields the last filled value
SplitSt(brs, bs) == [t |-> "split", brs |-> brs, bs |-> bs]   \* branches: Map(f) | Filter(p) | Sum | SeqSum(f)
SeqSum(f) == [t |-> "seqsum", f |-> f]      \* the Sequence object (f, Sum()) as a branch
Bad(k) == [t |-> "bad", k |-> k]          \* not convertible to an element

Streaming(st) == st.t \in {"map", "filter", "slice", "lagk", "count", "runif", "split"}

InitLoc(st) ==
  CASE st.t = "slice" -> [cnt |-> 0, nxt |-> st.a]
    [] st.t \in {"lagk", "lastk"} -> [dq |-> <<>>, got |-> 0, put |-> 0]
    [] st.t = "count" -> [has |-> FALSE, prev |-> Val(0, {}, FALSE), n |-> 0]
    [] st.t = "reverse" -> [buf |-> <<>>]
    [] st.t = "sum" -> [tot |-> 0, c |-> {}]
    [] st.t = "last" -> [has |-> FALSE, prev |-> Val(0, {}, FALSE)]
    [] st.t = "split" -> [buf |-> <<>>, tot |-> [j \in 1..Len(st.brs) |-> 0],
                          c |-> [j \in 1..Len(st.brs) |-> {}], any |-> FALSE]
    [] OTHER -> [z |-> 0]

CountMark(n) == "count=" \o ToString(n)
\* Count stores its result under the single context key "count": a later Count overwrites an earlier one
CountMarks == {CountMark(k) : k \in 0..200}
RECURSIVE Rev(_)
Rev(xs) == IF xs = <<>> THEN <<>> ELSE Append(Rev(Tail(xs)), Head(xs))
SumVal(tot, c) == Val(tot, c, c # {})

\* ---- Split as a stage: per block, branch by branch ----
RECURSIVE BranchBlock(_, _)
BranchBlock(br, blk) ==      \* results a per-value branch yields for a block
  IF blk = <<>> THEN <<>>
  ELSE (CASE br.t = "map" -> <<ApplyMap(br.f, Head(blk))>>
          [] br.t = "filter" -> IF Pred(br.p, Head(blk)) THEN <<Head(blk)>> ELSE <<>>
          [] OTHER -> <<>>) \o BranchBlock(br, Tail(blk))
RECURSIVE SumD(_)
SumD(blk) == IF blk = <<>> THEN 0 ELSE Head(blk).d + SumD(Tail(blk))
\* a branch given as a Sequence OBJECT (f, Sum()): a "sequence" branch, run once per block; Sum is
\* not reset between runs, so it yields the running total after every block.  However the elements
\* of that branch are grouped into nested Sequences, it stays a per-block branch (regrouping).
Mapped(f, blk) == [i \in 1..Len(blk) |-> ApplyMap(f, blk[i])]
SeqSumTot(br, loc, j, blk) == loc.tot[j] + SumD(Mapped(br.f, blk))
SeqSumCtx(br, loc, j, blk) == IF blk # <<>> THEN ApplyMap(br.f, blk[Len(blk)]).c ELSE loc.c[j]
RECURSIVE BlockOut(_, _, _, _, _)
BlockOut(brs, loc, j, blk, eof) ==
  IF j > Len(brs) THEN <<>>
  ELSE (IF brs[j].t = "seqsum"
        THEN (IF blk # <<>> \/ (eof /\ ~loc.any)       \* every block; an empty flow: invoked once
              THEN <<SumVal(SeqSumTot(brs[j], loc, j, blk), SeqSumCtx(brs[j], loc, j, blk))>> ELSE <<>>)
        ELSE BranchBlock(brs[j], blk)) \o BlockOut(brs, loc, j + 1, blk, eof)
SplitBlock(st, loc, blk, eof) ==    \* new loc and emitted values after one block
  [loc |-> [buf |-> <<>>,
            tot |-> [j \in 1..Len(st.brs) |-> IF st.brs[j].t = "sum" THEN loc.tot[j] + SumD(blk)
                                              ELSE IF st.brs[j].t = "seqsum" THEN SeqSumTot(st.brs[j], loc, j, blk)
                                              ELSE 0],
            c |-> [j \in 1..Len(st.brs) |-> IF st.brs[j].t = "sum" /\ blk # <<>> THEN blk[Len(blk)].c
                                            ELSE IF st.brs[j].t = "seqsum" THEN SeqSumCtx(st.brs[j], loc, j, blk)
                                            ELSE loc.c[j]],
            any |-> loc.any \/ blk # <<>>],
   em |-> BlockOut(st.brs, loc, 1, blk, eof)]
RECURSIVE SplitFinal(_, _, _)
SplitFinal(st, loc, j) == IF j > Len(st.brs) THEN <<>>
   ELSE (IF st.brs[j].t = "sum" THEN <<SumVal(loc.tot[j], loc.c[j])>> ELSE <<>>) \o SplitFinal(st, loc, j + 1)

\* [loc, em]: new local state and emitted values when the stage receives v
OnHave(st, loc, v) ==
  CASE st.t = "map" -> [loc |-> loc, em |-> <<ApplyMap(st.f, v)>>]
    [] st.t = "filter" -> [loc |-> loc, em |-> IF Pred(st.p, v) THEN <<v>> ELSE <<>>]
    [] st.t = "slice" ->
         IF loc.cnt < loc.nxt THEN [loc |-> [loc EXCEPT !.cnt = @ + 1], em |-> <<>>]      \* skipped
         ELSE [loc |-> [cnt |-> loc.cnt + 1,
                        nxt |-> IF st.b # None /\ loc.nxt + st.s > st.b THEN st.b ELSE loc.nxt + st.s],
               em |-> <<v>>]
    [] st.t = "lagk" -> IF Len(loc.dq) < st.k
                        THEN [loc |-> [dq |-> Append(loc.dq, v), got |-> loc.got + 1, put |-> loc.put], em |-> <<>>]
                        ELSE [loc |-> [dq |-> Append(Tail(loc.dq), v), got |-> loc.got + 1, put |-> loc.put + 1],
                              em |-> <<Head(loc.dq)>>]
    [] st.t = "lastk" -> [loc |-> [dq |-> IF Len(loc.dq) = st.k THEN Append(Tail(loc.dq), v) ELSE Append(loc.dq, v),
                                   got |-> loc.got + 1, put |-> 0], em |-> <<>>]
    [] st.t = "count" -> [loc |-> [has |-> TRUE, prev |-> v, n |-> loc.n + 1],
                          em |-> IF loc.has THEN <<loc.prev>> ELSE <<>>]
    [] st.t = "runif" -> [loc |-> loc, em |-> IF Pred(st.p, v)
                                               THEN (IF st.f = "drop" THEN <<>> ELSE <<ApplyMap(st.f, v)>>)
                                               ELSE <<v>>]
    [] st.t = "reverse" -> [loc |-> [buf |-> Append(loc.buf, v)], em |-> <<>>]
    [] st.t = "end" -> [loc |-> loc, em |-> <<>>]
    [] st.t = "sum" -> [loc |-> [tot |-> loc.tot + v.d, c |-> v.c], em |-> <<>>]
    [] st.t = "last" -> [loc |-> [has |-> TRUE, prev |-> v], em |-> <<>>]
    [] st.t = "split" -> LET l2 == [loc EXCEPT !.buf = Append(@, v)] IN
                         IF Len(l2.buf) = st.bs THEN SplitBlock(st, l2, l2.buf, FALSE) ELSE [loc |-> l2, em |-> <<>>]

\* values emitted when the stage finds its input exhausted
OnEof(st, loc) ==
  CASE st.t = "count" -> IF loc.has THEN <<[loc.prev EXCEPT !.c = (@ \ CountMarks) \cup {CountMark(loc.n)}, !.h = TRUE]>> ELSE <<>>
    [] st.t = "lastk" -> loc.dq
    [] st.t = "reverse" -> Rev(loc.buf)
    [] st.t = "sum" -> <<SumVal(loc.tot, loc.c)>>
    [] st.t = "last" -> IF loc.has THEN <<loc.prev>> ELSE <<>>
    [] st.t = "split" -> LET r == SplitBlock(st, loc, loc.buf, TRUE) IN r.em \o SplitFinal(st, r.loc, 1)
    [] OTHER -> <<>>

\* the stage stops without asking its input again
EarlyDone(st, loc) == st.t = "slice" /\ st.b # None /\ loc.cnt >= loc.nxt /\ loc.cnt >= st.b

(***************************************************************************)
(* Declarative semantics.                                                  *)
(***************************************************************************)
\* run one stage over an input prefix; eof says whether the input ends after the prefix.
\* Result: emitted values and whether the stage has finished.
RECURSIVE StageRun(_, _, _, _)
StageRun(st, loc, xs, eof) ==
  IF EarlyDone(st, loc) THEN [out |-> <<>>, fin |-> TRUE]
  ELSE IF xs = <<>> THEN (IF eof THEN [out |-> OnEof(st, loc), fin |-> TRUE] ELSE [out |-> <<>>, fin |-> FALSE])
  ELSE LET r == OnHave(st, loc, Head(xs))
           rest == StageRun(st, r.loc, Tail(xs), eof)
       IN [out |-> r.em \o rest.out, fin |-> rest.fin]
RECURSIVE PipeRun(_, _, _)
PipeRun(prog, xs, eof) ==
  IF prog = <<>> THEN [out |-> xs, fin |-> eof]
  ELSE LET r == StageRun(Head(prog), InitLoc(Head(prog)), xs, eof) IN PipeRun(Tail(prog), r.out, r.fin)
Sem(prog, xs) == PipeRun(prog, xs, TRUE).out

Take(xs, m) == SubSeq(xs, 1, IF m < Len(xs) THEN m ELSE Len(xs))
\* least number of input values after which the pipeline has produced j results
RECURSIVE MinNeedFrom(_, _, _, _)
MinNeedFrom(prog, xs, j, m) ==
  IF Len(PipeRun(prog, Take(xs, m), FALSE).out) >= j THEN m
  ELSE IF m >= Len(xs) THEN Len(xs)       \* needs the end of the flow
  ELSE MinNeedFrom(prog, xs, j, m + 1)
MinNeed(prog, xs, j) == MinNeedFrom(prog, xs, j, 0)

=============================================================================
