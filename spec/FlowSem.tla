------------------------------ MODULE FlowSem ------------------------------
(***************************************************************************)
(* Stage vocabulary and declarative semantics of Lena pipelines.           *)
(* No constants or variables: used by Flow.tla (coroutine machine),        *)
(* FillSeq.tla and by Trace_Flow.tla (validation of recorded runs).        *)
(* Each stage kind is given by InitLoc / OnHave / OnEof / EarlyDone,       *)
(* written from the element's run method:                                  *)
(*   map     adapters.Run._call_run, Variable, UpdateContext, MakeFilename *)
(*           Print, Context; callables given as functions, classes, bound  *)
(*           methods, functools.partial                                    *)
(*   nodata  an element without data (lena.meta.SetContext): LenaSequence  *)
(*           keeps it out of _data_seq, the flow does not see it           *)
(*   filter  lena/flow/filter.py Filter.run                                *)
(*   slice   lena/flow/iterators.py Slice.run (itertools.islice)           *)
(*   lagk, lastk   Slice._run_negative_islice branches A and C1            *)
(*   nslice  Slice._run_negative_islice, all six sign patterns with step   *)
(*   count   lena/flow/elements.py Count.run   runif  RunIf.run            *)
(*   reverse, end  Reverse.run, End.run                                    *)
(*   sum, last, lastattr  fill/compute elements through Run._fc_run        *)
(*   split   lena/core/split.py Split.run: no branches (identity), per     *)
(*           value branches, Sequence branches run per block (seqbr,       *)
(*           seqsum, nested Split), fill/compute branches (sum, fcsum);    *)
(*           bufsize a number or None (the whole flow is one block);       *)
(*           copy_buf TRUE / FALSE (the branches get copies of the block   *)
(*           or the block itself: the same stream transformation)          *)
(*   hosted  any of the above given as an object whose class is also a     *)
(*           tuple (named tuple) / list / dict subclass or compares equal  *)
(*           to everything: what makes an element is its run / __call__ /  *)
(*           fill+compute, the rest of its class is irrelevant             *)
(***************************************************************************)
EXTENDS Integers, Sequences, FiniteSets, TLC

Inf == 1000
None == -1000
NoneD == -999      \* the data value None (harness callables and predicates treat it as this number)
\* data values that look like "nothing": False, "", {}, [], () (the harness maps them to these numbers)
FalseD == -2010
EStrD == -2020
EDictD == -2030
EListD == -2040
ETupD == -2050

(***************************************************************************)
(* Values: data is an integer, context is abstracted to a set of marks,    *)
(* h says whether the value is a (data, context) pair.                     *)
(***************************************************************************)
Val(d, c, h) == [d |-> d, c |-> c, h |-> h]

\* a flow of values an implementation may confuse with "nothing", bare values and pairs mixed
SpecialFlow == << Val(0, {}, FALSE), Val(NoneD, {}, FALSE), Val(EDictD, {}, FALSE), Val(NoneD, {}, TRUE),
                  Val(FalseD, {}, FALSE), Val(EStrD, {}, TRUE), Val(EListD, {}, FALSE), Val(0, {}, TRUE),
                  Val(ETupD, {}, FALSE), Val(1, {"a"}, TRUE),
                  Val(2, {"a"}, TRUE) >>     \* the last one is a namedtuple pair with an OrderedDict context

ApplyMap(f, v) ==
  CASE f \in {"inc", "cls", "meth", "part"} -> [v EXCEPT !.d = @ + 1]  \* one function, given as a def / a class /
                                                                      \* a bound method / a functools.partial
    [] f = "dbl" -> [v EXCEPT !.d = @ * 2]
    [] f \in {"id", "print"} -> v                                     \* Context, Print
    [] f = "nul" -> IF v.h \/ v.d % 2 = 0 THEN v ELSE [v EXCEPT !.d = NoneD]   \* user callable returning None
                                                  \* for odd bare data: None is a value like any other
    [] f = "tag" -> [v EXCEPT !.c = @ \cup {"t"}, !.h = TRUE]          \* user callable adding a key
    [] f = "var" -> [d |-> v.d + 10, c |-> v.c \cup {"variable"}, h |-> TRUE]   \* Variable("x", +10)
    \* a Variable whose description has keys named like methods (run="2023A", fill=1): Variable.__getattr__
    \* exposes them as DATA attributes; an element is recognised by callable methods, so it is a callable
    [] f = "varattr" -> [d |-> v.d + 10, c |-> v.c \cup {"variable"}, h |-> TRUE]
    [] f = "upd" -> [v EXCEPT !.c = @ \cup {"k"}, !.h = TRUE]          \* UpdateContext("k", 1)
    [] f = "mkfn" -> [v EXCEPT !.c = @ \cup {"output"}, !.h = TRUE]    \* MakeFilename("out")

Pred(p, v) == CASE p = "even" -> v.d % 2 = 0
                [] p = "lt2" -> v.d < 2
                [] p = "none" -> FALSE
                [] p = "all" -> TRUE

(***************************************************************************)
(* Stage descriptors.                                                      *)
(***************************************************************************)
Map(f) == [t |-> "map", f |-> f]
NoData == [t |-> "nodata"]                \* SetContext("s", 1): takes no part in the flow
NoDataK(k) == [t |-> "nodata", k |-> k]   \* k = "store": StoreContext(); k = "set2": SetContext("d.e", "f")
Filter(p) == [t |-> "filter", p |-> p]
Slice(a, b, s) == [t |-> "slice", a |-> a, b |-> b, s |-> s]   \* non-negative, itertools.islice
LagK(k) == [t |-> "lagk", k |-> k]        \* Slice(-k): all but the last k
LastK(k) == [t |-> "lastk", k |-> k]      \* Slice(-k, None): the last k
NSlice(a, b, s) == [t |-> "nslice", a |-> a, b |-> b, s |-> s]   \* Slice(a, b, s), a or b negative, s >= 1
Count == [t |-> "count"]
RunIf(p, f) == [t |-> "runif", p |-> p, f |-> f]    \* f = "drop": the inner sequence yields nothing;
                                                    \* f = "bad": the inner argument is not an element
\* RunIf(select, e1, ..., en): the arguments form a Sequence (in any bracketing) that is run for each selected value
RunIfS(p, body) == [t |-> "runifs", p |-> p, body |-> body]
\* a plain callable that raises an exception (e: "stop" StopIteration, "value" ValueError, "lena" LenaValueError)
\* for the value whose data is at, and is the identity otherwise
Raiser(at, e) == [t |-> "raiser", at |-> at, e |-> e]
Reverse == [t |-> "reverse"]
End == [t |-> "end"]
Sum == [t |-> "sum"]                      \* fill/compute accumulator run through adapters.Run
Last == [t |-> "last"]                    \* user fill/compute element: yields the last filled value
LastAttr == [t |-> "lastattr"]            \* the same with a data attribute named run (run = "2023A")
\* branches: Map(f) | Filter(p) | Sum | SeqSum(f) | FcSum(f) | SeqBr(body) | Bad(k); bs: a number or None
\* cb: Split(..., copy_buf=cb).  The branches of the vocabulary do not change the values they are given in
\* place, so the stream transformation and the pull schedule are the same for both settings.
SplitC(brs, bs, cb) == [t |-> "split", brs |-> brs, bs |-> bs, cb |-> cb]
SplitSt(brs, bs) == SplitC(brs, bs, TRUE)
SeqSum(f) == [t |-> "seqsum", f |-> f]      \* the Sequence object (f, Sum()) as a branch
FcSum(f) == [t |-> "fcsum", f |-> f]        \* the tuple (f, Sum()) as a branch: a fill/compute sequence
SeqBr(body) == [t |-> "seqbr", body |-> body]   \* Sequence(*body) of reusable stages as a branch (run per block)
Bad(k) == [t |-> "bad", k |-> k]          \* not convertible to an element
\* the element el given as an object of a class that is ALSO something else.  h: "nt" a named tuple whose fields
\* are numbers (parameters of the element), "ntf" a named tuple whose fields are other callables, "list" a list
\* subclass holding a callable, "dict" an (empty, hence false) dict subclass, "eq" an object equal to everything.
\* It is the same element: all of the semantics below go through Core.
Hosted(h, el) == [t |-> "hosted", h |-> h, el |-> el]
Core(st) == IF st.t = "hosted" THEN st.el ELSE st

Streaming(st) == Core(st).t \in {"map", "nodata", "filter", "slice", "lagk", "nslice", "count", "runif", "split"}

\* which branch of Slice._run_negative_islice applies
NsBranch(st) == IF st.a = None THEN "A"                  \* only a negative stop
                ELSE IF st.a >= 0 THEN "B"               \* start >= 0, stop < 0
                ELSE IF st.b = None THEN "C1"            \* start < 0, no stop
                ELSE IF st.b <= st.a THEN "C2"           \* stop <= start < 0: nothing
                ELSE IF st.b < 0 THEN "C3"               \* start < stop < 0
                ELSE "C4"                                \* start < 0 <= stop

InitLoc0(st) ==
  CASE st.t = "slice" -> [cnt |-> 0, nxt |-> st.a]
    [] st.t \in {"lagk", "lastk"} -> [dq |-> <<>>, got |-> 0, put |-> 0]
    [] st.t = "nslice" -> [dq |-> <<>>, got |-> 0, ny |-> 0, dead |-> FALSE]
    [] st.t = "count" -> [has |-> FALSE, prev |-> Val(0, {}, FALSE), n |-> 0]
    [] st.t = "reverse" -> [buf |-> <<>>]
    [] st.t = "sum" -> [tot |-> 0, c |-> {}]
    [] st.t \in {"last", "lastattr"} -> [has |-> FALSE, prev |-> Val(0, {}, FALSE)]
    [] st.t = "split" -> [buf |-> <<>>, tot |-> [j \in 1..Len(st.brs) |-> 0],
                          c |-> [j \in 1..Len(st.brs) |-> {}], any |-> FALSE]
    [] OTHER -> [z |-> 0]

CountMark(n) == "count=" \o ToString(n)
\* Count stores its result under the single context key "count": a later Count overwrites an earlier one
CountMarks == {CountMark(k) : k \in 0..200}
RECURSIVE Rev(_)
Rev(xs) == IF xs = <<>> THEN <<>> ELSE Append(Rev(Tail(xs)), Head(xs))
SumVal(tot, c) == Val(tot, c, c # {})

\* ---- negative-index Slice ----
PushMax(d, v, maxlen) == IF Len(d) = maxlen THEN Append(Tail(d), v) ELSE Append(d, v)
\* the step filter islice(gen, None, None, s) applied to values that are the ny0-th, ... inner results
RECURSIVE StepVals(_, _, _)
StepVals(vs, ny0, s) == IF vs = <<>> THEN <<>>
                        ELSE (IF ny0 % s = 0 THEN <<Head(vs)>> ELSE <<>>) \o StepVals(Tail(vs), ny0 + 1, s)
FirstN(xs, m) == SubSeq(xs, 1, IF m < 0 THEN 0 ELSE IF m < Len(xs) THEN m ELSE Len(xs))

\* ---- Split as a stage: per block, branch by branch ----
RECURSIVE SemR(_, _)        \* = Sem, defined below: a Sequence branch runs its body over the block
RECURSIVE BranchBlock(_, _)
BranchBlock(br, blk) ==      \* results a per-value branch yields for a block
  IF blk = <<>> THEN <<>>
  ELSE (CASE br.t = "map" -> <<ApplyMap(br.f, Head(blk))>>
          [] br.t = "filter" -> IF Pred(br.p, Head(blk)) THEN <<Head(blk)>> ELSE <<>>
          [] OTHER -> <<>>) \o BranchBlock(br, Tail(blk))
RECURSIVE SumD(_)
SumD(blk) == IF blk = <<>> THEN 0 ELSE Head(blk).d + SumD(Tail(blk))
\* a branch given as a Sequence OBJECT (f, Sum()): a "sequence" branch, run once per block; Sum is
\* not reset between runs, so it yields the running total after every block.  However the elements
\* of that branch are grouped into nested Sequences, it stays a per-block branch (regrouping).
\* The TUPLE (f, Sum()) is a fill/compute sequence: filled value by value, computed once at the end.
Mapped(f, blk) == [i \in 1..Len(blk) |-> ApplyMap(f, blk[i])]
SeqSumTot(br, loc, j, blk) == loc.tot[j] + SumD(Mapped(br.f, blk))
SeqSumCtx(br, loc, j, blk) == IF blk # <<>> THEN ApplyMap(br.f, blk[Len(blk)]).c ELSE loc.c[j]
RECURSIVE BlockOut(_, _, _, _, _)
BlockOut(brs, loc, j, blk, eof) ==
  IF j > Len(brs) THEN <<>>
  ELSE (IF brs[j].t = "seqsum"
        THEN (IF blk # <<>> \/ (eof /\ ~loc.any)       \* every block; an empty flow: invoked once
              THEN <<SumVal(SeqSumTot(brs[j], loc, j, blk), SeqSumCtx(brs[j], loc, j, blk))>> ELSE <<>>)
        ELSE IF brs[j].t = "seqbr"
        THEN (IF blk # <<>> \/ (eof /\ ~loc.any) THEN SemR(brs[j].body, blk) ELSE <<>>)
        ELSE BranchBlock(brs[j], blk)) \o BlockOut(brs, loc, j + 1, blk, eof)
SplitBlock(st, loc, blk, eof) ==    \* new loc and emitted values after one block
  [loc |-> [buf |-> <<>>,
            tot |-> [j \in 1..Len(st.brs) |-> IF st.brs[j].t = "sum" THEN loc.tot[j] + SumD(blk)
                                              ELSE IF st.brs[j].t \in {"seqsum", "fcsum"}
                                                   THEN SeqSumTot(st.brs[j], loc, j, blk)
                                              ELSE 0],
            c |-> [j \in 1..Len(st.brs) |-> IF st.brs[j].t = "sum" /\ blk # <<>> THEN blk[Len(blk)].c
                                            ELSE IF st.brs[j].t \in {"seqsum", "fcsum"}
                                                 THEN SeqSumCtx(st.brs[j], loc, j, blk)
                                            ELSE loc.c[j]],
            any |-> loc.any \/ blk # <<>>],
   em |-> BlockOut(st.brs, loc, 1, blk, eof)]
RECURSIVE SplitFinal(_, _, _)
SplitFinal(st, loc, j) == IF j > Len(st.brs) THEN <<>>
   ELSE (IF st.brs[j].t \in {"sum", "fcsum"} THEN <<SumVal(loc.tot[j], loc.c[j])>> ELSE <<>>)
        \o SplitFinal(st, loc, j + 1)

\* [loc, em]: new local state and emitted values when the stage receives v
OnHave0(st, loc, v) ==
  CASE st.t \in {"map"} -> [loc |-> loc, em |-> <<ApplyMap(st.f, v)>>]
    [] st.t = "nodata" -> [loc |-> loc, em |-> <<v>>]
    [] st.t = "filter" -> [loc |-> loc, em |-> IF Pred(st.p, v) THEN <<v>> ELSE <<>>]
    [] st.t = "slice" ->
         IF loc.cnt < loc.nxt THEN [loc |-> [loc EXCEPT !.cnt = @ + 1], em |-> <<>>]      \* skipped
         ELSE [loc |-> [cnt |-> loc.cnt + 1,
                        nxt |-> IF st.b # None /\ loc.nxt + st.s > st.b THEN st.b ELSE loc.nxt + st.s],
               em |-> <<v>>]
    [] st.t = "lagk" -> IF Len(loc.dq) < st.k
                        THEN [loc |-> [dq |-> Append(loc.dq, v), got |-> loc.got + 1, put |-> loc.put], em |-> <<>>]
                        ELSE [loc |-> [dq |-> Append(Tail(loc.dq), v), got |-> loc.got + 1, put |-> loc.put + 1],
                              em |-> <<Head(loc.dq)>>]
    [] st.t = "lastk" -> [loc |-> [dq |-> IF Len(loc.dq) = st.k THEN Append(Tail(loc.dq), v) ELSE Append(loc.dq, v),
                                   got |-> loc.got + 1, put |-> 0], em |-> <<>>]
    [] st.t = "nslice" ->
         LET br == NsBranch(st) IN
         IF br \in {"A", "B"} THEN
            LET k == -st.b
                skip == IF br = "B" THEN st.a ELSE 0 IN
            IF loc.got < skip THEN [loc |-> [loc EXCEPT !.got = @ + 1], em |-> <<>>]
            ELSE IF Len(loc.dq) < k THEN [loc |-> [loc EXCEPT !.dq = Append(@, v), !.got = @ + 1], em |-> <<>>]
            ELSE [loc |-> [loc EXCEPT !.dq = Append(Tail(@), v), !.got = @ + 1, !.ny = @ + 1],
                  em |-> IF loc.ny % st.s = 0 THEN <<Head(loc.dq)>> ELSE <<>>]
         ELSE IF br \in {"C1", "C3"} THEN
            [loc |-> [loc EXCEPT !.dq = PushMax(@, v, -st.a), !.got = @ + 1], em |-> <<>>]
         ELSE IF br = "C4" THEN
            \* the value is pulled, then the code sees that stop is too small for anything to be yielded
            IF loc.got >= st.b - st.a THEN [loc |-> [loc EXCEPT !.dead = TRUE, !.dq = <<>>], em |-> <<>>]
            ELSE [loc |-> [loc EXCEPT !.dq = PushMax(@, v, -st.a), !.got = @ + 1], em |-> <<>>]
         ELSE [loc |-> loc, em |-> <<>>]         \* C2 never asks for a value
    [] st.t = "count" -> [loc |-> [has |-> TRUE, prev |-> v, n |-> loc.n + 1],
                          em |-> IF loc.has THEN <<loc.prev>> ELSE <<>>]
    [] st.t = "runif" -> [loc |-> loc, em |-> IF Pred(st.p, v)
                                               THEN (IF st.f = "drop" THEN <<>> ELSE <<ApplyMap(st.f, v)>>)
                                               ELSE <<v>>]
    [] st.t = "runifs" -> [loc |-> loc, em |-> IF Pred(st.p, v) THEN SemR(st.body, <<v>>) ELSE <<v>>]
    [] st.t = "raiser" -> [loc |-> loc, em |-> <<v>>]     \* the failing value is handled by the machine / SemF
    [] st.t = "reverse" -> [loc |-> [buf |-> Append(loc.buf, v)], em |-> <<>>]
    [] st.t = "end" -> [loc |-> loc, em |-> <<>>]
    [] st.t = "sum" -> [loc |-> [tot |-> loc.tot + v.d, c |-> v.c], em |-> <<>>]
    [] st.t \in {"last", "lastattr"} -> [loc |-> [has |-> TRUE, prev |-> v], em |-> <<>>]
    [] st.t = "split" ->
         IF st.brs = <<>> THEN [loc |-> loc, em |-> <<v>>]     \* Split([]) acts as an empty Sequence
         ELSE LET l2 == [loc EXCEPT !.buf = Append(@, v)] IN
              IF st.bs # None /\ Len(l2.buf) = st.bs THEN SplitBlock(st, l2, l2.buf, FALSE)
              ELSE [loc |-> l2, em |-> <<>>]

\* values emitted when the stage finds its input exhausted
OnEof0(st, loc) ==
  CASE st.t = "count" -> IF loc.has THEN <<[loc.prev EXCEPT !.c = (@ \ CountMarks) \cup {CountMark(loc.n)}, !.h = TRUE]>> ELSE <<>>
    [] st.t = "lastk" -> loc.dq
    [] st.t = "nslice" ->
         LET br == NsBranch(st) IN
         IF br = "C1" THEN StepVals(loc.dq, 0, st.s)
         ELSE IF br = "C3" THEN StepVals(FirstN(loc.dq, Len(loc.dq) + st.b), 0, st.s)
         ELSE IF br = "C4" THEN StepVals(FirstN(loc.dq, st.b - (loc.got - Len(loc.dq))), 0, st.s)
         ELSE <<>>
    [] st.t = "reverse" -> Rev(loc.buf)
    [] st.t = "sum" -> <<SumVal(loc.tot, loc.c)>>
    [] st.t \in {"last", "lastattr"} -> IF loc.has THEN <<loc.prev>> ELSE <<>>
    [] st.t = "split" -> IF st.brs = <<>> THEN <<>>
                         ELSE LET r == SplitBlock(st, loc, loc.buf, TRUE) IN r.em \o SplitFinal(st, r.loc, 1)
    [] OTHER -> <<>>

\* the stage stops without asking its input again
EarlyDone0(st, loc) == \/ st.t = "slice" /\ st.b # None /\ loc.cnt >= loc.nxt /\ loc.cnt >= st.b
                       \/ st.t = "nslice" /\ (NsBranch(st) = "C2" \/ loc.dead)

\* a hosted element is the element
InitLoc(st) == InitLoc0(Core(st))
OnHave(st, loc, v) == OnHave0(Core(st), loc, v)
OnEof(st, loc) == OnEof0(Core(st), loc)
EarlyDone(st, loc) == EarlyDone0(Core(st), loc)

(***************************************************************************)
(* Declarative semantics.                                                  *)
(***************************************************************************)
\* run one stage over an input prefix; eof says whether the input ends after the prefix.
\* Result: emitted values and whether the stage has finished.
RECURSIVE StageRun(_, _, _, _)
StageRun(st, loc, xs, eof) ==
  IF EarlyDone(st, loc) THEN [out |-> <<>>, fin |-> TRUE]
  ELSE IF xs = <<>> THEN (IF eof THEN [out |-> OnEof(st, loc), fin |-> TRUE] ELSE [out |-> <<>>, fin |-> FALSE])
  ELSE LET r == OnHave(st, loc, Head(xs))
           rest == StageRun(st, r.loc, Tail(xs), eof)
       IN [out |-> r.em \o rest.out, fin |-> rest.fin]
RECURSIVE PipeRun(_, _, _)
PipeRun(prog, xs, eof) ==
  IF prog = <<>> THEN [out |-> xs, fin |-> eof]
  ELSE LET r == StageRun(Head(prog), InitLoc(Head(prog)), xs, eof) IN PipeRun(Tail(prog), r.out, r.fin)
Sem(prog, xs) == PipeRun(prog, xs, TRUE).out
SemR(prog, xs) == PipeRun(prog, xs, TRUE).out

\* ---- a callable that raises for one value ----
\* The stream transformation of a plain callable is "apply it to each value": when it raises for a value, the
\* pipeline has yielded what the later stages make of the values before that one (nothing is flushed: the
\* stream did not end) and then the exception reaches the consumer - unless a later stage had finished before
\* the failing value was asked for.  fails: the input of the rest of the pipeline raises instead of ending.
RECURSIVE PipeRunF(_, _, _)
\* the stage raises when it is given v: the callable itself, or a RunIf that selects v and whose arguments raise
FailsOn(hst, v) == LET st == Core(hst) IN
                   CASE st.t = "raiser" -> v.d = st.at
                     [] st.t = "runifs" -> Pred(st.p, v) /\ PipeRunF(st.body, <<v>>, FALSE).failed
                     [] OTHER -> FALSE
RECURSIVE FirstFail(_, _, _)
FirstFail(xs, st, i) == IF i > Len(xs) THEN 0 ELSE IF FailsOn(st, xs[i]) THEN i ELSE FirstFail(xs, st, i + 1)
PipeRunF(prog, xs, fails) ==
  IF prog = <<>> THEN [out |-> xs, failed |-> fails]
  ELSE LET st == Head(prog)
           j == FirstFail(xs, st, 1)
           r == StageRun(st, InitLoc(st), IF j > 0 THEN SubSeq(xs, 1, j - 1) ELSE xs, j = 0 /\ ~fails)
       IN PipeRunF(Tail(prog), r.out, ~r.fin)
SemF(prog, xs) == PipeRunF(prog, xs, FALSE)

Take(xs, m) == SubSeq(xs, 1, IF m < Len(xs) THEN m ELSE Len(xs))
\* least number of input values after which the pipeline has produced j results
RECURSIVE MinNeedFrom(_, _, _, _)
MinNeedFrom(prog, xs, j, m) ==
  IF Len(PipeRun(prog, Take(xs, m), FALSE).out) >= j THEN m
  ELSE IF m >= Len(xs) THEN Len(xs)       \* needs the end of the flow
  ELSE MinNeedFrom(prog, xs, j, m + 1)
MinNeed(prog, xs, j) == MinNeedFrom(prog, xs, j, 0)

(***************************************************************************)
(* Classification of stages.                                               *)
(***************************************************************************)
\* the argument (or an argument nested in it) cannot be converted to an element
RECURSIVE HasBadSt(_)
HasBadSt(st) == \/ st.t = "bad"
                \/ st.t = "runif" /\ st.f = "bad"
                \/ st.t = "split" /\ \E j \in 1..Len(st.brs) : HasBadSt(st.brs[j])
                \/ st.t \in {"seqbr", "runifs"} /\ \E j \in 1..Len(st.body) : HasBadSt(st.body[j])
                \/ st.t = "hosted" /\ HasBadSt(st.el)
\* the element keeps nothing between runs: the same object may be run again, also while an earlier run is suspended
RECURSIVE Reusable(_)
Reusable(st) == \/ st.t \in {"map", "nodata", "filter", "slice", "lagk", "lastk", "nslice", "runif", "reverse", "end"}
                \/ st.t = "split" /\ \A j \in 1..Len(st.brs) : Reusable(st.brs[j])
                \/ st.t \in {"seqbr", "runifs"} /\ \A j \in 1..Len(st.body) : Reusable(st.body[j])
                \/ st.t = "hosted" /\ Reusable(st.el)
\* input values a streaming stage documents to keep (liveness bound of C02): Split one block (while it reads the
\* next block the previous one is still bound to a local name), Count and RunIf one value, a negative Slice |index|
AbsNeg(i) == IF i # None /\ i < 0 THEN -i ELSE 0
Retention(hst) == LET st == Core(hst) IN
                 CASE st.t = "split" -> IF st.brs = <<>> THEN 0 ELSE IF st.bs = None THEN Inf ELSE 2 * st.bs
                   [] st.t \in {"lagk", "lastk"} -> st.k
                   [] st.t = "nslice" -> IF AbsNeg(st.a) > AbsNeg(st.b) THEN AbsNeg(st.a) ELSE AbsNeg(st.b)
                   [] st.t \in {"count", "runif"} -> 1
                   [] OTHER -> 0
RECURSIVE RetentionSum(_)
RetentionSum(prog) == IF prog = <<>> THEN 0 ELSE Retention(Head(prog)) + RetentionSum(Tail(prog))
\* each generator frame may in addition hold the value it is working on and the one it just handed on
AliveBound(prog) == RetentionSum(prog) + 2 * Len(prog) + 2
=============================================================================
