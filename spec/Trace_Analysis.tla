--------------------------- MODULE Trace_Analysis ---------------------------
(***************************************************************************)
(* Validation of analyses recorded from the real lena (random branch lists,*)
(* longer random event lists, random block sizes and edges, histories of   *)
(* several runs in one output directory).  One record per run:             *)
(*   [first  TRUE for the first run of a history (empty directory),        *)
(*    brs, bs, ed  branches, Split bufsize, <<edges1, edgesy>>,            *)
(*    src, tpl     events the reader supplies and template version,        *)
(*    usecache     a Cache stands between the reader and the Split,        *)
(*    pulled       events actually read from the reader in this run,       *)
(*    files        the directory after the run, decoded: [key, c]          *)
(*    wrote, launched, out   files written, converters launched, results]  *)
(* The state carried between records is the directory.  A run is accepted  *)
(* iff it is the declarative run RunFiles / RunWrote / RunLaunched /       *)
(* RunOut of AnalysisSem.tla (which Analysis.tla shows equal to the        *)
(* machine, RunIsSem) and the operational fill of every branch (FillAllP,  *)
(* the code's walk) gives the histogram of the definition.                 *)
(***************************************************************************)
EXTENDS AnalysisSem, TLC, Json, IOUtils

Trace == JsonDeserialize(IOEnv.TRACE_FILE)
VARIABLES i, dir, stored
vars == <<i, dir, stored>>

Init == i = 1 /\ dir = <<>> /\ stored = <<>>

AsFun(fl) == [k \in {fl[j].key : j \in 1..Len(fl)} |-> File(fl[CHOOSE j \in 1..Len(fl) : fl[j].key = k].c)]
AsSet(sq) == {sq[j] : j \in 1..Len(sq)}
Distinct(l) == \A a \in Plots(l), c \in Plots(l) : a # c => Name(l[a]) # Name(l[c])

RunStep(r) ==
  LET F0 == IF r.first THEN <<>> ELSE dir
      \* a filled cache (every run has at least one event) replays the first run's events, the reader is not read
      load == r.usecache /\ ~r.first /\ stored # <<>>
      data == IF load THEN stored ELSE r.src
      F1 == RunFiles(F0, r.brs, data, r.tpl, r.ed)
  IN /\ Distinct(r.brs) /\ Len(r.src) >= 1
     /\ r.pulled = IF load THEN 0 ELSE Len(r.src)
     /\ stored' = IF r.usecache THEN data ELSE <<>>
     /\ \A k \in 1..Len(r.brs) :
          FillAllP(r.brs[k], EmptyP(r.brs[k], r.ed), data, r.ed) = HistRef(r.brs[k], data, r.ed)
     /\ AsFun(r.files) = F1
     /\ AsSet(r.wrote) = RunWrote(F0, F1, r.brs)
     /\ AsSet(r.launched) = RunLaunched(F0, F1, r.brs)
     /\ Len(r.launched) = Cardinality(AsSet(r.launched))        \* no converter started twice for one target
     /\ r.out = RunOut(r.brs, data, r.ed)
     /\ dir' = F1

Next == i <= Len(Trace) /\ RunStep(Trace[i]) /\ i' = i + 1
Spec == Init /\ [][Next]_vars

\* every plot in the directory has all four files
Complete == \A k \in DOMAIN dir : \A e \in {"csv", "tex", "pdf", "png"} : <<k[1], e>> \in DOMAIN dir
Accepted == /\ PrintT(<<"ACCEPTED", TLCGet("stats").diameter - 1>>)
            /\ TLCGet("stats").diameter - 1 = Len(Trace)
=============================================================================
