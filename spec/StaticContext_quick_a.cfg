SPECIFICATION Spec
CONSTANTS MaxTok = 4 MaxDepth = 3
  Leaves <- LeavesQuick
  RootKinds <- AllRoots
  StoreByCopy = TRUE
  TailKeepsSets = TRUE
INVARIANT SeenIsExpected
INVARIANT PrefixOnly
INVARIANT SiblingIndependent
INVARIANT RootExpected
INVARIANT NoLeakToRuntime
PROPERTY Causal
PROPERTY RunKeepsStatic
CHECK_DEADLOCK FALSE
