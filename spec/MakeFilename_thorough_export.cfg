SPECIFICATION Spec
CONSTANTS MaxLen = 2
  Vocabulary <- AllElements
  Contexts <- InitsQuick
INVARIANT OpEqDen
INVARIANT IncomingKept
INVARIANT RunTimeWins
INVARIANT AffixOnce
INVARIANT PendingOnce
PROPERTY NameStable
PROPERTY AffixConsumed
INVARIANT Emitted
CHECK_DEADLOCK FALSE
