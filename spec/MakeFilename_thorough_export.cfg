SPECIFICATION Spec
CONSTANTS MaxLen = 2
  Vocabulary <- AllElements
INVARIANT Emitted
CHECK_DEADLOCK FALSE
