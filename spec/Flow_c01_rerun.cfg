SPECIFICATION Spec
CONSTANTS MaxLen = 2 MaxN = 3 Infinite = FALSE MaxOut = 100
  Vals = "nat" Stops = TRUE MaxRuns = 2 MaxLead = 0
  Alphabet <- AlphaRerun
  Must <- NoMust
  Pairs <- OnlyPairs
INVARIANT OpEqDen
INVARIANT OutIsPrefix
INVARIANT Regroup
INVARIANT NoWorkBeforeDemand
INVARIANT NoDataInvisible
INVARIANT Emitted
PROPERTY NoPullAfterStop
CHECK_DEADLOCK FALSE
