SPECIFICATION Spec
CONSTANTS MaxN = 6 Infinite = TRUE MaxOut = 4 MaxPos = 20 Stops = TRUE Guard = "none"
  Scen <- ScenThorough
INVARIANT TypeOK
INVARIANT NoWorkBeforeDemand
INVARIANT BlockPrefixOnly
INVARIANT RetentionBound
INVARIANT StoppedNoPull
INVARIANT ResultsAreSem
INVARIANT MachineIsSem
PROPERTY PullOnlyOnDemand
CONSTRAINT Bounded
CHECK_DEADLOCK FALSE
