SPECIFICATION TSpec
CONSTANTS
  EntryLists <- D_EntriesQuick
  ChainCalls = FALSE
INVARIANT TypeOK
POSTCONDITION Accepted
CHECK_DEADLOCK FALSE
