-------------------------- MODULE IsolationDataSem --------------------------
(***************************************************************************)
(* C04, model A'': isolation of Split / Zip branches when the DATA of the  *)
(* flow values is a structure with an inside of its own.                    *)
(* Declarative part (no constants, no variables): kinds of data, in-place  *)
(* mutators of the inside of the data, the flow, and Alone(branch, xs) -   *)
(* what a branch yields when it is the only one and works on pure values.  *)
(* Shared by IsolationData.tla and Trace_IsolationData.tla.                *)
(*                                                                         *)
(* A pure value is [a |-> int, s |-> <<[v |-> int, m |-> dict]>>, c |->    *)
(* dict]:  a   an attribute of the container object (histogram.            *)
(*             n_out_of_range, graph scale, first member of a nested list) *)
(*         s   the contents of the cells of the container: a value and -   *)
(*             for compound cells - a dictionary (the context of a bin)    *)
(*         c   the context of the flow value                               *)
(* Kinds of data (what the harness builds):                                *)
(*   histnum   lena.structures.histogram with numeric bins                 *)
(*   graph     lena.structures.graph: the cells are the entries of the     *)
(*             list column of the values                                   *)
(*   histctx   histogram whose bins are (value, context) tuples - what     *)
(*             SplitIntoBins yields                                        *)
(*   hist2d    the same in two dimensions (bins = list of lists)           *)
(*   histlist  histogram whose bins are mutable lists [value, context]     *)
(*   nested    nested lists [a, [[value, context], ...]]                   *)
(*   ctxobj    a lena.context.Context holding a list of Context objects    *)
(* Mutators (user elements changing the value they are given IN PLACE):    *)
(*   attr(x)        container.attribute = x                                *)
(*   slot(i, x)     container.cells[i] = a NEW content x (rebinding: the   *)
(*                  list of cells is changed, not the old content)         *)
(*   val(i, x)      cells[i].value += x    (mutable contents only)         *)
(*   bctx(i, k, x)  cells[i].context[k] = x  (compound contents only)      *)
(*   ctx(k, x)      context[k] = x                                         *)
(***************************************************************************)
EXTENDS Integers, Sequences, FiniteSets, TLC

None == -1000
Put(c, k, v) == [x \in (DOMAIN c) \cup {k} |-> IF x = k THEN v ELSE c[x]]
Min(a, b) == IF a < b THEN a ELSE b

Mu(t, i, key, x) == [t |-> t, i |-> i, key |-> key, x |-> x]
Attr(x) == Mu("attr", 0, "", x)
Slot(i, x) == Mu("slot", i, "", x)
Val(i, x) == Mu("val", i, "", x)
BCtx(i, k, x) == Mu("bctx", i, k, x)
CtxSet(k, x) == Mu("ctx", 0, k, x)

NumericKinds == {"histnum", "graph"}
TupleKinds == {"histctx", "hist2d"}             \* compound contents whose value part is immutable
ListKinds == {"histlist", "nested", "ctxobj"}   \* compound contents that are mutable throughout
AllKinds == NumericKinds \cup TupleKinds \cup ListKinds
QuickKinds == {"histnum", "histctx", "hist2d", "histlist", "graph"}
\* which mutators a kind of data admits
Admits(kind, mu) == CASE mu.t = "val" -> kind \in ListKinds
                      [] mu.t = "bctx" -> kind \notin NumericKinds
                      [] OTHER -> TRUE

Branch(muts, end) == [muts |-> muts, end |-> end]
MutLists == {<<BCtx(1, "u", 5)>>,                      \* annotate the context of a bin in place
             <<Val(2, 3)>>,                            \* change the content of a bin in place
             <<Slot(1, 9), Attr(4)>>,                  \* replace a bin, set an attribute of the container
             <<>>,                                     \* a reader
             <<CtxSet("k", 1), BCtx(2, "u", 6)>>}      \* the context of the value and that of a bin
Ends == {"seq", "store", "fr"}
AllTemplates == {Branch(m, e) : m \in MutLists, e \in Ends}
FewTemplates == {Branch(m, e) : m \in {<<BCtx(1, "u", 5)>>, <<Val(2, 3)>>, <<>>}, e \in Ends}
ThreeTemplates == {Branch(m, e) : m \in {<<BCtx(1, "u", 5)>>, <<Slot(1, 9), Attr(4)>>, <<>>}, e \in Ends}
ThreeKinds == {"histctx", "histlist", "graph"}
BufFew == {1, None}
BranchAdmitted(kind, b) == \A j \in 1..Len(b.muts) : Admits(kind, b.muts[j])

NS == 2       \* cells per container
BM(kind) == IF kind \in NumericKinds THEN <<>> ELSE [u |-> 1]
X(j, kind) == [a |-> 0,
               s |-> <<[v |-> j, m |-> BM(kind)], [v |-> j + 10, m |-> BM(kind)]>>,
               c |-> IF j % 2 = 1 THEN [a |-> 1] ELSE <<>>]
Flow(n, kind) == [j \in 1..n |-> X(j, kind)]
BufAll == {1, 2, None}

PApply(x, mu) ==
  CASE mu.t = "attr" -> [x EXCEPT !.a = mu.x]
    [] mu.t = "slot" -> [x EXCEPT !.s[mu.i] = [v |-> mu.x, m |-> <<>>]]
    [] mu.t = "val" -> [x EXCEPT !.s[mu.i].v = @ + mu.x]
    [] mu.t = "bctx" -> [x EXCEPT !.s[mu.i].m = Put(@, mu.key, mu.x)]
    [] mu.t = "ctx" -> [x EXCEPT !.c = Put(@, mu.key, mu.x)]
RECURSIVE PApplyAll(_, _)
PApplyAll(x, mus) == IF mus = <<>> THEN x ELSE PApplyAll(PApply(x, Head(mus)), Tail(mus))
\* a branch alone: every value through its mutators (whatever the blocks and whenever it yields)
Alone(b, xs) == [j \in 1..Len(xs) |-> PApplyAll(xs[j], b.muts)]
=============================================================================
