SPECIFICATION Spec
CONSTANTS
  K = {"a", "b"}
  NC = 2
  Variant = "lena"
  Kinds <- KindsAny
INVARIANT InitOK
INVARIANT MutatedIsPrivate
PROPERTY StepsOK
CHECK_DEADLOCK FALSE
