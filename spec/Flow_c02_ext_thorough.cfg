SPECIFICATION Spec
CONSTANTS MaxLen = 2 MaxN = 6 Infinite = TRUE MaxOut = 5
  Vals = "nat" Stops = TRUE MaxRuns = 1 MaxLead = 1
  Alphabet <- AlphaC02Ext
  Must <- ExtC02
  Pairs <- OnlyPairs
INVARIANT OpEqDen
INVARIANT OutIsPrefix
INVARIANT NoWorkBeforeDemand
INVARIANT PullOnlyWhenDrained
INVARIANT LazyEqDen
INVARIANT Buffers
INVARIANT LeadUntouched
INVARIANT SliceIsPySlice
PROPERTY NoPullAfterStop
CONSTRAINT Bounded
CHECK_DEADLOCK FALSE
