----------------------------- MODULE BinnedSem -----------------------------
(***************************************************************************)
(* Constant-level part of Binned.tla (no constants, no variables): the     *)
(* branches of a binned analysis, what every cell computes, the structures *)
(* a run yields and the files it leaves.  Shared by Binned.tla (the        *)
(* machine) and Trace_Binned.tla (validation of recorded runs).            *)
(*                                                                         *)
(* An event is <<x, y>>.  ed = <<edges along x, edges along y, edges of    *)
(* the histogram filled inside every cell>>.                               *)
(*                                                                         *)
(* A branch [arg, an, v]:                                                  *)
(*   arg  "x" | "y" | "xy"  the variable the analysis is split by:         *)
(*        Variable x / Variable y (typed "coordinate") / Combine(x, y,     *)
(*        name="xy") with the edges ed[1] / ed[2] / <<ed[1], ed[2]>>       *)
(*   an   "hist"   seq = (Variable v, Histogram(ed[3])), then IterateBins  *)
(*        "sum"    seq = (Variable v, Sum()), then MapBins(Variable twice) *)
(*        "count"  seq = Count(), then MapBins(Variable val) (v = "all")   *)
(* Every branch ends with MakeFilename(suffix="_<an>_<v>"); the common     *)
(* chain is MakeFilename("{{bins.variable.name}}/{{bin.edges_str}}"),      *)
(* MakeFilename("{{variable.name}}/{{value.variable.name}}"), ToCSV(),     *)
(* Write(dir).                                                             *)
(***************************************************************************)
EXTENDS HistOpsSem

Br(arg, an, v) == [arg |-> arg, an |-> an, v |-> v]
IsIter(b) == b.an = "hist"
ArgDim(b) == IF b.arg = "xy" THEN 2 ELSE 1
ArgEdges(b, ed) == CASE b.arg = "x" -> <<ed[1]>> [] b.arg = "y" -> <<ed[2]>> [] b.arg = "xy" -> <<ed[1], ed[2]>>
ArgOf(b, ev) == CASE b.arg = "x" -> <<ev[1]>> [] b.arg = "y" -> <<ev[2]>> [] b.arg = "xy" -> <<ev[1], ev[2]>>
ValOf(b, ev) == IF b.v = "x" THEN ev[1] ELSE ev[2]            \* (not used by "count")
\* context.variable of the histogram SplitIntoBins yields: the description of arg_var
ArgDesc(b) == [name |-> b.arg, dim |-> ArgDim(b), combine |-> IF b.arg = "xy" THEN <<"x", "y">> ELSE <<>>,
               type |-> IF b.arg = "xy" THEN "-" ELSE "coordinate"]
\* the coordinate names cell_to_string takes from that description
Coords(b) == IF b.arg = "xy" THEN <<"x", "y">> ELSE <<b.arg>>
\* the name of the variable MapBins' sequence adds (context.value.variable.name)
ValName(b) == IF b.an = "sum" THEN "twice" ELSE "val"
MapVal(b, acc) == IF b.an = "sum" THEN 2 * acc.bins[1] ELSE acc.bins[1]

(***************************************************************************)
(* The analysis of one cell.  State of the cell's private copy of seq:     *)
(* [bins, oor, n] - a histogram over ed[3] with its out-of-range count     *)
(* ("hist"), <<sum>> or <<count>>; n = values the cell was filled with.    *)
(***************************************************************************)
EmptyAcc(b, ed) == [bins |-> IF b.an = "hist" THEN InitBins(<<ed[3]>>, 1, 0) ELSE <<0>>, oor |-> 0, n |-> 0]
FillAcc(b, acc, ev, ed) ==
  CASE b.an = "hist" -> LET r == FillOp(acc.bins, acc.oor, <<ed[3]>>, <<ValOf(b, ev)>>, 1)
                        IN [bins |-> r.bins, oor |-> r.oor, n |-> acc.n + 1]
    [] b.an = "sum" -> [bins |-> <<acc.bins[1] + ValOf(b, ev)>>, oor |-> 0, n |-> acc.n + 1]
    [] b.an = "count" -> [bins |-> <<acc.bins[1] + 1>>, oor |-> 0, n |-> acc.n + 1]

\* declarative: the analysis applied to exactly the events whose argument lies in the (half-open) cell
InCell(b, evs, cell, ed) == SelectSeq(evs, LAMBDA ev : Inside(ArgOf(b, ev), cell, ArgEdges(b, ed)))
CellRef(b, evs, cell, ed) ==
  LET sel == InCell(b, evs, cell, ed)
      eh == ed[3]
      K == 1..Len(sel)
  IN CASE b.an = "hist" ->
            [bins |-> [j \in 1..NB(eh) |-> Cardinality({k \in K : eh[j] <= ValOf(b, sel[k]) /\ ValOf(b, sel[k]) < eh[j + 1]})],
             oor |-> Cardinality({k \in K : ValOf(b, sel[k]) < eh[1] \/ ValOf(b, sel[k]) >= eh[Len(eh)]}),
             n |-> Len(sel)]
       [] b.an = "sum" -> [bins |-> <<SumSeq([k \in K |-> ValOf(b, sel[k])])>>, oor |-> 0, n |-> Len(sel)]
       [] b.an = "count" -> [bins |-> <<Len(sel)>>, oor |-> 0, n |-> Len(sel)]
\* an event outside the edges is in no cell
NoCell(b, ev, ed) == CellsOf(ArgOf(b, ev), ArgEdges(b, ed)) = {}
AnyInside(b, evs, ed) == \E k \in 1..Len(evs) : ~NoCell(b, evs[k], ed)

(***************************************************************************)
(* SplitIntoBins.fill written like the code: get_bin_on_value, then the    *)
(* walk "for ind in bin_index: if ind < 0: return; try: subarr =           *)
(* subarr[ind] except IndexError: return", then subarr.fill(val).          *)
(* closed = TRUE is the deliberately wrong variant in which a value equal  *)
(* to the last edge belongs to the last cell.                              *)
(***************************************************************************)
IdxC(x, e, closed) == IF closed /\ x = e[Len(e)] THEN NB(e) - 1 ELSE Idx(x, e)
RECURSIVE InitCells(_, _, _, _)
InitCells(b, E, d, ed) == [j \in 1..NB(E[d]) |-> IF d = Len(E) THEN EmptyAcc(b, ed) ELSE InitCells(b, E, d + 1, ed)]
RECURSIVE Route(_, _, _, _, _, _)
Route(sub, inds, d, b, ev, ed) ==
  LET i == inds[d] IN
  IF i < 0 THEN Miss
  ELSE IF i >= Len(sub) THEN Miss
  ELSE IF d = Len(inds) THEN Hit([sub EXCEPT ![i + 1] = FillAcc(b, @, ev, ed)])
  ELSE LET r == Route(sub[i + 1], inds, d + 1, b, ev, ed)
       IN IF r.ok THEN Hit([sub EXCEPT ![i + 1] = r.v]) ELSE Miss
\* state of one SplitIntoBins: [cells (nested like the code's bins), touched (a value was filled: _cur_context is set)]
EmptySIB(b, ed) == [cells |-> InitCells(b, ArgEdges(b, ed), 1, ed), touched |-> FALSE]
FillSIB(b, st, ev, ed, closed) ==
  LET E == ArgEdges(b, ed)
      a == ArgOf(b, ev)
      r == Route(st.cells, [d \in 1..Len(E) |-> IdxC(a[d], E[d], closed)], 1, b, ev, ed)
  IN IF r.ok THEN [cells |-> r.v, touched |-> TRUE] ELSE st
RECURSIVE FillAllSIB(_, _, _, _, _)
FillAllSIB(b, st, evs, ed, closed) ==
  IF evs = <<>> THEN st ELSE FillAllSIB(b, FillSIB(b, st, Head(evs), ed, closed), Tail(evs), ed, closed)

(***************************************************************************)
(* Structures and their files.                                             *)
(* The name MakeFilename documents: the first template can be formatted    *)
(* for what IterateBins yields (context.bins, context.bin), the second for *)
(* what MapBins yields (context.variable, context.value); the suffix set   *)
(* inside the branch is appended.  Strings are atomic here: a name is      *)
(* [arg, cell (the cell's edges; <<>> for a mapped histogram), an, v]; the *)
(* harness renders / parses it ("x/0_lte_x_lt_2_hist_y.csv",               *)
(* "xy/twice_sum_x.csv").                                                  *)
(***************************************************************************)
Name(b, celledges) == [arg |-> b.arg, cell |-> celledges, an |-> b.an, v |-> b.v]
Absent == [a |-> TRUE]
File(c) == [a |-> FALSE, c |-> c]
Has(f, k) == k \in DOMAIN f
Get2(f, k) == IF Has(f, k) THEN f[k] ELSE Absent
Put(f, k, c) == [x \in DOMAIN f \cup {k} |-> IF x = k THEN File(c) ELSE f[x]]
RangeOf(e) == <<e[1], e[Len(e)]>>

\* one cell yielded by IterateBins and converted by ToCSV: the cell's content with context.bin (the cell),
\* context.bins (the surrounding histogram: arg_var, what came with the events), the analysis' own context
\* (variable v and the source - carried by the values, so present when the cell was filled), context.histogram
MkCell(b, celledges, acc, touched, ed, rows) ==
  [name |-> Name(b, celledges), kind |-> "cell", rows |-> rows, cell |-> celledges, coords |-> Coords(b),
   avar |-> ArgDesc(b), var |-> b.v, filled |-> acc.n > 0, src |-> touched, oor |-> acc.oor,
   hdim |-> 1, nbins |-> <<NB(ed[3])>>, ranges |-> <<RangeOf(ed[3])>>]
\* the histogram MapBins yields, converted by ToCSV: arg edges, contents mapped cell by cell
MkMap(b, touched, ed, rows) ==
  LET E == ArgEdges(b, ed) IN
  [name |-> Name(b, <<>>), kind |-> "map", rows |-> rows, cell |-> <<>>, coords |-> Coords(b),
   avar |-> ArgDesc(b), var |-> ValName(b), filled |-> touched, src |-> touched, oor |-> 0,
   hdim |-> Len(E), nbins |-> [d \in 1..Len(E) |-> NB(E[d])], ranges |-> [d \in 1..Len(E) |-> RangeOf(E[d])]]

\* declarative: what a branch yields for the events of a run - a function of the branch and the data only
NestRef(b, evs, ed) ==
  LET E == ArgEdges(b, ed) IN
  IF Len(E) = 1 THEN [i \in 1..NB(E[1]) |-> MapVal(b, CellRef(b, evs, <<i - 1>>, ed))]
  ELSE [i \in 1..NB(E[1]) |-> [j \in 1..NB(E[2]) |-> MapVal(b, CellRef(b, evs, <<i - 1, j - 1>>, ed))]]
BranchOut(b, evs, ed) ==
  LET E == ArgEdges(b, ed)
      any == AnyInside(b, evs, ed)
  IN IF IsIter(b)
     THEN [j \in 1..NCells(E) |->
             LET cell == CellAt(E, j - 1)
                 acc == CellRef(b, evs, cell, ed)
             IN MkCell(b, CellEdges(E, cell), acc, any, ed, CsvRef(acc.bins, <<ed[3]>>, TRUE))]
     ELSE <<MkMap(b, any, ed, CsvRef(NestRef(b, evs, ed), E, TRUE))>>
RunOut(brl, evs, ed) == Concat([i \in 1..Len(brl) |-> BranchOut(brl[i], evs, ed)])
NStructs(b, ed) == IF IsIter(b) THEN NCells(ArgEdges(b, ed)) ELSE 1
\* all structures of an analysis have different names
Distinct(brl) == \A i \in 1..Len(brl), j \in 1..Len(brl) : i # j => brl[i] # brl[j]

\* one whole run as a function of the directory before it
RunFiles(F0, O) ==
  LET keys == {O[j].name : j \in 1..Len(O)}
  IN [k \in keys \cup DOMAIN F0 |-> IF k \in keys THEN File(O[CHOOSE j \in 1..Len(O) : O[j].name = k].rows) ELSE F0[k]]
RunWrote(F0, F1, O) == {k \in {O[j].name : j \in 1..Len(O)} : Get2(F0, k) # F1[k]}
=============================================================================
