-------------------------- MODULE Trace_ContextOps --------------------------
(***************************************************************************)
(* Validation of calls recorded from the real code (seeded random contexts *)
(* beyond the exhaustive bounds, and the calls made by the repository's    *)
(* own test-suite) against CtxOpsRef.tla.  One record per call:            *)
(*   [call (descriptor of CtxOpsRef), ctx (context as passed),             *)
(*    out ([ok, r] or [ok, exc]), post (context afterwards),               *)
(*    rs (leaf of the string the harness rendered the template to)]        *)
(* Values are compared with Eq (Python ==, classes computed by the         *)
(* harness).                                                               *)
(***************************************************************************)
EXTENDS CtxOpsRef, TLC, Json, IOUtils

Trace == JsonDeserialize(IOEnv.TRACE_FILE)
VARIABLE i
\* observed outcome o / context afterwards p against an allowed result x
Matches(o, p, x) ==
  /\ o.ok = x.out.ok
  /\ IF o.ok THEN Eq(p, x.post) /\ Eq(o.r, x.post) ELSE o.exc = x.out.exc /\ Eq(p, x.post)
MatchValue(o, e, r) ==
  /\ o.ok = e.ok
  /\ IF o.ok THEN Eq(o.r, e.r) ELSE o.exc = e.exc
  /\ Eq(r.post, r.ctx)
RecOk(r) ==
  LET c == r.call IN
  CASE c.op = "get"      -> MatchValue(r.out, GetRefC(c, r.ctx), r)
    [] c.op = "getd"     -> \E e \in GetDOutcomes(c, r.ctx) : MatchValue(r.out, e, r)
    [] c.op = "format"   -> /\ Eq(r.post, r.ctx)
                            /\ IF AllPresent(r.ctx, c.tpl) THEN r.out.ok /\ Eq(r.out.r, r.rs)
                               ELSE ~r.out.ok /\ r.out.exc = "LenaKeyError"
    [] c.op = "contains" -> r.out.ok /\ r.out.r = ContainsRef(r.ctx, c.path) /\ Eq(r.post, r.ctx)
    [] c.op = "update"   -> /\ \E x \in UpdateOutcomes(c, r.ctx, r.rs) : Matches(r.out, r.post, x)
                            /\ FrameOK(r.ctx, r.post, c.path)
    [] c.op = "delete"   -> /\ \E x \in DeleteOutcomes(c, r.ctx) : Matches(r.out, r.post, x)
                            /\ FrameOK(r.ctx, r.post, c.path)
    [] c.op = "fuw"      -> /\ \E x \in FuwOutcomes(c, r.ctx, r.rs) : Matches(r.out, r.post, x)
                            /\ FrameOK(r.ctx, r.post, c.path)
Init == i = 1
Next == i <= Len(Trace) /\ RecOk(Trace[i]) /\ i' = i + 1
Spec == Init /\ [][Next]_i
Accepted == /\ PrintT(<<"ACCEPTED", TLCGet("stats").diameter - 1>>)
            /\ TLCGet("stats").diameter - 1 = Len(Trace)
=============================================================================
