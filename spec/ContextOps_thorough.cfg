SPECIFICATION Spec
CONSTANTS
  KeyOrder <- KO2
  Ctxs <- CtxT2
  Calls <- CallsThorough
INVARIANT GetIsRef
INVARIANT ContainsIsRef
INVARIANT FormatIsRef
INVARIANT UpdateIsRef
INVARIANT DeleteIsRef
INVARIANT FuwIsRef
PROPERTY QueriesPure
CHECK_DEADLOCK FALSE
