SPECIFICATION Spec
CONSTANTS
  KeyOrder <- KO2
  Ctxs <- CtxT2
  Flows <- SingleFlows
  Calls <- CallsThorough
INVARIANT GetIsRef
INVARIANT ContainsIsRef
INVARIANT FormatIsRef
INVARIANT UpdateIsRef
INVARIANT DeleteIsRef
INVARIANT NotationsAgree
INVARIANT FuwIsRef
PROPERTY QueriesPure
PROPERTY ElementStateless
CHECK_DEADLOCK FALSE
