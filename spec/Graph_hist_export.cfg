SPECIFICATION Spec
CONSTANTS MaxOps = 3
  Tails = {"", "low", "high"}
  MaxErr = 3
  GScales <- ScalesAll
  Targets <- TargetsAll
  Share = FALSE
  Patterns = {1, 2}
INVARIANT Emitted
CHECK_DEADLOCK FALSE
