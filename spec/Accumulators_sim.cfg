SPECIFICATION Spec
CONSTANTS MaxLen = 14 Wide = TRUE
  Kinds <- ThoroughKinds
INVARIANT Aggregate
INVARIANT Yielded
INVARIANT FreshEquiv
INVARIANT ContextOfLast
INVARIANT NoMemory
INVARIANT VarianceIdentity
INVARIANT DSumOrderFree
INVARIANT NumericKinds
PROPERTY ResetIsFresh
PROPERTY ComputeIdempotent
CHECK_DEADLOCK FALSE
