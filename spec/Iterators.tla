----------------------------- MODULE Iterators -----------------------------
(***************************************************************************)
(* Reverse, Chain, CountFrom (lena/flow/iterators.py) and RunningChunkBy   *)
(* (lena/flow/elements.py) as pull/yield machines, with their Python       *)
(* references: reversed(list(xs)), itertools.chain, itertools.count and    *)
(* the sliding windows of a given size.                                    *)
(***************************************************************************)
EXTENDS Integers, Sequences, TLC, Json

CONSTANTS MaxN, MaxK
Starts == {-2, 0, 3}
StepsC == {-1, 1, 2}

RECURSIVE Iota(_)
Iota(m) == IF m = 0 THEN <<>> ELSE Append(Iota(m - 1), m - 1)
RECURSIVE Rev(_)
Rev(xs) == IF xs = <<>> THEN <<>> ELSE Append(Rev(Tail(xs)), Head(xs))
\* all windows of size k of xs, in order
Windows(xs, k) == IF Len(xs) < k THEN <<>> ELSE [j \in 1..(Len(xs) - k + 1) |-> SubSeq(xs, j, j + k - 1)]
CountRef(start, step, n) == [j \in 1..n |-> start + (j - 1) * step]

VARIABLES kind,   \* "reverse" | "chunk" | "chain" | "count"
          p1, p2, \* parameters: chunk size / chain lengths / count start, step
          N,      \* input length (reverse, chunk) or number of values taken (count)
          pos, buf, ph, out, pulls
vars == <<kind, p1, p2, N, pos, buf, ph, out, pulls>>

Init == /\ kind \in {"reverse", "chunk", "chain", "count"}
        /\ N \in 0..MaxN
        /\ \/ kind = "reverse" /\ p1 = 0 /\ p2 = 0
           \/ kind = "chunk" /\ p1 \in 1..MaxK /\ p2 = 0
           \/ kind = "chain" /\ p1 \in 0..MaxN /\ p2 \in 0..MaxN      \* Chain(range(p1), range(p2), range(N))
           \/ kind = "count" /\ p1 \in Starts /\ p2 \in StepsC
        /\ pos = 0 /\ buf = <<>> /\ ph = "run" /\ out = <<>> /\ pulls = <<>>

\* Reverse.run: list(flow), then pop() until empty
RevCollect == /\ kind = "reverse" /\ ph = "run"
              /\ IF pos < N THEN buf' = Append(buf, pos) /\ pos' = pos + 1 /\ UNCHANGED <<ph, out, pulls>>
                 ELSE ph' = "pop" /\ UNCHANGED <<buf, pos, out, pulls>>
RevPop == /\ kind = "reverse" /\ ph = "pop"
          /\ IF buf # <<>> THEN /\ out' = Append(out, buf[Len(buf)]) /\ pulls' = Append(pulls, pos)
                                /\ buf' = SubSeq(buf, 1, Len(buf) - 1) /\ UNCHANGED <<ph, pos>>
             ELSE ph' = "done" /\ UNCHANGED <<buf, pos, out, pulls>>

\* RunningChunkBy.run: deque(islice(flow, k), maxlen=k); for val in flow: yield chunk; append
ChunkFill == /\ kind = "chunk" /\ ph = "run"
             /\ IF Len(buf) < p1 /\ pos < N THEN buf' = Append(buf, pos) /\ pos' = pos + 1 /\ UNCHANGED <<ph, out, pulls>>
                ELSE ph' = "slide" /\ UNCHANGED <<buf, pos, out, pulls>>
ChunkSlide == /\ kind = "chunk" /\ ph = "slide"
              /\ IF pos < N
                 THEN /\ pos' = pos + 1 /\ out' = Append(out, buf) /\ pulls' = Append(pulls, pos')
                      /\ buf' = IF Len(buf) = p1 THEN Append(Tail(buf), pos) ELSE Append(buf, pos)
                      /\ UNCHANGED ph
                 ELSE /\ ph' = "done" /\ UNCHANGED <<pos, buf>>
                      /\ IF Len(buf) = p1 THEN out' = Append(out, buf) /\ pulls' = Append(pulls, pos)
                         ELSE UNCHANGED <<out, pulls>>

\* Chain.__call__: itertools.chain over the iterables; buf[1] = current iterable, buf[2] = index in it
ChainLens == <<p1, p2, N>>
ChainStep == /\ kind = "chain" /\ ph = "run"
             /\ LET it == IF buf = <<>> THEN 1 ELSE buf[1]
                    j == IF buf = <<>> THEN 0 ELSE buf[2] IN
                IF it > 3 THEN ph' = "done" /\ UNCHANGED <<buf, out, pulls, pos>>
                ELSE IF j < ChainLens[it]
                     THEN /\ out' = Append(out, <<it, j>>) /\ pos' = pos + 1 /\ pulls' = Append(pulls, pos')
                          /\ buf' = <<it, j + 1>> /\ UNCHANGED ph
                     ELSE buf' = <<it + 1, 0>> /\ UNCHANGED <<ph, out, pulls, pos>>

\* CountFrom.__call__: infinite; the consumer takes N values
CountStep == /\ kind = "count" /\ ph = "run"
             \* like itertools.count: the next value is the previous one plus the step (repeated addition;
             \* on integers this equals start + i*step, which is what the reference CountRef states)
             /\ IF Len(out) < N THEN out' = Append(out, IF out = <<>> THEN p1 ELSE out[Len(out)] + p2)
                                     /\ UNCHANGED <<ph, buf, pos, pulls>>
                ELSE ph' = "done" /\ UNCHANGED <<out, buf, pos, pulls>>

K == UNCHANGED <<kind, p1, p2, N>>
ARevCollect == RevCollect /\ K
ARevPop == RevPop /\ K
AChunkFill == ChunkFill /\ K
AChunkSlide == ChunkSlide /\ K
AChainStep == ChainStep /\ K
ACountStep == CountStep /\ K
Next == ARevCollect \/ ARevPop \/ AChunkFill \/ AChunkSlide \/ AChainStep \/ ACountStep
Spec == Init /\ [][Next]_vars
Done == ph = "done"

RECURSIVE Tagged(_, _)
Tagged(it, n) == [j \in 1..n |-> <<it, j - 1>>]
Ref == CASE kind = "reverse" -> Rev(Iota(N))
         [] kind = "chunk" -> Windows(Iota(N), p1)
         [] kind = "chain" -> Tagged(1, p1) \o Tagged(2, p2) \o Tagged(3, N)
         [] kind = "count" -> CountRef(p1, p2, N)
EqRef == Done => out = Ref
\* RunningChunkBy holds at most chunk_size values; the j-th window needs k + j - 1 input values (+1 look-ahead)
Min2(x, y) == IF x < y THEN x ELSE y
ChunkLazy == kind = "chunk" => /\ Len(buf) <= p1
                               /\ \A j \in 1..Len(pulls) : pulls[j] <= Min2(p1 + j, N)
Emitted == Done => PrintT(ToJson([kind |-> kind, p1 |-> p1, p2 |-> p2, n |-> N, out |-> out, pulls |-> pulls]))
=============================================================================
