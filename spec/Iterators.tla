----------------------------- MODULE Iterators -----------------------------
(***************************************************************************)
(* Reverse, Chain, CountFrom (lena/flow/iterators.py) and RunningChunkBy   *)
(* (lena/flow/elements.py) as pull/yield machines, with their Python       *)
(* references: reversed(list(xs)), itertools.chain, itertools.count and    *)
(* the sliding windows of a given size.                                    *)
(*                                                                         *)
(* opt is the way the element is constructed / fed:                        *)
(*   reverse  kind of the flow: iterator, list, tuple, generator, range,   *)
(*            collections.deque, a dict keys view, "useq" (a registered    *)
(*            Sequence with integer indices only), "legacy" (an object     *)
(*            without __iter__, iterated through __getitem__), "bare" (an  *)
(*            object with __iter__ only); see SliceFlow.tla; "h..."        *)
(*            iterators with an inexact length hint (the machines never    *)
(*            ask for it; the same kinds are fed to RunningChunkBy)        *)
(*   chunk    container of the windows: "tuple" (default), "tuple_it"      *)
(*            (tuple, from_iterable=True), "list_it", "list_it1"           *)
(*            (from_iterable=1), "set_it", "frozenset_it", "tuplesub_it"   *)
(*            (a subclass of tuple from an iterable), "nt" (namedtuple,    *)
(*            positional arguments), "fn_pos" / "fn_it" (user callables    *)
(*            taking positional arguments / one iterable, which put the    *)
(*            marker -1 in front of the window), "deque_it" / "bytearray_it" *)
(*            (collections.deque / bytearray from an iterable: mutable      *)
(*            containers; the deque is also the type of the element's own   *)
(*            running buffer)                                               *)
(*   chain    number and kind of the iterables: "0", "1list", "2list",     *)
(*            "3list", "3tuple", "3range", "3gen", "3iter", "3mixed",      *)
(*            "3hint" (iterators with a too small / too large / no hint)   *)
(*   count    arguments given: "both", "kwboth", "start" (step defaults    *)
(*            to 1), "kwstep" (start defaults to 0), "none"                *)
(***************************************************************************)
EXTENDS Integers, Sequences, TLC, Json

CONSTANTS MaxN, MaxK,
          ShareBuffer   \* FALSE: every result is a new object (the documented "constructor for new chunks");
                        \* TRUE: sensitivity guard - a container of the buffer's own type is not converted, the
                        \* live buffer itself is handed out (TLC must refute HeldFrozen)
Starts == {-2, 0, 3}
StepsC == {-1, 0, 1, 2}
RevOpts == {"iter", "list", "tuple", "gen", "range", "deque", "keys", "useq", "legacy", "bare",
            \* iterators whose length hint (PEP 424) is too small / too large / zero / NotImplemented / a TypeError
            "hsmall", "hlarge", "hzero", "hnotimpl", "htypeerr"}
ChunkOpts == {"tuple", "tuple_it", "list_it", "list_it1", "set_it", "frozenset_it", "tuplesub_it", "nt", "fn_pos", "fn_it", "deque_it", "bytearray_it"}
MutableChunks == {"list_it", "list_it1", "set_it", "fn_pos", "fn_it", "deque_it", "bytearray_it"}
ChainOpts == {"0", "1list", "2list", "3list", "3tuple", "3range", "3gen", "3iter", "3mixed", "3hint"}
CountOpts == {"both", "kwboth", "start", "kwstep", "none"}

RECURSIVE Iota(_)
Iota(m) == IF m = 0 THEN <<>> ELSE Append(Iota(m - 1), m - 1)
RECURSIVE Rev(_)
Rev(xs) == IF xs = <<>> THEN <<>> ELSE Append(Rev(Tail(xs)), Head(xs))
\* all windows of size k of xs, in order
Windows(xs, k) == IF Len(xs) < k THEN <<>> ELSE [j \in 1..(Len(xs) - k + 1) |-> SubSeq(xs, j, j + k - 1)]
CountRef(start, step, n) == [j \in 1..n |-> start + (j - 1) * step]

VARIABLES kind,   \* "reverse" | "chunk" | "chain" | "count"
          p1, p2, \* parameters: chunk size / chain lengths / count start, step
          N,      \* input length (reverse, chunk) or number of values taken (count)
          opt,    \* construction / feeding variant (see above)
          pos, buf, ph, out, pulls,
          ids     \* results HELD by the consumer: the object yielded as out[j] is object ids[j]; object 0 is the
                  \* element's own running buffer (whose content keeps changing), object k > 0 the k-th object
                  \* made by the container constructor (its content is fixed when it is made)
vars == <<kind, p1, p2, N, opt, pos, buf, ph, out, pulls, ids>>

Arity == CASE opt = "0" -> 0 [] opt = "1list" -> 1 [] opt = "2list" -> 2 [] OTHER -> 3
Init == /\ kind \in {"reverse", "chunk", "chain", "count"}
        /\ N \in 0..MaxN
        /\ \/ kind = "reverse" /\ p1 = 0 /\ p2 = 0 /\ opt \in RevOpts
           \/ kind = "chunk" /\ p1 \in 1..MaxK /\ p2 = 0 /\ opt \in ChunkOpts
           \/ /\ kind = "chain" /\ p1 \in 0..MaxN /\ p2 \in 0..MaxN /\ opt \in ChainOpts   \* Chain(range(p1), range(p2), range(N))
              /\ (opt # "3list" => p1 \in {0, 2} /\ p2 \in {0, 1})
              /\ (Arity <= 2 => N = 0) /\ (Arity <= 1 => p2 = 0) /\ (Arity = 0 => p1 = 0)
           \/ /\ kind = "count" /\ p1 \in Starts /\ p2 \in StepsC /\ opt \in CountOpts
              /\ (opt \in {"start", "none"} => p2 = 1) /\ (opt \in {"kwstep", "none"} => p1 = 0)
        /\ pos = 0 /\ buf = <<>> /\ ph = "run" /\ out = <<>> /\ pulls = <<>> /\ ids = <<>>

\* Reverse.run: list(flow), then pop() until empty
RevCollect == /\ kind = "reverse" /\ ph = "run"
              /\ IF pos < N THEN buf' = Append(buf, pos) /\ pos' = pos + 1 /\ UNCHANGED <<ph, out, pulls>>
                 ELSE ph' = "pop" /\ UNCHANGED <<buf, pos, out, pulls>>
RevPop == /\ kind = "reverse" /\ ph = "pop"
          /\ IF buf # <<>> THEN /\ out' = Append(out, buf[Len(buf)]) /\ pulls' = Append(pulls, pos)
                                /\ buf' = SubSeq(buf, 1, Len(buf) - 1) /\ UNCHANGED <<ph, pos>>
             ELSE ph' = "done" /\ UNCHANGED <<buf, pos, out, pulls>>

\* RunningChunkBy.run: deque(islice(flow, k), maxlen=k); for val in flow: yield chunk; append
\* the container is built from the window (user callables put the marker -1 in front)
Wrap(w) == IF opt \in {"fn_pos", "fn_it"} THEN <<-1>> \o w ELSE w
ChunkFill == /\ kind = "chunk" /\ ph = "run"
             /\ IF Len(buf) < p1 /\ pos < N THEN buf' = Append(buf, pos) /\ pos' = pos + 1 /\ UNCHANGED <<ph, out, pulls>>
                ELSE ph' = "slide" /\ UNCHANGED <<buf, pos, out, pulls>>
ChunkSlide == /\ kind = "chunk" /\ ph = "slide"
              /\ IF pos < N
                 THEN /\ pos' = pos + 1 /\ out' = Append(out, Wrap(buf)) /\ pulls' = Append(pulls, pos')
                      /\ buf' = IF Len(buf) = p1 THEN Append(Tail(buf), pos) ELSE Append(buf, pos)
                      /\ UNCHANGED ph
                 ELSE /\ ph' = "done" /\ UNCHANGED <<pos, buf>>
                      /\ IF Len(buf) = p1 THEN out' = Append(out, Wrap(buf)) /\ pulls' = Append(pulls, pos)
                         ELSE UNCHANGED <<out, pulls>>

\* Chain.__call__: itertools.chain over the iterables; buf[1] = current iterable, buf[2] = index in it
ChainLens == SubSeq(<<p1, p2, N>>, 1, Arity)
ChainStep == /\ kind = "chain" /\ ph = "run"
             /\ LET it == IF buf = <<>> THEN 1 ELSE buf[1]
                    j == IF buf = <<>> THEN 0 ELSE buf[2] IN
                IF it > Arity THEN ph' = "done" /\ UNCHANGED <<buf, out, pulls, pos>>
                ELSE IF j < ChainLens[it]
                     THEN /\ out' = Append(out, <<it, j>>) /\ pos' = pos + 1 /\ pulls' = Append(pulls, pos')
                          /\ buf' = <<it, j + 1>> /\ UNCHANGED ph
                     ELSE buf' = <<it + 1, 0>> /\ UNCHANGED <<ph, out, pulls, pos>>

\* CountFrom.__call__: infinite; the consumer takes N values
CountStep == /\ kind = "count" /\ ph = "run"
             \* like itertools.count: the next value is the previous one plus the step (repeated addition;
             \* on integers this equals start + i*step, which is what the reference CountRef states)
             /\ IF Len(out) < N THEN out' = Append(out, IF out = <<>> THEN p1 ELSE out[Len(out)] + p2)
                                     /\ UNCHANGED <<ph, buf, pos, pulls>>
                ELSE ph' = "done" /\ UNCHANGED <<out, buf, pos, pulls>>

K == UNCHANGED <<kind, p1, p2, N, opt>>
\* the object handed out with a window: container(chunk) makes a new one
NewObject == IF ShareBuffer /\ opt = "deque_it" THEN 0 ELSE Len(ids) + 1
ARevCollect == RevCollect /\ K /\ UNCHANGED ids
ARevPop == RevPop /\ K /\ UNCHANGED ids
AChunkFill == ChunkFill /\ K /\ UNCHANGED ids
AChunkSlide == ChunkSlide /\ K /\ ids' = IF Len(out') > Len(out) THEN Append(ids, NewObject) ELSE ids
AChainStep == ChainStep /\ K /\ UNCHANGED ids
ACountStep == CountStep /\ K /\ UNCHANGED ids
Next == ARevCollect \/ ARevPop \/ AChunkFill \/ AChunkSlide \/ AChainStep \/ ACountStep
Spec == Init /\ [][Next]_vars
Done == ph = "done"

RECURSIVE Tagged(_, _)
Tagged(it, n) == [j \in 1..n |-> <<it, j - 1>>]
RECURSIVE ChainRef(_)
ChainRef(it) == IF it > Arity THEN <<>> ELSE Tagged(it, ChainLens[it]) \o ChainRef(it + 1)
WrappedWindows == LET ws == Windows(Iota(N), p1) IN [j \in 1..Len(ws) |-> Wrap(ws[j])]
Ref == CASE kind = "reverse" -> Rev(Iota(N))
         [] kind = "chunk" -> WrappedWindows
         [] kind = "chain" -> ChainRef(1)
         [] kind = "count" -> CountRef(p1, p2, N)
EqRef == Done => out = Ref
\* Results held by the consumer (list(run(flow)), comparing neighbouring windows, storing chunks): what the
\* object yielded as the j-th result contains NOW - the live buffer shows its present content
Held(j) == IF ids[j] = 0 THEN Wrap(buf) ELSE out[j]
HeldNow == [j \in 1..Len(ids) |-> Held(j)]
\* every result still is what it was when it was yielded, however far the run has continued
HeldFrozen == kind = "chunk" => Len(ids) = Len(out) /\ \A j \in 1..Len(out) : Held(j) = out[j]
HeldEqRef == (kind = "chunk" /\ Done) => HeldNow = Ref
\* successive results are different objects, none of them the buffer (matters for mutable containers: the
\* consumer may change a window it was given without changing the other windows or the rest of the run)
Fresh == \A j \in 1..Len(ids) : ids[j] # 0 /\ \A k \in 1..Len(ids) : k # j => ids[k] # ids[j]
FreshResults == kind = "chunk" => Fresh
\* RunningChunkBy holds at most chunk_size values; the j-th window needs k + j - 1 input values (+1 look-ahead)
Min2(x, y) == IF x < y THEN x ELSE y
ChunkLazy == kind = "chunk" => /\ Len(buf) <= p1
                               /\ \A j \in 1..Len(pulls) : pulls[j] <= Min2(p1 + j, N)
\* the defaults of CountFrom are start = 0 and step = 1
CountDefaults == (kind = "count" /\ Done /\ N > 0) =>
                    /\ (opt \in {"kwstep", "none"} => out[1] = 0)
                    /\ (opt \in {"start", "none"} /\ N > 1 => out[2] = out[1] + 1)
\* CountFrom has no upper bound of its own: after k steps the value is start + k*step for ALL k (TLC integers
\* are bounded, so the machine is followed symbolically: CountStep has no guard on the value; the replay
\* shifts every scenario by offsets up to and beyond the machine word) and the run ends only because the
\* consumer stops taking values
CountLinear == kind = "count" => \A j \in 1..Len(out) : out[j] = p1 + (j - 1) * p2
CountNeverEndsByItself == (kind = "count" /\ ph = "done") => Len(out) = N
Emitted == Done => PrintT(ToJson([kind |-> kind, p1 |-> p1, p2 |-> p2, n |-> N, opt |-> opt, out |-> out, pulls |-> pulls,
                                  held |-> IF kind = "chunk" THEN HeldNow ELSE <<>>,
                                  fresh |-> (kind = "chunk" /\ Fresh), mutable |-> (opt \in MutableChunks)]))
=============================================================================
