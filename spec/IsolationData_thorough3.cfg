SPECIFICATION Spec
CONSTANTS MaxBr = 3 MaxN = 2 CopyMode = "deep"
  BufSizes <- BufFew
  Kinds <- ThreeKinds
  Templates <- ThreeTemplates
INVARIANT Isolated
INVARIANT YieldedStable
INVARIANT HeldDisjoint
INVARIANT YieldedDisjoint
INVARIANT SourceByLastOnly
INVARIANT Emitted
CHECK_DEADLOCK FALSE
