---------------------------- MODULE Trace_Output ----------------------------
(***************************************************************************)
(* Validation of runs of the real output chain (plain and grouped)         *)
(* recorded by lenaverif/outlib.py.  Trace is a sequence of histories      *)
(*   [srcs, obj, set, runs]      runs = sequence of                        *)
(*   [touched = [del, data, tpl], exc, stray, obs]                         *)
(*   obs[p] = [files = [csv (one per source), tex, pdf, png],              *)
(*             wrote = [csv (one per source), tex], launched = [pdf, png], *)
(*             ch, path_ok, nvals]                                         *)
(* touched.del holds <<p, kind, m>> (m = 0 for tex / pdf / png),           *)
(* touched.data <<p, m>>.                                                  *)
(* The state is what the real run left behind (observed files) and the     *)
(* current versions; every run is judged by the predicates of OutputRef    *)
(* against the state before it.  A failed predicate is reported as         *)
(*   <<"BAD", history, run, predicate, plot>>                              *)
(* and the history goes on from the observed state; <<"END", history>>     *)
(* confirms that the whole history was consumed.                           *)
(***************************************************************************)
EXTENDS OutputRef, IOUtils, Json
Trace == JsonDeserialize(IOEnv.TRACE_FILE)
VARIABLES hi, j, dataVer, tplVer, files
tvars == <<hi, j, dataVer, tplVer, files>>
H == Trace[hi]
NP == Len(H.srcs)
TInit == /\ hi \in 1..Len(Trace) /\ j = 1
         /\ dataVer = [p \in 1..Len(Trace[hi].srcs) |-> [m \in 1..Trace[hi].srcs[p] |-> 1]] /\ tplVer = 1
         /\ files = [p \in 1..Len(Trace[hi].srcs) |->
                       [csv |-> [m \in 1..Trace[hi].srcs[p] |-> Absent], tex |-> Absent, pdf |-> Absent, png |-> Absent]]
Count(s, x) == Cardinality({i \in 1..Len(s) : s[i] = x})
Gone(e, p, k, m, f) == IF Count(e.touched.del, <<p, k, m>>) > 0 THEN Absent ELSE f
Report(name, p, cond) == IF cond THEN TRUE ELSE PrintT(<<"BAD", hi, j, name, p>>)
\* a file of plot p was deleted or one of its sources changed before run e
TouchedPlot(e, p) == \/ \E i \in 1..Len(e.touched.del) : e.touched.del[i][1] = p
                     \/ \E i \in 1..Len(e.touched.data) : e.touched.data[i][1] = p
NoOverwrite(s) == s.m1 # "overwrite" /\ s.m2 # "overwrite" /\ ~s.lo /\ ~s.po
Judge(e, dv, tv, pre) ==
  /\ Report("RunRaised", 0, e.exc = "")
  /\ \A p \in 1..NP : LET o == e.obs[p]  cur == Current(tv, dv[p]) IN
       \* every file named by a yielded value exists where it should, with the content made from the current data
       /\ Report("Yielded", p, o.nvals = 1 /\ o.path_ok)
       /\ Report("Current_csv", p, o.files.csv = cur.csv)
       /\ Report("Current_tex", p, o.files.tex = cur.tex)
       /\ Report("Current_pdf", p, o.files.pdf = cur.pdf)
       /\ Report("Current_png", p, o.files.png = cur.png)
       \* regenerated if anything it was rendered from was rewritten, or if it was missing
       /\ Report("Regenerated_pdf", p, RegeneratedPdf(pre[p], o.wrote, o.launched))
       /\ Report("Regenerated_png", p, RegeneratedPng(pre[p], o.launched))
       \* output.changed true whenever something changed, sticky downstream
       /\ Report("Changed", p, ChangedFlag(o.ch, o.wrote, o.launched))
       \* unchanged inputs: nothing rewritten, nothing launched
       /\ Report("NoRedo", p, (j >= 2 /\ e.touched.del = <<>> /\ e.touched.data = <<>> /\ ~e.touched.tpl
                               /\ NoOverwrite(H.set) /\ ~H.obj[p]) => (Nothing(o.wrote, o.launched) /\ e.stray = 0))
       \* ... and per plot / group: whatever was done to OTHER plots before the run, an untouched plot is not redone
       /\ Report("NoRedoPlot", p, (j >= 2 /\ ~TouchedPlot(e, p) /\ ~e.touched.tpl
                                   /\ NoOverwrite(H.set) /\ ~H.obj[p]) => Nothing(o.wrote, o.launched))
TNext == /\ j <= Len(H.runs)
         /\ LET e == H.runs[j]
                dv == [p \in 1..NP |-> [m \in 1..H.srcs[p] |-> dataVer[p][m] + Count(e.touched.data, <<p, m>>)]]
                tv == tplVer + (IF e.touched.tpl THEN 1 ELSE 0)
                pre == [p \in 1..NP |-> [csv |-> [m \in 1..H.srcs[p] |-> Gone(e, p, "csv", m, files[p].csv[m])],
                                         tex |-> Gone(e, p, "tex", 0, files[p].tex),
                                         pdf |-> Gone(e, p, "pdf", 0, files[p].pdf),
                                         png |-> Gone(e, p, "png", 0, files[p].png)]]
            IN /\ Judge(e, dv, tv, pre)
               /\ dataVer' = dv /\ tplVer' = tv
               /\ files' = [p \in 1..NP |-> [csv |-> e.obs[p].files.csv, tex |-> e.obs[p].files.tex,
                                             pdf |-> e.obs[p].files.pdf, png |-> e.obs[p].files.png]]
         /\ j' = j + 1 /\ hi' = hi
TSpec == TInit /\ [][TNext]_tvars
EndPrinted == (j = Len(H.runs) + 1) => PrintT(<<"END", hi>>)
=============================================================================
