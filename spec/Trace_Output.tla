---------------------------- MODULE Trace_Output ----------------------------
(***************************************************************************)
(* Validation of runs of the real output chain (plain and grouped)         *)
(* recorded by lenaverif/outlib.py.  Trace is a sequence of histories      *)
(*   [srcs, obj, set, runs]      runs = sequence of                        *)
(*   [touched = [del, data, tpl], exc, stray, obs]                         *)
(*   obs[p] = [files = [csv (one per source), tex, pdf, png],              *)
(*             wrote = [csv (one per source), tex], launched = [pdf, png], *)
(*             ch, path_ok, nvals]                                         *)
(* touched.del holds <<p, kind, m>> (m = 0 for tex / pdf / png),           *)
(* touched.data <<p, m>>.                                                  *)
(* The state is what the real run left behind (observed files) and the     *)
(* current versions; every run is judged by the predicates of OutputRef    *)
(* against the state before it.  A failed predicate is reported as         *)
(*   <<"BAD", history, run, predicate, plot, whose>>                       *)
(* whose = "design": the pinned DESIGN of the chain - RunPlot of           *)
(* OutputSem.tla with a Write that leaves output.changed alone when it     *)
(* creates a file, the known finding - fails the same predicate from the   *)
(* same state before the run; "other": it does not, so the failure is not  *)
(* the known finding.  For a plot with a failed predicate                  *)
(*   <<"DEV", history, run, plot, where>>                                  *)
(* names the first place along the chain where the observation departs     *)
(* from that design.  The history goes on from the observed state;         *)
(* <<"END", history>> confirms that the whole history was consumed.        *)
(***************************************************************************)
EXTENDS OutputSem, IOUtils, Json
Trace == JsonDeserialize(IOEnv.TRACE_FILE)
VARIABLES hi, j, dataVer, tplVer, files, newer
tvars == <<hi, j, dataVer, tplVer, files, newer>>
H == Trace[hi]
NP == Len(H.srcs)
TInit == /\ hi \in 1..Len(Trace) /\ j = 1
         /\ dataVer = [p \in 1..Len(Trace[hi].srcs) |-> [m \in 1..Trace[hi].srcs[p] |-> 1]] /\ tplVer = 1
         /\ files = [p \in 1..Len(Trace[hi].srcs) |->
                       [csv |-> [m \in 1..Trace[hi].srcs[p] |-> Absent], tex |-> Absent, pdf |-> Absent, png |-> Absent]]
         \* the tex of plot p was written after its pdf (what the modification times say)
         /\ newer = [p \in 1..Len(Trace[hi].srcs) |-> FALSE]
Count(s, x) == Cardinality({i \in 1..Len(s) : s[i] = x})
Gone(e, p, k, m, f) == IF Count(e.touched.del, <<p, k, m>>) > 0 THEN Absent ELSE f
\* a file of plot p was deleted or one of its sources changed before run e
TouchedPlot(e, p) == \/ \E i \in 1..Len(e.touched.del) : e.touched.del[i][1] = p
                     \/ \E i \in 1..Len(e.touched.data) : e.touched.data[i][1] = p
NoOverwrite(s) == s.m1 # "overwrite" /\ s.m2 # "overwrite" /\ ~s.lo /\ ~s.po
\* what the pinned design does with plot p in this run
Pinned(p, dv, tv, pre) == RunPlot(FALSE, H.set, H.obj[p], H.grouped, pre[p], newer[p], dv[p], tv)
\* the predicates of the statement for plot p: <<name, holds for the observation, holds for the pinned design>>
Verdicts(e, p, dv, tv, pre) ==
  LET o == e.obs[p]  cur == Current(tv, dv[p])  m == Pinned(p, dv, tv, pre)
      unchanged == j >= 2 /\ e.touched.del = <<>> /\ e.touched.data = <<>> /\ ~e.touched.tpl /\ NoOverwrite(H.set) /\ ~H.obj[p]
      untouched == j >= 2 /\ ~TouchedPlot(e, p) /\ ~e.touched.tpl /\ NoOverwrite(H.set) /\ ~H.obj[p]
  IN <<
       \* every file named by a yielded value exists where it should, with the content made from the current data
       <<"Yielded", o.nvals = 1 /\ o.path_ok, TRUE>>,
       <<"Current_csv", o.files.csv = cur.csv, m.files.csv = cur.csv>>,
       <<"Current_tex", o.files.tex = cur.tex, m.files.tex = cur.tex>>,
       <<"Current_pdf", o.files.pdf = cur.pdf, m.files.pdf = cur.pdf>>,
       <<"Current_png", o.files.png = cur.png, m.files.png = cur.png>>,
       \* regenerated if anything it was rendered from was rewritten, or if it was missing
       <<"Regenerated_pdf", RegeneratedPdf(pre[p], o.wrote, o.launched), RegeneratedPdf(pre[p], m.wrote, m.launched)>>,
       <<"Regenerated_png", RegeneratedPng(pre[p], o.launched), RegeneratedPng(pre[p], m.launched)>>,
       \* output.changed true whenever something changed, sticky downstream
       <<"Changed", ChangedFlag(o.ch, o.wrote, o.launched), ChangedFlag(m.ch, m.wrote, m.launched)>>,
       \* unchanged inputs: nothing rewritten, nothing launched
       <<"NoRedo", unchanged => (Nothing(o.wrote, o.launched) /\ e.stray = 0), unchanged => Nothing(m.wrote, m.launched)>>,
       \* ... and per plot / group: whatever was done to OTHER plots before the run, an untouched plot is not redone
       <<"NoRedoPlot", untouched => Nothing(o.wrote, o.launched), untouched => Nothing(m.wrote, m.launched)>>
     >>
\* (IF - not a disjunction: TLC explores both sides of a disjunction in an action)
Judge(e, dv, tv, pre) ==
  /\ (IF e.exc = "" THEN TRUE ELSE PrintT(<<"BAD", hi, j, "RunRaised", 0, "other">>))
  /\ \A p \in 1..NP : LET V == Verdicts(e, p, dv, tv, pre) IN
       /\ \A i \in 1..Len(V) : IF V[i][2] THEN TRUE
                                ELSE PrintT(<<"BAD", hi, j, V[i][1], p, IF V[i][3] THEN "other" ELSE "design">>)
       /\ (IF \A i \in 1..Len(V) : V[i][2] THEN TRUE
           ELSE PrintT(<<"DEV", hi, j, p, FirstDeviation(e.obs[p], Pinned(p, dv, tv, pre))>>))
TNext == /\ j <= Len(H.runs)
         /\ LET e == H.runs[j]
                dv == [p \in 1..NP |-> [m \in 1..H.srcs[p] |-> dataVer[p][m] + Count(e.touched.data, <<p, m>>)]]
                tv == tplVer + (IF e.touched.tpl THEN 1 ELSE 0)
                pre == [p \in 1..NP |-> [csv |-> [m \in 1..H.srcs[p] |-> Gone(e, p, "csv", m, files[p].csv[m])],
                                         tex |-> Gone(e, p, "tex", 0, files[p].tex),
                                         pdf |-> Gone(e, p, "pdf", 0, files[p].pdf),
                                         png |-> Gone(e, p, "png", 0, files[p].png)]]
            IN /\ Judge(e, dv, tv, pre)
               /\ dataVer' = dv /\ tplVer' = tv
               /\ files' = [p \in 1..NP |-> [csv |-> e.obs[p].files.csv, tex |-> e.obs[p].files.tex,
                                             pdf |-> e.obs[p].files.pdf, png |-> e.obs[p].files.png]]
               /\ newer' = [p \in 1..NP |-> IF e.obs[p].launched.pdf THEN FALSE ELSE newer[p] \/ e.obs[p].wrote.tex]
         /\ j' = j + 1 /\ hi' = hi
TSpec == TInit /\ [][TNext]_tvars
EndPrinted == (j = Len(H.runs) + 1) => PrintT(<<"END", hi>>)
=============================================================================
