---------------------------- MODULE BinSearchInd ----------------------------
(***************************************************************************)
(* Apalache obligation (extra to the TLC runs of BinSearch.tla): the loop  *)
(* invariant of get_bin_on_value_1d is INDUCTIVE for arrays of N strictly  *)
(* increasing UNBOUNDED integers, every integer value and every guess in   *)
(* ind_min..ind_max - so correctness does not depend on the spacing or the *)
(* magnitude of the edges, only on their order.                            *)
(*                                                                         *)
(*   apalache-mc check --cinit=CInit --init=Init    --inv=IndInv --length=0 *)
(*   apalache-mc check --cinit=CInit --init=IndInit --inv=IndInv --length=1 *)
(*   apalache-mc check --cinit=CInit --init=IndInit --inv=Shrinks --length=1*)
(*                                                                         *)
(* The correct answer is stated without cardinalities:                     *)
(* Idx(val, arr) = r  <=>  Correct(r)  for strictly increasing arr.        *)
(***************************************************************************)
EXTENDS Integers

CONSTANT
  \* @type: Int;
  N

VARIABLES
  \* @type: Int -> Int;
  arr,
  \* @type: Int;
  val,
  \* @type: Int;
  lo,
  \* @type: Int;
  hi,
  \* @type: Int;
  res

NoRes == -1000
Dom == 0..11
Used == {i \in Dom : i < N}
CInit == N \in 2..12

Sorted == \A i \in Used, j \in Used : i < j => arr[i] < arr[j]
Correct(r) == \/ r = -1 /\ val < arr[0]
              \/ r = N - 1 /\ val >= arr[N - 1]
              \/ r \in Used /\ r < N - 1 /\ arr[r] <= val /\ val < arr[r + 1]

Init == /\ arr \in [Dom -> Int] /\ Sorted
        /\ val \in Int
        /\ lo = 0 /\ hi = N - 1 /\ res = NoRes

IndInv == /\ Sorted
          /\ lo \in Used /\ hi \in Used
          /\ res = NoRes => /\ lo < hi
                            /\ (lo > 0 => arr[lo - 1] <= val)
                            /\ (hi < N - 1 => val < arr[hi + 1])
          /\ res # NoRes => Correct(res)
IndInit == /\ arr \in [Dom -> Int] /\ val \in Int /\ lo \in Dom /\ hi \in Dom
           /\ res \in (-1..11) \union {NoRes}
           /\ IndInv

Return(r) == res' = r /\ UNCHANGED <<arr, val, lo, hi>>
Continue(l, u) == lo' = l /\ hi' = u /\ UNCHANGED <<arr, val, res>>
Running == res = NoRes
Close == /\ Running /\ hi - lo <= 1
         /\ Return(IF val < arr[lo] THEN lo - 1 ELSE IF val >= arr[hi] THEN hi ELSE lo)
Wide == Running /\ hi - lo > 1
HitLow == Wide /\ val = arr[lo] /\ Return(lo)
Below == Wide /\ val < arr[lo] /\ Return(lo - 1)
AtOrAbove == Wide /\ val > arr[lo] /\ val >= arr[hi] /\ Return(hi)
Interior == Wide /\ arr[lo] < val /\ val < arr[hi]
GuessLow == Interior /\ Continue(lo + 1, hi)
GuessHigh == Interior /\ Continue(lo, hi - 1)
NarrowDown == Interior /\ \E g \in Used : lo < g /\ g < hi /\ val < arr[g] /\ Continue(lo, g)
NarrowUp == Interior /\ \E g \in Used : lo < g /\ g < hi /\ val >= arr[g] /\ Continue(g, hi)
Finished == ~Running /\ UNCHANGED <<arr, val, lo, hi, res>>
Next == Close \/ HitLow \/ Below \/ AtOrAbove \/ GuessLow \/ GuessHigh \/ NarrowDown \/ NarrowUp \/ Finished

\* action invariant: an iteration that does not return shrinks the interval
Shrinks == (res = NoRes /\ res' = NoRes) => hi' - lo' < hi - lo
=============================================================================
