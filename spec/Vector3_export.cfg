SPECIFICATION Spec
CONSTANTS MaxOps = 1
  Depth = 1
INVARIANT Emitted
CHECK_DEADLOCK FALSE
