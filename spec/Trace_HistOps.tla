--------------------------- MODULE Trace_HistOps ---------------------------
(***************************************************************************)
(* Validation of operations recorded from the real lena objects on random  *)
(* float data (C12).  Numbers are logged as exact rationals <<num, den>>   *)
(* (the harness checks that the floats it saw are within 1e-9 of them).    *)
(* One record per operation, three kinds:                                  *)
(*  k = "hist":  [op, h (histogram before: edges (integers, real edge =    *)
(*      edge / ed), ed, bins, oor, cache), s, incl, rc, w, b (other        *)
(*      operand), ok, exc, val, a (histogram after), r (result of add)]    *)
(*  k = "graph": [g (graph before), s, ok, exc, g2 (graph after)]          *)
(*  k = "conv":  [hist (edges: even integers = real edge * 8, bins:        *)
(*      integer ids of the contents), op, mode, dup, ranges, ok, exc,      *)
(*      cols / cells / rows]                                               *)
(*  k = "addtol": add with edge tolerances at any magnitude, see AddTolOk  *)
(***************************************************************************)
EXTENDS HistOpsSem, TLC, Json, IOUtils

Trace == JsonDeserialize(IOEnv.TRACE_FILE)
VARIABLE i

SameHist(x, y) == x.edges = y.edges /\ x.bins = y.bins /\ x.oor = y.oor /\ x.cache = y.cache
HistOk(r) ==
  CASE r.op = "getscale" ->
         /\ r.ok /\ r.val = CurScale(r.h, r.rc)
         /\ SameHist(r.a, [r.h EXCEPT !.cache = r.val])
    [] r.op = "scale" ->
         LET x == ScaleOp(r.h, r.s) IN
         /\ r.ok = x.ok /\ (~r.ok => r.exc = x.exc)
         /\ r.a.edges = x.h.edges /\ r.a.bins = x.h.bins /\ r.a.oor = x.h.oor
         /\ r.ok => r.a.cache = r.s
    [] r.op = "set_nevents" ->
         LET x == SetNeventsOp(r.h, r.s, r.incl) IN
         /\ r.ok /\ r.a.edges = x.h.edges /\ r.a.bins = x.h.bins /\ r.a.oor = x.h.oor
         /\ r.val = r.s /\ Nevents(r.a.bins, r.a.oor, r.a.edges, r.incl) = r.s
    [] r.op = "add" ->
         LET x == AddOp(r.h, r.b, RI(r.w)) IN
         /\ r.ok = x.ok
         /\ r.ok => (r.r.edges = x.h.edges /\ r.r.bins = x.h.bins /\ r.r.oor = x.h.oor)
         /\ r.ok => IsNone(r.r.cache)             \* a new histogram: its scale was never computed
         /\ SameHist(r.a, r.h)                   \* operands unchanged (the harness logs b only if it is unchanged)
GraphOk(r) ==
  LET x == GraphScaleOp(r.g, r.s) IN
  /\ r.ok = x.ok /\ (~r.ok => r.exc = x.exc)
  /\ r.g2.cols = x.g.cols /\ r.g2.scale = x.g.scale
ConvOk(r) ==
  LET E == r.hist.edges
      B == r.hist.bins
      CL == CellList(B, E)
  IN CASE r.op = "to_graph" -> r.cols = HistToGraphOp(B, E, r.mode)
       [] r.op = "iter_bins" ->
            /\ Len(r.cells) = Len(CL)
            /\ \A j \in 1..Len(CL) : r.cells[j].idx = CL[j].idx /\ r.cells[j].v = CL[j].v
       [] r.op = "iter_bins_with_edges" ->
            /\ Len(r.cells) = Len(CL)
            /\ \A j \in 1..Len(CL) : r.cells[j].e = CL[j].e /\ r.cells[j].v = CL[j].v
       [] r.op = "iter_cells" ->
            LET x == IterCellsOp(B, E, r.ranges) IN
            /\ r.ok = x.ok /\ (~r.ok => r.exc = x.exc)
            /\ r.ok => (/\ Len(r.cells) = Len(x.out)
                        /\ \A j \in 1..Len(x.out) : /\ r.cells[j].e = x.out[j].e /\ r.cells[j].v = x.out[j].v
                                                    /\ r.cells[j].idx = x.out[j].idx)
       [] r.op = "csv" -> r.rows = CsvRef(B, E, r.dup) /\ r.rows = (IF Len(E) = 1 THEN Csv1Op(B, E, r.dup) ELSE Csv2Op(B, E, r.dup))
\* k = "addtol": [edges (integers; the real edges are these times a power of two per axis), pert, tol, ok]:
\* add returned a result exactly when the one perturbed edge is within the documented tolerance
AddTolOk(r) ==
  LET x == IF r.pert.kind = "none" THEN 0 ELSE r.edges[r.pert.axis][r.pert.pos] IN
  /\ AllIncreasing(r.edges)
  /\ r.ok = PertClose(x, r.pert, r.tol)
  /\ (r.tol.kind # "default" /\ r.pert.kind # "none") =>
       (r.ok = DocClose(RI(x), PertY(x, r.pert, r.tol), r.tol.rel, r.tol.abs))
RecOk(r) == CASE r.k = "hist" -> HistOk(r) [] r.k = "graph" -> GraphOk(r) [] r.k = "conv" -> ConvOk(r)
              [] r.k = "addtol" -> AddTolOk(r)

Init == i = 1
Next == i <= Len(Trace) /\ RecOk(Trace[i]) /\ i' = i + 1
Spec == Init /\ [][Next]_i
Accepted == /\ PrintT(<<"ACCEPTED", TLCGet("stats").diameter - 1>>)
            /\ TLCGet("stats").diameter - 1 = Len(Trace)
=============================================================================
