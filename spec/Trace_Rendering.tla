--------------------------- MODULE Trace_Rendering ---------------------------
(***************************************************************************)
(* Validation of results recorded from the real RenderLaTeX,               *)
(* iterable_to_table, ToCSV, LaTeXToPDF, PDFToPNG and Context on scenarios *)
(* beyond the exhaustive bounds (longer templates over random contexts,    *)
(* larger tables, deeper dictionaries, longer paths).  One record per      *)
(* scenario: [part, sc, res] with sc shaped like the scenarios of          *)
(* Rendering.tla and res what the harness observed, tokenised; a record is *)
(* accepted iff res is what the declarative operators of Rendering.tla     *)
(* allow.                                                                  *)
(***************************************************************************)
EXTENDS Rendering, IOUtils

Trace == JsonDeserialize(IOEnv.TRACE_FILE)
VARIABLE i

RecOk(r) == CASE r.part = "tpl" -> r.res = TplRef(r.sc.src, r.sc.ctx)
              [] r.part = "sel" -> r.res \in SelRef(r.sc)
              [] r.part = "table" -> r.res = Ok(TableRef(r.sc))
              [] r.part = "csv" -> r.res = CsvRef(r.sc)
              [] r.part = "cmd" -> r.res = CmdRef(r.sc)
              [] r.part = "repr" -> r.res = Ok(ReprRef(r.sc.es))
              [] r.part = "ctxop" -> r.res = CtxOpRef(r.sc.op)
              [] OTHER -> FALSE

\* the machine of Rendering.tla is not run here: its variables are parked
TInit == /\ i = 1
         /\ part = "trace" /\ sc = <<>> /\ ph = "trace" /\ w = <<>> /\ res = <<>>
TNext == i <= Len(Trace) /\ RecOk(Trace[i]) /\ i' = i + 1 /\ UNCHANGED vars
TSpec == TInit /\ [][TNext]_<<vars, i>>
Accepted == /\ PrintT(<<"ACCEPTED", TLCGet("stats").diameter - 1>>)
            /\ TLCGet("stats").diameter - 1 = Len(Trace)
=============================================================================
