----------------------------- MODULE HistOpsSem -----------------------------
(***************************************************************************)
(* Arithmetic, scaling and conversions of lena histograms and graphs       *)
(* (property C12).  No constants or variables: shared by HistOps.tla,      *)
(* Graph.tla, Convert.tla and Trace_HistOps.tla.                           *)
(*                                                                         *)
(* Numbers that are multiplied or divided are exact rationals <<num, den>> *)
(* (normalised, den > 0; <<0, 0>> stands for Python's None); the harness   *)
(* converts them to ints / floats and compares exactly where the value is  *)
(* representable and within 1e-9 otherwise (DESIGN.md 3.1).  Edges are     *)
(* integers (even where a "middle" is taken).  Bins are nested sequences   *)
(* like the nested lists of the code (HistSem.tla).                        *)
(***************************************************************************)
EXTENDS HistSem

(***************************************************************************)
(* Rationals.                                                              *)
(***************************************************************************)
Abs(x) == IF x < 0 THEN -x ELSE x
RECURSIVE GCD(_, _)
GCD(a, b) == IF b = 0 THEN a ELSE GCD(b, a % b)
R(n, d) == IF n = 0 THEN <<0, 1>>
           ELSE LET g == GCD(Abs(n), Abs(d))
                    s == IF d < 0 THEN -1 ELSE 1
                IN <<(s * n) \div g, (s * d) \div g>>
NoneR == <<0, 0>>
IsNone(p) == p[2] = 0
RI(k) == <<k, 1>>
RIsZero(p) == p[1] = 0 /\ p[2] # 0
RAdd(p, q) == R(p[1] * q[2] + q[1] * p[2], p[2] * q[2])
RMul(p, q) == R(p[1] * q[1], p[2] * q[2])
RDiv(p, q) == R(p[1] * q[2], p[2] * q[1])          \* q # 0
RECURSIVE RSum(_)
RSum(s) == IF Len(s) = 0 THEN RI(0) ELSE RAdd(s[1], RSum(Tail(s)))
RECURSIVE Concat(_)
Concat(ss) == IF Len(ss) = 0 THEN <<>> ELSE ss[1] \o Concat(Tail(ss))

(***************************************************************************)
(* Cells in the order of iteration ("edges with higher index are iterated  *)
(* first": the last index runs fastest).                                   *)
(***************************************************************************)
RECURSIVE NCellsFrom(_, _)
NCellsFrom(E, d) == IF d > Len(E) THEN 1 ELSE NB(E[d]) * NCellsFrom(E, d + 1)
NCells(E) == NCellsFrom(E, 1)
\* declarative: the j-th cell (j = 0..NCells-1) by mixed-radix decomposition
CellAt(E, j) == [d \in 1..Len(E) |-> (j \div NCellsFrom(E, d + 1)) % NB(E[d])]
CellEdges(E, cell) == [d \in 1..Len(E) |-> <<E[d][cell[d] + 1], E[d][cell[d] + 2]>>]
Volume(E, cell) == LET w == [d \in 1..Len(E) |-> E[d][cell[d] + 2] - E[d][cell[d] + 1]]
                   IN IF Len(E) = 1 THEN w[1] ELSE IF Len(E) = 2 THEN w[1] * w[2] ELSE w[1] * w[2] * w[3]

\* md_map(lambda c: c * f, bins)
RECURSIVE ScaleB(_, _, _)
ScaleB(b, k, f) == IF k = 0 THEN RMul(b, f) ELSE [j \in 1..Len(b) |-> ScaleB(b[j], k - 1, f)]
\* md_map(add, a, md_map(lambda c: c * w, b))
RECURSIVE AddB(_, _, _, _)
AddB(a, b, k, w) == IF k = 0 THEN RAdd(a, RMul(b, w)) ELSE [j \in 1..Len(a) |-> AddB(a[j], b[j], k - 1, w)]
\* hist_functions.iter_bins, written like the code: recursion over the nested lists
RECURSIVE IterBinsOp(_, _)
IterBinsOp(b, k) ==
  IF k = 0 THEN <<[idx |-> <<>>, v |-> b]>>
  ELSE Concat([i \in 1..Len(b) |->
         LET sub == IterBinsOp(b[i], k - 1)
         IN [j \in 1..Len(sub) |-> [idx |-> <<i - 1>> \o sub[j].idx, v |-> sub[j].v]]])
\* hist_functions.integral: sum over iter_bins of volume * content
Integral(b, E) == LET it == IterBinsOp(b, Len(E))
                  IN RSum([j \in 1..Len(it) |-> RMul(RI(Volume(E, it[j].idx)), it[j].v)])
\* histogram.get_nevents
Nevents(b, o, E, incl) == LET it == IterBinsOp(b, Len(E))
                              s == RSum([j \in 1..Len(it) |-> it[j].v])
                          IN IF incl THEN RAdd(s, o) ELSE s

(***************************************************************************)
(* Operations on a histogram [edges, bins, oor, cache] (cache = the stored *)
(* _scale, NoneR when never computed).  Results: [ok, exc, h].             *)
(***************************************************************************)
Hist(E, b, o, c) == [edges |-> E, bins |-> b, oor |-> o, cache |-> c]
Ok(h) == [ok |-> TRUE, exc |-> "", h |-> h]
Raise(e, h) == [ok |-> FALSE, exc |-> e, h |-> h]
\* real edges = integer edges / h.ed when the record has a field ed (traces of float meshes); the integral
\* then carries the factor 1 / ed^dim
RECURSIVE Pow(_, _)
Pow(x, k) == IF k = 0 THEN 1 ELSE x * Pow(x, k - 1)
EdgeDen(h) == IF "ed" \in DOMAIN h THEN h.ed ELSE 1
IntegralH(h) == RDiv(Integral(h.bins, h.edges), RI(Pow(EdgeDen(h), Len(h.edges))))
\* scale(): "If its scale was not computed before, it is computed and stored for subsequent use
\* (unless explicitly asked to recompute)"
CurScale(h, recompute) == IF IsNone(h.cache) \/ recompute THEN IntegralH(h) ELSE h.cache
\* scale(other)
ScaleOp(h, s) ==
  LET old == CurScale(h, FALSE) IN
  IF RIsZero(old) THEN Raise("LenaValueError", [h EXCEPT !.cache = old])
  ELSE LET f == RDiv(s, old)
       IN Ok([h EXCEPT !.bins = ScaleB(h.bins, Len(h.edges), f), !.oor = RMul(h.oor, f), !.cache = s])
\* set_nevents(n, include_out_of_range)   (defined for a non-zero number of events)
SetNeventsOp(h, n, incl) ==
  LET f == RDiv(n, Nevents(h.bins, h.oor, h.edges, incl))
  IN Ok([h EXCEPT !.bins = ScaleB(h.bins, Len(h.edges), f), !.oor = RMul(h.oor, f)])
\* a.add(b, w): a new histogram; only for equal edges
AddOp(a, b, w) ==
  IF a.edges # b.edges THEN Raise("LenaValueError", Hist(<<>>, <<>>, NoneR, NoneR))
  ELSE Ok(Hist(a.edges, AddB(a.bins, b.bins, Len(a.edges), w), RAdd(a.oor, RMul(b.oor, w)), NoneR))

(***************************************************************************)
(* Approximate equality of edges in add: "Histograms must have the same    *)
(* edges.  They are compared approximately using math.isclose with         *)
(* edges_abs_tol and edges_rel_tol tolerance levels" (defaults 0.0, 1e-9). *)
(*                                                                         *)
(* A tolerance: [kind, rel, abs].  kind = "default": add is called without *)
(* tolerance arguments (rel = 1e-9, abs = 0; 1e-9 does not fit TLC's       *)
(* integers together with the edges, see CloseRule); otherwise rel and abs *)
(* are passed explicitly and are exact rationals (powers of two, so that   *)
(* the boundary "difference = tolerance" is exact in floating point too).  *)
(* The other histogram has the edges of this one except for ONE edge x     *)
(* (pert = [axis, pos, kind, amt]):                                        *)
(*   kind "none": equal edges;  "grid": y = x + amt  (a large relative     *)
(*   amount);  "rel": y = x * (1 - amt * eps), eps the relative tolerance  *)
(*   in force.                                                             *)
(* Everything is relative to the magnitude of the edges: the harness       *)
(* multiplies all edges and abs by powers of two from 1e-300 to 1e300.     *)
(***************************************************************************)
RAbs(p) == <<Abs(p[1]), p[2]>>
RSub(p, q) == RAdd(p, RMul(q, RI(-1)))
RLe(p, q) == p[1] * q[2] <= q[1] * p[2]
RMax(p, q) == IF RLe(p, q) THEN q ELSE p
\* lena.math.utils._isclose, as written there
IsCloseOp(x, y, rel, abs) == RLe(RAbs(RSub(x, y)), RMax(RMul(rel, RMax(RAbs(x), RAbs(y))), abs))
\* its documentation: "rel_tol ... is multiplied by the greater of the magnitudes of the two arguments ...
\* abs_tol is the absolute tolerance.  If the difference is less than either of those tolerances, the values
\* are considered equal"
DocClose(x, y, rel, abs) == LET d == RAbs(RSub(x, y)) IN
                            \/ RLe(d, RMul(rel, RAbs(x))) \/ RLe(d, RMul(rel, RAbs(y))) \/ RLe(d, abs)
NoTol == [kind |-> "default", rel |-> NoneR, abs |-> RI(0)]
NoPert == [axis |-> 0, pos |-> 0, kind |-> "none", amt |-> RI(0)]
Eps == <<1, 1024>>
PertY(x, pert, tol) == IF pert.kind = "grid" THEN RAdd(RI(x), pert.amt)
                       ELSE RMul(RI(x), RSub(RI(1), RMul(pert.amt, tol.rel)))        \* "rel", explicit rel
\* The decision for a relative tolerance eps that is not computed with: a grid amount (>= 1/8 on edges of
\* magnitude <= 20, i.e. a relative difference > 6e-3) is never within eps <= 1e-3; for y = x (1 - t eps) the
\* difference t eps |x| is within eps max(|x|, |y|) = eps |x| iff t <= 1 (or x = 0).  HistOps.tla checks the
\* rule against the exact formula for the explicit eps = 1/1024 (RuleAgrees); for 1e-9 it holds a fortiori.
CloseRule(x, pert) == IF pert.kind = "grid" THEN FALSE ELSE (x = 0 \/ RLe(pert.amt, RI(1)))
PertClose(x, pert, tol) ==
  IF pert.kind = "none" THEN TRUE
  ELSE IF tol.kind = "default" THEN CloseRule(x, pert)
  ELSE IsCloseOp(RI(x), PertY(x, pert, tol), tol.rel, tol.abs)
\* a.add(b, w, edges_abs_tol, edges_rel_tol) where b has the edges of a but for the perturbed one
AddTolOp(a, b, w, pert, tol) ==
  LET x == IF pert.kind = "none" THEN 0 ELSE a.edges[pert.axis][pert.pos] IN
  IF ~PertClose(x, pert, tol) THEN Raise("LenaValueError", Hist(<<>>, <<>>, NoneR, NoneR))
  ELSE Ok(Hist(a.edges, AddB(a.bins, b.bins, Len(a.edges), w), RAdd(a.oor, RMul(b.oor, w)), NoneR))

(***************************************************************************)
(* graph.scale.  A graph: cols (columns of rationals), dim (number of      *)
(* coordinates), errs (for every error field the index c of its coordinate *)
(* and its tail t), scale.                                                 *)
(***************************************************************************)
ScaledCols(g) == {g.dim} \cup {g.dim + k : k \in {j \in 1..Len(g.errs) : g.errs[j].c = g.dim}}
GraphScaleOp(g, s) ==
  IF IsNone(g.scale) \/ RIsZero(g.scale) THEN [ok |-> FALSE, exc |-> "LenaValueError", g |-> g]
  ELSE LET f == RDiv(s, g.scale)
       IN [ok |-> TRUE, exc |-> "",
           g |-> [g EXCEPT !.cols = [k \in 1..Len(g.cols) |->
                                       IF k \in ScaledCols(g) THEN [j \in 1..Len(g.cols[k]) |-> RMul(g.cols[k][j], f)]
                                       ELSE g.cols[k]],
                           !.scale = s]]

(***************************************************************************)
(* Conversions (integer contents).                                         *)
(***************************************************************************)
\* iter_bins_with_edges: itertools.product over the index ranges
RECURSIVE ProductFrom(_, _)
ProductFrom(rs, d) ==          \* rs: per axis a sequence of indices; all tuples, last axis fastest
  IF d > Len(rs) THEN <<<<>>>>
  ELSE LET rest == ProductFrom(rs, d + 1)
       IN Concat([i \in 1..Len(rs[d]) |-> [j \in 1..Len(rest) |-> <<rs[d][i]>> \o rest[j]]])
RangeSeq(lo, up) == [k \in 1..(IF up > lo THEN up - lo ELSE 0) |-> lo + k - 1]      \* list(range(lo, up))
IterBinsWithEdgesOp(b, E) ==
  LET cells == ProductFrom([d \in 1..Len(E) |-> RangeSeq(0, NB(E[d]))], 1)
  IN [j \in 1..Len(cells) |-> [v |-> Get(b, cells[j]), e |-> CellEdges(E, cells[j])]]
\* iter_cells(hist, ranges): ranges[d] = <<low, up>>, None = no limit
IterCellsOp(b, E, ranges) ==
  IF \E d \in 1..Len(E) : (ranges[d][1] # None /\ ranges[d][1] < 0) \/ (ranges[d][2] # None /\ ranges[d][2] > NB(E[d]))
  THEN [ok |-> FALSE, exc |-> "LenaValueError", out |-> <<>>]
  ELSE LET rs == [d \in 1..Len(E) |-> RangeSeq(IF ranges[d][1] = None THEN 0 ELSE ranges[d][1],
                                               IF ranges[d][2] = None THEN NB(E[d]) ELSE ranges[d][2])]
           cells == ProductFrom(rs, 1)
       IN [ok |-> TRUE, exc |-> "",
           out |-> [j \in 1..Len(cells) |-> [e |-> CellEdges(E, cells[j]), v |-> Get(b, cells[j]), idx |-> cells[j]]]]
\* hist_to_graph(hist, get_coordinate=mode): columns x.., value (edges even, so "middle" is an integer)
Coord(mode, pair) == IF mode = "left" THEN pair[1] ELSE IF mode = "right" THEN pair[2] ELSE (pair[1] + pair[2]) \div 2
HistToGraphOp(b, E, mode) ==
  LET it == IterBinsWithEdgesOp(b, E)
  IN [k \in 1..(Len(E) + 1) |->
        [j \in 1..Len(it) |-> IF k <= Len(E) THEN Coord(mode, it[j].e[k]) ELSE it[j].v]]
\* hist1d_to_csv / hist2d_to_csv, written like the code (the duplicated rows reuse the loop variables)
Csv1Op(b, E, dup) ==
  LET e == E[1]
      rows == [i \in 1..NB(e) |-> <<e[i], b[i]>>]
  IN IF dup THEN Append(rows, <<e[Len(e)], b[Len(b)]>>) ELSE rows
Csv2Op(b, E, dup) ==
  LET ex == E[1]
      ey == E[2]
      XRows(x, i) ==      \* one pass of the inner loop for the x value x with bins[i]
        LET inner == [j \in 1..NB(ey) |-> <<x, ey[j], b[i][j]>>]
        IN IF dup THEN Append(inner, <<x, ey[Len(ey)], b[i][NB(ey)]>>) ELSE inner
      main == Concat([i \in 1..NB(ex) |-> XRows(ex[i], i)])
  IN IF dup THEN main \o XRows(ex[Len(ex)], NB(ex)) ELSE main

(***************************************************************************)
(* Declarative counterparts (from the documentation).                      *)
(***************************************************************************)
\* every cell once, in order, with its own index, content and edges
CellList(b, E) == [j \in 1..NCells(E) |->
                     LET c == CellAt(E, j - 1) IN [idx |-> c, v |-> Get(b, c), e |-> CellEdges(E, c)]]
Min2(a, c) == IF a < c THEN a ELSE c
\* CSV: one row per cell at its lower edges; with duplicate_last_bin one more row per axis end,
\* repeating the content of the last bin along that axis
CsvRef(b, E, dup) ==
  IF Len(E) = 1 THEN
    [i \in 1..(NB(E[1]) + (IF dup THEN 1 ELSE 0)) |-> <<E[1][i], b[Min2(i, NB(E[1]))]>>]
  ELSE LET ny == NB(E[2]) + (IF dup THEN 1 ELSE 0)
           nx == NB(E[1]) + (IF dup THEN 1 ELSE 0)
       IN [r \in 1..(nx * ny) |->
             LET i == ((r - 1) \div ny) + 1
                 j == ((r - 1) % ny) + 1
             IN <<E[1][i], E[2][j], b[Min2(i, NB(E[1]))][Min2(j, NB(E[2]))]>>]
=============================================================================
