SPECIFICATION Spec
CONSTANTS Hides = FALSE
  NestAll = FALSE
  FalsyAll = FALSE
  Tri = {"run"}
INVARIANT AsDocumented
INVARIANT NamedNeverCasts
INVARIANT FillComputeBinds
INVARIANT BlankRejected
INVARIANT AttrIsAbsent
INVARIANT CbfOnlyFillInto
INVARIANT TruthIrrelevant
INVARIANT Monotone
INVARIANT LogWithinCaps
INVARIANT RepeatedUse
PROPERTY BindingStable
INVARIANT HidesWrapped
INVARIANT OuterIndependent
INVARIANT SameKindAccepted
INVARIANT CastsAsDocumented
INVARIANT OuterCallsBound
INVARIANT RepeatedUseOuter
CHECK_DEADLOCK FALSE
