SPECIFICATION Spec
CONSTANTS
  K = {"a", "b"}
  NC = 2
  Variant = "lena"
  Kinds <- KindsThoroughResults
INVARIANT Emit
CHECK_DEADLOCK FALSE
