SPECIFICATION FSpec
CONSTANTS MaxN = 4 Bound = 2 MaxStep = 2
  CapNames = {}
  HintNames = {"small", "large"}
  MaxGrowAt = 0 MaxGrowBy = 0 UseHint = TRUE
INVARIANT FlowIndependent
CHECK_DEADLOCK FALSE
