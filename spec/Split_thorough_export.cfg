SPECIFICATION Spec
CONSTANTS MaxBr = 3 MaxN = 5 MaxRuns = 1
  Kinds <- KindsSmall
  BufSizes <- BufThorough
INVARIANT Emitted
CHECK_DEADLOCK FALSE
