SPECIFICATION Spec
CONSTANTS MaxRuns = 1
  Scenarios <- ScThoroughExport
INVARIANT Emitted
CHECK_DEADLOCK FALSE
