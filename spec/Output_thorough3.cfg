SPECIFICATION Spec
CONSTANTS MaxRuns = 3 MaxTouch = 99
  Scens <- ScenGroup2
  Settings <- SettingsQuick
  CreatedSetsChanged = TRUE
  Reuses = {FALSE, TRUE}
  AutoReload = TRUE
  KeepHistory = FALSE
VIEW view
INVARIANT TypeOK
INVARIANT AllCurrent
INVARIANT Regenerated
INVARIANT ChangedOK
INVARIANT NoRedo
INVARIANT NoRedoPlot
INVARIANT SkippedUntouched
INVARIANT GroupRedone
CHECK_DEADLOCK FALSE
