SPECIFICATION Spec
CONSTANTS MaxA = 4 MaxB = 4 MaxFan = 2
  AsyncModes = {FALSE}
  Repeats = FALSE Cuts = FALSE
INVARIANT Emitted_
CHECK_DEADLOCK FALSE
