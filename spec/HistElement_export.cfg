SPECIFICATION Spec
CONSTANTS MaxOps = 3
  EdgeChoices <- EdgesElQuick
  InitVars = {"plain", "bins", "make", "iv"}
INVARIANT SinceReset
INVARIANT Conservation
INVARIANT Emitted
CHECK_DEADLOCK FALSE
