------------------------------ MODULE SeqStruct ------------------------------
(***************************************************************************)
(* X01.  Lena sequences as containers, their constructors' argument        *)
(* handling, the structural transformations of lena.core.meta and the      *)
(* table that classifies a Split branch.                                   *)
(*                                                                         *)
(* Elements are described by their kind; a kind stands for a capability    *)
(* set (which methods / protocols the object has).  Sequences are lists of *)
(* kinds, nested sequences are trees.  One scenario per behaviour, chosen  *)
(* in Init (variable sc); sc.mode selects the machine:                     *)
(*                                                                         *)
(*   "build"  Sequence / Source / FillSeq / FillComputeSeq / FillRequestSeq*)
(*            constructor scanning its arguments: BStart, BScan, BFinish   *)
(*   "item"   seq[i], seq[a:b:s] on a container of n elements: IItem, ISlice*)
(*   "eq"     seq1 == seq2 / != for two containers over shared elements    *)
(*   "flat"   meta.flatten with an explicit stack: FStart, FStep, FReturn  *)
(*   "alter"  meta.alter_sequence: AStart, AAsk, AFinish                   *)
(*   "class"  Split's branch classification: CExplicit, CElement, CTuple   *)
(*   "repr"   nested representation                                        *)
(*                                                                         *)
(* Declarative side: BuildExcs (documented constructor contracts),         *)
(* PyIndex / PySliceIdx (Python sequence protocol), Leaves / IsFlat        *)
(* (flatten), the alter envelope, ClassRef (the predicates of              *)
(* check_sequence_type from their docstrings + constructor contracts),     *)
(* ReprRef.                                                                *)
(* Where the documentation is silent the reference is a set of allowed     *)
(* outcomes ("open").                                                      *)
(***************************************************************************)
EXTENDS SeqStructRef, TLC, Json

(***************************************************************************)
(* Scenarios (uniform record shape)                                        *)
(***************************************************************************)
Sc(mode, kind, els, kw, single, n, a, b, s, kind2, ids, ids2, tree) ==
  [mode |-> mode, kind |-> kind, els |-> els, kw |-> kw, single |-> single,
   n |-> n, a |-> a, b |-> b, s |-> s, kind2 |-> kind2, ids |-> ids, ids2 |-> ids2, tree |-> tree]
NoTree == Leaf("call")
BuildSc(kind, els, kw, single) == Sc("build", kind, els, kw, single, 0, 0, 0, 0, "", <<>>, <<>>, NoTree)
ItemSc(n, a) == Sc("item", "", <<>>, "", FALSE, n, a, 0, 0, "", <<>>, <<>>, NoTree)
SliceSc(n, a, b, s) == Sc("slice", "", <<>>, "", FALSE, n, a, b, s, "", <<>>, <<>>, NoTree)
EqSc(k1, ids, k2, ids2) == Sc("eq", k1, <<>>, "", FALSE, 0, 0, 0, 0, k2, ids, ids2, NoTree)
TreeSc(mode, tree) == Sc(mode, "", <<>>, "", FALSE, 0, 0, 0, 0, "", <<>>, <<>>, tree)
ClassSc(form, els) == Sc("class", form, els, "", FALSE, 0, 0, 0, 0, "", <<>>, <<>>, NoTree)

CONSTANT Scenarios

VARIABLES sc, pc, out,
          i, phase, err,           \* build: position, "before" / "after" the filled element, first error
          stack,                   \* flat: frames [p, j, acc, flat]
          asks                     \* alter: paths of the elements whose alter_sequence was called
vars == <<sc, pc, out, i, phase, err, stack, asks>>
Nothing == [ok |-> TRUE]

Init == /\ sc \in Scenarios
        /\ pc = "start" /\ out = Nothing /\ i = 0 /\ phase = "" /\ err = "" /\ stack = <<>> /\ asks = {}
Done == pc = "done"
Return(o) == out' = o /\ pc' = "done"

(***************************************************************************)
(* build: the constructor looks at its arguments one by one                *)
(***************************************************************************)
BStart == /\ pc = "start" /\ sc.mode = "build"
          /\ IF sc.single /\ sc.kind # "Sequence"
               \* not documented: either taken as the elements or rejected
               THEN \E e \in {"", LTE} : Return([ok |-> e = "", excs |-> {e}]) /\ UNCHANGED <<i, phase, err>>
             ELSE IF Len(sc.els) = 0 /\ sc.kind \in {"Source", "FillSeq"}
               THEN err' = LTE /\ pc' = "bfinish" /\ UNCHANGED <<out, i, phase>>
             ELSE /\ i' = 1 /\ err' = "" /\ pc' = "bscan" /\ out' = out
                  /\ phase' = IF sc.kind \in {"Sequence"} THEN "after"
                              ELSE IF sc.kind = "Source" THEN "first" ELSE "before"
          /\ UNCHANGED <<sc, stack, asks>>
IsFilled(k) == CASE sc.kind = "FillSeq" -> i = Len(sc.els)
                 [] sc.kind = "FillComputeSeq" -> IsFC(k)
                 [] sc.kind = "FillRequestSeq" -> IsFR(k)
                 [] OTHER -> FALSE
BScan == /\ pc = "bscan" /\ i <= Len(sc.els)
         /\ LET k == sc.els[i] IN
              IF phase = "first"
                THEN /\ err' = IF SrcFirstOK(k) THEN err ELSE LTE
                     /\ phase' = "after"
              ELSE IF phase = "before" /\ IsFilled(k)
                THEN /\ err' = IF sc.kind = "FillSeq" /\ ~Has(k, "fill") /\ err = "" THEN LTE ELSE err
                     /\ phase' = "after"
              ELSE IF phase = "before"
                THEN err' = (IF err = "" /\ ~FillIntoOK(k) THEN LTE ELSE err) /\ phase' = phase
              ELSE err' = (IF err = "" /\ ~SeqOK(k) THEN LTE ELSE err) /\ phase' = phase
         /\ i' = i + 1
         /\ UNCHANGED <<sc, pc, out, stack, asks>>
BScanEnd == /\ pc = "bscan" /\ i > Len(sc.els) /\ pc' = "bfinish"
            \* no filled element was found
            /\ err' = IF phase = "before" THEN LTE ELSE err
            /\ UNCHANGED <<sc, out, i, phase, stack, asks>>
\* keyword arguments of FillRequestSeq are examined after the elements
BFinish == /\ pc = "bfinish"
           /\ LET k == IF sc.kind = "FillRequestSeq" THEN KwExc(sc.kw) ELSE ""
                  e == IF err # "" THEN err ELSE k IN
                Return([ok |-> e = "", excs |-> {e}])
           /\ UNCHANGED <<sc, i, phase, err, stack, asks>>

(***************************************************************************)
(* item / slice / eq: one step                                             *)
(***************************************************************************)
IItem == /\ pc = "start" /\ sc.mode = "item"
         /\ Return([ok |-> PyIndex(sc.n, sc.a) # 0, pos |-> PyIndex(sc.n, sc.a)])
         /\ UNCHANGED <<sc, i, phase, err, stack, asks>>
ISlice == /\ pc = "start" /\ sc.mode = "slice"
          /\ Return([ok |-> TRUE, pos |-> PySliceIdx(sc.n, sc.a, sc.b, sc.s)])
          /\ UNCHANGED <<sc, i, phase, err, stack, asks>>
\* element objects are compared by identity: ids name objects of a shared pool
EqVerdict == IF sc.kind # sc.kind2 THEN "open"          \* different kinds: not documented
             ELSE IF sc.ids = sc.ids2 THEN "eq" ELSE "ne"
EEq == /\ pc = "start" /\ sc.mode = "eq"
       /\ Return([ok |-> TRUE, verdict |-> EqVerdict])
       /\ UNCHANGED <<sc, i, phase, err, stack, asks>>

(***************************************************************************)
(* flatten with an explicit stack of frames [p, j, acc, flat]              *)
(***************************************************************************)
FStart == /\ pc = "start" /\ sc.mode = "flat"
          /\ IF sc.tree.t = "el" THEN Return([same |-> TRUE, els |-> <<>>]) /\ stack' = stack
             ELSE stack' = <<[p |-> <<>>, j |-> 1, acc |-> <<>>, flat |-> TRUE]>> /\ pc' = "fwalk" /\ out' = out
          /\ UNCHANGED <<sc, i, phase, err, asks>>
Top == stack[Len(stack)]
SetTop(f) == [stack EXCEPT ![Len(stack)] = f]
FStep == /\ pc = "fwalk" /\ Top.j <= Len(Sub(sc.tree, Top.p).c)
         /\ LET child == Sub(sc.tree, Top.p).c[Top.j]  cp == Append(Top.p, Top.j) IN
              IF IsSeqNode(child)
                THEN stack' = Append(stack, [p |-> cp, j |-> 1, acc |-> <<>>, flat |-> TRUE])    \* flatten(el)
              ELSE stack' = SetTop([Top EXCEPT !.j = @ + 1, !.acc = Append(@, cp)])
         /\ UNCHANGED <<sc, pc, out, i, phase, err, asks>>
FReturn == /\ pc = "fwalk" /\ Top.j > Len(Sub(sc.tree, Top.p).c)
           /\ IF Len(stack) = 1
                THEN /\ Return(IF Top.flat THEN [same |-> TRUE, els |-> <<>>] ELSE [same |-> FALSE, els |-> Top.acc])
                     /\ stack' = <<>>
              ELSE LET caller == stack[Len(stack) - 1] IN
                   \* flattened.extend(<the elements of what the inner call returned>); flat = False
                   /\ stack' = SubSeq(stack, 1, Len(stack) - 2) \o
                                <<[caller EXCEPT !.j = @ + 1, !.acc = @ \o Top.acc, !.flat = FALSE]>>
                   /\ UNCHANGED <<pc, out>>
           /\ UNCHANGED <<sc, i, phase, err, asks>>

(***************************************************************************)
(* alter_sequence.  The sequence is flattened; if what remains is one      *)
(* element, its own alter_sequence (if any) decides; if it is a            *)
(* LenaSequence, the elements that have alter_sequence are consulted.      *)
(* What is built from their answers is not documented: the result is the   *)
(* original object or something made of the elements at hand.              *)
(***************************************************************************)
AStart == /\ pc = "start" /\ sc.mode = "alter"
          /\ IF sc.tree.t = "el"
               THEN IF Alters(sc.tree)
                      THEN /\ asks' = {<<>>}
                           /\ Return([same |-> sc.tree.k = "same", byel |-> TRUE])     \* el.alter_sequence(el)
                    ELSE asks' = asks /\ Return([same |-> TRUE, byel |-> FALSE])
             ELSE asks' = asks /\ pc' = "aask" /\ out' = out
          /\ UNCHANGED <<sc, i, phase, err, stack>>
\* any element with alter_sequence may be consulted (any number of them, in any order: asks is a set)
AAsk == /\ pc = "aask"
        /\ \E p \in AltLeaves(sc.tree) : p \notin asks /\ asks' = asks \cup {p}
        /\ UNCHANGED <<sc, pc, out, i, phase, err, stack>>
AFinish == /\ pc = "aask"
           /\ \/ Return([same |-> TRUE, byel |-> FALSE])
              \/ ~AllSame(sc.tree) /\ asks # {} /\ Return([same |-> FALSE, byel |-> FALSE])
           /\ UNCHANGED <<sc, i, phase, err, stack, asks>>

(***************************************************************************)
(* classification of a Split branch.  sc.kind is the form of the branch:   *)
(* an instance of one of the sequence classes, "tuple", or "el" (a single  *)
(* element, sc.els has length 1).                                          *)
(***************************************************************************)
Preds == PredsOf(sc.kind, sc.els)
CExplicit == /\ pc = "start" /\ sc.mode = "class" /\ sc.kind \in {"Source", "FillComputeSeq", "FillRequestSeq", "Sequence"}
             /\ Return(Res(TypeOf(sc.kind), sc.kind, TRUE, ""))
             /\ UNCHANGED <<sc, i, phase, err, stack, asks>>
\* fill_compute is tried first, then fill_request, then a Sequence is made
CElement == /\ pc = "start" /\ sc.mode = "class" /\ sc.kind = "el"
            /\ LET k == sc.els[1] IN
                 IF IsFC(k) THEN Return(Res("fill_compute", "el", TRUE, ""))
                 ELSE IF IsFR(k) THEN Return(Res("fill_request", "el", TRUE, ""))
                 ELSE Return(Made("Sequence", sc.els))
            /\ UNCHANGED <<sc, i, phase, err, stack, asks>>
CTuple == /\ pc = "start" /\ sc.mode = "class" /\ sc.kind = "tuple"
          /\ IF AnyK(sc.els, IsFC) THEN Return(Made("FillComputeSeq", sc.els))
             ELSE IF AnyK(sc.els, IsFR) THEN Return(Made("FillRequestSeq", sc.els))
             ELSE Return(Made("Sequence", sc.els))
          /\ UNCHANGED <<sc, i, phase, err, stack, asks>>

(***************************************************************************)
(* representation: a sequence of pieces [ind (levels), s (text or ""),     *)
(* p (path of an element whose own repr is inserted)]                      *)
(***************************************************************************)
RRepr == /\ pc = "start" /\ sc.mode = "repr"
         /\ Return([ok |-> TRUE, pieces |-> ReprAt(sc.tree, <<>>, 0), flat |-> IsFlat(sc.tree)])
         /\ UNCHANGED <<sc, i, phase, err, stack, asks>>

Next == \/ BStart \/ BScan \/ BScanEnd \/ BFinish \/ IItem \/ ISlice \/ EEq
        \/ FStart \/ FStep \/ FReturn \/ AStart \/ AAsk \/ AFinish
        \/ CExplicit \/ CElement \/ CTuple \/ RRepr
Spec == Init /\ [][Next]_vars

(***************************************************************************)
(* Properties                                                              *)
(***************************************************************************)
Fin(m) == Done /\ sc.mode = m
\* the scanning constructor reports what the documented contract allows
BuildIsRef == Fin("build") => out.excs \subseteq BuildExcs(sc.kind, sc.els, sc.kw, sc.single)
\* a built sequence keeps all its arguments; an empty Source / FillSeq is never built
BuildSanity == Fin("build") /\ out.ok /\ ~sc.single =>
                 /\ sc.kind \in {"Source", "FillSeq", "FillComputeSeq", "FillRequestSeq"} => Len(sc.els) >= 1
                 /\ sc.kind = "FillComputeSeq" => AnyK(sc.els, IsFC)
                 /\ sc.kind = "FillRequestSeq" => AnyK(sc.els, IsFR) /\ sc.kw = "ok"
\* indices: -n..n-1 name positions, the same element for i and i - n; everything else is an IndexError
ItemLaws == Fin("item") =>
  /\ out.ok <=> (sc.a >= -sc.n /\ sc.a < sc.n)
  /\ out.ok /\ sc.a >= 0 => out.pos = sc.a + 1
  /\ out.ok /\ sc.a < 0 => out.pos = PyIndex(sc.n, sc.a + sc.n)
\* slices select existing positions, strictly monotone in the direction of the step, and agree with indexing
SliceLaws == Fin("slice") =>
  LET s == IF sc.s = None THEN 1 ELSE sc.s IN
    /\ \A j \in DOMAIN out.pos : out.pos[j] \in 1..sc.n
    /\ \A j \in 1..(Len(out.pos) - 1) : out.pos[j + 1] - out.pos[j] = s
    /\ sc.a = None /\ sc.b = None /\ s = 1 => out.pos = [j \in 1..sc.n |-> j]          \* seq[:] is everything
    /\ sc.a = None /\ sc.b = None /\ s = -1 => out.pos = [j \in 1..sc.n |-> sc.n + 1 - j]
    /\ s = 1 /\ sc.a # None /\ sc.b # None /\ PyIndex(sc.n, sc.a) # 0 /\ PyIndex(sc.n, sc.b) # 0 =>
         out.pos = [j \in 1..(IF PyIndex(sc.n, sc.b) > PyIndex(sc.n, sc.a)
                              THEN PyIndex(sc.n, sc.b) - PyIndex(sc.n, sc.a) ELSE 0) |-> PyIndex(sc.n, sc.a) + j - 1]
\* flatten: stack machine = recursive definition; order preserved, nothing lost, identity when flat
FlatIsRef == Fin("flat") => out = FlattenRef(sc.tree)
FlatLaws == Fin("flat") =>
  /\ out.same <=> (sc.tree.t = "el" \/ IsFlat(sc.tree))
  /\ ~out.same => /\ \A j \in DOMAIN out.els : ~IsSeqNode(Sub(sc.tree, out.els[j]))
                  /\ \A j, l \in DOMAIN out.els : j < l => out.els[j] # out.els[l]
\* alter_sequence: only elements that have alter_sequence are consulted; identity when nothing alters
AlterLaws == Fin("alter") =>
  /\ \A q \in asks : Alters(Sub(sc.tree, q))
  /\ (AltLeaves(sc.tree) = {} \/ AllSame(sc.tree)) => out.same
  /\ sc.tree.t = "el" /\ Alters(sc.tree) => out.byel
\* classification: the decision chain gives a result of the table; explicit types are kept
ClassIsRef == Fin("class") => out \in ClassRef(sc.kind, sc.els)
ClassLaws == Fin("class") =>
  /\ out.ok /\ out.type = "fill_compute" => Preds.is_fill_compute_seq
  /\ out.ok /\ out.type = "fill_request" => Preds.is_fill_request_seq
  /\ out.ok /\ out.type = "source" <=> Preds.is_source
  /\ Preds.is_source => ~Preds.is_fill_compute_seq /\ ~Preds.is_fill_request_seq
  /\ out.ok /\ out.kept /\ sc.kind = "el" => out.type \in {"fill_compute", "fill_request"}
  /\ ~out.ok => out.exc = LTE
ReprLaws == Fin("repr") =>
  \* every element appears exactly once, in flatten order (tuples inside count as elements)
  LET ps == SelectSeq(out.pieces, LAMBDA q : q.kind = "el") IN
    /\ \A j, l \in DOMAIN ps : j < l => ps[j].p # ps[l].p
    /\ \A j \in DOMAIN ps : Sub(sc.tree, ps[j].p).t = "el"

(***************************************************************************)
(* Scenario universes                                                      *)
(***************************************************************************)
\* static-context elements (nodata) are used in Sequence only: the other constructors do not mention them
KindsQ == {"call", "run", "fc", "fr", "fi", "fill", "iter", "none", "nodata", "fcr", "runb"}
BuildQuickRaw ==
       {BuildSc("Sequence", els, "ok", FALSE) : els \in Seqs(KindsQ, 0, 2)}
  \cup {BuildSc(k, els, "ok", FALSE) : k \in SeqKinds \ {"Sequence"}, els \in Seqs(KindsQ \ {"nodata"}, 0, 2)}
  \cup {BuildSc(k, els, "ok", FALSE) : k \in SeqKinds, els \in Seqs({"call", "fc", "fr", "fill", "none", "run"}, 3, 3)}
  \cup {BuildSc("FillRequestSeq", els, kw, FALSE) : els \in Seqs({"call", "fr", "none"}, 1, 2),
                                                     kw \in {"noreset", "nobuf", "unknown"}}
  \cup {BuildSc(k, els, "ok", TRUE) : k \in SeqKinds, els \in Seqs({"call", "fc", "fr", "none"}, 0, 2)}
BuildQuick == TLCEval(BuildQuickRaw)      \* evaluated once, not lazily at every use
BuildThoroughRaw ==
       {BuildSc("Sequence", els, "ok", FALSE) : els \in Seqs(KindsQ \cup {"uni"}, 0, 3)}
  \cup {BuildSc(k, els, "ok", FALSE) : k \in SeqKinds \ {"Sequence"}, els \in Seqs((KindsQ \cup {"uni"}) \ {"nodata"}, 0, 3)}
  \cup {BuildSc(k, els, "ok", FALSE) : k \in SeqKinds, els \in Seqs({"call", "fc", "fr", "none"}, 4, 4)}
  \cup {BuildSc("FillRequestSeq", els, kw, FALSE) : els \in Seqs({"call", "fr", "none", "fc"}, 1, 3),
                                                     kw \in {"noreset", "nobuf", "unknown"}}
  \cup {BuildSc(k, els, "ok", TRUE) : k \in SeqKinds, els \in Seqs({"call", "fc", "fr", "none", "run"}, 0, 3)}
BuildThorough == TLCEval(BuildThoroughRaw)      \* evaluated once, not lazily at every use
Bounds(n) == {None} \cup ((-n - 2)..(n + 2))
ItemScs(nmax) == {ItemSc(n, a) : n \in 0..nmax, a \in (-nmax - 2)..(nmax + 2)}
SliceScs(nmax, steps) == UNION {{SliceSc(n, a, b, s) : a \in Bounds(n), b \in Bounds(n), s \in steps} : n \in 0..nmax}
\* equality: pool objects 1, 2 = "call", 3 = "uni" (valid in every position of every kind)
EqScs(len) == {EqSc(k1, i1, k2, i2) : k1 \in SeqKinds, k2 \in SeqKinds, i1 \in Seqs(1..3, 1, len), i2 \in Seqs(1..3, 1, len)}
EqScsThorough == {EqSc(k1, i1, k2, i2) : k1 \in SeqKinds, k2 \in SeqKinds,
                    i1 \in {<<1>>, <<3>>, <<1, 2>>, <<1, 3>>, <<1, 2, 3>>, <<3, 1, 1>>}, i2 \in Seqs(1..3, 1, 3)}
EqScsQuick == {EqSc(k1, i1, k2, i2) : k1 \in SeqKinds, k2 \in SeqKinds,
                 i1 \in {<<1>>, <<3>>, <<1, 2>>, <<1, 3>>}, i2 \in Seqs(1..3, 1, 2)}
\* trees
TreeLeaves == {Leaf("call"), Leaf("same"), Leaf("cut")}
GoodSource(cs) == Len(cs) >= 1 /\ cs[1].t = "el"
Nodes(children, w, kinds) ==
  {x \in {Node(t, cs) : t \in kinds, cs \in Seqs(children, 0, w)} : x.t = "Source" => GoodSource(x.c)}
T1Raw == Nodes(TreeLeaves, 2, {"Sequence", "Source"})
T1 == TLCEval(T1Raw)      \* evaluated once, not lazily at every use
T1small == {Node("Sequence", <<>>), Node("Sequence", <<Leaf("call")>>), Node("Sequence", <<Leaf("same"), Leaf("call")>>),
            Node("Source", <<Leaf("call"), Leaf("cut")>>)}
T2Raw == Nodes(TreeLeaves \cup T1, 2, {"Sequence", "Source", "tuple"})
      \cup Nodes(TreeLeaves \cup T1small, 3, {"Sequence", "tuple"})
T2 == TLCEval(T2Raw)      \* evaluated once, not lazily at every use
T2small == {Node("Sequence", <<Leaf("call"), Node("Sequence", <<Leaf("same")>>)>>),
            Node("Sequence", <<Node("Sequence", <<>>)>>)}
T3Raw == Nodes(TreeLeaves \cup T1small \cup T2small, 2, {"Sequence", "tuple", "Source"})
T3 == TLCEval(T3Raw)      \* evaluated once, not lazily at every use
T1mid == T1small \cup {Node("Source", <<Leaf("call")>>), Node("Sequence", <<Leaf("cut"), Leaf("same")>>)}
T2qRaw == Nodes(TreeLeaves \cup T1mid, 2, {"Sequence", "Source", "tuple"})
          \cup Nodes(TreeLeaves \cup T1small, 3, {"Sequence", "tuple"})
T2q == TLCEval(T2qRaw)
TreesQuickRaw == TreeLeaves \cup T1 \cup T2q
TreesQuick == TLCEval(TreesQuickRaw)      \* evaluated once, not lazily at every use
TreesThoroughRaw == TreesQuick \cup T2 \cup T3 \cup Nodes(TreeLeaves \cup T1small \cup T2small, 3, {"Sequence"})
TreesThorough == TLCEval(TreesThoroughRaw)      \* evaluated once, not lazily at every use
TreeScs(trees) == {TreeSc(m, t) : m \in {"flat", "alter", "repr"}, t \in trees}
\* branches
ClassScs(len) ==
       {ClassSc("el", <<k>>) : k \in ElKinds \ {"nodata"}}
  \cup {ClassSc("tuple", els) : els \in Seqs(ElKinds \ {"nodata", "iter"}, 0, len)}
  \cup {c \in {ClassSc(f, els) : f \in {"Source", "FillComputeSeq", "FillRequestSeq", "Sequence"},
                                  els \in Seqs({"call", "fc", "fr", "run", "fcr"}, 0, 2)} : StructExc(c.kind, c.els) = ""}
ScQuickRaw == BuildQuick \cup ItemScs(3) \cup SliceScs(3, {None, 1, 2, -1}) \cup EqScsQuick \cup TreeScs(TreesQuick) \cup ClassScs(2)
ScQuick == TLCEval(ScQuickRaw)      \* evaluated once, not lazily at every use
ScThoroughRaw == BuildThorough \cup ItemScs(5) \cup SliceScs(5, {None, 1, 2, 3, -1, -2}) \cup EqScsThorough
              \cup TreeScs(TreesThorough) \cup ClassScs(3)
ScThorough == TLCEval(ScThoroughRaw)      \* evaluated once, not lazily at every use


(***************************************************************************)
(* Export (S2C)                                                            *)
(***************************************************************************)
Pool == <<"call", "call", "uni">>
PoolEls(ids) == [j \in DOMAIN ids |-> Pool[ids[j]]]
\* one record per scenario (alter: the behaviour that consults every altering element and keeps the sequence)
EmitHere == Done /\ (sc.mode = "alter" /\ sc.tree.t # "el" => out.same /\ asks = AltLeaves(sc.tree))
Emit == EmitHere => PrintT(ToJson(
  [sc |-> sc, out |-> out, asks |-> asks,
   b1 |-> sc.mode = "eq" /\ StructExc(sc.kind, PoolEls(sc.ids)) = "",
   b2 |-> sc.mode = "eq" /\ StructExc(sc.kind2, PoolEls(sc.ids2)) = "",
   allowed |-> IF sc.mode = "build" THEN BuildExcs(sc.kind, sc.els, sc.kw, sc.single) ELSE {},
   preds |-> IF sc.mode = "class" THEN Preds ELSE Nothing,
   callowed |-> IF sc.mode = "class" THEN ClassRef(sc.kind, sc.els) ELSE {},
   leaves |-> IF sc.mode \in {"flat", "alter", "repr"} /\ sc.tree.t # "el" THEN LeavesAt(sc.tree, <<>>) ELSE <<>>,
   alt |-> IF sc.mode = "alter" THEN AltLeaves(sc.tree) ELSE {},
   mustsame |-> IF sc.mode = "alter" THEN (AltLeaves(sc.tree) = {} \/ AllSame(sc.tree)) ELSE FALSE]))
=============================================================================
