SPECIFICATION Spec
CONSTANTS MaxTok = 7 MaxDepth = 3
  Leaves <- LeavesNested
  RootKinds <- SeqRoot
  StoreByCopy = TRUE
  TailKeepsSets = TRUE
INVARIANT Emitted
CHECK_DEADLOCK FALSE
