SPECIFICATION Spec
CONSTANTS MaxBr = 4 MaxN = 5 MaxRuns = 2
  Kinds <- KindsSmall
  BufSizes <- BufQuick
INVARIANT OpEqDen
INVARIANT AllActiveAtStart
INVARIANT OutIsPrefix
INVARIANT BufBound
INVARIANT BufsizeIndependent
INVARIANT OnceOnly
INVARIANT FRAccount
CHECK_DEADLOCK FALSE
