SPECIFICATION Spec
CONSTANTS MaxBr = 4 MaxN = 5
  Kinds <- KindsSmall
  BufSizes <- BufQuick
INVARIANT OpEqDen
INVARIANT OutIsPrefix
INVARIANT BufBound
INVARIANT BufsizeIndependent
INVARIANT OnceOnly
INVARIANT FRAccount
CHECK_DEADLOCK FALSE
