SPECIFICATION Spec
CONSTANTS Depth = 1
INVARIANT MeshDoc
INVARIANT RefineDoc
INVARIANT FlattenDoc
INVARIANT MdMapDoc
INVARIANT MdMap2Doc
INVARIANT ClipDoc
INVARIANT IsCloseDoc
INVARIANT CheckDoc
INVARIANT BinEdgesDoc
INVARIANT BinOnIndexDoc
INVARIANT ExampleDoc
INVARIANT InitBinsDoc
INVARIANT CellStrDoc
INVARIANT HistContextDoc
INVARIANT Emitted
CHECK_DEADLOCK FALSE
