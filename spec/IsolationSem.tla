---------------------------- MODULE IsolationSem ----------------------------
(***************************************************************************)
(* Declarative part of C04 model A: branches that mutate data and context, *)
(* the flow values, and Alone(branch, xs, bs) - what a branch yields when  *)
(* it is the only one and works on pure (immutable) values.  No constants  *)
(* or variables: shared by Isolation.tla and Trace_Isolation.tla.          *)
(* See Isolation.tla for the vocabulary.                                   *)
(***************************************************************************)
EXTENDS Heap

Branch(muts, end, stop, name) == [muts |-> muts, end |-> end, stop |-> stop, name |-> name]
S1 == Branch(<<Inc("hits"), App(1)>>, "seq", None, "")
S2 == Branch(<<Var("x", 7), MakeFn("A")>>, "seq", None, "")
S3 == Branch(<<SetK("k", 5), Cnt("cnt")>>, "seq", None, "")
S4 == Branch(<<SetN("n", "b", 9), Inc("hits")>>, "seq", None, "")
F1 == Branch(<<Inc("hits"), App(2)>>, "store", None, "")
F2 == Branch(<<MakeFn("B")>>, "store", 1, "")
F3 == Branch(<<Inc("hits")>>, "count", None, "c1")
F4 == Branch(<<>>, "count", None, "c1")
F5 == Branch(<<SetN("n", "b", 8), Inc("hits")>>, "store", None, "")
R1 == Branch(<<Inc("hits"), App(3)>>, "fr", None, "")
R2 == Branch(<<SetK("k", 6), SetN("n", "b", 4)>>, "fr", None, "")
R3 == Branch(<<Inc("hits"), LApp(4)>>, "fr", 1, "")          \* a fill/request branch that raises LenaStopFill
SRC == Branch(<<>>, "src", None, "")
AllTemplates == {S1, S2, S3, S4, F1, F2, F3, F4, F5, R1, R2, R3, SRC}
\* a typed Variable (context.variable has a sub-dictionary) followed or not by a write below context.variable:
\* in the harness the Variable is ONE object used by every branch
V1 == Branch(<<VarT("x", 7), SetV("mm")>>, "seq", None, "")
V2 == Branch(<<VarT("x", 7)>>, "seq", None, "")
V3 == Branch(<<VarT("x", 7), SetV("mm")>>, "store", None, "")
V4 == Branch(<<VarT("x", 7), Inc("hits")>>, "store", None, "")
V5 == Branch(<<VarT("x", 7), SetV("mm")>>, "fr", None, "")
V6 == Branch(<<VarT("x", 7)>>, "fr", None, "")
VarTemplates == {V1, V2, V3, V4, V5, V6}
\* branches that touch the data only (for flow values that are bare objects without context)
D1 == Branch(<<App(1)>>, "seq", None, "")
D2 == Branch(<<>>, "seq", None, "")
D3 == Branch(<<App(2)>>, "store", None, "")
D4 == Branch(<<>>, "store", None, "")
D5 == Branch(<<App(3)>>, "fr", None, "")
D6 == Branch(<<>>, "fr", None, "")
DataTemplates == {D1, D2, D3, D4, D5, D6}
\* the class of the context objects of the flow: a plain dict, lena.context.Context, collections.OrderedDict,
\* collections.defaultdict, a user subclass of dict.  The semantics do not depend on it (every protective copy
\* is a deep copy whatever the class); branches with in-place updates below the top level:
NestTemplates == {S4, S1, F5, F1, R2, R1}
FewTemplates == {S1, S3, S4, F1, F3, R1, SRC}
FillFew == {F1, F3, F5, R1, R2}

\* flow values "without pre-existing aliasing": every value has its own data list and context
X(j) == [d |-> <<j>>,
         \* a nested dictionary, an empty context (a value that looks like "no context"), a flat one
         c |-> CASE j % 3 = 1 -> [a |-> 1, n |-> [b |-> 1]]
                 [] j % 3 = 2 -> <<>>
                 [] OTHER -> [a |-> 2]]
Flow(n) == [j \in 1..n |-> X(j)]
\* the shape of the flow values: "pair" ([j], context); "objpair" (object, context); bare data without
\* context: "obj" a user object with attributes, "tuple" / "ntuple" a (named) tuple of such objects - these
\* are hashable although mutable.  The data cell of the model is the mutable part (see Heap.tla).
BareShapes == {"obj", "tuple", "ntuple"}
AllShapes == {"pair", "objpair"} \cup BareShapes
QuickShapes == {"pair", "obj", "tuple"}
XS(j, shape) == IF shape \in BareShapes THEN [d |-> <<j>>, c |-> <<>>] ELSE X(j)
FlowS(n, shape) == [j \in 1..n |-> XS(j, shape)]

BufAll == {1, 2, None}
IsFC(b) == b.end \in {"store", "count"}
Min(a, b) == IF a < b THEN a ELSE b

(***************************************************************************)
(* Declarative: one branch alone on pure values.                           *)
(***************************************************************************)
HasCnt(b) == \E j \in 1..Len(b.muts) : b.muts[j].t = "cnt"
CntName(b) == b.muts[CHOOSE j \in 1..Len(b.muts) : b.muts[j].t = "cnt"].key
RECURSIVE BlocksOf(_, _)
BlocksOf(xs, bs) == IF xs = <<>> THEN <<>>
                    ELSE IF bs = None \/ Len(xs) <= bs THEN <<xs>>
                    ELSE <<SubSeq(xs, 1, bs)>> \o BlocksOf(SubSeq(xs, bs + 1, Len(xs)), bs)
\* a Sequence run on one block; Count writes the running total into the last value of the run
SeqBlock(b, blk, before) ==
  [j \in 1..Len(blk) |->
     LET y == PApplyAll(blk[j], b.muts) IN
     IF HasCnt(b) /\ j = Len(blk) THEN [y EXCEPT !.c = Put(@, CntName(b), before + Len(blk))] ELSE y]
RECURSIVE SeqBlocks(_, _, _)
SeqBlocks(b, blocks, before) ==
  IF blocks = <<>> THEN <<>>
  ELSE SeqBlock(b, Head(blocks), before) \o SeqBlocks(b, Tail(blocks), before + Len(Head(blocks)))
Alone(b, xs, bs) ==
  CASE b.end = "seq" -> SeqBlocks(b, BlocksOf(xs, bs), 0)
    [] b.end = "store" -> LET k == IF b.stop = None THEN Len(xs) ELSE Min(b.stop, Len(xs))
                          IN [j \in 1..k |-> PApplyAll(xs[j], b.muts)]
    [] b.end = "count" -> LET n == Len(xs)
                              c == IF n = 0 THEN <<>> ELSE PApplyAll(xs[n], b.muts).c
                          IN <<[d |-> <<n>>, c |-> Put(c, b.name, n)]>>
    [] b.end = "fr" -> LET k == IF b.stop = None THEN Len(xs) ELSE Min(b.stop, Len(xs))
                       IN [j \in 1..k |-> PApplyAll(xs[j], b.muts)]
    [] b.end = "src" -> <<[d |-> <<-1>>, c |-> <<>>], [d |-> <<-2>>, c |-> <<>>]>>
=============================================================================
