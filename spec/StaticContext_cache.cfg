SPECIFICATION Spec
CONSTANTS MaxDepth = 3
  Families <- FamCache
  StoreByCopy = TRUE
  TailKeepsSets = TRUE
  SplitContinues = TRUE
  SkipEmpty = TRUE
  SkipGetters = TRUE
  SplitCachesExport = TRUE
  SrcFRepass = TRUE
  MFRunCopies = TRUE
  AlterApplied = FALSE
INVARIANT SeenIsExpected
CHECK_DEADLOCK FALSE
