SPECIFICATION Spec
CONSTANTS
  Plans <- PlansThoroughExport2
  CreatedSetsChanged = TRUE
  AutoReload = TRUE
  KeepHistory = TRUE
INVARIANT Emitted
CHECK_DEADLOCK FALSE
