SPECIFICATION Spec
CONSTANTS MaxPre = 2 MaxN = 5
  PreAlphabet <- AlphaQuick
  Accs <- AccsQuick
  Posts <- PostsQuick
  Pairs = {TRUE, FALSE}
  Drivers = {"run", "fill", "split"}
  Bufs <- BufAll
INVARIANT DriversAgree
INVARIANT FillReaches
INVARIANT StopSound
INVARIANT ComputeOnce
INVARIANT BufBound
CHECK_DEADLOCK FALSE
