SPECIFICATION Spec
CONSTANTS MaxPre = 2 MaxN = 4
  PreAlphabet <- AlphaThorough
  Accs <- AccsQuick
  Posts <- PostsQuick
  FlowKinds = {"bare", "ctx"}
  Drivers = {"run", "fill", "persist", "split"}
  Places = {"alone", "afterstop"}
  StopFlag = "per_branch"
  CopyMode = "per_branch"
  AdapterHides = TRUE
  VarCopy = "per_value"
  Bufs <- BufAll
INVARIANT DriversAgree
INVARIANT FillReaches
INVARIANT StopSound
INVARIANT ComputeOnce
INVARIANT BufBound
CHECK_DEADLOCK FALSE
