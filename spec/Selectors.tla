----------------------------- MODULE Selectors -----------------------------
(***************************************************************************)
(* lena.flow.Selector / Not / And / Or / SelectContext and lena.flow.Filter *)
(*                                                                         *)
(* Code: lena/flow/selectors.py (Selector.__init__ dispatch on the type of *)
(* the specification, Selector.__call__ error policy, And/Or.__call__ =    *)
(* all/any over a generator, Not.__call__, SelectContext.__call__),        *)
(* lena/flow/filter.py (Filter.run / fill_into),                           *)
(* lena/context/functions.py (contains, get_recursively).                  *)
(*                                                                         *)
(* Declarative part (SelectorsSem.tla, from the documentation): Eval, a    *)
(* recursive definition over the *specification* (what the user writes)    *)
(* with the results "T", "F" or - an exception propagates - the name of    *)
(* the exception's class.                                                  *)
(* Operational part (like the code): Build = what the constructors make of *)
(* a specification (a tree of selector objects, each with its own          *)
(* raise_on_error), and a stack machine with one frame per __call__ in     *)
(* progress; Filter.run drives it over a flow.                             *)
(***************************************************************************)
EXTENDS SelectorsSem

(***************************************************************************)
(* Universes.                                                              *)
(***************************************************************************)
SeqsUpTo(S, n) == UNION {[1..m -> S] : m \in 0..n}
RawOver(C, n) == {List(xs) : xs \in SeqsUpTo(C, n)} \cup {Tup(xs) : xs \in SeqsUpTo(C, n)}
\* every object whose direct constituents come from C (sequences up to length n)
ObjsOver(C, n) ==
  LET S == SeqsUpTo(C, n)  X == C \cup RawOver(C, n) IN
  {o \in UNION { {Sel(x, r) : x \in X} \cup {NotO(x, r) : x \in X}
                 \cup {AndO(xs, r) : xs \in S} \cup {OrO(xs, r) : xs \in S} : r \in BOOLEAN} : WellFormed(o)}

A1 == <<"a">>
ABX == <<"a", "b", "x">>
AB == <<"a", "b">>
\* the eight values of the exhaustive universe (realised by lenaverif/sellib.py)
V1 == Val("int", 1, Empty, FALSE)                                               \* 1
V2 == Val("int", -1, Empty, TRUE)                                               \* (-1, {})
V3 == Val("bool", 1, Dict([x \in {"a"} |-> Empty]), TRUE)                       \* (True, {"a": {}})
V4 == Val("str", 1, Dict([x \in {"a"} |-> Dict([y \in {"b"} |-> LStr("x")])]), TRUE)       \* ("s", {"a": {"b": "x"}})
V5 == Val("str", 0, Dict([x \in {"a"} |-> Dict([y \in {"b"} |-> LInt(5, "5")])]), TRUE)    \* ("", {"a": {"b": 5}})
V6 == Val("int", 2, Dict([x \in {"a"} |-> Dict([y \in {"b"} |-> Dict([z \in {"x"} |-> LInt(1, "1")])])]), TRUE)
V7 == Val("int", 0, Dict([x \in {"b"} |-> LInt(1, "1")]), TRUE)                 \* (0, {"b": 1})
V8 == Val("bool", 0, Dict([x \in {"a"} |-> Dict([y \in {"b"} |-> LInt(-1, "-1")])]), TRUE) \* (False, {"a": {"b": -1}})
\* values that hold, at the addressed paths or as data, what could be confused with "absent"
One(key, x) == [y \in {key} |-> x]
AIs(x) == Dict(One("a", x))
ABIs(x) == Dict(One("a", Dict(One("b", x))))
V9 == Val("none", 0, AIs(LNone), TRUE)                  \* (None, {"a": None})
V10 == Val("tuple", 0, AIs(LInt(0, "0")), TRUE)         \* ((), {"a": 0})
V11 == Val("int", 0, AIs(LStr("")), TRUE)               \* (0, {"a": ""})
V12 == Val("int", 2, ABIs(LNone), TRUE)                 \* (2, {"a": {"b": None}})
V13 == Val("str", 0, ABIs(LFalse), TRUE)                \* ("", {"a": {"b": False}})
V14 == Val("none", 0, ABIs(LInt(0, "0")), TRUE)         \* (None, {"a": {"b": 0}})
V15 == Val("int", 1, ABIs(Empty), TRUE)                 \* (1, {"a": {"b": {}}})
V16 == Val("int", 1, ABIs(LList), TRUE)                 \* (1, {"a": {"b": []}})
V17 == Val("int", 1, AIs(LList), TRUE)                  \* (1, {"a": []})
V18 == Val("int", 1, AIs(LFalse), TRUE)                 \* (1, {"a": False})
V19 == Val("none", 0, Empty, FALSE)                     \* None
V20 == Val("tuple", 0, Empty, FALSE)                    \* ()
V21 == Val("int", 1, ABIs(LStr("")), TRUE)              \* (1, {"a": {"b": ""}})
\* values of other shapes (the field sub tells the harness how to build them; the specification does not
\* look at it): a namedtuple pair with an OrderedDict context is a (data, context) pair like any other,
\* a list [data, {...}] is not a pair at all - it is data (of type list) without a context
V22 == [Val("str", 1, ABIs(LStr("x")), TRUE) EXCEPT !.sub = "duck"]           \* Pair("s", OrderedDict(a={"b": "x"}))
V23 == [Val("int", 2, AIs(Empty), TRUE) EXCEPT !.sub = "duck"]                \* Pair(2, OrderedDict(a={}))
V24 == [Val("list", 2, Empty, FALSE) EXCEPT !.sub = "listpair"]               \* [1, {"a": {}}]
\* context values that contain the last level of a string specification without being equal to it
V25 == Val("int", 1, ABIs(LStr("xy")), TRUE)            \* (1, {"a": {"b": "xy"}})
V26 == Val("int", 0, ABIs(LListX), TRUE)                \* (0, {"a": {"b": ["x"]}})
V27 == Val("str", 1, ABIs(LTupX), TRUE)                 \* ("s", {"a": {"b": ("x", "x")}})
V28 == Val("int", 1, AIs(LStr("None.")), TRUE)          \* (1, {"a": "None."})
\* sub-contexts on which the predicate "needx" answers (True, False) instead of raising
V29 == Val("int", 1, ABIs(Dict(One("x", LInt(2, "2")))), TRUE)   \* (1, {"a": {"b": {"x": 2}}})
V30 == Val("int", 0, AIs(Dict(One("x", LInt(1, "1")))), TRUE)    \* (0, {"a": {"x": 1}})
\* the shape of the value (RawVal in SelectorsSem.tla): bare data that looks like a (data, context) pair
\* but is not one - two items, the second a number / a string / a list / None -, tuples of one and of
\* three items (a dictionary in second place), a list of two items, and real pairs: a pair whose data is
\* itself a 2-tuple, a pair whose data is a list
ACtx == AIs(Empty)
V31 == RawVal("tuple", <<D("int", 1), D("int", 2)>>)              \* (1, 2)
V32 == RawVal("tuple", <<D("str", 1), D("str", 1)>>)              \* ("s", "s")
V33 == RawVal("tuple", <<D("int", 1), D("list", 1)>>)             \* (1, [0])
V34 == RawVal("tuple", <<D("str", 1), D("none", 0)>>)             \* ("s", None)
V35 == RawVal("tuple", <<D("int", 1)>>)                           \* (1,)
V36 == RawVal("tuple", <<D("int", 1), ACtx, D("int", 2)>>)        \* (1, {"a": {}}, 2)
V37 == RawVal("list", <<D("int", 1), D("int", 2)>>)               \* [1, 2]
V38 == RawVal("tuple", <<D("tuple", 2), ACtx>>)                   \* ((0, 0), {"a": {}})
V39 == RawVal("tuple", <<D("list", 2), ACtx>>)                    \* ([0, 0], {"a": {}})
V40 == RawVal("tuple", <<D("tuple", 2), D("int", 0)>>)            \* ((0, 0), 0)
V41 == RawVal("tuple", <<D("bool", 1), D("tuple", 0)>>)           \* (True, ())
V42 == RawVal("tuple", <<D("int", 1), ACtx>>)                     \* (1, {"a": {}}) - the same rule gives a pair
AllVals == <<V1, V2, V3, V4, V5, V6, V7, V8, V9, V10, V11, V12, V13, V14, V15, V16, V17, V18, V19, V20, V21, V22, V23, V24,
             V25, V26, V27, V28, V29, V30, V31, V32, V33, V34, V35, V36, V37, V38, V39, V40, V41, V42>>

\* constant leaves: every outcome combination of the items of a container
AbsLeaves == {Fn("yes"), Fn("no"), Fn("boom")}
AN == <<"a", "None">>
ConcLeaves == {Str(A1), Str(ABX), Str(AN), Cls("int"), Cls("str"), Cls("ucls"), Cls("tuple"), Fn("pos"), Fn("objpos"), Fn("len"), Fn("boom"), Fn("isnone")}
SCs == {SC(p, q, r) : p \in {<<>>, A1, AB}, r \in BOOLEAN,
                      q \in {"isdict", "eq1", "gt0", "hasx", "isnone", "eq0", "truthy", "always",
                             "cbool", "cstr", "cint", "cdict", "cuser"}}
SCFew == {SC(AB, "gt0", r) : r \in BOOLEAN}
SCNone == {SC(AB, "isnone", TRUE), SC(A1, "always", FALSE), SC(AB, "cbool", TRUE), SC(AB, "cint", FALSE)}

\* leaves raising an exception of a chosen class: the class lena's own lookup raises (and SelectContext
\* catches around its lookup), its base classes, a subclass, other classes of lena, a plain Exception
LK == "LenaKeyError"
SCK == {SCE(AB, "needx", e, r) : e \in {LK, "KeyError", "Boom"}, r \in BOOLEAN} \cup {SCE(A1, "raise", LK, TRUE)}
KindLeaves == {FnR(LK), FnR("KeyError"), FnN(LK)}

\* (TLC evaluates every constant definition without parameters at start-up, used or not; the
\* universes therefore take a dummy parameter and only the one selected by U is built.)
\* MC universes: depth 1 / depth 2 over constant leaves (+ one context leaf and SelectContext)
MCDepth1(u) == ObjsOver(AbsLeaves \cup {Str(A1)}, 2) \cup SCFew \cup SCK \cup ObjsOver(KindLeaves \cup {Fn("yes")}, 1)
MCItems2(u) == AbsLeaves \cup SCFew \cup {SCE(AB, "needx", LK, TRUE), SCE(AB, "needx", "KeyError", FALSE), FnR(LK)}
               \cup {NotO(x, r) : x \in AbsLeaves, r \in BOOLEAN}
               \cup {Sel(Fn("boom"), r) : r \in BOOLEAN}
               \cup RawOver({Fn("yes"), Fn("boom")}, 2)
               \cup {o \in ObjsOver({Fn("no"), Fn("boom")}, 1) : o.k \in {"And", "Or"}}
MCDepth2(u) == MCDepth1(u) \cup ObjsOver(MCItems2(u), 2)
\* a smaller depth-2 universe for the quick tier: one item per behaviour
MCItems2q(u) == AbsLeaves \cup {NotO(Fn("boom"), FALSE), NotO(Fn("boom"), TRUE), NotO(Fn("yes"), TRUE),
                                Sel(Fn("boom"), FALSE), Sel(Fn("boom"), TRUE),
                                List(<<Fn("boom")>>), Tup(<<Fn("yes"), Fn("boom")>>),
                                AndO(<<Fn("boom")>>, TRUE), OrO(<<Fn("no"), Fn("boom")>>, TRUE),
                                AndO(<<Fn("yes"), Fn("boom")>>, FALSE), SC(AB, "gt0", TRUE),
                                SCE(AB, "needx", LK, TRUE)}
MCDepth2q(u) == MCDepth1(u) \cup ObjsOver(MCItems2q(u), 2)
\* depth 3: the items are hand-picked depth-2 specifications, one per behaviour
MCItems3(u) == AbsLeaves \cup
  {Sel(List(<<NotO(Fn("boom"), FALSE)>>), TRUE), NotO(Tup(<<Fn("yes"), Fn("boom")>>), TRUE),
   NotO(Tup(<<Fn("yes"), Fn("boom")>>), FALSE), AndO(<<NotO(Fn("boom"), TRUE)>>, TRUE),
   OrO(<<Tup(<<Fn("yes"), Fn("boom")>>), Fn("yes")>>, TRUE), OrO(<<List(<<Fn("no")>>), NotO(Fn("no"), FALSE)>>, FALSE),
   Sel(NotO(Fn("boom"), FALSE), TRUE), List(<<NotO(Fn("yes"), TRUE), Fn("boom")>>),
   Tup(<<Sel(Fn("boom"), FALSE), Fn("yes")>>), Sel(AndO(<<Fn("yes"), Fn("boom")>>, FALSE), FALSE),
   NotO(SC(AB, "gt0", TRUE), FALSE), NotO(SCE(AB, "needx", LK, TRUE), FALSE), Tup(<<Fn("yes"), SCE(AB, "needx", LK, TRUE)>>)}
MCDepth3(u) == ObjsOver(MCItems3(u), 2)
\* Filter universes
FilterAsts(u) == ObjsOver({Fn("len"), Fn("pos")}, 2) \cup SCFew \cup SCNone \cup {Sel(Str(A1), TRUE), NotO(SC(AB, "isnone", TRUE), TRUE)}
                 \cup {Sel(Str(ABX), TRUE), NotO(Str(ABX), FALSE)}
                 \cup {SCE(AB, "needx", LK, TRUE), NotO(SCE(AB, "needx", LK, TRUE), FALSE), Sel(FnN(LK), TRUE),
                       AndO(<<Cls("int"), SCE(AB, "needx", "KeyError", TRUE)>>, TRUE)}

\* export universes (S2C): concrete leaves, all eight values per specification
ExDepth1(u) == ObjsOver(ConcLeaves, 2) \cup SCs
ExItems2(u) == {Str(A1), Cls("int"), Fn("pos"), Fn("boom")} \cup SCFew
               \cup {NotO(x, r) : x \in {Str(ABX), Fn("pos"), Fn("len")}, r \in BOOLEAN}
               \cup {Sel(x, r) : x \in {Fn("len")}, r \in BOOLEAN}
               \cup RawOver({Str(A1), Fn("pos")}, 2)
               \cup {o \in ObjsOver({Cls("str"), Fn("len")}, 1) : o.k \in {"And", "Or"}}
ExDepth2(u) == ExDepth1(u) \cup ObjsOver(ExItems2(u), 2)
ExItems2q(u) == {Str(A1), Cls("int"), Fn("pos"), Fn("boom"),
                 NotO(Str(ABX), TRUE), NotO(Fn("len"), FALSE), NotO(Fn("pos"), TRUE),
                 Sel(Fn("len"), FALSE), Sel(Fn("len"), TRUE),
                 List(<<Str(A1), Fn("pos")>>), Tup(<<Fn("pos"), Str(A1)>>),
                 AndO(<<Cls("str"), Fn("len")>>, TRUE), OrO(<<Fn("len"), Cls("str")>>, FALSE),
                 SC(AB, "gt0", TRUE), SC(AB, "gt0", FALSE), SC(AB, "cbool", TRUE), SC(A1, "cdict", FALSE)}
ExDepth2q(u) == ExDepth1(u) \cup ObjsOver(ExItems2q(u), 2)
ExItems3(u) == {Fn("pos"), Str(A1), Fn("boom")} \cup
  {Sel(List(<<NotO(Fn("len"), FALSE)>>), TRUE), NotO(Tup(<<Str(A1), Fn("pos")>>), TRUE),
   NotO(Tup(<<Str(A1), Fn("pos")>>), FALSE), AndO(<<NotO(Fn("len"), TRUE)>>, TRUE),
   OrO(<<Tup(<<Cls("str"), Fn("pos")>>), Str(ABX)>>, TRUE), OrO(<<List(<<Cls("int")>>), NotO(SC(AB, "gt0", FALSE), FALSE)>>, FALSE),
   Sel(NotO(SC(AB, "hasx", TRUE), FALSE), TRUE), List(<<NotO(Str(ABX), TRUE), Fn("len")>>),
   Tup(<<Sel(Fn("pos"), FALSE), Str(A1)>>), Sel(AndO(<<Str(A1), Fn("len")>>, FALSE), FALSE)}
ExDepth3(u) == ObjsOver(ExItems3(u), 2)
\* exception classes: every class at the two kinds of raising predicate and as a raising callable;
\* compositions over the classes that a handler of the implementation could take for its own
ExKinds(u) == {SCE(p, q, e, r) : p \in {A1, AB}, q \in {"raise", "needx"}, e \in ExcKinds, r \in BOOLEAN}
              \cup ObjsOver({FnR(e) : e \in ExcKinds}, 1)
              \cup ObjsOver({Fn("yes"), Fn("no"), FnR(LK), FnR("KeyError"), FnN(LK)}, 2)
              \cup ObjsOver({Fn("yes"), Cls("int"), SCE(AB, "needx", LK, TRUE), SCE(AB, "needx", LK, FALSE),
                            SCE(AB, "needx", "KeyError", TRUE)}, 2)

CONSTANTS U,    \* name of the universe of top-level selector objects
          F     \* name of the universe of flows
Asts == CASE U = "mc1" -> MCDepth1(U) [] U = "mc2q" -> MCDepth2q(U) [] U = "mc2" -> MCDepth2(U) [] U = "mc3" -> MCDepth3(U)
          [] U = "filter" -> FilterAsts(U)
          [] U = "ex1" -> ExDepth1(U) [] U = "ex2q" -> ExDepth2q(U) [] U = "ex23q" -> ExDepth2q(U) \cup ExDepth3(U) \cup ExKinds(U) [] U = "ex2" -> ExDepth2(U) \cup ExKinds(U) [] U = "ex3" -> ExDepth3(U)
Flows == CASE F = "one" -> {<<V3>>, <<V2>>, <<V12>>}
           [] F = "two" -> {<<V2>>, <<V12>>}
           [] F = "tiny" -> SeqsUpTo({V3, V4, V12, V25}, 2)
           [] F = "small" -> SeqsUpTo({V2, V3, V4, V6, V12}, 3)
           [] F = "big" -> SeqsUpTo({V1, V2, V3, V4, V6, V8, V12}, 4)

(***************************************************************************)
(* Operational part.  Build mirrors the constructors:                      *)
(*   [o |-> "S" | "N", roe, in]  Selector / Not holding a leaf or object   *)
(*   [o |-> "A" | "O", roe, items]   And / Or                              *)
(*   [o |-> "C", roe, p, sc]     SelectContext (sc: its specification)     *)
(*   [o |-> "P", sc, sub]        its predicate about to be applied to sub  *)
(*   [o |-> "L", leaf]           the lambda made for a string / class, or  *)
(*                               the user's callable                       *)
(***************************************************************************)
RECURSIVE Build(_, _), BuildObj(_)
BuildItem(x, roe) == IF IsObj(x) THEN BuildObj(x) ELSE Build(x, roe)
\* Selector(x, roe).__init__
Build(x, roe) ==
  [o |-> "S", roe |-> roe,
   in |-> CASE IsLeaf(x) -> [o |-> "L", leaf |-> x]
            [] x.k = "list" -> [o |-> "O", roe |-> roe, items |-> [i \in 1..Len(x.xs) |-> BuildItem(x.xs[i], roe)]]
            [] x.k = "tuple" -> [o |-> "A", roe |-> roe, items |-> [i \in 1..Len(x.xs) |-> BuildItem(x.xs[i], roe)]]
            [] OTHER -> BuildObj(x)]         \* an object is a callable
BuildObj(x) ==
  CASE x.k = "Sel" -> Build(x.x, x.roe)
    [] x.k = "Not" -> [Build(x.x, x.roe) EXCEPT !.o = "N"]
    [] x.k = "And" -> [o |-> "A", roe |-> x.roe, items |-> [i \in 1..Len(x.xs) |-> BuildItem(x.xs[i], x.roe)]]
    [] x.k = "Or" -> [o |-> "O", roe |-> x.roe, items |-> [i \in 1..Len(x.xs) |-> BuildItem(x.xs[i], x.roe)]]
    [] x.k = "SC" -> [o |-> "C", roe |-> x.roe, p |-> x.p, sc |-> x]

VARIABLES ast, flow,   \* the scenario: Filter(ast).run(flow)
          pos,         \* values pulled from the flow
          out,         \* values yielded by Filter.run
          results,     \* outcome of the selector for each value tested
          status,      \* "idle" (between values) | "eval" | "done" | "raised"
          stack,       \* frames [ob, i]: __call__s in progress, innermost last
          ctl,         \* [m |-> "call", ob] | [m |-> "ret", r] | [m |-> "exc", r: class] | [m |-> "none"]
          first        \* what the first run of the Filter gave (status "none" during the first run)
vars == <<ast, flow, pos, out, results, status, stack, ctl, first>>

Nil == [o |-> "nil"]
CCall(ob) == [m |-> "call", ob |-> ob, r |-> "-"]
CRet(r) == [m |-> "ret", ob |-> Nil, r |-> r]
CExc(e) == [m |-> "exc", ob |-> Nil, r |-> e]
CNone == [m |-> "none", ob |-> Nil, r |-> "-"]
Frame(ob, i) == [ob |-> ob, i |-> i]
Top == stack[Len(stack)]
Pop == SubSeq(stack, 1, Len(stack) - 1)
Outcome(r) == IF IsE(r) THEN CExc(r) ELSE CRet(r)

NoFirst == [status |-> "none", out |-> <<>>, results |-> <<>>]
Init == /\ ast \in Asts /\ flow \in Flows
        /\ pos = 0 /\ out = <<>> /\ results = <<>> /\ status = "idle" /\ stack = <<>> /\ ctl = CNone
        /\ first = NoFirst

Scen == UNCHANGED <<ast, flow>>
\* Filter.run: next value of the flow -> selector(value)
FilterPull == /\ status = "idle" /\ pos < Len(flow)
              /\ pos' = pos + 1 /\ status' = "eval" /\ ctl' = CCall(BuildObj(ast))
              /\ Scen /\ UNCHANGED <<out, results, stack, first>>
FilterEnd == /\ status = "idle" /\ pos = Len(flow)
             /\ status' = "done" /\ Scen /\ UNCHANGED <<pos, out, results, stack, ctl, first>>
\* the same Filter object is run over the same flow a second time
Again == /\ F \in {"tiny", "small", "big"}                       \* (the Filter universes)
         /\ status \in {"done", "raised"} /\ first.status = "none"
         /\ first' = [status |-> status, out |-> out, results |-> results]
         /\ pos' = 0 /\ out' = <<>> /\ results' = <<>> /\ status' = "idle" /\ stack' = <<>> /\ ctl' = CNone /\ Scen
FilterDecide == /\ status = "eval" /\ stack = <<>> /\ ctl.m \in {"ret", "exc"}
                /\ LET r == ctl.r IN                      \* (of an exception: its class)
                   /\ results' = Append(results, r)
                   /\ out' = IF r = "T" THEN Append(out, flow[pos]) ELSE out
                   /\ status' = IF ctl.m = "exc" THEN "raised" ELSE "idle"
                /\ ctl' = CNone /\ Scen /\ UNCHANGED <<pos, stack, first>>

Eval1 == status = "eval" /\ Scen /\ UNCHANGED <<pos, out, results, status, first>>
\* Selector.__call__ / Not.__call__: try: self._selector(value)
CallSelector == /\ Eval1 /\ ctl.m = "call" /\ ctl.ob.o \in {"S", "N"}
                /\ stack' = Append(stack, Frame(ctl.ob, 0)) /\ ctl' = CCall(ctl.ob.in)
\* And / Or.__call__: all / any over a generator - the first item is asked for
CallAndOr == /\ Eval1 /\ ctl.m = "call" /\ ctl.ob.o \in {"A", "O"}
             /\ IF ctl.ob.items = <<>>
                THEN ctl' = CRet(IF ctl.ob.o = "A" THEN "T" ELSE "F") /\ UNCHANGED stack
                ELSE stack' = Append(stack, Frame(ctl.ob, 1)) /\ ctl' = CCall(ctl.ob.items[1])
\* the lambda of a string / class specification or the user's callable
CallLeaf == /\ Eval1 /\ ctl.m = "call" /\ ctl.ob.o = "L"
            /\ ctl' = Outcome(LeafEval(ctl.ob.leaf, flow[pos])) /\ UNCHANGED stack
\* SelectContext.__call__ (does not go through Selector.__call__), in the two steps of the code:
\* 1. try: subcontext = get_recursively(context, key); except LenaKeyError: return False
\*    - the handler encloses the lookup only;
\* 2. try: predicate(subcontext); except Exception: raise or return False - the frame "C" is on the
\*    stack while the predicate runs and treats its exception as a Selector frame does (CatchExc /
\*    Propagate), of whatever class it is - also of the class the lookup raises.
CallSelectContext == /\ Eval1 /\ ctl.m = "call" /\ ctl.ob.o = "C"
                     /\ LET s == GetRec(flow[pos].c, ctl.ob.p, 1) IN
                        IF s = Absent THEN ctl' = CRet("F") /\ UNCHANGED stack       \* except LenaKeyError
                        ELSE /\ stack' = Append(stack, Frame(ctl.ob, 0))
                             /\ ctl' = CCall([o |-> "P", sc |-> ctl.ob.sc, sub |-> s])
CallPredicate == /\ Eval1 /\ ctl.m = "call" /\ ctl.ob.o = "P"
                 /\ ctl' = Outcome(PredOf(ctl.ob.sc, ctl.ob.sub)) /\ UNCHANGED stack
\* a value comes back to the innermost frame
RetSelector == /\ Eval1 /\ ctl.m = "ret" /\ stack # <<>> /\ Top.ob.o \in {"S", "N", "C"}
               /\ ctl' = CRet(IF Top.ob.o = "N" THEN Neg(ctl.r) ELSE ctl.r) /\ stack' = Pop
RetAndOr == /\ Eval1 /\ ctl.m = "ret" /\ stack # <<>> /\ Top.ob.o \in {"A", "O"}
            /\ LET stop == IF Top.ob.o = "A" THEN "F" ELSE "T" IN
               IF ctl.r = stop \/ Top.i = Len(Top.ob.items)
               THEN ctl' = CRet(ctl.r) /\ stack' = Pop                             \* short circuit / exhausted
               ELSE /\ stack' = Append(Pop, Frame(Top.ob, Top.i + 1))
                    /\ ctl' = CCall(Top.ob.items[Top.i + 1])
\* an exception unwinds: except Exception in Selector.__call__ (Not negates the False)
CatchExc == /\ Eval1 /\ ctl.m = "exc" /\ stack # <<>> /\ Top.ob.o \in {"S", "N", "C"} /\ ~Top.ob.roe
            /\ ctl' = CRet(IF Top.ob.o = "N" THEN "T" ELSE "F") /\ stack' = Pop
\* raise err: the same exception goes on
Propagate == /\ Eval1 /\ ctl.m = "exc" /\ stack # <<>> /\ ~(Top.ob.o \in {"S", "N", "C"} /\ ~Top.ob.roe)
             /\ ctl' = CExc(ctl.r) /\ stack' = Pop

Next == FilterPull \/ FilterEnd \/ FilterDecide \/ Again \/ CallSelector \/ CallAndOr \/ CallLeaf \/ CallSelectContext \/ CallPredicate
        \/ RetSelector \/ RetAndOr \/ CatchExc \/ Propagate
Spec == Init /\ [][Next]_vars

(***************************************************************************)
(* Properties.                                                             *)
(***************************************************************************)
TypeOK == /\ status \in {"idle", "eval", "done", "raised"}
          /\ pos \in 0..Len(flow) /\ Len(results) <= pos
          /\ \A j \in 1..Len(results) : results[j] \in {"T", "F"} \cup ExcKinds
\* C15: the object built by the constructors, run by the call machine, computes the recursive definition
Compositional == \A j \in 1..Len(results) : results[j] = Eval(ast, flow[j])
\* an exception that reaches the caller is the exception of one of the leaves (nothing is invented or
\* converted on the way), and a result "not selected" of a specification in which every object has
\* raise_on_error=True is never a swallowed exception (Compositional, with AllRoe specifications)
NothingInvented == \A j \in 1..Len(results) : IsE(results[j]) => results[j] \in LeafExcs(ast, flow[j])
\* with raise_on_error=False nothing propagates out of the selector
RoeFalseNeverRaises == ~ast.roe => status # "raised"
\* Filter keeps exactly the selected values (up to the first value on which the selector raises)
FilterKeeps == status \in {"done", "raised"} =>
                 LET e == FilterSem(ast, flow) IN
                 /\ out = e.out /\ (status = "raised") = e.raised
                 /\ status = "raised" => results[Len(results)] = e.exc
FilterOrder == \A j \in 1..Len(out) : \E i \in 1..pos : out[j] = flow[i]
\* a Filter can be run again: the second run gives what the first gave
SecondRunSame == (first.status # "none" /\ status \in {"done", "raised"}) =>
                   (status = first.status /\ out = first.out /\ results = first.results)
\* without errors the result is two-valued logic
Classical == (status = "idle" /\ pos = 0) =>
               \A j \in 1..Len(flow) : Total(ast, flow[j]) => Eval(ast, flow[j]) = B(Holds(ast, flow[j]))
\* a full negation: Not(x, False) is never an error and Not(Not(x, r), r) = Selector(x, r) on T/F/E
NotLaws == (status = "idle" /\ pos = 0 /\ ast.k = "Not") =>
             \A j \in 1..Len(flow) :
               /\ Eval(ast, flow[j]) = Neg(Eval(Sel(ast.x, ast.roe), flow[j]))
               /\ Eval(NotO(ast, ast.roe), flow[j]) = Eval(Sel(ast.x, ast.roe), flow[j])
\* universes are inside the statement
Inside == (status = "idle" /\ pos = 0) => WellFormed(ast) /\ \A j \in 1..Len(flow) : Defined(ast, flow[j])
\* the machine's stack is bounded by the nesting of the object
StackBound == Len(stack) <= 8

(***************************************************************************)
(* Export (S2C).                                                           *)
(***************************************************************************)
\* one record per specification with the outcome on each of the eight values
XInit == /\ ast \in Asts /\ flow = AllVals
         /\ pos = 0 /\ out = <<>> /\ results = <<>> /\ status = "idle" /\ stack = <<>> /\ ctl = CNone /\ first = NoFirst
XSpec == XInit /\ [][FALSE]_vars
\* (the eight values themselves are attached to the record of one specification)
FirstAst == CHOOSE a \in Asts : TRUE
\* "U": a string leaf walks through a scalar on this value (contains there is C08's subject) - not compared
EmitVec == PrintT(ToJson([ast |-> ast,
                          res |-> [j \in 1..Len(AllVals) |-> IF Defined(ast, AllVals[j]) THEN Eval(ast, AllVals[j]) ELSE "U"],
                          vals |-> IF ast = FirstAst THEN AllVals ELSE <<>>]))
\* Filter behaviours: the machine's output
EmitFilter == (status \in {"done", "raised"} /\ first.status # "none") =>
                PrintT(ToJson([ast |-> ast, flow |-> flow, out |-> out, raised |-> (status = "raised"),
                               exc |-> IF status = "raised" THEN results[Len(results)] ELSE ""]))
=============================================================================
