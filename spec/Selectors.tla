----------------------------- MODULE Selectors -----------------------------
(***************************************************************************)
(* lena.flow.Selector / Not / And / Or / SelectContext and lena.flow.Filter *)
(*                                                                         *)
(* Code: lena/flow/selectors.py (Selector.__init__ dispatch on the type of *)
(* the specification, Selector.__call__ error policy, And/Or.__call__ =    *)
(* all/any over a generator, Not.__call__, SelectContext.__call__),        *)
(* lena/flow/filter.py (Filter.run / fill_into),                           *)
(* lena/context/functions.py (contains, get_recursively).                  *)
(*                                                                         *)
(* Declarative part (from the documentation): Eval, a three-valued         *)
(* ("T", "F", "E" = an exception propagates) recursive definition over the *)
(* *specification* (what the user writes).                                 *)
(* Operational part (like the code): Build = what the constructors make of *)
(* a specification (a tree of selector objects, each with its own          *)
(* raise_on_error), and a stack machine with one frame per __call__ in     *)
(* progress; Filter.run drives it over a flow.                             *)
(***************************************************************************)
EXTENDS Integers, Sequences, FiniteSets, TLC, Json

(***************************************************************************)
(* Values.  Context: Dict [k |-> "D", m |-> function from keys] or Leaf    *)
(* [k |-> "L", t |-> "int" | "str", n |-> integer value (0 for strings),   *)
(* v |-> str(value)].  Data: [t |-> "int" | "bool" | "str", n |-> value    *)
(* (length for strings)].  Flow value: [d, c, h] (h: a (data, context)     *)
(* pair; otherwise the context is empty).                                  *)
(***************************************************************************)
Dict(m) == [k |-> "D", m |-> m]
LInt(n, v) == [k |-> "L", t |-> "int", n |-> n, v |-> v]
LStr(v) == [k |-> "L", t |-> "str", n |-> 0, v |-> v]
Empty == Dict(<<>>)
Absent == [k |-> "A"]
Val(t, n, c, h) == [d |-> [t |-> t, n |-> n], c |-> c, h |-> h]

(***************************************************************************)
(* Specifications (what the user writes).                                  *)
(*   raw:     Str(path)  Cls(name)  Fn(name)  List(xs)  Tup(xs)            *)
(*   objects: Sel(x, roe)  NotO(x, roe)  AndO(xs, roe)  OrO(xs, roe)       *)
(*            SC(path, pred, roe)                                          *)
(* A raw specification inherits raise_on_error from the constructor that   *)
(* converts it; an object keeps its own.                                   *)
(***************************************************************************)
Str(p) == [k |-> "str", p |-> p]
Cls(c) == [k |-> "cls", c |-> c]
Fn(f) == [k |-> "fn", f |-> f]
List(xs) == [k |-> "list", xs |-> xs]
Tup(xs) == [k |-> "tuple", xs |-> xs]
Sel(x, r) == [k |-> "Sel", x |-> x, roe |-> r]
NotO(x, r) == [k |-> "Not", x |-> x, roe |-> r]
AndO(xs, r) == [k |-> "And", xs |-> xs, roe |-> r]
OrO(xs, r) == [k |-> "Or", xs |-> xs, roe |-> r]
SC(p, q, r) == [k |-> "SC", p |-> p, q |-> q, roe |-> r]
IsObj(x) == x.k \in {"Sel", "Not", "And", "Or", "SC"}
IsLeaf(x) == x.k \in {"str", "cls", "fn"}

(***************************************************************************)
(* Leaves.                                                                 *)
(***************************************************************************)
\* lena.context.contains(d, "p1.p2...pn"): walk n-1 keys, then test the last one as a key of a
\* dictionary or against str() of a scalar.  "U": the walk meets a scalar before that (the
\* behaviour of contains there is the subject of C08, not of this module).
RECURSIVE ContainsFrom(_, _, _)
ContainsFrom(cur, p, i) ==
  IF i = Len(p)
  THEN IF cur.k = "D" THEN (IF p[i] \in DOMAIN cur.m THEN "T" ELSE "F")
       ELSE (IF cur.v = p[i] THEN "T" ELSE "F")
  ELSE IF cur.k # "D" THEN "U"
  ELSE IF p[i] \notin DOMAIN cur.m THEN "F"
  ELSE ContainsFrom(cur.m[p[i]], p, i + 1)
Contains(c, p) == ContainsFrom(c, p, 1)

\* isinstance(data, cls)
IsInst(d, c) == c = "object" \/ c = d.t \/ (d.t = "bool" /\ c = "int")

\* the callables of the harness (lenaverif/sellib.py FUNCS)
B(b) == IF b THEN "T" ELSE "F"
FnEval(f, v) ==
  CASE f = "yes" -> "T"
    [] f = "no" -> "F"
    [] f = "boom" -> "E"                                                   \* always raises
    [] f = "pos" -> IF v.d.t = "str" THEN "E" ELSE B(v.d.n > 0)            \* data > 0
    [] f = "len" -> IF v.d.t = "str" THEN B(v.d.n > 0) ELSE "E"            \* len(data), not a bool
    [] f = "hasctx" -> B(v.c # Empty)                                      \* bool(get_context(v))

LeafEval(x, v) ==
  CASE x.k = "str" -> Contains(v.c, x.p)
    [] x.k = "cls" -> B(IsInst(v.d, x.c))
    [] x.k = "fn" -> FnEval(x.f, v)

\* lena.context.get_recursively(context, path) without default: Absent <=> LenaKeyError
RECURSIVE GetRec(_, _, _)
GetRec(cur, p, i) ==
  IF i > Len(p) THEN cur
  ELSE IF cur.k # "D" THEN Absent
  ELSE IF p[i] \notin DOMAIN cur.m THEN Absent
  ELSE GetRec(cur.m[p[i]], p, i + 1)
\* predicates on a sub-context (lenaverif/sellib.py PREDS)
PredEval(q, s) ==
  CASE q = "isdict" -> B(s.k = "D")
    [] q = "eq1" -> B(s.k = "L" /\ s.t = "int" /\ s.n = 1)                 \* sub == 1
    [] q = "gt0" -> IF s.k = "L" /\ s.t = "int" THEN B(s.n > 0) ELSE "E"   \* sub > 0
    [] q = "hasx" -> IF s.k = "D" THEN B("x" \in DOMAIN s.m)               \* "x" in sub
                     ELSE IF s.t = "str" THEN B(s.v = "x") ELSE "E"
    [] q = "boom" -> "E"

(***************************************************************************)
(* Declarative semantics, written from the documentation.                  *)
(*   string: contains; class: isinstance of the data; callable: applied;   *)
(*   list: OR, tuple: AND (left to right, short circuit); Not negates;     *)
(*   raise_on_error = False: an exception counts as not selected (for Not: *)
(*   "a full negation including the case of an error"); SelectContext:     *)
(*   predicate on the addressed sub-context, False when that is absent.    *)
(***************************************************************************)
Catch(roe, r) == IF r = "E" /\ ~roe THEN "F" ELSE r
Neg(r) == CASE r = "T" -> "F" [] r = "F" -> "T" [] OTHER -> r

RECURSIVE EvalRaw(_, _, _), EvalObj(_, _), OrSeq(_, _, _, _), AndSeq(_, _, _, _)
\* an item of a list / tuple / And / Or: an object is used as it is, anything else is converted
\* with the raise_on_error of the container
Item(x, roe, v) == IF IsObj(x) THEN EvalObj(x, v) ELSE EvalRaw(x, roe, v)
OrSeq(xs, roe, v, i) ==
  IF i > Len(xs) THEN "F"
  ELSE LET r == Item(xs[i], roe, v) IN IF r = "F" THEN OrSeq(xs, roe, v, i + 1) ELSE r
AndSeq(xs, roe, v, i) ==
  IF i > Len(xs) THEN "T"
  ELSE LET r == Item(xs[i], roe, v) IN IF r = "T" THEN AndSeq(xs, roe, v, i + 1) ELSE r
\* Selector(x, raise_on_error=roe)(v)
EvalRaw(x, roe, v) ==
  Catch(roe, CASE IsLeaf(x) -> LeafEval(x, v)
               [] x.k = "list" -> OrSeq(x.xs, roe, v, 1)
               [] x.k = "tuple" -> AndSeq(x.xs, roe, v, 1)
               [] OTHER -> EvalObj(x, v))
EvalObj(o, v) ==
  CASE o.k = "Sel" -> EvalRaw(o.x, o.roe, v)
    [] o.k = "Not" -> Neg(EvalRaw(o.x, o.roe, v))
    [] o.k = "And" -> AndSeq(o.xs, o.roe, v, 1)
    [] o.k = "Or" -> OrSeq(o.xs, o.roe, v, 1)
    [] o.k = "SC" -> LET s == GetRec(v.c, o.p, 1) IN
                     IF s = Absent THEN "F" ELSE Catch(o.roe, PredEval(o.q, s))
Eval(o, v) == EvalObj(o, v)

\* Filter(selector).run(flow): the selected values; stops at the first value whose test raises
RECURSIVE FilterSem(_, _)
FilterSem(o, vs) ==
  IF vs = <<>> THEN [out |-> <<>>, raised |-> FALSE]
  ELSE LET r == Eval(o, Head(vs)) IN
       IF r = "E" THEN [out |-> <<>>, raised |-> TRUE]
       ELSE LET t == FilterSem(o, Tail(vs)) IN
            [out |-> (IF r = "T" THEN <<Head(vs)>> ELSE <<>>) \o t.out, raised |-> t.raised]

(***************************************************************************)
(* Which specifications are inside the statement.                          *)
(* The documentation of And / Or says raise_on_error "has the same meaning *)
(* as in Selector" and "will be applied to each newly initialized          *)
(* subselector"; whether And(.., raise_on_error=False) must also swallow   *)
(* the exception of a ready-made item built with raise_on_error=True is    *)
(* not fixed, so such specifications are left out (NoRaise items only).    *)
(***************************************************************************)
RECURSIVE WellFormed(_), NoRaise(_)
AllItems(xs, P(_)) == \A i \in 1..Len(xs) : P(xs[i])
NoRaise(x) == IsObj(x) => /\ ~x.roe
                          /\ x.k \in {"And", "Or"} => AllItems(x.xs, NoRaise)
WellFormed(x) ==
  CASE IsLeaf(x) -> TRUE
    [] x.k \in {"list", "tuple"} -> AllItems(x.xs, WellFormed)
    [] x.k \in {"Sel", "Not"} -> WellFormed(x.x)
    [] x.k \in {"And", "Or"} -> AllItems(x.xs, WellFormed) /\ (~x.roe => AllItems(x.xs, NoRaise))
    [] OTHER -> TRUE
\* no leaf meets the "U" case of contains on this value
RECURSIVE Defined(_, _)
Defined(x, v) ==
  CASE x.k = "str" -> Contains(v.c, x.p) # "U"
    [] x.k \in {"list", "tuple", "And", "Or"} -> \A i \in 1..Len(x.xs) : Defined(x.xs[i], v)
    [] x.k \in {"Sel", "Not"} -> Defined(x.x, v)
    [] OTHER -> TRUE

(***************************************************************************)
(* Classical reading: when no leaf raises, the result is plain two-valued  *)
(* logic, independent of evaluation order.                                 *)
(***************************************************************************)
RECURSIVE Total(_, _), Holds(_, _)
Total(x, v) ==
  CASE IsLeaf(x) -> LeafEval(x, v) # "E"
    [] x.k \in {"list", "tuple", "And", "Or"} -> \A i \in 1..Len(x.xs) : Total(x.xs[i], v)
    [] x.k \in {"Sel", "Not"} -> Total(x.x, v)
    [] x.k = "SC" -> LET s == GetRec(v.c, x.p, 1) IN s = Absent \/ PredEval(x.q, s) # "E"
Holds(x, v) ==
  CASE IsLeaf(x) -> LeafEval(x, v) = "T"
    [] x.k \in {"list", "Or"} -> \E i \in 1..Len(x.xs) : Holds(x.xs[i], v)
    [] x.k \in {"tuple", "And"} -> \A i \in 1..Len(x.xs) : Holds(x.xs[i], v)
    [] x.k = "Sel" -> Holds(x.x, v)
    [] x.k = "Not" -> ~Holds(x.x, v)
    [] x.k = "SC" -> LET s == GetRec(v.c, x.p, 1) IN s # Absent /\ PredEval(x.q, s) = "T"

(***************************************************************************)
(* Universes.                                                              *)
(***************************************************************************)
SeqsUpTo(S, n) == UNION {[1..m -> S] : m \in 0..n}
RawOver(C, n) == {List(xs) : xs \in SeqsUpTo(C, n)} \cup {Tup(xs) : xs \in SeqsUpTo(C, n)}
\* every object whose direct constituents come from C (sequences up to length n)
ObjsOver(C, n) ==
  LET S == SeqsUpTo(C, n)  X == C \cup RawOver(C, n) IN
  {o \in UNION { {Sel(x, r) : x \in X} \cup {NotO(x, r) : x \in X}
                 \cup {AndO(xs, r) : xs \in S} \cup {OrO(xs, r) : xs \in S} : r \in BOOLEAN} : WellFormed(o)}

A1 == <<"a">>
ABX == <<"a", "b", "x">>
AB == <<"a", "b">>
\* the eight values of the exhaustive universe (realised by lenaverif/sellib.py)
V1 == Val("int", 1, Empty, FALSE)                                               \* 1
V2 == Val("int", -1, Empty, TRUE)                                               \* (-1, {})
V3 == Val("bool", 1, Dict([x \in {"a"} |-> Empty]), TRUE)                       \* (True, {"a": {}})
V4 == Val("str", 1, Dict([x \in {"a"} |-> Dict([y \in {"b"} |-> LStr("x")])]), TRUE)       \* ("s", {"a": {"b": "x"}})
V5 == Val("str", 0, Dict([x \in {"a"} |-> Dict([y \in {"b"} |-> LInt(5, "5")])]), TRUE)    \* ("", {"a": {"b": 5}})
V6 == Val("int", 2, Dict([x \in {"a"} |-> Dict([y \in {"b"} |-> Dict([z \in {"x"} |-> LInt(1, "1")])])]), TRUE)
V7 == Val("int", 0, Dict([x \in {"b"} |-> LInt(1, "1")]), TRUE)                 \* (0, {"b": 1})
V8 == Val("bool", 0, Dict([x \in {"a"} |-> Dict([y \in {"b"} |-> LInt(-1, "-1")])]), TRUE) \* (False, {"a": {"b": -1}})
AllVals == <<V1, V2, V3, V4, V5, V6, V7, V8>>

\* constant leaves: every outcome combination of the items of a container
AbsLeaves == {Fn("yes"), Fn("no"), Fn("boom")}
ConcLeaves == {Str(A1), Str(ABX), Cls("int"), Cls("str"), Fn("pos"), Fn("len"), Fn("boom")}
SCs == {SC(p, q, r) : p \in {<<>>, A1, AB}, q \in {"isdict", "eq1", "gt0", "hasx"}, r \in BOOLEAN}
SCFew == {SC(AB, "gt0", r) : r \in BOOLEAN}

\* (TLC evaluates every constant definition without parameters at start-up, used or not; the
\* universes therefore take a dummy parameter and only the one selected by U is built.)
\* MC universes: depth 1 / depth 2 over constant leaves (+ one context leaf and SelectContext)
MCDepth1(u) == ObjsOver(AbsLeaves \cup {Str(A1)}, 2) \cup SCFew
MCItems2(u) == AbsLeaves \cup SCFew
               \cup {NotO(x, r) : x \in AbsLeaves, r \in BOOLEAN}
               \cup {Sel(Fn("boom"), r) : r \in BOOLEAN}
               \cup RawOver({Fn("yes"), Fn("boom")}, 2)
               \cup {o \in ObjsOver({Fn("no"), Fn("boom")}, 1) : o.k \in {"And", "Or"}}
MCDepth2(u) == MCDepth1(u) \cup ObjsOver(MCItems2(u), 2)
\* a smaller depth-2 universe for the quick tier: one item per behaviour
MCItems2q(u) == AbsLeaves \cup {NotO(Fn("boom"), FALSE), NotO(Fn("boom"), TRUE), NotO(Fn("yes"), TRUE),
                                Sel(Fn("boom"), FALSE), Sel(Fn("boom"), TRUE),
                                List(<<Fn("boom")>>), Tup(<<Fn("yes"), Fn("boom")>>),
                                AndO(<<Fn("boom")>>, TRUE), OrO(<<Fn("no"), Fn("boom")>>, TRUE),
                                AndO(<<Fn("yes"), Fn("boom")>>, FALSE), SC(AB, "gt0", TRUE)}
MCDepth2q(u) == MCDepth1(u) \cup ObjsOver(MCItems2q(u), 2)
\* depth 3: the items are depth-2 objects over two constant leaves
MCItems3(u) == {Fn("boom"), Fn("yes")} \cup ObjsOver({NotO(Fn("boom"), FALSE), NotO(Fn("boom"), TRUE), Fn("yes"),
                                                      Tup(<<Fn("yes"), Fn("boom")>>)}, 1)
MCDepth3(u) == ObjsOver(MCItems3(u), 2)
\* Filter universes
FilterAsts(u) == ObjsOver({Str(A1), Fn("pos")}, 2) \cup SCFew

\* export universes (S2C): concrete leaves, all eight values per specification
ExDepth1(u) == ObjsOver(ConcLeaves, 2) \cup SCs
ExItems2(u) == {Str(A1), Cls("int"), Fn("pos"), Fn("boom")} \cup SCFew
               \cup {NotO(x, r) : x \in {Str(ABX), Fn("pos"), Fn("len")}, r \in BOOLEAN}
               \cup {Sel(x, r) : x \in {Fn("len")}, r \in BOOLEAN}
               \cup RawOver({Str(A1), Fn("pos")}, 2)
               \cup {o \in ObjsOver({Cls("str"), Fn("len")}, 1) : o.k \in {"And", "Or"}}
ExDepth2(u) == ExDepth1(u) \cup ObjsOver(ExItems2(u), 2)
ExItems2q(u) == {Str(A1), Cls("int"), Fn("pos"), Fn("boom"),
                 NotO(Str(ABX), TRUE), NotO(Fn("len"), FALSE), NotO(Fn("pos"), TRUE),
                 Sel(Fn("len"), FALSE), Sel(Fn("len"), TRUE),
                 List(<<Str(A1), Fn("pos")>>), Tup(<<Fn("pos"), Str(A1)>>),
                 AndO(<<Cls("str"), Fn("len")>>, TRUE), OrO(<<Fn("len"), Cls("str")>>, FALSE),
                 SC(AB, "gt0", TRUE), SC(AB, "gt0", FALSE)}
ExDepth2q(u) == ExDepth1(u) \cup ObjsOver(ExItems2q(u), 2)
ExItems3(u) == {Fn("pos"), Str(A1)} \cup ObjsOver({NotO(Fn("len"), FALSE), NotO(Fn("pos"), TRUE), Str(ABX),
                                                   List(<<Cls("str"), Fn("pos")>>)}, 1)
ExDepth3(u) == ObjsOver(ExItems3(u), 2)

CONSTANTS U,    \* name of the universe of top-level selector objects
          F     \* name of the universe of flows
Asts == CASE U = "mc1" -> MCDepth1(U) [] U = "mc2q" -> MCDepth2q(U) [] U = "mc2" -> MCDepth2(U) [] U = "mc3" -> MCDepth3(U)
          [] U = "filter" -> FilterAsts(U)
          [] U = "ex1" -> ExDepth1(U) [] U = "ex2q" -> ExDepth2q(U) [] U = "ex2" -> ExDepth2(U) [] U = "ex3" -> ExDepth3(U)
Flows == CASE F = "one" -> {<<V3>>, <<V2>>}
           [] F = "small" -> SeqsUpTo({V2, V3, V4, V6}, 3)
           [] F = "big" -> SeqsUpTo({V1, V2, V3, V4, V6, V8}, 4)

(***************************************************************************)
(* Operational part.  Build mirrors the constructors:                      *)
(*   [o |-> "S" | "N", roe, in]  Selector / Not holding a leaf or object   *)
(*   [o |-> "A" | "O", roe, items]   And / Or                              *)
(*   [o |-> "C", roe, p, q]      SelectContext                             *)
(*   [o |-> "L", leaf]           the lambda made for a string / class, or  *)
(*                               the user's callable                       *)
(***************************************************************************)
RECURSIVE Build(_, _), BuildObj(_)
BuildItem(x, roe) == IF IsObj(x) THEN BuildObj(x) ELSE Build(x, roe)
\* Selector(x, roe).__init__
Build(x, roe) ==
  [o |-> "S", roe |-> roe,
   in |-> CASE IsLeaf(x) -> [o |-> "L", leaf |-> x]
            [] x.k = "list" -> [o |-> "O", roe |-> roe, items |-> [i \in 1..Len(x.xs) |-> BuildItem(x.xs[i], roe)]]
            [] x.k = "tuple" -> [o |-> "A", roe |-> roe, items |-> [i \in 1..Len(x.xs) |-> BuildItem(x.xs[i], roe)]]
            [] OTHER -> BuildObj(x)]         \* an object is a callable
BuildObj(x) ==
  CASE x.k = "Sel" -> Build(x.x, x.roe)
    [] x.k = "Not" -> [Build(x.x, x.roe) EXCEPT !.o = "N"]
    [] x.k = "And" -> [o |-> "A", roe |-> x.roe, items |-> [i \in 1..Len(x.xs) |-> BuildItem(x.xs[i], x.roe)]]
    [] x.k = "Or" -> [o |-> "O", roe |-> x.roe, items |-> [i \in 1..Len(x.xs) |-> BuildItem(x.xs[i], x.roe)]]
    [] x.k = "SC" -> [o |-> "C", roe |-> x.roe, p |-> x.p, q |-> x.q]

VARIABLES ast, flow,   \* the scenario: Filter(ast).run(flow)
          pos,         \* values pulled from the flow
          out,         \* values yielded by Filter.run
          results,     \* outcome of the selector for each value tested
          status,      \* "idle" (between values) | "eval" | "done" | "raised"
          stack,       \* frames [ob, i]: __call__s in progress, innermost last
          ctl          \* [m |-> "call", ob] | [m |-> "ret", r] | [m |-> "exc"] | [m |-> "none"]
vars == <<ast, flow, pos, out, results, status, stack, ctl>>

Nil == [o |-> "nil"]
CCall(ob) == [m |-> "call", ob |-> ob, r |-> "-"]
CRet(r) == [m |-> "ret", ob |-> Nil, r |-> r]
CExc == [m |-> "exc", ob |-> Nil, r |-> "-"]
CNone == [m |-> "none", ob |-> Nil, r |-> "-"]
Frame(ob, i) == [ob |-> ob, i |-> i]
Top == stack[Len(stack)]
Pop == SubSeq(stack, 1, Len(stack) - 1)
Outcome(r) == IF r = "E" THEN CExc ELSE CRet(r)

Init == /\ ast \in Asts /\ flow \in Flows
        /\ pos = 0 /\ out = <<>> /\ results = <<>> /\ status = "idle" /\ stack = <<>> /\ ctl = CNone

Scen == UNCHANGED <<ast, flow>>
\* Filter.run: next value of the flow -> selector(value)
FilterPull == /\ status = "idle" /\ pos < Len(flow)
              /\ pos' = pos + 1 /\ status' = "eval" /\ ctl' = CCall(BuildObj(ast))
              /\ Scen /\ UNCHANGED <<out, results, stack>>
FilterEnd == /\ status = "idle" /\ pos = Len(flow)
             /\ status' = "done" /\ Scen /\ UNCHANGED <<pos, out, results, stack, ctl>>
FilterDecide == /\ status = "eval" /\ stack = <<>> /\ ctl.m \in {"ret", "exc"}
                /\ LET r == IF ctl.m = "exc" THEN "E" ELSE ctl.r IN
                   /\ results' = Append(results, r)
                   /\ out' = IF r = "T" THEN Append(out, flow[pos]) ELSE out
                   /\ status' = IF r = "E" THEN "raised" ELSE "idle"
                /\ ctl' = CNone /\ Scen /\ UNCHANGED <<pos, stack>>

Eval1 == status = "eval" /\ Scen /\ UNCHANGED <<pos, out, results, status>>
\* Selector.__call__ / Not.__call__: try: self._selector(value)
CallSelector == /\ Eval1 /\ ctl.m = "call" /\ ctl.ob.o \in {"S", "N"}
                /\ stack' = Append(stack, Frame(ctl.ob, 0)) /\ ctl' = CCall(ctl.ob.in)
\* And / Or.__call__: all / any over a generator - the first item is asked for
CallAndOr == /\ Eval1 /\ ctl.m = "call" /\ ctl.ob.o \in {"A", "O"}
             /\ IF ctl.ob.items = <<>>
                THEN ctl' = CRet(IF ctl.ob.o = "A" THEN "T" ELSE "F") /\ UNCHANGED stack
                ELSE stack' = Append(stack, Frame(ctl.ob, 1)) /\ ctl' = CCall(ctl.ob.items[1])
\* the lambda of a string / class specification or the user's callable
CallLeaf == /\ Eval1 /\ ctl.m = "call" /\ ctl.ob.o = "L"
            /\ ctl' = Outcome(LeafEval(ctl.ob.leaf, flow[pos])) /\ UNCHANGED stack
\* SelectContext.__call__ (does not go through Selector.__call__)
CallSelectContext == /\ Eval1 /\ ctl.m = "call" /\ ctl.ob.o = "C"
                     /\ LET s == GetRec(flow[pos].c, ctl.ob.p, 1) IN
                        ctl' = IF s = Absent THEN CRet("F")                        \* except LenaKeyError
                               ELSE Outcome(Catch(ctl.ob.roe, PredEval(ctl.ob.q, s)))
                     /\ UNCHANGED stack
\* a value comes back to the innermost frame
RetSelector == /\ Eval1 /\ ctl.m = "ret" /\ stack # <<>> /\ Top.ob.o \in {"S", "N"}
               /\ ctl' = CRet(IF Top.ob.o = "N" THEN Neg(ctl.r) ELSE ctl.r) /\ stack' = Pop
RetAndOr == /\ Eval1 /\ ctl.m = "ret" /\ stack # <<>> /\ Top.ob.o \in {"A", "O"}
            /\ LET stop == IF Top.ob.o = "A" THEN "F" ELSE "T" IN
               IF ctl.r = stop \/ Top.i = Len(Top.ob.items)
               THEN ctl' = CRet(ctl.r) /\ stack' = Pop                             \* short circuit / exhausted
               ELSE /\ stack' = Append(Pop, Frame(Top.ob, Top.i + 1))
                    /\ ctl' = CCall(Top.ob.items[Top.i + 1])
\* an exception unwinds: except Exception in Selector.__call__ (Not negates the False)
CatchExc == /\ Eval1 /\ ctl.m = "exc" /\ stack # <<>> /\ Top.ob.o \in {"S", "N"} /\ ~Top.ob.roe
            /\ ctl' = CRet(IF Top.ob.o = "N" THEN "T" ELSE "F") /\ stack' = Pop
Propagate == /\ Eval1 /\ ctl.m = "exc" /\ stack # <<>> /\ ~(Top.ob.o \in {"S", "N"} /\ ~Top.ob.roe)
             /\ ctl' = CExc /\ stack' = Pop

Next == FilterPull \/ FilterEnd \/ FilterDecide \/ CallSelector \/ CallAndOr \/ CallLeaf \/ CallSelectContext
        \/ RetSelector \/ RetAndOr \/ CatchExc \/ Propagate
Spec == Init /\ [][Next]_vars

(***************************************************************************)
(* Properties.                                                             *)
(***************************************************************************)
TypeOK == /\ status \in {"idle", "eval", "done", "raised"}
          /\ pos \in 0..Len(flow) /\ Len(results) <= pos
          /\ \A j \in 1..Len(results) : results[j] \in {"T", "F", "E"}
\* C15: the object built by the constructors, run by the call machine, computes the recursive definition
Compositional == \A j \in 1..Len(results) : results[j] = Eval(ast, flow[j])
\* with raise_on_error=False nothing propagates out of the selector
RoeFalseNeverRaises == ~ast.roe => status # "raised"
\* Filter keeps exactly the selected values (up to the first value on which the selector raises)
FilterKeeps == status \in {"done", "raised"} =>
                 LET e == FilterSem(ast, flow) IN out = e.out /\ (status = "raised") = e.raised
FilterOrder == \A j \in 1..Len(out) : \E i \in 1..pos : out[j] = flow[i]
\* without errors the result is two-valued logic
Classical == (status = "idle" /\ pos = 0) =>
               \A j \in 1..Len(flow) : Total(ast, flow[j]) => Eval(ast, flow[j]) = B(Holds(ast, flow[j]))
\* a full negation: Not(x, False) is never an error and Not(Not(x, r), r) = Selector(x, r) on T/F/E
NotLaws == (status = "idle" /\ pos = 0 /\ ast.k = "Not") =>
             \A j \in 1..Len(flow) :
               /\ Eval(ast, flow[j]) = Neg(Eval(Sel(ast.x, ast.roe), flow[j]))
               /\ Eval(NotO(ast, ast.roe), flow[j]) = Eval(Sel(ast.x, ast.roe), flow[j])
\* universes are inside the statement
Inside == (status = "idle" /\ pos = 0) => WellFormed(ast) /\ \A j \in 1..Len(flow) : Defined(ast, flow[j])
\* the machine's stack is bounded by the nesting of the object
StackBound == Len(stack) <= 8

(***************************************************************************)
(* Export (S2C).                                                           *)
(***************************************************************************)
\* one record per specification with the outcome on each of the eight values
XInit == /\ ast \in Asts /\ flow = AllVals
         /\ pos = 0 /\ out = <<>> /\ results = <<>> /\ status = "idle" /\ stack = <<>> /\ ctl = CNone
XSpec == XInit /\ [][FALSE]_vars
EmitVec == PrintT(ToJson([ast |-> ast, res |-> [j \in 1..Len(AllVals) |-> Eval(ast, AllVals[j])]]))
\* Filter behaviours: the machine's output
EmitFilter == status \in {"done", "raised"} =>
                PrintT(ToJson([ast |-> ast, flow |-> flow, out |-> out, raised |-> (status = "raised")]))
EmitVals(u) == PrintT(ToJson([vals |-> AllVals]))
=============================================================================
