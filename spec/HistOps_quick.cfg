SPECIFICATION Spec
CONSTANTS MaxOps = 2
  HistChoices <- HistsQuick
  Targets <- TargetsAll
  NevTargets <- NevAll
  AddWeights <- WeightsAll
  SeqOnly = FALSE
VIEW view
INVARIANT TypeOK
PROPERTY ScaleExact
PROPERTY ScaleRecomputed
PROPERTY ZeroScaleRaises
PROPERTY GetScalePure
PROPERTY NeventsSet
PROPERTY AllowZeroSkips
PROPERTY NeventsZeroRaises
PROPERTY ToGraphScalePure
PROPERTY HeldFrozen
PROPERTY AddCellwise
PROPERTY AddOnlyEqualEdges
PROPERTY AddPure
PROPERTY AddIntoFresh
INVARIANT CacheHonest
PROPERTY AddNegZero
PROPERTY AddTolDoc
PROPERTY RuleAgrees
CHECK_DEADLOCK FALSE
