SPECIFICATION SSpec
CONSTANTS MaxLen = 2 MaxN = 4 Infinite = TRUE MaxOut = 4
  Vals = "nat" Stops = FALSE MaxRuns = 1 MaxLead = 0 MaxHints = 0 Wrong = "none"
  Alphabet <- AlphaSrcT
  SrcKinds <- SizedKinds
  Must <- NoMust
  Pairs <- OnlyPairs
INVARIANT EmittedS
CONSTRAINT Bounded
CHECK_DEADLOCK FALSE
