SPECIFICATION TSpec
CONSTANTS Modes = {"veto", "require", "data", "presence"}
  Depths = {1, 2, 3}
INVARIANT TypeOK
INVARIANT LookupAgrees
INVARIANT DecisionAgrees
INVARIANT UnselUntouched
POSTCONDITION Accepted
CHECK_DEADLOCK FALSE
