----------------------------- MODULE CtxAlgebra -----------------------------
(***************************************************************************)
(* C07.  The nested-dictionary algebra of lena/context/functions.py as a   *)
(* machine: one call per behaviour, chosen in Init, executed with one      *)
(* action per loop body of the implementation:                             *)
(*                                                                         *)
(*   intersection(dicts.., level) IStart, IPrune (one per further dict),   *)
(*                                IReturn                                  *)
(*   difference(d1, d2, level)    DStart, DKey (one per key of d1, in any  *)
(*                                order), DReturn                          *)
(*   update_recursively(d, other) UStart, UKey (per key of other), UReturn *)
(*   update_nested(key, d, other) NStart, NWalk (down other.key.key...),   *)
(*                                NInsert, NAssign                         *)
(*                                                                         *)
(* The declarative side is CtxValue.tla (Contained, Inter2/InterN, Diff,   *)
(* UpdRec, NestedD written from the documentation) and the laws below:     *)
(* the intersection is the greatest lower bound for Contained, the         *)
(* difference consists exactly of the terminal items of d1 that are not in *)
(* d2, update_recursively(intersection, difference) gives d1 back for      *)
(* every level, update_recursively yields the least dictionary that        *)
(* contains other and keeps what other does not overwrite, update_nested   *)
(* keeps the old d[key] under the new one.                                 *)
(***************************************************************************)
EXTENDS CtxValue, TLC, Json

CONSTANTS K,          \* key alphabet (set of strings)
          NC,         \* number of leaf equality classes (1..3)
          Levels,     \* values of the level argument
          UPair,      \* universe of dictionaries for the two-argument calls
          UTriple,    \* universe for three-argument intersections
          Ops         \* which calls are explored

ClassName == <<"c0", "c1", "c2">>
Leaves == {Leaf(ClassName[e + 1], e) : e \in 0..(NC - 1)}
DictsOver(V, KS) == {Dict(f) : f \in UNION {[S -> V] : S \in SUBSET KS}}
V1 == DictsOver(Leaves, K)                      \* depth <= 1 (with {})
V2 == DictsOver(Leaves \cup V1, K)              \* depth <= 2
\* depth <= 2 / 3 with nesting below one distinguished key only (downward closed)
KA == CHOOSE k \in K : TRUE
Narrow(sub) == {Dict(f) : f \in UNION {[S -> Leaves \cup sub] : S \in SUBSET K}}
V2r == {d \in DictsOver(Leaves \cup V1, K) :
          \A k \in Keys(d) \ {KA} : ~IsD(d.m[k]) \/ IsEmpty(d.m[k])}
V3r == {d \in DictsOver(Leaves \cup V2r, K) :
          \A k \in Keys(d) \ {KA} : ~IsD(d.m[k]) \/ IsEmpty(d.m[k])}

KB == CHOOSE k \in K \ {KA} : TRUE
L0 == Leaf(ClassName[1], 0)
\* a few dictionaries of depth 3 (the level must be decremented twice to get them right)
D3few == {Dict([j \in {KA} |-> Dict([i \in {KA} |-> Dict([h \in {KA} |-> L0])])]),
          Dict([j \in {KA} |-> Dict([i \in {KA} |-> Dict([h \in {KA, KB} |-> IF h = KA THEN Leaf(ClassName[NC], NC - 1) ELSE L0])])]),
          Dict([j \in {KA, KB} |-> IF j = KA THEN Dict([i \in {KA} |-> Dict([h \in {KB} |-> L0])]) ELSE L0]),
          Dict([j \in {KA} |-> Dict([i \in {KA} |-> Empty])])}
V2rq == V2r \cup D3few
LevelsQuick == {-1, 0, 1, 2}
LevelsThorough == {-2, -1, 0, 1, 2, 3}        \* any negative level is unbounded
LevelsDeep == {-1, 2}
AllOps == {"inter", "diff", "updrec", "nested", "updstr"}
PairOps == {"inter", "diff", "updrec"}
InterOnly == {"inter"}
NoDicts == {}

\* update_nested with chains other.key.key... of length 0..3
RECURSIVE Chain(_, _, _)
Chain(k, n, tail) == IF n = 0 THEN tail ELSE Dict([j \in {k} |-> Chain(k, n - 1, tail)])
ChainArgs(k) ==
  {<<d, Chain(k, n, t)>> : d \in {Empty, Dict([j \in {k} |-> L0]), Dict([j \in {k} |-> Dict([i \in {KB} |-> L0])]),
                                  Dict([j \in {KA, KB} |-> IF j = k THEN Empty ELSE L0])},
                           n \in 0..3, t \in {Empty, Dict([j \in {IF k = KA THEN KB ELSE KA} |-> L0])}}
\* update_recursively(d, "k1.k2", value): the string form; key says which variant:
\*   "value" (other string + value), "novalue" (the last part of the string is the value),
\*   "novalue1" (a string without dots and no value: LenaValueError), "badvalue" (a dictionary and a value)
RECURSIVE NestP(_, _)
NestP(p, v) == IF p = <<>> THEN v ELSE Dict([j \in {Head(p)} |-> NestP(Tail(p), v)])
StrPaths == {<<KA>>, <<KA, KB>>, <<KB, KA>>, <<KA, KA, KB>>}
StrVals == Leaves \cup {Empty, Dict([j \in {KB} |-> L0])}
KeyStr(k) == Leaf(k, 50)                           \* a key used as the (string) value
StrArgs(variant) ==
  CASE variant = "value"    -> {<<d, NestP(p, v)>> : d \in UPair, p \in StrPaths, v \in StrVals}
    [] variant = "novalue"  -> {<<d, NestP(SubSeq(p, 1, Len(p) - 1), KeyStr(p[Len(p)]))>> :
                                  d \in UPair, p \in {q \in StrPaths : Len(q) >= 2}}
    [] variant = "novalue1" -> {<<d, NestP(<<k>>, Leaf("$missing", 51))>> : d \in V1, k \in K}
    [] variant = "badvalue" -> {<<d, o>> : d \in V1, o \in {Empty, Dict([j \in {KA} |-> L0])}}
Classes == {"dict", "Context", "MyDict"}           \* dict and two subclasses

VARIABLES op, lv, key,    \* the call: function, level argument, key argument
          a0,             \* arguments as passed (never changes)
          args,           \* arguments as the caller sees them now
          pc, res, i, todo, ptr,
          cls, rcls,      \* class of the argument dictionaries; class of the returned dictionary
          exc             \* exception raised ("" = none)
vars == <<op, lv, key, a0, args, pc, res, i, todo, ptr, cls, rcls, exc>>

NoKey == "-"
PairArgs == UPair \X UPair
InterArgs == {<<>>} \cup {<<d>> : d \in UPair} \cup PairArgs \cup (UTriple \X UTriple \X UTriple)

Init ==
  /\ op \in Ops
  /\ \/ op = "inter"  /\ a0 \in InterArgs /\ lv \in Levels /\ key = NoKey
     \/ op = "diff"   /\ a0 \in PairArgs  /\ lv \in Levels /\ key = NoKey
     \/ op = "updrec" /\ a0 \in PairArgs  /\ lv = -1 /\ key = NoKey
     \/ op = "nested" /\ key \in K /\ lv = -1
                      /\ a0 \in {p \in PairArgs \cup ChainArgs(key) : ChainOk(p[2], key)}
     \/ op = "updstr" /\ key \in {"value", "novalue", "novalue1", "badvalue"} /\ lv = -1
                      /\ a0 \in StrArgs(key)
  /\ args = a0 /\ pc = "start" /\ res = Empty /\ i = 0 /\ todo = {} /\ ptr = <<>>
  \* intersection "returns a dictionary or its subtype (copied from dicts[0])"
  /\ cls \in IF op = "inter" /\ Len(a0) \in {1, 2} /\ (\A j \in DOMAIN a0 : a0[j] \in V1) THEN Classes ELSE {"dict"}
  /\ rcls = "dict" /\ exc = ""

Done == pc = "done"
Finish(r) == res' = r /\ pc' = "done"

(***************************************************************************)
(* intersection: res = deep copy of dicts[0]; for d in dicts[1:]: prune    *)
(* res against d; return early when res became empty.                      *)
(***************************************************************************)
ToDelete(r, d, l) == {k \in Keys(r) : \/ k \notin Keys(d)
                                      \/ /\ ~Eq(d.m[k], r.m[k])
                                         /\ (l = 1 \/ ~BothD(r.m[k], d.m[k]))}
Pruned(r, d, l) ==
  IF l = 0 THEN (IF Eq(d, r) /\ ~IsEmpty(d) THEN r ELSE Empty)
  ELSE Dict([k \in Keys(r) \ ToDelete(r, d, l) |->
               IF Eq(d.m[k], r.m[k]) THEN r.m[k]
               ELSE InterN(<<r.m[k], d.m[k]>>, l - 1)])
IStart == /\ pc = "start" /\ op = "inter"
          /\ IF Len(args) = 0 THEN Finish(Empty) /\ i' = i /\ rcls' = "dict"
             ELSE res' = args[1] /\ i' = 2 /\ pc' = "iloop" /\ rcls' = cls      \* deep copy of dicts[0]
          /\ UNCHANGED <<cls, exc, op, lv, key, a0, args, todo, ptr>>
IPrune == /\ pc = "iloop" /\ i <= Len(args)
          /\ LET r == Pruned(res, args[i], lv) IN
               /\ res' = r
               /\ IF IsEmpty(r) THEN pc' = "done" /\ i' = i
                  ELSE pc' = pc /\ i' = i + 1
          /\ UNCHANGED <<cls, rcls, exc, op, lv, key, a0, args, todo, ptr>>
IReturn == /\ pc = "iloop" /\ i > Len(args) /\ pc' = "done"
           /\ UNCHANGED <<cls, rcls, exc, op, lv, key, a0, args, res, i, todo, ptr>>

(***************************************************************************)
(* difference: equal -> {}; level 0 -> d1; else one decision per key of d1 *)
(***************************************************************************)
DStart == /\ pc = "start" /\ op = "diff"
          /\ IF Eq(args[1], args[2]) THEN Finish(Empty) /\ todo' = todo
             ELSE IF lv = 0 THEN Finish(args[1]) /\ todo' = todo
             ELSE res' = Empty /\ todo' = Keys(args[1]) /\ pc' = "dloop"
          /\ UNCHANGED <<cls, rcls, exc, op, lv, key, a0, args, i, ptr>>
DKey(k) ==
  /\ pc = "dloop" /\ k \in todo
  /\ LET d1 == args[1]  d2 == args[2] IN
       IF k \notin Keys(d2) THEN res' = With(res, k, d1.m[k])
       ELSE IF Eq(d1.m[k], d2.m[k]) THEN res' = res
       ELSE IF lv = 1 \/ ~BothD(d1.m[k], d2.m[k]) THEN res' = With(res, k, d1.m[k])
       ELSE LET sub == Diff(d1.m[k], d2.m[k], lv - 1) IN
              res' = IF IsEmpty(sub) THEN res ELSE With(res, k, sub)
  /\ todo' = todo \ {k}
  /\ UNCHANGED <<cls, rcls, exc, op, lv, key, a0, args, pc, i, ptr>>
DReturn == /\ pc = "dloop" /\ todo = {} /\ pc' = "done"
           /\ UNCHANGED <<cls, rcls, exc, op, lv, key, a0, args, res, i, todo, ptr>>

(***************************************************************************)
(* update_recursively(d, other): d = args[1] is modified in place          *)
(***************************************************************************)
UStart == /\ pc = "start" /\ op = "updrec"
          /\ todo' = Keys(args[2]) /\ pc' = "uloop"
          /\ UNCHANGED <<cls, rcls, exc, op, lv, key, a0, args, res, i, ptr>>
\* the string form: other = str_to_dict(other, value) first (a0[2] is what that gives)
UStrConv == /\ pc = "start" /\ op = "updstr"
            /\ IF key \in {"novalue1", "badvalue"}
                 THEN exc' = "LenaValueError" /\ pc' = "done" /\ todo' = todo
               ELSE exc' = exc /\ todo' = Keys(args[2]) /\ pc' = "uloop"
            /\ UNCHANGED <<cls, rcls, op, lv, key, a0, args, res, i, ptr>>
UKey(k) ==
  /\ pc = "uloop" /\ k \in todo
  /\ LET d == args[1]  val == args[2].m[k]
         new == IF ~IsD(val) THEN val
                ELSE IF k \in Keys(d)
                  THEN UpdRec(IF IsD(d.m[k]) THEN d.m[k] ELSE Empty, val)
                ELSE val
     IN args' = [args EXCEPT ![1] = With(d, k, new)]
  /\ todo' = todo \ {k}
  /\ UNCHANGED <<cls, rcls, exc, op, lv, key, a0, pc, res, i, ptr>>
UReturn == /\ pc = "uloop" /\ todo = {} /\ pc' = "done"
           /\ UNCHANGED <<cls, rcls, exc, op, lv, key, a0, args, res, i, todo, ptr>>

(***************************************************************************)
(* update_nested(key, d, other): d = args[1], other = args[2]              *)
(***************************************************************************)
NStart == /\ pc = "start" /\ op = "nested"
          /\ pc' = IF key \in Keys(args[1]) THEN "nwalk" ELSE "nassign"
          /\ UNCHANGED <<cls, rcls, exc, op, lv, key, a0, args, res, i, todo, ptr>>
NWalk == /\ pc = "nwalk" /\ key \in Keys(Get(args[2], ptr))
         /\ ptr' = Append(ptr, key)
         /\ UNCHANGED <<cls, rcls, exc, op, lv, key, a0, args, pc, res, i, todo>>
NInsert == /\ pc = "nwalk" /\ key \notin Keys(Get(args[2], ptr))
           /\ args' = [args EXCEPT ![2] = Put(args[2], Append(ptr, key), args[1].m[key])]
           /\ pc' = "nassign"
           /\ UNCHANGED <<cls, rcls, exc, op, lv, key, a0, res, i, todo, ptr>>
NAssign == /\ pc = "nassign"
           /\ args' = [args EXCEPT ![1] = With(args[1], key, args[2])]
           /\ pc' = "done"
           /\ UNCHANGED <<cls, rcls, exc, op, lv, key, a0, res, i, todo, ptr>>

Next == \/ IStart \/ IPrune \/ IReturn
        \/ DStart \/ (\E k \in K : DKey(k)) \/ DReturn
        \/ UStart \/ UStrConv \/ (\E k \in K : UKey(k)) \/ UReturn
        \/ NStart \/ NWalk \/ NInsert \/ NAssign
Spec == Init /\ [][Next]_vars

(***************************************************************************)
(* Operational result = reference operators of CtxValue                    *)
(***************************************************************************)
InterIsRef  == Done /\ op = "inter"  => Eq(res, InterN(a0, lv))
DiffIsRef   == Done /\ op = "diff"   => Eq(res, Diff(a0[1], a0[2], lv))
UpdRecIsRef == /\ Done /\ op \in {"updrec", "updstr"} /\ exc = "" => Eq(args[1], UpdRec(a0[1], a0[2]))
               /\ Done /\ exc # "" => args = a0 /\ op = "updstr" /\ exc = "LenaValueError"
\* "returns a dictionary or its subtype (copied from dicts[0])"
\* (an empty result may also be a new plain dictionary)
InterKeepsClass == Done /\ op = "inter" /\ ~IsEmpty(res) => rcls = cls
NestedIsRef == Done /\ op = "nested" => /\ Eq(args[1], NestedD(key, a0[1], a0[2]))
                                        /\ Eq(args[2], NestedOther(key, a0[1], a0[2]))

(***************************************************************************)
(* Laws of the statement (on the reference operators; evaluated once per   *)
(* call, in its initial state).                                            *)
(***************************************************************************)
Start == pc = "done"   \* laws are evaluated once per call, in its final state (by the parallel workers)
ForAll(ds, P(_)) == \A j \in 1..Len(ds) : P(ds[j])
Unbounded(l) == l < 0 \/ l >= 3
\* greatest lower bound: contained in every argument, and above every common sub-dictionary
InterGlb ==
  Start /\ op = "inter" /\ Len(a0) > 0 /\ Unbounded(lv) =>
    LET r == InterN(a0, lv) IN
      /\ \A j \in 1..Len(a0) : Contained(r, a0[j])
      \* every lower bound is a sub-dictionary of the first argument
      /\ \A c \in Subs(a0[1]) : (\A j \in 1..Len(a0) : Contained(c, a0[j])) => Contained(c, r)
\* the same with the lower bounds taken from the whole universe
InterGlbU ==
  Start /\ op = "inter" /\ Len(a0) > 0 /\ Unbounded(lv) =>
    \A c \in UPair : (\A j \in 1..Len(a0) : Contained(c, a0[j])) => Contained(c, InterN(a0, lv))
\* level 0: all equal or {}; level 1: exactly the keys with equal values everywhere
InterLevels ==
  Start /\ op = "inter" /\ Len(a0) > 0 =>
    LET allEq == \A j \in 1..Len(a0) : Eq(a0[j], a0[1]) IN
      /\ lv = 0 => Eq(InterN(a0, 0), IF allEq THEN a0[1] ELSE Empty)
      /\ lv = 1 => Eq(InterN(a0, 1),
                     Dict([k \in {k \in Keys(a0[1]) :
                                    \A j \in 1..Len(a0) : k \in Keys(a0[j]) /\ Eq(a0[j].m[k], a0[1].m[k])}
                           |-> a0[1].m[k]]))
      \* a deeper level can only find more
      /\ lv >= 0 => Contained(InterN(a0, lv), InterN(a0, lv + 1))
      /\ Contained(InterN(a0, lv), InterN(a0, -1))
InterAlgebra ==
  Start /\ op = "inter" =>
    /\ Len(a0) = 0 => IsEmpty(InterN(a0, lv))
    /\ Len(a0) = 1 => Eq(InterN(a0, lv), a0[1])                              \* intersection(d) = d
    /\ Len(a0) >= 1 => Eq(InterN(<<a0[1], a0[1]>>, lv), a0[1])               \* idempotent
    /\ Len(a0) = 2 => Eq(InterN(a0, lv), InterN(<<a0[2], a0[1]>>, lv))       \* commutative
    /\ Len(a0) = 3 =>
         LET a == a0[1]  b == a0[2]  c == a0[3]  r == InterN(a0, lv) IN
           /\ Eq(r, InterN(<<b, a, c>>, lv)) /\ Eq(r, InterN(<<c, b, a>>, lv))
           /\ Eq(r, InterN(<<a, c, b>>, lv))
           /\ Eq(r, InterN(<<InterN(<<a, b>>, lv), c>>, lv))                 \* associative
           /\ Eq(r, InterN(<<a, InterN(<<b, c>>, lv)>>, lv))

Items(d) == IF IsEmpty(d) THEN {} ELSE Terminals(d)
DiffLaws ==
  Start /\ op = "diff" =>
    LET a == a0[1]  b == a0[2]  df == Diff(a, b, lv)  it == InterN(a0, lv) IN
      /\ Contained(df, a)                                   \* items of d1
      /\ Eq(a, b) => IsEmpty(df)                            \* in particular difference(d, d) = {}
      /\ Eq(UpdRec(it, df), a)                              \* reconstruction, every level
      /\ Unbounded(lv) =>
           /\ IsEmpty(df) <=> Contained(a, b)
           \* exactly the terminal items of d1 that are not in d2 (falsy leaves and {} included)
           /\ \A p \in Items(a) : ~ItemIn(b, p, Get(a, p)) => ItemIn(df, p, Get(a, p))
           /\ \A p \in Items(df) : ItemIn(a, p, Get(df, p)) /\ ~ItemIn(b, p, Get(df, p))
      /\ lv = 1 => Eq(df, Dict([k \in {k \in Keys(a) : k \notin Keys(b) \/ ~Eq(a.m[k], b.m[k])}
                                |-> a.m[k]]))
      /\ lv = 0 => Eq(df, IF Eq(a, b) THEN Empty ELSE a)

\* r keeps every item of d that o does not overwrite
RECURSIVE Keeps(_, _, _)
Keeps(d, o, r) ==
  \A k \in Keys(d) :
     IF k \notin Keys(o) THEN k \in Keys(r) /\ Eq(r.m[k], d.m[k])
     ELSE BothD(d.m[k], o.m[k]) => k \in Keys(r) /\ IsD(r.m[k]) /\ Keeps(d.m[k], o.m[k], r.m[k])
UpdRecLaws ==
  Start /\ op = "updrec" =>
    LET d == a0[1]  o == a0[2]  r == UpdRec(d, o) IN
      /\ Contained(o, r)
      /\ Keeps(d, o, r)
      \* and nothing else: no smaller dictionary does
      /\ \A c \in Subs(r) : Contained(o, c) /\ Keeps(d, o, c) => Contained(r, c)
      /\ Eq(UpdRec(r, o), r)
      /\ Eq(UpdRec(d, Empty), d) /\ Eq(UpdRec(Empty, o), o)
\* least among all dictionaries of the universe
UpdRecLeastU ==
  Start /\ op = "updrec" =>
    LET d == a0[1]  o == a0[2]  r == UpdRec(d, o) IN
      \A c \in UPair : Contained(o, c) /\ Keeps(d, o, c) => Contained(r, c)
NestedLaws ==
  Start /\ op = "nested" =>
    LET d == a0[1]  o == a0[2]  n == ChainLen(o, key)
        d2 == NestedD(key, d, o)  o2 == NestedOther(key, d, o) IN
      /\ key \in Keys(d2) /\ Eq(d2.m[key], o2)                \* d[key] is (the updated) other
      /\ \A k \in Keys(d) \ {key} : k \in Keys(d2) /\ Eq(d2.m[k], d.m[k])
      /\ Keys(d2) = Keys(d) \cup {key}
      /\ Contained(o, o2)                                     \* nothing of other is lost
      /\ IF key \in Keys(d)
           THEN \* the previous d[key] is reachable under the new one, below other's own chain
                /\ Has(d2, Repeat(key, n + 2)) /\ Eq(Get(d2, Repeat(key, n + 2)), d.m[key])
                /\ Eq(Del(o2, Repeat(key, n + 1)), o)
           ELSE Eq(o2, o)

\* arguments documented as unchanged stay unchanged in every step
ArgsUnchanged == [][/\ op \in {"inter", "diff"} => args' = args
                    /\ op = "updrec" => args'[2] = args[2]]_vars

(***************************************************************************)
(* Export of every call with its expected outcome (S2C).                   *)
(***************************************************************************)
Emit == Done => PrintT(ToJson(
   [op |-> op, lv |-> lv, key |-> key, args |-> a0, res |-> res, cls |-> cls, rcls |-> rcls, exc |-> exc,
    post |-> IF op \in {"updrec", "nested", "updstr"} THEN args ELSE <<>>,   \* else = args (ArgsUnchanged)
    inter |-> IF op = "diff" THEN InterN(a0, lv) ELSE Empty]))
=============================================================================
