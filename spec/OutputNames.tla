---------------------------- MODULE OutputNames ----------------------------
(***************************************************************************)
(* C19, the ALPHABET of file, directory and extension names.               *)
(*                                                                         *)
(* Output.tla treats the files of a plot as atoms (csv, tex, pdf, png of   *)
(* plot p).  The statement however says WHERE they are: "every file named  *)
(* by a yielded value exists at output_directory/dirname/filename.fileext" *)
(* - and the elements of the chain compute these places by string          *)
(* manipulation of the path they were given (LaTeXToPDF: "only the         *)
(* extension is replaced", PDFToPNG: "only the extension is removed").      *)
(* Here names are sequences of characters, the elements are the string      *)
(* operations, and the names are adversarial but legitimate: they end in,   *)
(* consist of or contain the letters of the extensions (std, diff, pdf,     *)
(* tex, x.tex, a.pdf.b, p, ".", ...), directories and the output directory  *)
(* contain ".tex" / ".pdf", and the second plot of a scenario is a TWIN of  *)
(* the first: the two names differ only in such a tail.                     *)
(*                                                                         *)
(* Reference (declarative): Stated(p, kind).                               *)
(* Operational: Name (MakeFilename: dirname from the context, through a     *)
(* template, or overwriting a stale one), WriteCSV, RenderWrite, LaTeX,     *)
(* ToPNG, with StripMode = "suffix" (the documented behaviour).  The other  *)
(* modes are sensitivity guards - TLC must refute Where / Distinct there:   *)
(*   "charset"  the extension is stripped as a character set (rstrip)       *)
(*   "replace"  every occurrence of ".tex" / ".pdf" in the path is replaced *)
(*   "firstdot" the name is cut at its first dot                            *)
(* A character "U" stands for a non-ASCII letter (rendered by the harness). *)
(***************************************************************************)
EXTENDS Integers, Sequences, FiniteSets, TLC, Json

CONSTANTS StripMode,   \* "suffix" | "charset" | "replace" | "firstdot"
          TailLen,     \* generic tails: every character sequence of length 1..TailLen over TailChars
          Rotate       \* TRUE: cover for the export (root, format, extension and via rotate with the scenario)

TEX == <<"t", "e", "x">>
PDF == <<"p", "d", "f">>
PNG == <<"p", "n", "g">>
JPEG == <<"j", "p", "e", "g">>
CSV == <<"c", "s", "v">>
DAT == <<"d", "a", "t">>
DOT == <<".">>
SEP == <<"/">>
STALE == <<"s", "t", "a", "l", "e", ".", "p", "d", "f">>

TailChars == <<".", "p", "d", "f", "t", "e", "x", "n", "g", "c", "s", "v", "U">>
NC == Len(TailChars)
\* names that consist of / end in the letters of the extensions
Specials == << <<"s", "t", "d">>, <<"d", "i", "f", "f">>, <<"e", "f", "f">>, PDF, TEX, PNG, CSV, <<"p">>, <<"d">>, <<"f">>,
               <<".">>, <<".", ".">>, <<"x", ".", "t", "e", "x">>, <<"a", ".", "p", "d", "f", ".", "b">>,
               <<"a", ".", "t", "e", "x", ".", "p", "d", "f">>, <<".", "p", "d", "f">>, <<"p", "d", "f", ".", "p", "d", "f">>,
               <<"p", "d", "f", "p", "d", "f">>, <<"U", "p", "d", "f">>, <<"j", "p", "e", "g">> >>
Singles == [i \in 1..NC |-> <<"x", TailChars[i]>>]
Doubles == [i \in 1..(NC * NC) |-> <<"x", TailChars[((i - 1) \div NC) + 1], TailChars[((i - 1) % NC) + 1]>>]
\* the name of the second plot of every scenario
Names2 == Specials \o Singles \o (IF TailLen >= 2 THEN Doubles ELSE <<>>)
\* its twin: the same name without its last character (or with one more in front when there is only one)
Twin(n) == IF Len(n) >= 2 THEN SubSeq(n, 1, Len(n) - 1) ELSE <<"x">> \o n

Roots == << <<"o", "u", "t">>, <<"o", ".", "t", "e", "x", ".", "d">>, <<"o", ".", "p", "d", "f">> >>
Dirs == << <<>>, <<"a", ".", "t", "e", "x">>, <<"r", ".", "p", "d", "f", ".", "d">>, PDF >>
Fmts == <<PNG, JPEG>>
CExts == <<CSV, DAT>>
Vias == <<"ctx", "mf", "mfow">>
Plots == {1, 2}
Kinds == <<"csv", "tex", "pdf", "png">>

(***************************************************************************)
(* strings                                                                 *)
(***************************************************************************)
EndsWith(s, t) == Len(t) <= Len(s) /\ SubSeq(s, Len(s) - Len(t) + 1, Len(s)) = t
DropLast(s, n) == SubSeq(s, 1, Len(s) - n)
Range(s) == {s[i] : i \in 1..Len(s)}
RECURSIVE RStrip(_, _)
RStrip(s, set) == IF s # <<>> /\ s[Len(s)] \in set THEN RStrip(DropLast(s, 1), set) ELSE s
RECURSIVE ReplaceAll(_, _, _)
ReplaceAll(s, old, new) ==
  IF Len(s) < Len(old) THEN s
  ELSE IF SubSeq(s, 1, Len(old)) = old THEN new \o ReplaceAll(SubSeq(s, Len(old) + 1, Len(s)), old, new)
  ELSE <<s[1]>> \o ReplaceAll(Tail(s), old, new)
\* position of the last separator (0: none)
LastSep(s) == LET I == {i \in 1..Len(s) : s[i] = "/"} IN IF I = {} THEN 0 ELSE CHOOSE i \in I : \A k \in I : k <= i
\* the path cut at the first dot of its last component
CutFirstDot(s) == LET b == LastSep(s)  I == {i \in (b + 1)..Len(s) : s[i] = "."}
                  IN IF I = {} THEN s ELSE SubSeq(s, 1, (CHOOSE i \in I : \A k \in I : i <= k) - 1)
WithExt(name, ext) == IF ext = <<>> THEN name ELSE name \o DOT \o ext
Join(a, b) == IF a = <<>> THEN b ELSE a \o SEP \o b

\* "only the extension is removed": what is left of a path that ends in "." \o ext
Strip(path, ext) ==
  CASE StripMode = "suffix"   -> IF EndsWith(path, DOT \o ext) THEN DropLast(path, Len(ext) + 1) ELSE path
    [] StripMode = "charset"  -> RStrip(path, Range(DOT \o ext))
    [] StripMode = "replace"  -> ReplaceAll(path, DOT \o ext, <<>>)
    [] StripMode = "firstdot" -> CutFirstDot(path)

(***************************************************************************)
(* scenarios and state                                                     *)
(***************************************************************************)
VARIABLES sn,      \* [k, root, dir, via, fmt, cext, names]
          stage,   \* "start", "named", "csv", "tex", "pdf", "png"
          dn,      \* context.output.dirname of each plot's value
          data,    \* the data part of each plot's value: the path yielded by the last element
          made     \* made[p][kind]: where the file was written (<<>>: not yet)
vars == <<sn, stage, dn, data, made>>

Pick(seq, i) == seq[(i % Len(seq)) + 1]
Scenario(k, r, d, v, f, c) == [k |-> k, root |-> Roots[r], dir |-> Dirs[d], via |-> Vias[v], fmt |-> Fmts[f],
                               cext |-> CExts[c], names |-> <<Twin(Names2[k]), Names2[k]>>]
Scenarios == IF Rotate
             THEN {Scenario(k, ((k + d) % Len(Roots)) + 1, d, ((k + d) % Len(Vias)) + 1, ((k + d \div 2) % Len(Fmts)) + 1,
                            ((k \div 3 + d) % Len(CExts)) + 1) : k \in 1..Len(Names2), d \in 1..Len(Dirs)}
             ELSE {Scenario(k, r, d, v, f, c) : k \in 1..Len(Names2), r \in 1..Len(Roots), d \in 1..Len(Dirs),
                                                v \in 1..Len(Vias), f \in 1..Len(Fmts), c \in 1..Len(CExts)}

None == [p \in Plots |-> <<>>]
Init == /\ sn \in Scenarios /\ stage = "start"
        \* the directory name the value comes with (via "ctx": the right one; "mfow": a stale one; "mf": none)
        /\ dn = [p \in Plots |-> CASE sn.via = "ctx" -> sn.dir [] sn.via = "mfow" -> STALE [] OTHER -> <<>>]
        /\ data = None /\ made = [p \in Plots |-> [k \in {"csv", "tex", "pdf", "png"} |-> <<>>]]

\* MakeFilename(dirname="{{dir}}", overwrite = (via = "mfow")): sets the directory name from the context unless the
\* value has one already and overwrite is not set
Name == /\ stage = "start" /\ stage' = "named"
        /\ dn' = [p \in Plots |-> IF sn.via = "mfow" \/ (sn.via = "mf" /\ dn[p] = <<>>) THEN sn.dir ELSE dn[p]]
        /\ UNCHANGED <<sn, data, made>>
\* Write: output_directory/dirname/filename.fileext
WritePath(p, ext) == Join(sn.root, Join(dn[p], WithExt(sn.names[p], ext)))
WriteCSV == /\ stage = "named" /\ stage' = "csv"
            /\ data' = [p \in Plots |-> WritePath(p, sn.cext)]
            /\ made' = [p \in Plots |-> [made[p] EXCEPT !.csv = data'[p]]]
            /\ UNCHANGED <<sn, dn>>
\* RenderLaTeX sets the extension "tex", the second Write writes there
RenderWrite == /\ stage = "csv" /\ stage' = "tex"
               /\ data' = [p \in Plots |-> WritePath(p, TEX)]
               /\ made' = [p \in Plots |-> [made[p] EXCEPT !.tex = data'[p]]]
               /\ UNCHANGED <<sn, dn>>
\* LaTeXToPDF: "only the extension is replaced"
LaTeX == /\ stage = "tex" /\ stage' = "pdf"
         /\ data' = [p \in Plots |-> Strip(data[p], TEX) \o DOT \o PDF]
         /\ made' = [p \in Plots |-> [made[p] EXCEPT !.pdf = data'[p]]]
         /\ UNCHANGED <<sn, dn>>
\* PDFToPNG: "only the extension is removed", the format is appended
ToPNG == /\ stage = "pdf" /\ stage' = "png"
         /\ data' = [p \in Plots |-> Strip(data[p], PDF) \o DOT \o sn.fmt]
         /\ made' = [p \in Plots |-> [made[p] EXCEPT !.png = data'[p]]]
         /\ UNCHANGED <<sn, dn>>
Next == Name \/ WriteCSV \/ RenderWrite \/ LaTeX \/ ToPNG
Spec == Init /\ [][Next]_vars

(***************************************************************************)
(* the statement                                                           *)
(***************************************************************************)
Ext(kind) == CASE kind = "csv" -> sn.cext [] kind = "tex" -> TEX [] kind = "pdf" -> PDF [] kind = "png" -> sn.fmt
\* output_directory / dirname / filename . fileext
Stated(p, kind) == Join(sn.root, Join(sn.dir, WithExt(sn.names[p], Ext(kind))))
KindSet == {"csv", "tex", "pdf", "png"}
\* MakeFilename gave (or kept) the directory name of the scenario
Named == stage # "start" => \A p \in Plots : dn[p] = sn.dir
\* every file is where the statement says, and the yielded value names it
Where == \A p \in Plots : \A k \in KindSet : made[p][k] # <<>> => made[p][k] = Stated(p, k)
YieldedNamesLast == stage \in KindSet => \A p \in Plots : data[p] = made[p][stage]
\* distinct plots (and distinct kinds) have distinct files
Distinct == \A p, q \in Plots : \A k, l \in KindSet :
              (<<p, k>> # <<q, l>> /\ made[p][k] # <<>> /\ made[q][l] # <<>>) => made[p][k] # made[q][l]
\* (the scenarios are legitimate: what the statement names does not collide)
StatedDistinct == \A p, q \in Plots : \A k, l \in KindSet : <<p, k>> # <<q, l>> => Stated(p, k) # Stated(q, l)
ScenarioOK == /\ sn.names[1] # sn.names[2] /\ \A p \in Plots : sn.names[p] # <<>> /\ "/" \notin Range(sn.names[p])

\* class of a plot's name (part of the violation key): what is adversarial about it
HasSub(s, t) == \E i \in 1..(Len(s) - Len(t) + 1) : SubSeq(s, i, i + Len(t) - 1) = t
ExtLetters == Range(DOT \o TEX \o PDF)
Class(n) ==
         IF n[Len(n)] \in Range(DOT \o PDF) THEN "ends-in-pdf-letter"
         ELSE IF n[Len(n)] \in ExtLetters THEN "ends-in-tex-letter"
         ELSE IF HasSub(n, DOT \o TEX) \/ HasSub(n, DOT \o PDF) THEN "contains-ext"
         ELSE IF \E i \in 1..Len(n) : n[i] = "." THEN "dotted"
         ELSE "plain"
Emitted == stage = "png" =>
  PrintT(ToJson([k |-> sn.k, root |-> sn.root, dir |-> sn.dir, via |-> sn.via, fmt |-> sn.fmt, cext |-> sn.cext,
                 names |-> sn.names, class |-> [p \in Plots |-> Class(sn.names[p])], stale |-> STALE,
                 stated |-> [p \in Plots |-> [kd \in KindSet |-> Stated(p, kd)]]]))
=============================================================================
