SPECIFICATION Spec
CONSTANTS MaxLen = 6 Classes <- AllClasses CopyOnCompute = "each"
INVARIANT Fresh
INVARIANT NotTheStored
INVARIANT ResultsStable
INVARIANT SourceIntact
INVARIANT YieldsLast
INVARIANT ConfigIntact
PROPERTY MutateIsLocal
CHECK_DEADLOCK FALSE
