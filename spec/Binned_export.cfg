SPECIFICATION Spec
CONSTANTS MaxRuns = 2
  DataSets <- DataExport
  BranchLists <- BrExport
  BufSizes = {0, 1, 2}
  EdgesX <- EX1
  EdgesY <- EY1
  EdgesH <- EH1
  WriteAlways = FALSE
  ClosedLast = FALSE
INVARIANT PerCell
INVARIANT FilesRef
INVARIANT NoRedo
INVARIANT RedoRef
INVARIANT RunIsSem
INVARIANT Emitted
CHECK_DEADLOCK FALSE
