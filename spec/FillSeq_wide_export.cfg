SPECIFICATION Spec
CONSTANTS MaxPre = 1 MaxN = 6
  PreAlphabet <- AlphaFull
  Accs <- AccsAll
  Posts <- PostsMid
  Pairs = {TRUE, FALSE}
  Drivers = {"fill"}
  Bufs <- BufOne
INVARIANT DriversAgree
INVARIANT FillReaches
INVARIANT StopSound
INVARIANT ComputeOnce
INVARIANT Emitted
CHECK_DEADLOCK FALSE
