SPECIFICATION Spec
CONSTANTS MaxBr = 2 MaxN = 1 CopyMode = "none"
  BufSizes <- BufAll
  Kinds <- QuickKinds
  Templates <- FewTemplates
INVARIANT Isolated
CHECK_DEADLOCK FALSE
