------------------------------- MODULE SplitCT -------------------------------
(***************************************************************************)
(* Common-type methods of Split (lena/core/split.py: _fill, _compute,      *)
(* _request, __call__) and lena/flow/zip.py Zip (_fill, _compute,          *)
(* _request, _reset, _yield, fields).                                      *)
(*                                                                         *)
(* All branches have one kind:                                             *)
(*   "fc"  branch b collects values; compute yields ms[b] results          *)
(*         Tag(b,"c",<<i>> \o filled)                                      *)
(*   "fr"  request yields ms[b] results Tag(b,"r",<<i>> \o filled since    *)
(*         the previous request)                                           *)
(*   "src" call yields Tag(b,"s",<<1>>), .., Tag(b,"s",<<ms[b]>>)          *)
(* and are handed over in one form (SplitSem.tla): bare elements, one-     *)
(* element tuples or explicit FillComputeSeq / FillRequestSeq objects.     *)
(* prerun: Split.run has been used on the object before (the harness       *)
(* resets the elements): run works on per-run copies and leaves the        *)
(* object as it was.                                                       *)
(* The machine fills branch by branch (one action per seq.fill), like the  *)
(* loops in the code; the properties compare with the documented meaning.  *)
(* The methods may be called in any order the type allows: fill after      *)
(* compute continues to collect (compute does not reset), request and      *)
(* Zip.reset start a new collection.                                       *)
(***************************************************************************)
EXTENDS SplitSem

CONSTANTS MaxBr, MaxN, MaxM

VARIABLES kind, nb, ms,      \* scenario: common kind, number of branches, results per branch
          zip,               \* TRUE: the branches are wrapped in Zip, FALSE: in Split
          form,              \* how the branches are given: "el" | "tup" | "obj"
          zipf,              \* Zip(fields=..): "none" | "list" | "str"  (results are namedtuples)
          prerun,            \* TRUE: the Split has been run over a flow before its methods are used
          k,                 \* next value to fill
          cur,               \* branch being filled with value k (0: between fills)
          col,               \* per branch: values collected (since last request / reset for fr)
          hist,              \* operations so far: <<"f", v>> | <<"c">> | <<"r">> | <<"x">> (reset) | <<"call">>
          outs               \* results of each compute / request / call
scn == <<kind, nb, ms, zip, form, zipf, prerun>>
vars == <<kind, nb, ms, zip, form, zipf, prerun, k, cur, col, hist, outs>>

Init == /\ kind \in {"fc", "fr", "src"} /\ nb \in 1..MaxBr
        /\ ms \in [1..nb -> 0..MaxM] /\ zip \in BOOLEAN
        /\ form \in {"el", "tup", "obj", "sub"} /\ zipf \in {"none", "list", "str"} /\ prerun \in BOOLEAN
        /\ (kind = "src" => ~zip /\ form \in {"el", "sub"})        \* "sub": instances of a subclass of Source
        /\ (kind # "src" => form # "sub")
        /\ (form # "el" => nb <= 2 /\ zipf = "none")
        /\ (prerun => ~zip /\ kind # "src" /\ form = "el" /\ nb <= 2)
        /\ (zipf # "none" => zip /\ nb <= 2)
        /\ k = 0 /\ cur = 0 /\ col = [b \in 1..nb |-> <<>>] /\ hist = <<>> /\ outs = <<>>

Results(b, tag, filled) == [i \in 1..ms[b] |-> Tag(b, tag, <<i>> \o filled)]
RECURSIVE ConcatRes(_, _, _)
ConcatRes(b, tag, c) == IF b > nb THEN <<>> ELSE Results(b, tag, c[b]) \o ConcatRes(b + 1, tag, c)
MinM == CHOOSE m \in {ms[b] : b \in 1..nb} : \A b \in 1..nb : m <= ms[b]
ZipRes(tag, c) == [i \in 1..MinM |-> [b \in 1..nb |-> Tag(b, tag, <<i>> \o c[b])]]

\* compute() and __call__() may be repeated on the same object (twice here): same meaning each time
NOps(S) == Cardinality({j \in 1..Len(hist) : hist[j][1] \in S})
NTerm == NOps({"c", "call"})
Terminated == NTerm >= 2
StartFill == /\ kind # "src" /\ cur = 0 /\ k < MaxN /\ ~Terminated
             /\ cur' = 1 /\ UNCHANGED <<scn, k, col, hist, outs>>
FillOne == /\ cur \in 1..nb /\ col' = [col EXCEPT ![cur] = Append(@, k)]
           /\ IF cur = nb THEN cur' = 0 /\ k' = k + 1 /\ hist' = Append(hist, <<"f", k>>)
              ELSE cur' = cur + 1 /\ UNCHANGED <<k, hist>>
           /\ UNCHANGED <<scn, outs>>
Compute == /\ kind = "fc" /\ cur = 0 /\ ~Terminated
           /\ outs' = Append(outs, IF zip THEN [z |-> ZipRes("c", col)] ELSE [s |-> ConcatRes(1, "c", col)])
           /\ hist' = Append(hist, <<"c">>) /\ UNCHANGED <<scn, k, cur, col>>
Request == /\ kind = "fr" /\ cur = 0 /\ Len(outs) < 3
           /\ outs' = Append(outs, IF zip THEN [z |-> ZipRes("r", col)] ELSE [s |-> ConcatRes(1, "r", col)])
           /\ col' = [b \in 1..nb |-> <<>>]
           /\ hist' = Append(hist, <<"r">>) /\ UNCHANGED <<scn, k, cur>>
\* Zip of fill/request branches offers reset(): every branch is reset
ResetZ == /\ kind = "fr" /\ zip /\ cur = 0 /\ NOps({"x"}) = 0 /\ k > 0 /\ Len(outs) < 3
          /\ col' = [b \in 1..nb |-> <<>>]
          /\ hist' = Append(hist, <<"x">>) /\ UNCHANGED <<scn, k, cur, outs>>
RECURSIVE SrcAll(_)
SrcAll(b) == IF b > nb THEN <<>> ELSE SrcOutK(b, WithM(Src, ms[b])) \o SrcAll(b + 1)
Call == /\ kind = "src" /\ ~Terminated
        /\ outs' = Append(outs, [s |-> SrcAll(1)]) /\ hist' = Append(hist, <<"call">>)
        /\ UNCHANGED <<scn, k, cur, col>>
Next == StartFill \/ FillOne \/ Compute \/ Request \/ ResetZ \/ Call
Spec == Init /\ [][Next]_vars

(***************************************************************************)
(* Properties.                                                             *)
(***************************************************************************)
\* between fills every branch has received the same values
EvenlyFilled == cur = 0 => \A a, b \in 1..nb : col[a] = col[b]
\* fill;...;compute means what run means: with one result per branch, and the index dropped,
\* the compute results are the fill/compute results of Split.run on the filled flow
Strip(o) == [j \in 1..Len(o) |-> [o[j] EXCEPT !.p = Tail(@)]]
FillsBefore(j) == Cardinality({i \in 1..j : hist[i][1] = "f"})
ComputeAt(n) == CHOOSE j \in 1..Len(hist) : hist[j][1] = "c" /\ Cardinality({i \in 1..j : hist[i][1] = "c"}) = n
SameAsRun ==
  (kind = "fc" /\ ~zip /\ cur = 0 /\ \A b \in 1..nb : ms[b] = 1) =>
     \A n \in 1..Len(outs) :
        Strip(outs[n].s) = SplitSem([b \in 1..nb |-> FC(None)], None, Iota(FillsBefore(ComputeAt(n))))
\* Zip: the i-th tuple holds the i-th result of every branch; length of the shortest
ZipTuples == \A j \in 1..Len(outs) : zip =>
   /\ Len(outs[j].z) = MinM
   /\ \A i \in 1..Len(outs[j].z) : \A b \in 1..nb : outs[j].z[i][b].b = b /\ outs[j].z[i][b].p[1] = i
\* request: every filled value is reported exactly once by each branch that yields (no reset in between)
RECURSIVE CatFirst(_, _, _)
CatFirst(os, b, j) == IF j > Len(os) THEN <<>>
   ELSE LET rs == Proj(os[j].s, b) IN (IF rs = <<>> THEN <<>> ELSE Tail(rs[1].p)) \o CatFirst(os, b, j + 1)
RequestAccounts == (kind = "fr" /\ ~zip /\ cur = 0) =>
   \A b \in 1..nb : ms[b] > 0 => CatFirst(outs, b, 1) \o col[b] = Iota(k)
\* repeating compute() / __call__() on the same object without a fill in between gives the same results
Repeatable == (NTerm = 2 /\ hist[Len(hist)][1] \in {"c", "call"} /\ hist[Len(hist) - 1][1] \in {"c", "call"})
                 => outs[Len(outs)] = outs[Len(outs) - 1]
Terminal == cur = 0 /\ (Terminated \/ (kind = "fr" /\ (Len(outs) = 3 \/ k = MaxN)))
Emitted == Terminal => PrintT(ToJson([kind |-> kind, nb |-> nb, ms |-> ms, zip |-> zip, form |-> form, zipf |-> zipf, prerun |-> prerun,
                                      hist |-> hist, outs |-> outs]))
=============================================================================
