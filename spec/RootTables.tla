----------------------------- MODULE RootTables -----------------------------
(***************************************************************************)
(* X06, the small helpers: documented facts as tables, printed for the     *)
(* harness (lenaverif/props/x06.py) which compares the real objects.       *)
(*   lena/core/exceptions.py   "All Lena exceptions are subclasses of      *)
(*                             LenaException and corresponding Python      *)
(*                             exceptions (if they exist)"                 *)
(*   lena/core/functions.py    flow_to_iter                                *)
(*   lena/structures/root_graphs.py   points and errors of a graph as the  *)
(*                             arguments of TGraphErrors                   *)
(*   lena/variables/functions.py      abs                                  *)
(*   lena/input/read_root_tree.py     the two ways to construct it         *)
(***************************************************************************)
EXTENDS Integers, Sequences, FiniteSets, TLC, Json
None == -1000
ExcBase == [LenaException |-> "Exception", LenaAttributeError |-> "AttributeError",
            LenaEnvironmentError |-> "EnvironmentError", LenaIndexError |-> "IndexError",
            LenaKeyError |-> "KeyError", LenaNotImplementedError |-> "NotImplementedError",
            LenaRuntimeError |-> "RuntimeError", LenaTypeError |-> "TypeError",
            LenaValueError |-> "ValueError", LenaZeroDivisionError |-> "ZeroDivisionError",
            LenaStopFill |-> "Exception"]         \* no built-in counterpart
\* every class but the base derives from LenaException; the table is injective on the built-ins but the base
ASSUME \A a, b \in DOMAIN ExcBase \ {"LenaException", "LenaStopFill"} : a # b => ExcBase[a] # ExcBase[b]

\* flow_to_iter: a flow that supports next is returned as it is, otherwise iter(flow); the items are the same
FlowKinds == <<[kind |-> "list", hasnext |-> FALSE], [kind |-> "tuple", hasnext |-> FALSE],
               [kind |-> "range", hasnext |-> FALSE], [kind |-> "generator", hasnext |-> TRUE],
               [kind |-> "listiterator", hasnext |-> TRUE], [kind |-> "iterable-class", hasnext |-> FALSE],
               [kind |-> "iterator-class", hasnext |-> TRUE], [kind |-> "dict", hasnext |-> FALSE],
               [kind |-> "empty-list", hasnext |-> FALSE], [kind |-> "string", hasnext |-> FALSE]>>
FlowExp == [j \in 1..Len(FlowKinds) |-> [kind |-> FlowKinds[j].kind, same |-> FlowKinds[j].hasnext]]

\* graphs: field names and coordinate arrays -> TGraphErrors(n, x, y, ex, ey); an absent error array is None
IndexOf(fs, name) == IF \E k \in 1..Len(fs) : fs[k] = name THEN CHOOSE k \in 1..Len(fs) : fs[k] = name ELSE 0
Graphs == <<[fields |-> <<"x", "y">>, coords |-> <<<<0, 1, 2>>, <<5, 6, 7>>>>],
            [fields |-> <<"x", "y", "error_y">>, coords |-> <<<<0, 1>>, <<5, 6>>, <<1, 2>>>>],
            [fields |-> <<"x", "y", "error_x">>, coords |-> <<<<0, 1>>, <<5, 6>>, <<3, 4>>>>],
            [fields |-> <<"x", "y", "error_x", "error_y">>, coords |-> <<<<0>>, <<5>>, <<3>>, <<1>>>>],
            [fields |-> <<"x", "y", "error_y", "error_x">>, coords |-> <<<<0, 2>>, <<5, 5>>, <<1, 0>>, <<3, 0>>>>],
            [fields |-> <<"E", "t", "error_E", "error_t">>, coords |-> <<<<1, 2>>, <<3, 4>>, <<0, 0>>, <<7, 8>>>>],
            [fields |-> <<"x", "y", "error_y">>, coords |-> <<<<>>, <<>>, <<>>>>]>>
GraphExp(g) ==
  LET ex == IndexOf(g.fields, "error_" \o g.fields[1])  ey == IndexOf(g.fields, "error_" \o g.fields[2]) IN
  [n |-> Len(g.coords[1]), x |-> g.coords[1], y |-> g.coords[2],
   ex |-> IF ex = 0 THEN <<None>> ELSE g.coords[ex], ey |-> IF ey = 0 THEN <<None>> ELSE g.coords[ey],
   hasex |-> ex # 0, hasey |-> ey # 0,
   points |-> [j \in 1..Len(g.coords[1]) |->
                 <<g.coords[1][j], g.coords[2][j]>> \o (IF ex = 0 THEN <<>> ELSE <<g.coords[ex][j]>>)
                                                    \o (IF ey = 0 THEN <<>> ELSE <<g.coords[ey][j]>>)]]
\* abs(var): name "abs_" + name unless given, latex_name |latex_name or name| unless given, values |v|
AbsCases == <<[name |-> "x", latex |-> "", gname |-> "", glatex |-> ""],
              [name |-> "x", latex |-> "x_1", gname |-> "", glatex |-> ""],
              [name |-> "x", latex |-> "", gname |-> "r", glatex |-> ""],
              [name |-> "x", latex |-> "x_1", gname |-> "r", glatex |-> "R"]>>
AbsExp(c) == [name |-> IF c.gname = "" THEN "abs_" \o c.name ELSE c.gname,
              latex |-> IF c.glatex # "" THEN c.glatex
                        ELSE "|" \o (IF c.latex = "" THEN c.name ELSE c.latex) \o "|",
              vals |-> <<[i |-> -2, o |-> 2], [i |-> 0, o |-> 0], [i |-> 3, o |-> 3]>>]
\* ReadROOTTree(leaves, get_entries): "Exactly one of leaves or get_entries (not both) must be provided, otherwise
\* LenaTypeError is raised"; with get_entries the entries are what that function yields for the tree
TreeCtors == <<[leaves |-> FALSE, ge |-> FALSE], [leaves |-> TRUE, ge |-> TRUE],
               [leaves |-> TRUE, ge |-> FALSE], [leaves |-> FALSE, ge |-> TRUE]>>
TreeCtorExp(c) == IF c.leaves = c.ge THEN "LenaTypeError" ELSE "ok"
GetEntriesCases == <<[name |-> "ev", n |-> 3, ctx |-> [a |-> 1]], [name |-> "t", n |-> 0, ctx |-> [a |-> 1]],
                     [name |-> "ev", n |-> 2, ctx |-> [a |-> 1, input |-> [root_tree_name |-> "old", k |-> 2]]]>>
GetEntriesExp(c) ==
  [j \in 1..c.n |-> [d |-> j - 1,
                     ctx |-> [k \in DOMAIN c.ctx \cup {"input"} |->
                                IF k # "input" THEN c.ctx[k]
                                ELSE IF "input" \in DOMAIN c.ctx
                                     THEN [c.ctx.input EXCEPT !.root_tree_name = c.name]
                                     ELSE [root_tree_name |-> c.name]]]]
ASSUME PrintT(ToJson([exc |-> ExcBase, flow |-> FlowExp,
                      treector |-> [j \in 1..Len(TreeCtors) |-> [c |-> TreeCtors[j], exp |-> TreeCtorExp(TreeCtors[j])]],
                      getentries |-> [j \in 1..Len(GetEntriesCases) |->
                                        [c |-> GetEntriesCases[j], exp |-> GetEntriesExp(GetEntriesCases[j])]],
                      graphs |-> [j \in 1..Len(Graphs) |-> [g |-> Graphs[j], exp |-> GraphExp(Graphs[j])]],
                      abs |-> [j \in 1..Len(AbsCases) |-> [c |-> AbsCases[j], exp |-> AbsExp(AbsCases[j])]]]))
=============================================================================
