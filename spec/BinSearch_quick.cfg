SPECIFICATION Spec
CONSTANTS MaxV = 8
  Lens = {2, 3, 4, 5}
  LongV = 12
  LongLens = {12}
INVARIANT Emitted
INVARIANT SearchCorrect
INVARIANT LoopInv
INVARIANT ExactGuessCovered
PROPERTY Shrinks
PROPERTY BodyAgrees
CHECK_DEADLOCK TRUE
