SPECIFICATION HSpec
CONSTANTS MaxLen = 5 Wide = FALSE WrongReset = FALSE
  Kinds <- HeldKinds
INVARIANT KeepIsRule
INVARIANT HeldFrozen
INVARIANT HeldIsYielded
PROPERTY HeldUnchanged
INVARIANT HEmitted
CHECK_DEADLOCK FALSE
