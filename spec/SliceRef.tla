------------------------------ MODULE SliceRef ------------------------------
(***************************************************************************)
(* Declarative reference for lena.flow.Slice: Python list slicing with a   *)
(* positive step.  No variables: shared by Slice.tla (machine), Flow.tla   *)
(* and Trace_Slice.tla (validation of recorded implementation behaviour).  *)
(***************************************************************************)
EXTENDS Integers, Sequences

None == -1000        \* sentinel (TLC cannot compare an integer with a string)

Max(x, y) == IF x > y THEN x ELSE y
Min(x, y) == IF x < y THEN x ELSE y

RECURSIVE Iota(_)
Iota(m) == IF m = 0 THEN <<>> ELSE Append(Iota(m - 1), m - 1)

(***************************************************************************)
(* Declarative reference: Python list slicing for a positive step.         *)
(***************************************************************************)
NormIdx(i, n, dflt) == IF i = None THEN dflt
                       ELSE IF i < 0 THEN Max(i + n, 0) ELSE Min(i, n)
StepOf(s) == IF s = None THEN 1 ELSE s
RECURSIVE Range(_, _, _)
Range(lo, hi, st) == IF lo >= hi THEN <<>> ELSE <<lo>> \o Range(lo + st, hi, st)
PySlice(n, a, b, s) == Range(NormIdx(a, n, 0), NormIdx(b, n, n), StepOf(s))
=============================================================================
