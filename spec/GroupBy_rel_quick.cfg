SPECIFICATION Spec
CONSTANTS PairSrc = "all" CtxU = "few" MaxFlow = 0 KeyU = "five"
INVARIANT KeyCharacterises
INVARIANT ProjIsPart
INVARIANT OwnerIsLongest
CHECK_DEADLOCK FALSE
