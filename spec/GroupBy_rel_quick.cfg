SPECIFICATION RSpec
CONSTANTS PairSrc = "all" CtxU = "few" MaxFlow = 0 KeyU = "five" Writ = "all"
INVARIANT KeyCharStep
INVARIANT ProjPartStep
INVARIANT OwnerStep
CHECK_DEADLOCK FALSE
