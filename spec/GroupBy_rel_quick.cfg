SPECIFICATION RSpec
CONSTANTS PairSrc = "all" CtxU = "few" MaxFlow = 0 KeyU = "five" Writ = "all" NObj = 0
INVARIANT KeyCharStep
INVARIANT ProjPartStep
INVARIANT OwnerStep
CHECK_DEADLOCK FALSE
