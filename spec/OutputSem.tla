------------------------------ MODULE OutputSem ------------------------------
(***************************************************************************)
(* The elements of the output chain as functions (from the docstrings and  *)
(* the run methods of lena.output.Write / LaTeXToPDF / PDFToPNG and of      *)
(* group_plots / MapGroup), and their composition over ONE plot in closed   *)
(* form: RunPlot.  No variables.                                           *)
(*                                                                         *)
(*  - Output.tla takes its actions from the element functions and TLC       *)
(*    checks (SemOK) that the interleaved actions of a run leave exactly    *)
(*    what RunPlot says, for the documented Write (csc = TRUE) and for the  *)
(*    pinned one (csc = FALSE: a created file leaves output.changed as it   *)
(*    was - the known finding of C19);                                      *)
(*  - Trace_Output.tla judges every recorded run of the real chain by the   *)
(*    predicates of OutputRef and, for a failed predicate, asks RunPlot     *)
(*    with csc = FALSE whether the pinned DESIGN fails it as well in this   *)
(*    very situation.  If not, the failure is not the known finding,        *)
(*    whatever else happened in that run.                                   *)
(*                                                                         *)
(* output.changed: "U" absent, "F", "T".                                    *)
(***************************************************************************)
EXTENDS OutputRef

\* Write.run on one value (docstring of Write.run): [f: the file afterwards, ch, w: written]
\* csc: does a created file set output.changed (documented: "If a file was written, then output.changed
\* is set to True"; pinned code: no)
WriteElP(csc, mode, file, content, c) ==
  IF file.a THEN [f |-> content, ch |-> IF csc THEN "T" ELSE c, w |-> TRUE]
  ELSE IF mode = "existing_unchanged" THEN [f |-> file, ch |-> IF c = "U" THEN "F" ELSE c, w |-> FALSE]
  ELSE IF mode = "overwrite" \/ file # content THEN [f |-> content, ch |-> "T", w |-> TRUE]
  ELSE [f |-> file, ch |-> IF c = "U" THEN "F" ELSE c, w |-> FALSE]
\* "objects with a method write ... doesn't allow to learn whether the file has changed": always written
WriteObj(content) == [f |-> content, ch |-> "T", w |-> TRUE]
\* group_plots / MapGroup: output.changed of a group from those of its members
Combine(flags) == IF \E i \in 1..Len(flags) : flags[i] = "T" THEN "T" ELSE "F"
\* LaTeXToPDF.run on one value: "If the resulting pdf file exists and context.output.changed is set to False,
\* pdf rendering is not run.  If context.output.changed is not set, then modification times for .tex and .pdf
\* files are compared: if the template .tex is newer, it is reprocessed."  newer: the tex was written after the pdf
\* [f: the pdf afterwards, ch, l: launched]
LaTeXEl(lo, tex, csvs, pdf, newer, c) ==
  LET cc == IF c = "U" THEN (IF pdf.a \/ newer THEN "T" ELSE "F") ELSE c
      skip == ~lo /\ ~pdf.a /\ cc # "T"
  IN IF skip THEN [f |-> pdf, ch |-> "F", l |-> FALSE]
     ELSE [f |-> C(tex.t, [m \in 1..Len(csvs) |-> csvs[m].d[1]]), ch |-> "T", l |-> TRUE]
\* PDFToPNG.run on one value: skip iff the image exists, not overwrite and changed is not True
PNGEl(po, pdf, png, c) ==
  IF ~png.a /\ ~po /\ c # "T" THEN [f |-> png, ch |-> "F", l |-> FALSE]
  ELSE [f |-> pdf, ch |-> "T", l |-> TRUE]

(***************************************************************************)
(* One plot (or group) through the whole chain.                            *)
(*   set = [m1, m2, lo, po]; obj: the sources have a write method;         *)
(*   grouped; pre: the files before the run; newer: tex newer than pdf      *)
(*   before the run; dvs: current data versions (one per source); tv: the   *)
(*   template version that is rendered.                                    *)
(***************************************************************************)
RunPlot(csc, set, obj, grouped, pre, newer, dvs, tv) ==
  LET n == Len(dvs)
      cw == [m \in 1..n |-> IF obj THEN WriteObj(C(0, <<dvs[m]>>))
                            ELSE WriteElP(csc, set.m1, pre.csv[m], C(0, <<dvs[m]>>), "U")]
      c1 == IF grouped THEN Combine([m \in 1..n |-> cw[m].ch]) ELSE cw[1].ch
      tw == WriteElP(csc, set.m2, pre.tex, C(tv, <<>>), c1)
      nw == newer \/ tw.w
      lx == LaTeXEl(set.lo, tw.f, [m \in 1..n |-> cw[m].f], pre.pdf, nw, tw.ch)
      pg == PNGEl(set.po, lx.f, pre.png, lx.ch)
  IN [files |-> [csv |-> [m \in 1..n |-> cw[m].f], tex |-> tw.f, pdf |-> lx.f, png |-> pg.f],
      wrote |-> [csv |-> [m \in 1..n |-> cw[m].w], tex |-> tw.w],
      launched |-> [pdf |-> lx.l, png |-> pg.l], ch |-> pg.ch,
      chPdf |-> tw.ch,                       \* output.changed as LaTeXToPDF receives it
      newer |-> IF lx.l THEN FALSE ELSE nw]

\* the first place along the chain where an observation o = [files, wrote, launched, ch] departs from a
\* prediction m of RunPlot ("none": nowhere)
FirstDeviation(o, m) ==
  IF o.wrote.csv # m.wrote.csv THEN "csv-write" ELSE IF o.files.csv # m.files.csv THEN "csv-content"
  ELSE IF o.wrote.tex # m.wrote.tex THEN "tex-write" ELSE IF o.files.tex # m.files.tex THEN "tex-content"
  ELSE IF o.launched.pdf # m.launched.pdf THEN (IF m.launched.pdf THEN "pdf-not-made" ELSE "pdf-made")
  ELSE IF o.files.pdf # m.files.pdf THEN "pdf-content"
  ELSE IF o.launched.png # m.launched.png THEN (IF m.launched.png THEN "png-not-made" ELSE "png-made")
  ELSE IF o.files.png # m.files.png THEN "png-content"
  ELSE IF o.ch # m.ch THEN "changed-flag" ELSE "none"
=============================================================================
