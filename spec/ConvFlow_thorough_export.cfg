SPECIFICATION Spec
CONSTANTS MaxLen = 3
  MaxRuns = 3
  Kinds = {"ToCSV", "HistToGraph", "ScaleTo"}
  ConvOpts = {"absent", "F", "T"}
  Memory = "none"
INVARIANT ElementStateless
INVARIANT OneOutputPerValue
INVARIANT RowCount
INVARIANT Emitted
CHECK_DEADLOCK FALSE
