SPECIFICATION Spec
CONSTANTS MaxTok = 6 MaxDepth = 3
  Leaves <- LeavesCore
  RootKinds <- SeqRoots
  StoreByCopy = TRUE
  TailKeepsSets = TRUE
INVARIANT SeenIsExpected
INVARIANT PrefixOnly
INVARIANT SiblingIndependent
INVARIANT RootExpected
INVARIANT NoLeakToRuntime
PROPERTY Causal
PROPERTY RunKeepsStatic
CHECK_DEADLOCK FALSE
