SPECIFICATION Spec
CONSTANTS MaxDepth = 3
  Families <- FamQuick
  StoreByCopy = TRUE
  TailKeepsSets = TRUE
  SplitContinues = TRUE
INVARIANT Emitted
CHECK_DEADLOCK FALSE
