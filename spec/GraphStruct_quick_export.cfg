SPECIFICATION Spec
CONSTANTS MaxFields = 3 Deep = TRUE
  CoordNames <- CoordNamesQ
  Tails <- TailsQ
INVARIANT Emitted
CHECK_DEADLOCK FALSE
