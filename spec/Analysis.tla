------------------------------ MODULE Analysis ------------------------------
(***************************************************************************)
(* A whole analysis in the style of lena's tutorial (docs/examples/        *)
(* tutorial/2_split/main4.py), end to end:                                 *)
(*                                                                         *)
(*   Sequence(ReadEvents,                                                  *)
(*            Split([(Compose(particle, coord), Histogram(edges1)), ...,   *)
(*                   (particle, Combine(x, y, name="xy"),                  *)
(*                    Histogram(edges2), MakeFilename(p.name/v.name)), ...],*)
(*                  bufsize),                                              *)
(*            MakeFilename("{{variable.particle.name}}/                    *)
(*                          {{variable.coordinate.name}}"),                *)
(*            ToCSV(), Write(dir), RenderLaTeX(select_template), Write(dir),*)
(*            LaTeXToPDF(), PDFToPNG())                                    *)
(*                                                                         *)
(* run several times over changing data and a changing template.  The      *)
(* parts are specified one by one elsewhere (Flow, Split, Variables,       *)
(* Histogram, Convert, MakeFilename, Output); this module is about their   *)
(* COMPOSITION: what one branch computes reaches exactly the files named   *)
(* from that branch's variable context, nothing of another branch leaks    *)
(* in, and a later run redoes exactly what its changed inputs require.     *)
(*                                                                         *)
(* Operational part: the order in which the real pipeline works (blocks of *)
(* bufsize events, branch by branch; computes in branch order after the    *)
(* last block; each result pulled through the output chain).               *)
(* Declarative part: Expected(b) - the histogram of the projection of ALL  *)
(* events of the run on the branch's variable, FilesRef - the files that   *)
(* must exist after a run, RedoRef - what a run has to write and launch.   *)
(*                                                                         *)
(* An event is <<positron, neutron>>, a particle <<x, y>>.  Edges are      *)
(* Edges1 for the coordinate histograms and <<Edges1, EdgesY>> for "xy".   *)
(***************************************************************************)
EXTENDS AnalysisSem, TLC, Json

CONSTANTS DataSets,     \* set of event sequences a run can read
          BranchLists,  \* set of branch lists of the Split
          BufSizes,     \* Split bufsize (Big = larger than any flow)
          MaxRuns,
          Edges1, EdgesY,
          Caches,       \* subset of BOOLEAN: whether a Cache stands between the reader and the Split
          WriteAlways   \* sensitivity guard: TRUE = a Write that does not compare contents (NoRedo must fail)

Big == 1000

VARIABLES brs, bs,
          run,        \* number of runs started
          src,        \* the events the reader would supply in the current run
          useCache, cache, loaded,   \* Cache element present; its file (Absent or the stored flow); this run is fed by it
          data, tpl,  \* events that enter the Split in the current run; template version
          phase,      \* "idle" | "read" | "fill" | "compute" | "emit" | "done"
          pos, block, bi,
          hs,         \* per branch: [bins, oor]   (the Histogram element of the branch)
          pending,    \* result of the branch being pulled through the output chain
          files,      \* <<name, ext>> -> content descriptor
          out,        \* results delivered by this run (name of the png), in order
          wrote, launched,    \* files written / converters launched in this run (sets of <<name, ext>>)
          h           \* ghost: per finished run what the harness compares

vars == <<brs, bs, src, useCache, cache, loaded, run, data, tpl, phase, pos, block, bi, hs, pending, files, out, wrote, launched, h>>
view == <<brs, bs, src, useCache, cache, loaded, run, data, tpl, phase, pos, block, bi, hs, pending, files, out, wrote, launched>>

(***************************************************************************)
(* Branches, variables, names, file contents: AnalysisSem.tla; here fixed   *)
(* to the edges of the model.                                              *)
(***************************************************************************)
ED == <<Edges1, EdgesY>>
EdgesOf(b) == EdgesOfP(b, ED)
Empty(b) == EmptyP(b, ED)
FillAll(b, st, evs) == FillAllP(b, st, evs, ED)
Expected(b, evs) == ExpectedP(b, evs, ED)
Outside(b, evs) == OutsideP(b, evs, ED)
CsvOf(b, st) == CsvOfP(b, st, ED)

(***************************************************************************)
(* The machine.                                                            *)
(***************************************************************************)
Init == /\ brs \in BranchLists /\ bs \in BufSizes
        /\ useCache \in Caches /\ cache = Absent /\ loaded = FALSE /\ src = <<>>
        /\ run = 0 /\ data = <<>> /\ tpl = 1 /\ phase = "idle"
        /\ pos = 0 /\ block = <<>> /\ bi = 1
        /\ hs = [i \in 1..Len(brs) |-> Empty(brs[i])]
        /\ pending = Absent /\ files = <<>> /\ out = <<>> /\ wrote = {} /\ launched = {} /\ h = <<>>

\* a new run: new element objects (fresh histograms), same output directory
StartRun == /\ phase = "idle" /\ run < MaxRuns
            \* a filled cache replays the stored flow: the reader is not asked, whatever it would supply now
            /\ loaded' = (useCache /\ cache # Absent)
            /\ \E d \in DataSets : src' = d /\ data' = IF loaded' THEN cache.c ELSE d
            /\ \E t \in {tpl, tpl + 1} : (t = tpl \/ run > 0) /\ t <= 2 /\ tpl' = t
            /\ run' = run + 1 /\ phase' = "read" /\ pos' = 0 /\ block' = <<>> /\ bi' = 1
            /\ hs' = [i \in 1..Len(brs) |-> Empty(brs[i])]
            /\ out' = <<>> /\ wrote' = {} /\ launched' = {} /\ pending' = Absent
            /\ UNCHANGED <<brs, bs, useCache, cache, files, h>>

\* Split.run reads the next block of at most bufsize events; an empty block ends the input
ReadBlock == /\ phase = "read"
             /\ LET k == IF Len(data) - pos < bs THEN Len(data) - pos ELSE bs IN
                IF k = 0 THEN /\ phase' = "compute" /\ bi' = 1 /\ UNCHANGED <<pos, block>>
                              \* the flow is exhausted: a Cache that was being filled now holds the whole flow
                              /\ cache' = IF useCache /\ ~loaded THEN File(data) ELSE cache
                ELSE /\ block' = SubSeq(data, pos + 1, pos + k) /\ pos' = pos + k /\ phase' = "fill" /\ bi' = 1
                     /\ UNCHANGED cache
             /\ UNCHANGED <<brs, bs, src, useCache, loaded, run, data, tpl, hs, pending, files, out, wrote, launched, h>>

\* every branch gets (a copy of) the whole block before the next block is read
FillBranch == /\ phase = "fill"
              /\ IF bi > Len(brs) THEN phase' = "read" /\ UNCHANGED <<hs, bi>>
                 ELSE /\ hs' = [hs EXCEPT ![bi] = FillAll(brs[bi], @, block)] /\ bi' = bi + 1 /\ UNCHANGED phase
              /\ UNCHANGED <<brs, bs, src, useCache, cache, loaded, run, data, tpl, pos, block, pending, files, out, wrote, launched, h>>

\* after the last block the fill/compute branches are computed in branch order; each result is pulled
\* through the output chain before the next compute (the chain is lazy)
Compute == /\ phase = "compute" /\ pending = Absent
           /\ IF bi > Len(brs) THEN phase' = "done" /\ UNCHANGED <<pending, bi>>
              ELSE pending' = File([b |-> bi]) /\ bi' = bi + 1 /\ UNCHANGED phase
           /\ UNCHANGED <<brs, bs, src, useCache, cache, loaded, run, data, tpl, pos, block, hs, files, out, wrote, launched, h>>

\* MakeFilename, ToCSV, Write, RenderLaTeX, Write, LaTeXToPDF, PDFToPNG for one result:
\* a file is written when it does not exist or its content differs; a converter runs when its target does not
\* exist or something it is made from was written in this run
Emit == /\ phase = "compute" /\ pending # Absent
        /\ LET i == pending.c.b
               b == brs[i]
               csv == CsvOf(b, hs[i])
               tex == TexOf(b, tpl)
               wcsv == WriteAlways \/ Get2(files, Key(b, "csv")) # File(csv)
               wtex == WriteAlways \/ Get2(files, Key(b, "tex")) # File(tex)
               lpdf == ~Has(files, Key(b, "pdf")) \/ wcsv \/ wtex
               pdf == IF lpdf THEN [tex |-> tex, csv |-> csv] ELSE files[Key(b, "pdf")].c
               lpng == ~Has(files, Key(b, "png")) \/ lpdf
               png == IF lpng THEN pdf ELSE files[Key(b, "png")].c
               f1 == IF wcsv THEN Put(files, Key(b, "csv"), csv) ELSE files
               f2 == IF wtex THEN Put(f1, Key(b, "tex"), tex) ELSE f1
               f3 == IF lpdf THEN Put(f2, Key(b, "pdf"), pdf) ELSE f2
               f4 == IF lpng THEN Put(f3, Key(b, "png"), png) ELSE f3
           IN IF IsHist(b)
              THEN /\ files' = f4
                   /\ wrote' = wrote \cup (IF wcsv THEN {Key(b, "csv")} ELSE {}) \cup (IF wtex THEN {Key(b, "tex")} ELSE {})
                   /\ launched' = launched \cup (IF lpdf THEN {Key(b, "pdf")} ELSE {}) \cup (IF lpng THEN {Key(b, "png")} ELSE {})
                   /\ out' = Append(out, [name |-> Name(b), var |-> VarCtx(b), dim |-> Dim(b),
                                          bins |-> hs[i].bins, oor |-> hs[i].oor])
              \* a number: named by the outer MakeFilename, selected by no element of the chain - nothing happens
              ELSE /\ UNCHANGED <<files, wrote, launched>>
                   /\ out' = Append(out, [name |-> Name(b), var |-> VarCtx(b), dim |-> 0,
                                          bins |-> R(hs[i].bins[1], hs[i].bins[2]), oor |-> 0])
        /\ pending' = Absent
        /\ UNCHANGED <<brs, bs, src, useCache, cache, loaded, run, data, tpl, phase, pos, block, bi, hs, h>>

SetToSeq(S) == LET RECURSIVE Go(_) Go(T) == IF T = {} THEN <<>> ELSE LET x == CHOOSE y \in T : TRUE IN <<x>> \o Go(T \ {x}) IN Go(S)
EndRun == /\ phase = "done" /\ phase' = "idle"
          /\ h' = Append(h, [src |-> src, data |-> data, tpl |-> tpl, out |-> out, pulled |-> IF loaded THEN 0 ELSE Len(src),
                             files |-> [k \in 1..Cardinality(DOMAIN files) |->
                                          LET key == SetToSeq(DOMAIN files)[k] IN [key |-> key, c |-> files[key].c]],
                             wrote |-> SetToSeq(wrote), launched |-> SetToSeq(launched)])
          /\ UNCHANGED <<brs, bs, src, useCache, cache, loaded, run, data, tpl, pos, block, bi, hs, pending, files, out, wrote, launched>>

Next == StartRun \/ ReadBlock \/ FillBranch \/ Compute \/ Emit \/ EndRun
Spec == Init /\ [][Next]_vars

(***************************************************************************)
(* Properties.                                                             *)
(***************************************************************************)
\* the Split never holds more than bufsize events
BufBound == Len(block) <= bs
\* per-branch analysis: when the results are computed every branch holds the histogram of ITS projection of ALL
\* events of the run, whatever the block size and whatever the other branches are
PerBranch == phase \in {"compute", "done"} =>
               \A i \in 1..Len(brs) :
                 LET b == brs[i] IN
                 IF IsHist(b)
                 THEN /\ \A cell \in Cells(EdgesOf(b)) : Get(hs[i].bins, cell) = Expected(b, data)[cell]
                      /\ hs[i].oor = Outside(b, data)
                      /\ SumB(hs[i].bins, Dim(b)) + hs[i].oor = Len(data)
                 ELSE hs[i] = HistRef(b, data, ED)
\* after a run every plot has its four files, made from the CURRENT data and template, and there is nothing else
LastOf(b) == CHOOSE i \in Plots(brs) : Name(brs[i]) = Name(b) /\ \A j \in Plots(brs) : j > i => Name(brs[j]) # Name(b)
FilesRef == phase = "done" =>
              /\ DOMAIN files = {Key(brs[i], e) : i \in Plots(brs), e \in {"csv", "tex", "pdf", "png"}}
              /\ \A i \in Plots(brs) :
                   LET b == brs[i]
                   IN /\ files[Key(b, "csv")] = File(CsvOf(b, hs[LastOf(b)]))
                      /\ files[Key(b, "tex")] = File(TexOf(b, tpl))
                      /\ files[Key(b, "pdf")] = File([tex |-> TexOf(b, tpl), csv |-> CsvOf(b, hs[LastOf(b)])])
                      /\ files[Key(b, "png")] = files[Key(b, "pdf")]
\* one result per branch, in branch order, carrying that branch's description
OneResultPerBranch == phase = "done" =>
                        /\ Len(out) = Len(brs)
                        /\ \A i \in 1..Len(brs) : out[i].name = Name(brs[i]) /\ out[i].var = VarCtx(brs[i])
\* nothing unchanged is redone: a run over the same data with the same template writes nothing and launches nothing;
\* in general a file is written only if its content is new and a converter runs only downstream of a written file
NoRedo == (phase = "done" /\ Len(h) > 0 /\ h[Len(h)].data = data /\ h[Len(h)].tpl = tpl) => (wrote = {} /\ launched = {})
RedoRef == phase = "done" =>
             /\ \A k \in launched : k[2] = "png" => (<<k[1], "pdf">> \in launched \/ Len(h) = 0)
             /\ \A k \in wrote : k[2] \in {"csv", "tex"}
             /\ \A k \in DOMAIN files : (k[2] = "pdf" /\ (<<k[1], "csv">> \in wrote \/ <<k[1], "tex">> \in wrote)) => k \in launched
             /\ (Len(h) > 0 /\ h[Len(h)].tpl # tpl) => \A i \in Plots(brs) : Key(brs[i], "tex") \in wrote
             /\ Len(h) = 0 => (wrote = {Key(brs[i], e) : i \in Plots(brs), e \in {"csv", "tex"}}
                               /\ launched = {Key(brs[i], e) : i \in Plots(brs), e \in {"pdf", "png"}})

\* the whole run, however it was scheduled (block size, branch order of the fills), is the declarative run:
\* files, writes, launches and results are functions of the directory before, the data and the template
FilesBefore == IF Len(h) = 0 THEN <<>>
               ELSE LET fl == h[Len(h)].files IN [k \in {fl[j].key : j \in 1..Len(fl)} |-> File(fl[CHOOSE j \in 1..Len(fl) : fl[j].key = k].c)]
RunIsSem == phase = "done" =>
              LET F1 == RunFiles(FilesBefore, brs, data, tpl, ED) IN
              /\ files = F1
              /\ wrote = RunWrote(FilesBefore, F1, brs)
              /\ launched = RunLaunched(FilesBefore, F1, brs)
              /\ out = RunOut(brs, data, ED)

\* a Cache is transparent while it is filled and replays exactly the stored flow afterwards: every later run
\* sees the events of the first run, and only the first run reads
CacheRef == /\ (cache # Absent) => (useCache /\ Len(h) + (IF phase = "idle" THEN 0 ELSE 1) >= 1)
            /\ (phase \in {"compute", "done"} /\ ~loaded) => data = src
            /\ (phase # "idle" /\ loaded) => (Len(h) >= 1 /\ data = h[1].data /\ cache = File(h[1].data))
            /\ ~useCache => (cache = Absent /\ ~loaded)

Emitted == (phase = "idle" /\ run = MaxRuns) => PrintT(ToJson([brs |-> brs, bs |-> bs, cache |-> useCache, edges1 |-> Edges1, edgesy |-> EdgesY, runs |-> h]))

(***************************************************************************)
(* Model values.                                                           *)
(***************************************************************************)
\* coordinates: below the first edge, inside the first / the last cell, exactly the last edge (outside)
P(x, y) == <<x, y>>
Ev(p, n) == <<p, n>>
EvA == Ev(P(1, 1), P(3, -1))
EvB == Ev(P(3, 4), P(1, 1))
EvC == Ev(P(-1, 3), P(4, 3))
EvD == Ev(P(1, 3), P(1, 3))
E1 == <<0, 2, 4>>
EY == <<0, 4>>
\* (no empty run: without a value no variable ever describes the result, the plots of such a run have no names;
\* what the output chain does with unnamed values is C10 / X05)
DataQuick == {<<EvA>>, <<EvA, EvB>>, <<EvB, EvA>>, <<EvA, EvB, EvC>>, <<EvD, EvD, EvC>>}
DataMC == {<<EvA>>, <<EvA, EvB, EvC>>, <<EvD, EvD, EvC>>}
DataExport == {<<EvB>>, <<EvA, EvB>>, <<EvA, EvB, EvC>>, <<EvD, EvD, EvC>>}
DataExport3 == {<<EvA, EvB>>, <<EvA, EvB, EvC>>, <<EvB, EvA>>}
BrExport3 == {<<Br("positron", "x"), Br("neutron", "xy")>>, <<BrMean("neutron", "y"), Br("positron", "x"), BrMean("positron", "x")>>, <<Br("neutron", "y"), Br("positron", "xy"), Br("positron", "y")>>}
AllBr == {Br("positron", "x"), Br("neutron", "x"), Br("positron", "y"), Br("positron", "xy"), Br("neutron", "xy"),
          BrMean("positron", "x"), BrMean("neutron", "y")}
RECURSIVE Lists(_, _)
Lists(S, n) == IF n = 0 THEN {<<>>} ELSE LET L == Lists(S, n - 1) IN L \cup {Append(l, s) : l \in {x \in L : Len(x) = n - 1}, s \in S}
\* plots of one analysis have different names (two branches writing one file race in the asynchronous converter)
Distinct(l) == \A i \in Plots(l), j \in Plots(l) : i # j => Name(l[i]) # Name(l[j])
BrQuick == {l \in Lists(AllBr, 2) : l # <<>> /\ Distinct(l)}
BrThorough == {l \in Lists(AllBr, 3) : l # <<>> /\ Distinct(l)}
BrExport == {<<Br("positron", "x")>>, <<Br("neutron", "xy")>>,
             <<Br("positron", "x"), Br("neutron", "x")>>, <<Br("positron", "y"), Br("positron", "xy")>>,
             <<Br("neutron", "xy"), Br("positron", "xy"), Br("neutron", "x")>>,
             <<Br("neutron", "x"), Br("positron", "y"), Br("positron", "xy"), Br("positron", "x")>>,
             <<BrMean("positron", "x"), Br("positron", "x")>>, <<Br("neutron", "xy"), BrMean("neutron", "y"), Br("neutron", "y")>>}
=============================================================================
