SPECIFICATION Spec
CONSTANTS MaxRuns = 2 MaxTouch = 99
  Scens <- ScenGroup2
  Settings <- SettingsQuick
  CreatedSetsChanged = TRUE
  Reuses = {FALSE, TRUE}
  AutoReload = TRUE
  KeepHistory = TRUE
INVARIANT Emitted
CHECK_DEADLOCK FALSE
