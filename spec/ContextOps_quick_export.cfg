SPECIFICATION Spec
CONSTANTS
  KeyOrder <- KO2
  Ctxs <- CtxQ2
  Flows <- SingleFlows
  Calls <- CallsQuick
INVARIANT Emit
CHECK_DEADLOCK FALSE
