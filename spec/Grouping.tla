------------------------------ MODULE Grouping ------------------------------
(***************************************************************************)
(* The grouping and flow utility elements of lena.flow as machines, one    *)
(* action per loop body / public call:                                     *)
(*   GroupPlots.run   per flow value: pass an unselected value on, or take *)
(*                    a selected one into its group (yielding a copy with  *)
(*                    yield_selected); after the flow: one action per      *)
(*                    group (scale, transform, group_plots)                *)
(*   MapGroup.run     per value (scalar or group)                          *)
(*   DropContext.run  per value pulled by the inner sequence               *)
(*   Print / Progress per value passed through                             *)
(*   GroupScale call, get_data / get_context / get_data_context: one step  *)
(* Code: lena/flow/group_plots.py, group_scale.py, drop_context.py,        *)
(* print_.py, progress.py, functions.py, group_by.py (_GroupBy).           *)
(* The declarative part is GroupingSem.tla.                                *)
(***************************************************************************)
EXTENDS GroupingSem

CONSTANTS U    \* name of the universe of scenarios

(***************************************************************************)
(* Universes (built only when selected, see Selectors.tla).                *)
(***************************************************************************)
SeqsUpTo(S, n) == UNION {[1..m -> S] : m \in 0..n}
Leaf1 == LInt(1, "1")
KA == LStr("A")
KB == LStr("B")
Chg(b) == Dict(One("changed", IF b THEN LTrue ELSE LFalse))
\* member templates [k, s, c, h]; the id is the position in the flow
Tpl(k, s, c, h) == [k |-> k, s |-> s, c |-> c, h |-> h]
P1 == Tpl("hist", 1, Dict(One("k", KA) @@ One("sel", Leaf1) @@ One("ref", Leaf1)), TRUE)
P2 == Tpl("hist", 2, Dict(One("k", KA) @@ One("sel", Leaf1) @@ One("output", Chg(TRUE))), TRUE)
P3 == Tpl("graph", 2, Dict(One("k", KA) @@ One("sel", Leaf1) @@ One("output", Chg(FALSE))), TRUE)
P4 == Tpl("hist", 0, Dict(One("k", KB) @@ One("sel", Leaf1)), TRUE)
P5 == Tpl("num", 0, Dict(One("k", KB)), TRUE)
P6 == Tpl("graph", Unknown, Dict(One("k", KA) @@ One("sel", Leaf1) @@ One("n", Dict(One("x", Leaf1)))), TRUE)
P7 == Tpl("hist", 4, Empty, FALSE)
P8 == Tpl("graph", 0, Dict(One("k", KB) @@ One("ref", Leaf1) @@ One("n", Dict(One("x", Leaf1) @@ One("y", Leaf1)))), TRUE)
P9 == Tpl("graph", Unknown, Dict(One("k", KB) @@ One("sel", Leaf1) @@ One("ref", Leaf1)), TRUE)
Pool == {P1, P2, P3, P4, P5, P6, P7, P8}
MkMembers(ts) == [i \in 1..Len(ts) |-> [id |-> i, k |-> ts[i].k, s |-> ts[i].s, c |-> ts[i].c, h |-> ts[i].h]]
GPCfg(gb, sel, scale, tr, ys) == [gb |-> gb, sel |-> sel, scale |-> scale, tr |-> tr, ys |-> ys]
GPCfgsQuick == {GPCfg("type", "all", "none", "id", FALSE), GPCfg("key", "ctx", "none", "id", TRUE),
                GPCfg("type", "hist", "num", "id", TRUE), GPCfg("key", "all", "none", "tag", FALSE),
                GPCfg("key", "ctx", "ref", "id", FALSE), GPCfg("type", "ctx", "num", "tag", FALSE),
                GPCfg("type", "all", "none", "drop", FALSE), GPCfg("key", "hist", "ref", "inc", TRUE)}
GPCfgsAll == {GPCfg(gb, sel, scale, tr, ys) : gb \in {"type", "key"}, sel \in {"all", "ctx", "hist"},
                scale \in {"none", "num", "ref"}, tr \in {"id", "tag", "inc", "drop", "dup"}, ys \in BOOLEAN}
ScGP(cfgs, pool, n) == {[mode |-> "gplots", cfg |-> cfg, ms |-> MkMembers(ts)] : cfg \in cfgs, ts \in SeqsUpTo(pool, n)}
\* GroupScale called directly on a list of members
SCfgs == {[to |-> t, az |-> a, au |-> b] : t \in {"num", "ref"}, a \in BOOLEAN, b \in BOOLEAN}
ScScale(pool, n) == {[mode |-> "scale", cfg |-> cfg, ms |-> MkMembers(ts)] : cfg \in SCfgs, ts \in SeqsUpTo(pool, n)}
\* MapGroup: flows of one or two values, each a group made by group_plots (optionally with an
\* extra common key) or a scalar
MGQ == {"inc", "tag", "setb", "chgT", "chgF", "dup", "drop", "odd"}
MGPool == {P1, P2, P3, P7, Tpl("num", 0, Dict(One("a", Leaf1)), TRUE), Tpl("num", 0, Dict(One("a", Leaf1) @@ One("b", LInt(2, "2"))), TRUE)}
\* pad: the data list is one item longer than context.group (LenaRuntimeError)
AsGroup(ms, extra, pad) == [grp |-> TRUE, ms |-> ms, pad |-> pad,
                            common |-> IF extra THEN Upd(GPlots(ms).common, Dict(One("x", LInt(9, "9")))) ELSE GPlots(ms).common]
MGVals(n) == {AsGroup(MkMembers(ts), e, FALSE) : ts \in SeqsUpTo(MGPool, n) \ {<<>>}, e \in BOOLEAN}
              \cup {AsGroup(MkMembers(<<P1>>), FALSE, TRUE), AsGroup(MkMembers(<<P1, P2>>), FALSE, TRUE)}
              \cup {[grp |-> FALSE, m |-> MkMembers(<<t>>)[1]] : t \in {P1, P7}}
ScMG(n, len) == {[mode |-> "mapgroup", q |-> q, scal |-> b, vals |-> vs] :
                   q \in MGQ, b \in BOOLEAN, vs \in SeqsUpTo(MGVals(n), len) \ {<<>>}}
\* DropContext: flows of (data, context) pairs
DCPool == {Tpl("num", 0, Empty, TRUE), Tpl("num", 0, Dict(One("a", Leaf1)), TRUE), Tpl("num", 0, Dict(One("new", LInt(7, "7")) @@ One("b", Leaf1)), TRUE)}
ScDrop(n) == {[mode |-> "drop", q |-> q, ms |-> MkMembers(ts)] : q \in {"inc", "dup", "drop", "even", "addc"}, ts \in SeqsUpTo(DCPool, n)}
\* Print / Progress: any values pass through
ScPass(n) == {[mode |-> "pass", el |-> e, ms |-> MkMembers(ts)] : e \in {"print", "progress"}, ts \in SeqsUpTo({P1, P5, P7}, n)}
\* value shapes for get_data / get_context / get_data_context
Shapes == {[tuple |-> t, len |-> l, second |-> s] : t \in BOOLEAN, l \in 0..3, s \in {"dict", "subdict", "list", "none", "int", "str", "-"}}
ScShape == {[mode |-> "shape", sh |-> sh] : sh \in {x \in Shapes : (x.len < 2) <=> (x.second = "-")}}

Quick(u) == ScGP(GPCfgsQuick, Pool, 3) \cup ScGP(GPCfgsAll, {P1, P2, P5, P9}, 2) \cup ScScale(Pool \cup {P9}, 2)
            \cup ScScale({P1, P2, P4, P6}, 3) \cup ScMG(2, 1) \cup ScDrop(3) \cup ScPass(3) \cup ScShape
Thorough(u) == ScGP(GPCfgsQuick, Pool \cup {P9}, 3) \cup ScGP(GPCfgsAll, Pool \cup {P9}, 2)
               \cup ScGP(GPCfgsAll, {P1, P5, P6}, 3) \cup ScScale(Pool \cup {P9}, 3)
               \cup ScMG(3, 1) \cup ScMG(1, 2) \cup ScDrop(4) \cup ScPass(4) \cup ScShape
Tiny(u) == ScGP(GPCfgsQuick, {P1, P5}, 2) \cup ScShape
Scenarios == CASE U = "quick" -> Quick(U) [] U = "thorough" -> Thorough(U) [] U = "tiny" -> Tiny(U)

(***************************************************************************)
(* The machine.                                                            *)
(***************************************************************************)
VARIABLES sc,       \* the scenario
          pos,      \* flow values consumed
          out,      \* values yielded so far
          groups,   \* GroupPlots: groups in order of creation, [key, ms]
          gi,       \* GroupPlots: groups yielded after the flow
          printed,  \* Print / Progress: lines printed
          status    \* "run" | "done" | name of the exception raised
vars == <<sc, pos, out, groups, gi, printed, status>>

Init == /\ sc \in Scenarios
        /\ pos = 0 /\ out = <<>> /\ groups = <<>> /\ gi = 0 /\ printed = 0 /\ status = "run"

Running(mode) == status = "run" /\ sc.mode = mode
Val(m) == [o |-> "val", id |-> m.id, s |-> m.s, c |-> CtxOf(m)]
\* ---- GroupPlots.run
Cur == sc.ms[pos + 1]
GPPass == /\ Running("gplots") /\ pos < Len(sc.ms) /\ ~IsSelected(sc.cfg, Cur)
          /\ out' = Append(out, Val(Cur)) /\ pos' = pos + 1                 \* yield val
          /\ UNCHANGED <<sc, groups, gi, printed, status>>
GPTake == /\ Running("gplots") /\ pos < Len(sc.ms) /\ IsSelected(sc.cfg, Cur)
          /\ out' = IF sc.cfg.ys THEN Append(out, Val(Cur)) ELSE out          \* yield copy.deepcopy(val)
          /\ pos' = pos + 1
          /\ LET key == KeyOf(sc.cfg, Cur) IN
             IF key = "?" THEN status' = "LenaValueError" /\ UNCHANGED groups  \* no key for the value
             ELSE /\ UNCHANGED status
                  /\ IF \E g \in 1..Len(groups) : groups[g].key = key
                     THEN groups' = [g \in 1..Len(groups) |-> IF groups[g].key = key
                                                               THEN [groups[g] EXCEPT !.ms = Append(@, Cur)] ELSE groups[g]]
                     ELSE groups' = Append(groups, [key |-> key, ms |-> <<Cur>>])
          /\ UNCHANGED <<sc, gi, printed>>
\* after the flow: scale, transform and group_plots for the next group
GPGroup == /\ Running("gplots") /\ pos = Len(sc.ms) /\ gi < Len(groups)
           /\ LET r == GroupOut(sc.cfg, groups[gi + 1].ms) IN
              IF r.ok THEN out' = Append(out, [o |-> "grp", g |-> r.g]) /\ UNCHANGED status
              ELSE status' = r.exc /\ UNCHANGED out
           /\ gi' = gi + 1 /\ UNCHANGED <<sc, pos, groups, printed>>
GPEnd == /\ Running("gplots") /\ pos = Len(sc.ms) /\ gi = Len(groups)
         /\ status' = "done" /\ UNCHANGED <<sc, pos, out, groups, gi, printed>>
\* ---- GroupScale(...)(group)
ScaleCall == /\ Running("scale")
             /\ LET r == ScaleSem(sc.cfg, sc.ms) IN
                IF r.ok THEN out' = <<[o |-> "grp", g |-> [members |-> Brief(r.ms)]]>> /\ status' = "done"
                ELSE status' = r.exc /\ UNCHANGED out
             /\ UNCHANGED <<sc, pos, groups, gi, printed>>
\* ---- MapGroup.run
MGStep == /\ Running("mapgroup") /\ pos < Len(sc.vals)
          /\ LET r == MapGroupOne(sc.q, sc.scal, sc.vals[pos + 1]) IN
             IF r.ok THEN out' = out \o r.out /\ UNCHANGED status
             ELSE status' = r.exc /\ UNCHANGED out
          /\ pos' = pos + 1 /\ UNCHANGED <<sc, groups, gi, printed>>
MGEnd == /\ Running("mapgroup") /\ pos = Len(sc.vals)
         /\ status' = "done" /\ UNCHANGED <<sc, pos, out, groups, gi, printed>>
\* ---- DropContext.run: the inner sequence pulls one value, the results get its context
DCStep == /\ Running("drop") /\ pos < Len(sc.ms)
          /\ out' = out \o DropRes(sc.q, sc.ms[pos + 1]) /\ pos' = pos + 1
          /\ UNCHANGED <<sc, groups, gi, printed, status>>
DCEnd == /\ Running("drop") /\ pos = Len(sc.ms)
         /\ status' = "done" /\ UNCHANGED <<sc, pos, out, groups, gi, printed>>
\* ---- Print() / Progress(): the value goes on unchanged, one line is printed
PassStep == /\ Running("pass") /\ pos < Len(sc.ms)
            /\ out' = Append(out, Val(sc.ms[pos + 1])) /\ printed' = printed + 1 /\ pos' = pos + 1
            /\ UNCHANGED <<sc, groups, gi, status>>
PassEnd == /\ Running("pass") /\ pos = Len(sc.ms)
           /\ status' = "done" /\ UNCHANGED <<sc, pos, out, groups, gi, printed>>
\* ---- get_data / get_context / get_data_context on one value
ShapeCall == /\ Running("shape")
             /\ out' = <<[o |-> "parts", data |-> DataPart(sc.sh), context |-> ContextPart(sc.sh)]>>
             /\ status' = "done" /\ UNCHANGED <<sc, pos, groups, gi, printed>>

Next == GPPass \/ GPTake \/ GPGroup \/ GPEnd \/ ScaleCall \/ MGStep \/ MGEnd \/ DCStep \/ DCEnd
        \/ PassStep \/ PassEnd \/ ShapeCall
Spec == Init /\ [][Next]_vars
Terminal == status # "run"

(***************************************************************************)
(* Properties.                                                             *)
(***************************************************************************)
TypeOK == /\ status \in {"run", "done", "LenaValueError", "LenaRuntimeError"} /\ pos >= 0 /\ gi <= Len(groups)
IsGP == sc.mode = "gplots"
Vals(o) == SelectSeq(o, LAMBDA x : x.o = "val")
Grps(o) == SelectSeq(o, LAMBDA x : x.o = "grp")
IdsOf(seq) == [i \in 1..Len(seq) |-> seq[i].id]
\* every selected value seen so far is in exactly one group, members in arrival order, one key per group
GroupsPartition == IsGP =>
  /\ \A i \in 1..pos : (IsSelected(sc.cfg, sc.ms[i]) /\ KeyOf(sc.cfg, sc.ms[i]) # "?") =>
        Cardinality({g \in 1..Len(groups) : \E j \in 1..Len(groups[g].ms) : groups[g].ms[j].id = i}) = 1
  /\ \A g \in 1..Len(groups) :
        /\ groups[g].ms # <<>>
        /\ \A j \in 1..Len(groups[g].ms) : KeyOf(sc.cfg, groups[g].ms[j]) = groups[g].key /\ IsSelected(sc.cfg, groups[g].ms[j])
        /\ \A j \in 1..(Len(groups[g].ms) - 1) : groups[g].ms[j].id < groups[g].ms[j + 1].id
  /\ \A g, g2 \in 1..Len(groups) : g # g2 => groups[g].key # groups[g2].key
\* unselected values pass unchanged and in order; with yield_selected every value is yielded as it came
PassThrough == IsGP =>
  LET want == SelectSeq(SubSeq(sc.ms, 1, pos), LAMBDA m : sc.cfg.ys \/ ~IsSelected(sc.cfg, m)) IN
  Vals(out) = [i \in 1..Len(want) |-> Val(want[i])]
\* a yielded group: members of one key in arrival order; context.group = their contexts; the rest of
\* the context = intersection of the members' contexts + output.changed = any member changed
GroupContexts == IsGP =>
  \A n \in 1..Len(Grps(out)) :
    LET g == Grps(out)[n].g  cs == g.group IN
    /\ Len(g.members) = Len(cs) /\ Len(cs) > 0
    /\ Del(g.common, "output") = Del(InterAll(cs), "output")
    /\ Changed(g.common) = (IF AnyChanged(cs) THEN LTrue ELSE LFalse)
    /\ \A p \in Paths(InterAll(cs)) : p # <<"output", "changed">> => At(g.common, p) = At(InterAll(cs), p)
    /\ \A j \in 1..(Len(g.members) - 1) : (g.members[j].id % 100) < (g.members[j + 1].id % 100)
\* with a numeric scale every member of a yielded group that can be rescaled has that scale
ScaledToNumber == (IsGP /\ sc.cfg.scale = "num") =>
  \A n \in 1..Len(Grps(out)) : \A j \in 1..Len(Grps(out)[n].g.members) : Grps(out)[n].g.members[j].s = Target
\* GroupScale: all members get the scale of the unique reference member, or nothing is returned
ScaleToReference == (sc.mode = "scale" /\ status = "done" /\ sc.cfg.to = "ref") =>
  /\ Cardinality(Cands(sc.ms)) = 1
  /\ LET r == sc.ms[CHOOSE i \in Cands(sc.ms) : TRUE] IN
     \A j \in 1..Len(sc.ms) : \/ out[1].g.members[j].s = r.s
                              \/ (Scalable(sc.ms[j]) = "zero" /\ sc.cfg.az /\ out[1].g.members[j].s = 0)
                              \/ (Scalable(sc.ms[j]) = "unknown" /\ sc.cfg.au /\ out[1].g.members[j].s = sc.ms[j].s)
ScaleErrors == (sc.mode = "scale" /\ Terminal) =>
  ((status = "LenaValueError") <=>
     \/ (sc.cfg.to = "ref" /\ (Cardinality(Cands(sc.ms)) # 1 \/ Scalable(sc.ms[CHOOSE i \in Cands(sc.ms) : TRUE]) = "unknown"))
     \/ \E j \in 1..Len(sc.ms) : (Scalable(sc.ms[j]) = "zero" /\ ~sc.cfg.az) \/ (Scalable(sc.ms[j]) = "unknown" /\ ~sc.cfg.au))
\* MapGroup: scalars are passed or mapped; a group stays a group of the same size whose context.group
\* holds the new member contexts; True wins for output.changed
MapGroupShape == (sc.mode = "mapgroup" /\ status = "done") =>
  /\ (~sc.scal) => \A i \in 1..Len(sc.vals) : ~sc.vals[i].grp => \E j \in 1..Len(out) : out[j] = sc.vals[i]
  /\ \A j \in 1..Len(out) : out[j].grp =>
        /\ \E i \in 1..Len(sc.vals) : sc.vals[i].grp /\ Len(sc.vals[i].ms) = Len(out[j].ms)
        /\ AnyChanged(Ctxs(out[j].ms)) => Changed(out[j].common) = LTrue
\* DropContext: every result carries the context of the value it was computed from (+ what the inner added)
DropContexts == (sc.mode = "drop") =>
  /\ out = DropSem(sc.q, SubSeq(sc.ms, 1, pos))
  /\ \A j \in 1..Len(out) : LET src == sc.ms[out[j].id % 100] IN
        out[j].c = (IF sc.q = "addc" THEN Upd(src.c, NewC) ELSE src.c)
\* Print / Progress: identity and order, one line per value
PassIdentity == (sc.mode = "pass") => (out = [i \in 1..pos |-> Val(sc.ms[i])] /\ printed = pos)
\* a value is a pair exactly when get_data and get_context split it
ShapeLaw == (sc.mode = "shape" /\ status = "done") =>
  ((out[1].data = "first") <=> (out[1].context = "second")) /\ ((out[1].data = "first") <=> IsPair(sc.sh))

\* operational = declarative
OpEqDecl == Terminal =>
  CASE sc.mode = "gplots" -> LET e == GPRunSem(sc.cfg, sc.ms) IN
                             Vals(out) = e.vals /\ Grps(out) = e.grps /\ status = e.status
    [] sc.mode = "mapgroup" -> LET e == MapGroupSem(sc.q, sc.scal, sc.vals) IN
                               status = e.status /\ (status = "done" => out = e.out)
    [] sc.mode = "drop" -> out = DropSem(sc.q, sc.ms)
    [] OTHER -> TRUE
\* values are yielded before the groups
ValsBeforeGroups == IsGP => \A i, j \in 1..Len(out) : (out[i].o = "grp" /\ out[j].o = "val") => j < i

(***************************************************************************)
(* Export (S2C): one record per terminal state.                            *)
(***************************************************************************)
Emitted == Terminal => PrintT(ToJson([sc |-> sc, out |-> out, status |-> status, printed |-> printed]))
=============================================================================
