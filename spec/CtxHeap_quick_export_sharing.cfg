SPECIFICATION Spec
CONSTANTS
  K = {"a", "b"}
  NC = 2
  Variant = "lena"
  Kinds <- KindsQuickSharing
INVARIANT Emit
CHECK_DEADLOCK FALSE
