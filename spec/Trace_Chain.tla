---------------------------- MODULE Trace_Chain ----------------------------
(***************************************************************************)
(* Validation of behaviour recorded from the real lena.flow.Chain over     *)
(* iterables that depend on each other (beyond the bounds of ChainLazy's   *)
(* exhaustive model) against the reference of ChainRef.tla.  One record    *)
(* per step:                                                               *)
(*   [kinds, lens, out, err, log]   kinds / lens of the iterables, values  *)
(*                                  delivered, exception that ended the    *)
(*                                  chain ("none"), final content of the   *)
(*                                  shared container                       *)
(***************************************************************************)
EXTENDS ChainRef, TLC, Json, IOUtils

Trace == JsonDeserialize(IOEnv.TRACE_FILE)
VARIABLE i
Ok(r) == /\ r.out = ChainDynRef(r.kinds, r.lens)
         /\ r.err = ChainDynErr(r.kinds)
         /\ r.log = ChainDynLog(r.kinds, r.lens)
Init == i = 1
Next == i <= Len(Trace) /\ Ok(Trace[i]) /\ i' = i + 1
Spec == Init /\ [][Next]_i
Accepted == /\ PrintT(<<"ACCEPTED", TLCGet("stats").diameter - 1>>)
            /\ TLCGet("stats").diameter - 1 = Len(Trace)
=============================================================================
