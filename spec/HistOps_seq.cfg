SPECIFICATION Spec
CONSTANTS MaxOps = 5
  HistChoices <- HistsSeq
  Targets <- TargetsSeq
  NevTargets <- NevSeq
  AddWeights <- WeightsSeq
  SeqOnly = TRUE
VIEW view
INVARIANT TypeOK
PROPERTY ScaleExact
PROPERTY ScaleRecomputed
PROPERTY ZeroScaleRaises
PROPERTY GetScalePure
PROPERTY NeventsSet
PROPERTY AllowZeroSkips
PROPERTY NeventsZeroRaises
PROPERTY ToGraphScalePure
PROPERTY HeldFrozen
PROPERTY AddCellwise
PROPERTY AddOnlyEqualEdges
PROPERTY AddPure
PROPERTY AddIntoFresh
INVARIANT CacheHonest
PROPERTY AddNegZero
PROPERTY AddTolDoc
PROPERTY RuleAgrees
CHECK_DEADLOCK FALSE
