------------------------------ MODULE HistSem ------------------------------
(***************************************************************************)
(* Histogram cells and filling, lena.structures.histogram.                 *)
(*                                                                         *)
(* No constants or variables: shared by Histogram.tla, BinSearch.tla,      *)
(* Trace_Histogram.tla, Trace_BinSearch.tla (C06) and the C12 modules.     *)
(*                                                                         *)
(* Numbers.  The specification only *compares* edges and coordinates, so   *)
(* both live on one integer scale (grid points / ranks); the harness maps  *)
(* that scale to ints and floats by strictly monotone embeddings           *)
(* (DESIGN.md 3.1).  Weights and contents are integers (the harness uses   *)
(* dyadic multiples, whose sums are exact in floating point).              *)
(*                                                                         *)
(* Edges E: a sequence (one entry per dimension) of strictly increasing    *)
(* sequences.  Bins: nested sequences exactly like the nested lists of the *)
(* code (bins[i][j][k], x first).  Indices are 0-based as in Python.       *)
(***************************************************************************)
EXTENDS Integers, Sequences, FiniteSets

(***************************************************************************)
(* Declarative part, written from the documentation.                       *)
(***************************************************************************)
\* "the bin index reported for a value equals the number of edges not greater than it, minus one"
\* (-1 = underflow, Len(e)-1 = overflow: docstring of get_bin_on_value)
Idx(x, e) == Cardinality({j \in 1..Len(e) : e[j] <= x}) - 1
NB(e) == Len(e) - 1                                   \* number of bins along an axis
Increasing(e) == Len(e) >= 2 /\ \A j \in 1..(Len(e) - 1) : e[j] < e[j + 1]
AllIncreasing(E) == Len(E) >= 1 /\ \A d \in 1..Len(E) : Increasing(E[d])
MaxOf(S) == CHOOSE m \in S : \A x \in S : x <= m
MinOf(S) == CHOOSE m \in S : \A x \in S : m <= x
RECURSIVE Sorted(_)
Sorted(S) == IF S = {} THEN <<>> ELSE LET m == MinOf(S) IN <<m>> \o Sorted(S \ {m})
\* all strictly increasing sequences over the set S with lengths in lens
IncSeqs(S, lens) == {Sorted(T) : T \in {U \in SUBSET S : Cardinality(U) \in lens}}
\* all cell indices of a histogram with edges E
Cells(E) == LET m == MaxOf({NB(E[d]) : d \in 1..Len(E)})
            IN {s \in [1..Len(E) -> 0..(m - 1)] : \A d \in 1..Len(E) : s[d] < NB(E[d])}
\* "lower bin edge is included, upper edge is excluded"
Inside(c, cell, E) == \A d \in 1..Len(E) : E[d][cell[d] + 1] <= c[d] /\ c[d] < E[d][cell[d] + 2]
CellsOf(c, E) == {cell \in Cells(E) : Inside(c, cell, E)}

RECURSIVE GetFrom(_, _, _)
GetFrom(b, cell, d) == IF d > Len(cell) THEN b ELSE GetFrom(b[cell[d] + 1], cell, d + 1)
Get(b, cell) == GetFrom(b, cell, 1)
RECURSIVE ShapeOK(_, _, _)
ShapeOK(b, E, d) == /\ Len(b) = NB(E[d])
                    /\ d < Len(E) => \A j \in 1..Len(b) : ShapeOK(b[j], E, d + 1)
RECURSIVE SumSeq(_)
SumSeq(s) == IF Len(s) = 0 THEN 0 ELSE s[1] + SumSeq(Tail(s))
RECURSIVE SumB(_, _)
\* sum of all cells of bins nested k deep
SumB(b, k) == IF k = 0 THEN b ELSE SumSeq([j \in 1..Len(b) |-> SumB(b[j], k - 1)])

\* What the documentation says one fill(c, w) does to (bins b1, n_out_of_range o1):
\* the weight goes to exactly the one cell containing c, or to n_out_of_range; nothing else changes.
FillRefOK(b1, o1, b2, o2, E, c, w) ==
  LET cs == CellsOf(c, E) IN
  /\ Cardinality(cs) <= 1
  /\ ShapeOK(b2, E, 1)
  /\ \A cell \in Cells(E) : Get(b2, cell) = Get(b1, cell) + (IF cell \in cs THEN w ELSE 0)
  /\ o2 = o1 + (IF cs = {} THEN w ELSE 0)

(***************************************************************************)
(* Operational part, written like the code.                                *)
(***************************************************************************)
\* hist_functions.init_bins
RECURSIVE InitBins(_, _, _)
InitBins(E, d, v) == [j \in 1..NB(E[d]) |-> IF d = Len(E) THEN v ELSE InitBins(E, d + 1, v)]
\* hist_functions.get_bin_on_value: the 1-d search per dimension (BinSearch.tla: the loop computes Idx)
IdxVec(c, E) == [d \in 1..Len(E) |-> Idx(c[d], E[d])]
Hit(v) == [ok |-> TRUE, v |-> v]
Miss == [ok |-> FALSE, v |-> <<>>]
\* histogram.fill: walk the nested lists along the indices; a negative index is an underflow,
\* an IndexError an overflow
RECURSIVE Walk(_, _, _, _)
Walk(sub, inds, d, w) ==
  LET i == inds[d] IN
  IF i < 0 THEN Miss
  ELSE IF i >= Len(sub) THEN Miss
  ELSE IF d = Len(inds) THEN Hit([sub EXCEPT ![i + 1] = @ + w])
  ELSE LET r == Walk(sub[i + 1], inds, d + 1, w)
       IN IF r.ok THEN Hit([sub EXCEPT ![i + 1] = r.v]) ELSE Miss
FillOp(b, o, E, c, w) ==
  LET r == Walk(b, IdxVec(c, E), 1, w)
  IN IF r.ok THEN [bins |-> r.v, oor |-> o] ELSE [bins |-> b, oor |-> o + w]

(***************************************************************************)
(* The loop body of get_bin_on_value_1d as one function of the guess g     *)
(* (BinSearch.tla: its actions are this function for some g in lo..hi;     *)
(* Trace_BinSearch.tla: iterations recorded from the real function).       *)
(***************************************************************************)
None == -1000
At(a, i) == a[i + 1]                       \* Python arr[i]
Ret(r) == [done |-> TRUE, res |-> r, lo |-> 0, hi |-> 0]
Cont(l, u) == [done |-> FALSE, res |-> None, lo |-> l, hi |-> u]
Body(a, v, l, u, g) ==
  IF u - l <= 1 THEN Ret(IF v < At(a, l) THEN l - 1 ELSE IF v >= At(a, u) THEN u ELSE l)
  ELSE IF v = At(a, l) THEN Ret(l)
  ELSE IF v < At(a, l) THEN Ret(l - 1)
  ELSE IF v >= At(a, u) THEN Ret(u)
  ELSE IF g = l THEN Cont(l + 1, u)
  ELSE IF g = u THEN Cont(l, u - 1)
  ELSE IF v < At(a, g) THEN Cont(l, g) ELSE Cont(g, u)

=============================================================================
