----------------------------- MODULE GraphStruct -----------------------------
(***************************************************************************)
(* X04: the `graph` structure (lena/structures/graph.py), hist_to_graph's  *)
(* options and the documented part of the deprecated `Graph`.              *)
(* (graph.scale(other) and get_coordinate are C12 - Graph.tla/Convert.tla) *)
(*                                                                         *)
(* Field names are sequences of tokens (the harness joins them with "_"):  *)
(* "error_x_low" = <<"error", "x", "low">>.  A field is an error field iff *)
(* it starts with "error_".  From the docstring: field names are unique,   *)
(* as many as coords; error fields go after all coordinate fields; the     *)
(* name of a coordinate error is "error_" + coordinate name, details are   *)
(* appended after "_"; dim = number of fields without errors; wrong        *)
(* arguments raise LenaTypeError or LenaValueError.                        *)
(*                                                                         *)
(* Operational part: Construct runs the checks in the order and with the   *)
(* loops of __init__ / _parse_error_names (flag in_error_fields, index of  *)
(* the last coordinate, the set of names before it, one pass per error     *)
(* collecting the matching coordinates); Iterate zips the columns; UpdCtx  *)
(* walks the first three coordinate names; AddSame builds the sum;         *)
(* H2G appends cell by cell; the deprecated Graph sorts on read.           *)
(* Declarative part: Problems / DocErrs / DocDim / CtxRef / AddRef /       *)
(* H2GRef / DG references written from the docstrings.                     *)
(***************************************************************************)
EXTENDS Naturals, Integers, Sequences, FiniteSets, TLC, Json

CONSTANTS MaxFields,        \* longest tuple of field names enumerated completely
          CoordNames,       \* coordinate names (token sequences)
          Tails,            \* error details (token sequences, <<>> = none)
          Deep              \* TRUE: also operations on every valid graph with MaxFields fields

None == -1000
ERR == "error"
\* universes used by the configurations: "x_y" next to "x" and "y" makes error_x_y ambiguous, a coordinate may be
\* called "error", a detail may look like a coordinate name
\* ("xy" has the string prefix "x" but is another token: startswith(coord + "_") must not confuse them)
CoordNamesQ == {<<"x">>, <<"y">>, <<"x", "y">>, <<"error">>, <<"xy">>}
TailsQ == {<<>>, <<"low">>, <<"y">>}
TE == "LenaTypeError"
VE == "LenaValueError"
AE == "LenaAttributeError"

IsErr(f) == Len(f) >= 2 /\ f[1] = ERR
Main(f) == SubSeq(f, 2, Len(f))                    \* all after "error_"
IsPrefix(c, m) == Len(m) >= Len(c) /\ SubSeq(m, 1, Len(c)) = c
Owns(c, f) == IsErr(f) /\ IsPrefix(c, Main(f))      \* err_main == coord or startswith(coord + "_")
TailOf(c, f) == SubSeq(Main(f), Len(c) + 1, Len(Main(f)))
ErrFields == {<<ERR>> \o c \o t : c \in CoordNames, t \in Tails}
Fields == CoordNames \cup ErrFields
RECURSIVE Tuples(_)
Tuples(n) == IF n = 0 THEN {<<>>} ELSE LET P == Tuples(n - 1) IN
             P \cup {Append(p, f) : p \in {x \in P : Len(x) = n - 1}, f \in Fields}
Range(s) == {s[k] : k \in 1..Len(s)}
Min(S) == CHOOSE x \in S : \A y \in S : x <= y
Max(S) == CHOOSE x \in S : \A y \in S : x >= y

(***************************************************************************)
(* Scenario of a construction:                                             *)
(*   names  field names; nform "tuple" | "str" | "list"                    *)
(*   nc     number of coordinate arrays; lens "eq" (all of length 2),      *)
(*          "zero" (all empty), "uneq" (the last one is longer)            *)
(*   cform  "list" | "tuple"  (type of the outer container of coords)      *)
(*   scale  None | number                                                  *)
(***************************************************************************)
Cell(col, row) == 10 * col + row
ColLen(sc, j) == IF sc.lens = "zero" THEN 0 ELSE IF sc.lens = "uneq" /\ j = sc.nc THEN 3 ELSE 2
Coords(sc) == [j \in 1..sc.nc |-> [r \in 1..ColLen(sc, j) |-> Cell(j, r)]]

\* ---- declarative: what the documentation calls incorrect, with the exception classes it allows
CoordFields(names) == {k \in 1..Len(names) : ~IsErr(names[k])}
ErrIdx(names) == {k \in 1..Len(names) : IsErr(names[k])}
Ordered(names) == \A a \in ErrIdx(names) : \A b \in CoordFields(names) : b < a
Owners(names, k) == {c \in CoordFields(names) : Owns(names[c], names[k])}
Problems(sc) ==
    (IF sc.cform # "list" THEN {TE, VE} ELSE {})
    \cup (IF sc.nc = 0 THEN {VE} ELSE {})
    \cup (IF sc.lens = "uneq" /\ sc.nc >= 2 THEN {VE} ELSE {})
    \cup (IF sc.nform = "list" THEN {TE} ELSE {})
    \cup (IF sc.nform # "list" /\ Len(sc.names) # sc.nc THEN {VE} ELSE {})
    \cup (IF Cardinality(Range(sc.names)) # Len(sc.names) THEN {VE} ELSE {})
    \cup (IF ~Ordered(sc.names) THEN {VE} ELSE {})
    \cup (IF \E k \in ErrIdx(sc.names) : Owners(sc.names, k) = {} THEN {VE} ELSE {})
\* the documentation does not say what happens when an error name fits several coordinates
Ambiguous(sc) == \E k \in ErrIdx(sc.names) : Cardinality(Owners(sc.names, k)) > 1
DocDim(names) == Cardinality(CoordFields(names))
\* parsed errors: [owner (coordinate field index), tail, index], python indices (from 0)
DocErrs(names) == {[owner |-> (CHOOSE c \in Owners(names, k) : TRUE) - 1, tail |-> TailOf(names[CHOOSE c \in Owners(names, k) : TRUE], names[k]),
                    index |-> k - 1] : k \in ErrIdx(names)}

\* ---- operational: graph.__init__ and _parse_error_names
PyParse(names) ==
    LET n == Len(names)
        \* first loop: errors collected, coordinates must not follow errors
        BadOrder == \E k \in 1..n : ~IsErr(names[k]) /\ \E a \in 1..(k - 1) : IsErr(names[a])
        Last == IF CoordFields(names) = {} THEN 1 ELSE Max(CoordFields(names))      \* last_coord_ind (from 1)
        CSet == {names[k] : k \in 1..Last}                                          \* set(field_names[:last+1])
        Match(k) == {c \in CSet : Owns(c, names[k])}
    IN  IF BadOrder THEN [ok |-> FALSE, exc |-> VE]
        ELSE IF \E k \in ErrIdx(names) : Match(k) = {} THEN [ok |-> FALSE, exc |-> VE]
        ELSE IF \E k \in ErrIdx(names) : Cardinality(Match(k)) > 1 THEN [ok |-> FALSE, exc |-> VE]
        ELSE [ok |-> TRUE,
              errs |-> {[owner |-> (CHOOSE c \in 1..n : names[c] = (CHOOSE m \in Match(k) : TRUE)) - 1,
                         tail |-> TailOf(CHOOSE m \in Match(k) : TRUE, names[k]), index |-> k - 1] : k \in ErrIdx(names)}]
PyConstruct(sc) ==
    IF sc.cform # "list" THEN [ok |-> FALSE, exc |-> TE]      \* (the documented behaviour; the code asserts)
    ELSE IF sc.nc = 0 THEN [ok |-> FALSE, exc |-> VE]
    ELSE IF \E j \in 2..sc.nc : ColLen(sc, j) # ColLen(sc, 1) THEN [ok |-> FALSE, exc |-> VE]
    ELSE IF sc.nform = "list" THEN [ok |-> FALSE, exc |-> TE]
    ELSE IF Len(sc.names) # sc.nc THEN [ok |-> FALSE, exc |-> VE]
    ELSE IF Cardinality(Range(sc.names)) # Len(sc.names) THEN [ok |-> FALSE, exc |-> VE]
    ELSE LET p == PyParse(sc.names) IN
         IF ~p.ok THEN p
         ELSE [ok |-> TRUE, errs |-> p.errs, dim |-> Len(sc.names) - Cardinality(p.errs)]

(***************************************************************************)
(* Operations on a constructed graph g = [names, coords, scale, dim, errs] *)
(***************************************************************************)
NPts(g) == Len(g.coords[1])
\* operational: for val in zip(*coords)
RECURSIVE ZipFrom(_, _)
ZipFrom(cs, r) == IF r > Min({Len(cs[j]) : j \in 1..Len(cs)}) THEN <<>>
                  ELSE <<[j \in 1..Len(cs) |-> cs[j][r]]>> \o ZipFrom(cs, r + 1)
\* declarative: the r-th point has the r-th entry of every column
PointsRef(g) == [r \in 1..NPts(g) |-> [j \in 1..Len(g.coords) |-> g.coords[j][r]]]

XYZ == <<"x", "y", "z">>
\* operational: for name, coord in zip(["x","y","z"], coord_names[:3]): for err in parsed: if err[1] == coord ...
PyCtx(g) == UNION {{[key |-> <<XYZ[k]>> \o e.tail, index |-> e.index] : e \in {x \in g.errs : g.names[x.owner + 1] = g.names[k]}}
                   : k \in 1..Min({3, g.dim})}
\* declarative: an error field of one of the first three coordinates is entered under x / y / z (+ "_" + details)
CtxRef(g) == {[key |-> <<XYZ[e.owner + 1]>> \o e.tail, index |-> e.index] : e \in {x \in g.errs : x.owner < 3}}

\* add: "Add last (highest) coordinates of two graphs.  A new graph is returned.  Error fields are ignored."
Other(g, sc2) == [g EXCEPT !.coords = [j \in 1..Len(g.coords) |-> [r \in 1..NPts(g) |-> g.coords[j][r] + 100]], !.scale = sc2]
PyAdd(g, o) == [names |-> SubSeq(g.names, 1, g.dim),
                coords |-> [j \in 1..g.dim |-> IF j < g.dim THEN g.coords[j]
                                                ELSE [r \in 1..NPts(g) |-> g.coords[g.dim][r] + o.coords[g.dim][r]]]]
AddRef(g, o, res) == /\ res.names = SubSeq(g.names, 1, g.dim)
                     /\ Len(res.coords) = g.dim
                     /\ \A j \in 1..(g.dim - 1) : res.coords[j] = g.coords[j]
                     /\ \A r \in 1..NPts(g) : res.coords[g.dim][r] = g.coords[g.dim][r] + o.coords[g.dim][r]

\* equality: "equal, if and only if they have equal coordinates, field names and scales; not a graph -> False"
EqVariants == {"same", "scale", "names", "coords", "nongraph"}
EqRef(v) == v = "same"

(***************************************************************************)
(* hist_to_graph(hist, make_value, get_coordinate, field_names, scale)     *)
(* hist: 1 or 2 axes, edges e_k = k * step(axis), content of the c-th cell *)
(* (first axis outermost) = 3 + c.  make_value kinds: none, double,        *)
(* pair (b, b+1), triple (b, b+1, b+2).                                    *)
(***************************************************************************)
MV(kind, b) == CASE kind = "none" -> <<b>> [] kind = "double" -> <<2 * b>>
                 [] kind = "pair" -> <<b, b + 1>> [] OTHER -> <<b, b + 1, b + 2>>
AxStep(a) == a + 1
HCells(nb) == IF Len(nb) = 1 THEN [c \in 1..nb[1] |-> <<c - 1>>]
              ELSE [c \in 1..(nb[1] * nb[2]) |-> <<(c - 1) \div nb[2], (c - 1) % nb[2]>>]       \* bin indices, axis 1 outermost
EdgeAt(a, k, side) == (IF side = "left" THEN k ELSE k + 1) * AxStep(a)
\* operational: coords = [[] for _ in field_names]; per cell: for arr, x in zip(coords, chain(coord, value)): arr.append(x)
RECURSIVE H2GLoop(_, _, _)
H2GLoop(h, c, acc) ==
    IF c > Len(HCells(h.nb)) THEN acc
    ELSE LET idx == HCells(h.nb)[c]
             row == [a \in 1..Len(h.nb) |-> EdgeAt(a, idx[a], h.side)] \o MV(h.mv, 3 + c)
         IN H2GLoop(h, c + 1, [j \in 1..Len(acc) |-> IF j <= Len(row) THEN Append(acc[j], row[j]) ELSE acc[j]])
H2GNames(h) == SubSeq(<<(<<"x">>), (<<"y">>)>>, 1, Len(h.nb)) \o
               SubSeq(<<(<<"v">>), (<<ERR, "v">>), (<<ERR, "v", "low">>)>>, 1, Len(MV(h.mv, 0)))
Integral(h) == LET cells == HCells(h.nb)
                   RECURSIVE S(_)
                   S(c) == IF c = 0 THEN 0 ELSE S(c - 1) + (3 + c) * (IF Len(h.nb) = 1 THEN AxStep(1) ELSE AxStep(1) * AxStep(2))
               IN S(Len(cells))
PyH2G(h) == [coords |-> H2GLoop(h, 1, [j \in 1..Len(H2GNames(h)) |-> <<>>]), names |-> H2GNames(h),
             scale |-> CASE h.sc = "none" -> None [] h.sc = "num" -> 5 [] OTHER -> Integral(h)]
\* declarative: one point per cell; its coordinates are the chosen edge of the bin on every axis, then the
\* components of make_value(content)
H2GRef(h, res) == /\ \A j \in 1..Len(res.coords) : Len(res.coords[j]) = Len(HCells(h.nb))
                  /\ \A c \in 1..Len(HCells(h.nb)) :
                        /\ \A a \in 1..Len(h.nb) : res.coords[a][c] = EdgeAt(a, HCells(h.nb)[c][a], h.side)
                        /\ \A v \in 1..Len(MV(h.mv, 0)) : res.coords[Len(h.nb) + v][c] = MV(h.mv, 3 + c)[v]
                  /\ Len(res.coords) = Len(h.nb) + Len(MV(h.mv, 0))
                  /\ (h.sc = "none" => res.scale = None) /\ (h.sc = "num" => res.scale = 5)
                  /\ (h.sc = "true" => res.scale = Integral(h))

(***************************************************************************)
(* Deprecated Graph(points, scale, sort): points are (coordinate, value)   *)
(* pairs; "sorted each time before return if sort"; assigning points       *)
(* raises AttributeError; scale() of an unknown scale raises               *)
(* LenaAttributeError; scale(other) returns a new Graph (values times      *)
(* other/scale, scale other), the original unchanged; zero scale cannot be *)
(* rescaled (LenaValueError); rows() are flat tuples.                      *)
(***************************************************************************)
DGPointSets == {<<>>, <<(<<2, 3>>)>>, <<(<<2, 3>>), (<<1, 5>>)>>, <<(<<3, 1>>), (<<1, 5>>), (<<2, 4>>)>>}
RECURSIVE Insert(_, _)
Insert(s, p) == IF s = <<>> THEN <<p>> ELSE IF p[1] < s[1][1] THEN <<p>> \o s ELSE <<s[1]>> \o Insert(Tail(s), p)
RECURSIVE SortPts(_)
SortPts(s) == IF s = <<>> THEN <<>> ELSE Insert(SortPts(Tail(s)), s[1])        \* operational: insertion sort
IsSortedPerm(s, t) == /\ Range(s) = Range(t) /\ Len(s) = Len(t)                   \* declarative
                      /\ \A a, b \in 1..Len(t) : a < b => t[a][1] <= t[b][1]
DGPoints(d) == IF d.sort THEN SortPts(d.pts) ELSE d.pts
DGOp(d, op, arg) ==
    CASE op = "points" -> [ok |-> TRUE, val |-> DGPoints(d)]
      [] op = "setpoints" -> [ok |-> FALSE, exc |-> "Other:AttributeError"]
      [] op = "rows" -> [ok |-> TRUE, val |-> DGPoints(d)]
      [] op = "scale" -> IF d.scale = None THEN [ok |-> FALSE, exc |-> AE] ELSE [ok |-> TRUE, val |-> d.scale]
      [] OTHER ->     \* rescale to arg (a multiple of the scale, so that the factor is a whole number)
            IF d.scale = None THEN [ok |-> FALSE, exc |-> AE]
            ELSE IF d.scale = 0 THEN [ok |-> FALSE, exc |-> VE]
            ELSE [ok |-> TRUE, val |-> [p \in 1..Len(d.pts) |-> <<DGPoints(d)[p][1], DGPoints(d)[p][2] * (arg \div d.scale)>>],
                  scale |-> arg]

(***************************************************************************)
(* The machine: pick a scenario, perform one construction and then one     *)
(* operation; every terminal state is exported and replayed on the code.   *)
(***************************************************************************)
VARIABLES part, sc, g, op, arg, res, phase
vars == <<part, sc, g, op, arg, res, phase>>

NameScen == [names : Tuples(MaxFields), nform : {"tuple"}, nc : {0}, lens : {"eq"}, cform : {"list"}, scale : {None}]
FixedNames == {<<(<<"x">>), (<<"y">>)>>, <<(<<"E">>), (<<"x", "y">>), (<<ERR, "E", "low">>)>>, <<(<<"x">>)>>}
ShapeScen == [names : FixedNames, nform : {"tuple", "str", "list"}, nc : 0..4, lens : {"eq", "zero", "uneq"},
              cform : {"list", "tuple"}, scale : {None, 0, 2}]
HScen == [nb : {<<1>>, <<2>>, <<3>>, <<1, 1>>, <<2, 1>>, <<2, 2>>, <<1, 3>>}, side : {"left", "right"},
          mv : {"none", "double", "pair", "triple"}, sc : {"none", "num", "true"}]
DGScen == [pts : DGPointSets, sort : BOOLEAN, scale : {None, 0, 2}]

Init == /\ \/ part = "graph" /\ \E s \in NameScen : sc = [s EXCEPT !.nc = Len(s.names)]
           \/ part = "graph" /\ sc \in ShapeScen
           \/ part = "h2g" /\ sc \in HScen
           \/ part = "dgraph" /\ sc \in DGScen
        /\ g = <<>> /\ op = "none" /\ arg = "" /\ res = <<>> /\ phase = "new"

Construct == /\ phase = "new" /\ part = "graph"
             /\ LET r == PyConstruct(sc) IN
                /\ res' = r
                /\ g' = IF r.ok THEN [names |-> sc.names, coords |-> Coords(sc), scale |-> sc.scale, dim |-> r.dim, errs |-> r.errs]
                        ELSE <<>>
                \* operations only on a sample of the valid graphs unless Deep
                /\ phase' = IF r.ok /\ (Deep \/ Len(sc.names) < MaxFields \/ sc.nform # "tuple" \/ sc.scale # None) /\ sc.lens # "zero"
                            THEN "built" ELSE "done"
             /\ op' = "construct" /\ UNCHANGED <<part, sc, arg>>
Iterate == /\ phase = "built" /\ op' = "iter" /\ arg' = ""
           /\ res' = [ok |-> TRUE, val |-> ZipFrom(g.coords, 1)]
           /\ phase' = "done" /\ UNCHANGED <<part, sc, g>>
Equal(v) == /\ phase = "built" /\ op' = "eq" /\ arg' = v
            /\ res' = [ok |-> TRUE, val |-> (v = "same")]      \* coords == and _scale == and field_names ==
            /\ phase' = "done" /\ UNCHANGED <<part, sc, g>>
UpdCtx(c) == /\ phase = "built" /\ op' = "ctx" /\ arg' = c
             /\ res' = [ok |-> TRUE, val |-> PyCtx(g)]
             /\ phase' = "done" /\ UNCHANGED <<part, sc, g>>
AddSame(s2) == /\ phase = "built" /\ op' = "add" /\ arg' = s2
               /\ res' = [ok |-> TRUE, val |-> PyAdd(g, Other(g, s2))]
               /\ phase' = "done" /\ UNCHANGED <<part, sc, g>>
GetScale == /\ phase = "built" /\ op' = "scale" /\ arg' = ""
            /\ res' = [ok |-> TRUE, val |-> g.scale]
            /\ phase' = "done" /\ UNCHANGED <<part, sc, g>>
H2G == /\ phase = "new" /\ part = "h2g" /\ op' = "h2g" /\ arg' = ""
       /\ res' = [ok |-> TRUE, val |-> PyH2G(sc)]
       /\ phase' = "done" /\ UNCHANGED <<part, sc, g>>
DGraph(o, a) == /\ phase = "new" /\ part = "dgraph" /\ op' = o /\ arg' = a
                /\ res' = DGOp(sc, o, a)
                /\ phase' = "done" /\ UNCHANGED <<part, sc, g>>

Next == \/ Construct \/ Iterate \/ (\E v \in EqVariants : Equal(v)) \/ (\E c \in {"empty", "busy"} : UpdCtx(c))
        \/ (\E s2 \in {None, 3} : AddSame(s2)) \/ GetScale \/ H2G
        \/ (\E o \in {"points", "setpoints", "rows", "scale"} : DGraph(o, 0)) \/ (\E a \in {4, 6} : DGraph("rescale", a))
Spec == Init /\ [][Next]_vars

(***************************************************************************)
(* Properties: the code-like part meets the documentation                  *)
(***************************************************************************)
ConstructMeetsDoc ==
    (op = "construct") =>
        /\ (Problems(sc) # {} => ~res.ok /\ res.exc \in Problems(sc))
        /\ (Problems(sc) = {} /\ ~Ambiguous(sc) => res.ok /\ res.dim = DocDim(sc.names) /\ res.errs = DocErrs(sc.names))
        /\ (Problems(sc) = {} /\ Ambiguous(sc) => (~res.ok /\ res.exc = VE) \/ (res.ok /\ res.dim = DocDim(sc.names)))
ErrorsBelongToCoordinates ==
    (op = "construct" /\ res.ok) => \A e \in res.errs : e.owner < res.dim /\ e.index >= res.dim /\ e.index < Len(sc.names)
IterIsPoints == (op = "iter") => res.val = PointsRef(g)
CtxMeetsDoc == (op = "ctx") => res.val = CtxRef(g)
AddMeetsDoc == (op = "add") => AddRef(g, Other(g, arg), res.val)
H2GMeetsDoc == (op = "h2g") => H2GRef(sc, res.val) /\ res.val.names = H2GNames(sc)
DGSorted == (part = "dgraph" /\ op \in {"points", "rows"}) =>
                IF sc.sort THEN IsSortedPerm(sc.pts, res.val) ELSE res.val = sc.pts
DGRescale == (part = "dgraph" /\ op = "rescale" /\ res.ok) =>
                /\ Len(res.val) = Len(sc.pts) /\ res.scale = arg
                /\ \A p \in 1..Len(res.val) : res.val[p][2] * sc.scale = DGPoints(sc)[p][2] * arg /\ res.val[p][1] = DGPoints(sc)[p][1]

\* export of every terminal state (S2C)
Emitted == phase = "done" => PrintT(ToJson([part |-> part, sc |-> sc, op |-> op, arg |-> arg, res |-> res,
                                            allowed |-> IF part = "graph" /\ op = "construct" THEN Problems(sc) ELSE {},
                                            ambiguous |-> IF part = "graph" /\ op = "construct" THEN Ambiguous(sc) ELSE FALSE]))
=============================================================================
