SPECIFICATION Spec
CONSTANTS MaxLen = 3
  MaxRuns = 1
  Kinds = {"ToCSV", "HistToGraph", "ScaleTo"}
  ConvOpts = {"absent", "F"}
  Memory = "local"
INVARIANT ElementStateless
INVARIANT OneOutputPerValue
INVARIANT RowCount
CHECK_DEADLOCK FALSE
