SPECIFICATION Spec
CONSTANTS MaxOps = 2
  Tails = {"low", "high"}
  MaxErr = 2
  GScales <- ScalesShare
  Targets <- TargetsShare
  Share = TRUE
  Patterns = {1}
PROPERTY ScaleExact
PROPERTY UnknownScaleRaises
PROPERTY GetScalePure
PROPERTY RoundTrip
PROPERTY TwinUntouched
INVARIANT Emitted
CHECK_DEADLOCK FALSE
