------------------------ MODULE Trace_SplitIntoBins ------------------------
(***************************************************************************)
(* Validation of SplitIntoBins runs recorded from the real code on edges   *)
(* and flows beyond the exhaustive bounds (real-valued edges and           *)
(* coordinates are replaced by their ranks per dimension):                 *)
(*   [edges, form (how they were written), kind, flow, hists (nested bins of every histogram yielded), *)
(*    iter (edges of the cells IterateBins yields, sorted), hctx, vctx]    *)
(***************************************************************************)
EXTENDS SplitIntoBinsSem, IOUtils
Trace == JsonDeserialize(IOEnv.TRACE_FILE)
VARIABLE i
Ok(r) == LET hs == SIBSem(r.kind, r.edges, r.flow) IN
         /\ r.form \in Forms(Len(r.edges)) /\ AxesWritten(EdgesWritten(r.edges, r.form)) = r.edges
         /\ r.hists = [k \in 1..Len(hs) |-> Nest(hs[k], r.edges)]
         /\ (Len(hs) > 0) => r.hctx = HistCtxSem(r.edges, r.flow)      \* context of the histograms (without variable)
         /\ r.vctx = FlowCtxSem(r.kind, r.edges, r.flow)               \* contexts of the flow values afterwards
         /\ (Len(hs) > 0) => r.iter = [n \in 1..Len(CellSeq(r.edges)) |-> CellEdges(CellSeq(r.edges)[n], r.edges)]
Init == i = 1
Next == i <= Len(Trace) /\ Ok(Trace[i]) /\ i' = i + 1
Spec == Init /\ [][Next]_i
Accepted == /\ PrintT(<<"ACCEPTED", TLCGet("stats").diameter - 1>>)
            /\ TLCGet("stats").diameter - 1 = Len(Trace)
=============================================================================
