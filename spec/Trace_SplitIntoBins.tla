------------------------ MODULE Trace_SplitIntoBins ------------------------
(***************************************************************************)
(* Validation of SplitIntoBins runs recorded from the real code on edges   *)
(* and flows beyond the exhaustive bounds (real-valued edges and           *)
(* coordinates are replaced by their ranks per dimension):                 *)
(*   [edges, form (how they were written), kind, flow, hists (nested bins of every histogram yielded), *)
(*    iter (edges of the cells IterateBins yields, sorted), hctx, vctx,    *)
(*    errs (what fill() raised to its caller: [pos, exc]),                 *)
(*    has2, iter2 (one IterateBins element over this histogram and then    *)
(*    one of a second SplitIntoBins splitting by another variable "y" over *)
(*    hasn, nest (nested split: distinct chains context.bin / context.bins of the cells), *)
(*    the same edges: [var named in context.bin, edges] of every cell)]    *)
(***************************************************************************)
EXTENDS SplitIntoBinsSem, IOUtils
Trace == JsonDeserialize(IOEnv.TRACE_FILE)
VARIABLE i
Iter2Sem(edges) == LET n == Len(CellSeq(edges)) IN
                   [j \in 1..(2 * n) |-> LET b == BinSem(CellSeq(edges)[((j - 1) % n) + 1], edges, IF j <= n THEN "x" ELSE "y") IN
                                         [var |-> b.var, e |-> b.e]]
\* NESTING: the analysis of every cell is itself SplitIntoBins (by "y", over the same edges) + IterateBins and the
\* outer histograms (split by "x") go through a second IterateBins: every cell it yields keeps what its own context
\* already said - the chain under context.bin is <<the outer cell in terms of x, the inner cell in terms of y>>,
\* the chain of variables under context.bins is <<x, y>> (update_nested: the previous value moves under the new one)
NestSem(edges) == {[bin |-> <<[var |-> "x", e |-> CellEdges(a, edges)], [var |-> "y", e |-> CellEdges(b, edges)]>>,
                    bins |-> <<"x", "y">>] : a \in {CellSeq(edges)[n] : n \in 1..Len(CellSeq(edges))},
                                              b \in {CellSeq(edges)[n] : n \in 1..Len(CellSeq(edges))}}
Ok(r) == LET hs == SIBSem(r.kind, r.edges, r.flow) IN
         /\ r.form \in Forms(Len(r.edges)) /\ AxesWritten(EdgesWritten(r.edges, r.form)) = r.edges
         /\ r.hists = [k \in 1..Len(hs) |-> Nest(hs[k], r.edges)]
         /\ r.errs = ErrsSem(r.edges, r.flow, Len(r.flow))             \* exceptions of the cells' analyses, of inside values only
         /\ (Len(hs) > 0) => r.hctx \in HistCtxSet(r.edges, r.flow)   \* context of the histograms (without variable)
         /\ r.vctx = FlowCtxSem(r.kind, r.edges, r.flow)               \* contexts of the flow values afterwards
         /\ (Len(hs) > 0) => r.iter = [n \in 1..Len(CellSeq(r.edges)) |-> CellEdges(CellSeq(r.edges)[n], r.edges)]
         /\ r.iter2 = (IF r.has2 THEN Iter2Sem(r.edges) ELSE <<>>)
         /\ (r.hasn /\ Len(r.nest) > 0) => {r.nest[k] : k \in 1..Len(r.nest)} = NestSem(r.edges)
Init == i = 1
Next == i <= Len(Trace) /\ Ok(Trace[i]) /\ i' = i + 1
Spec == Init /\ [][Next]_i
Accepted == /\ PrintT(<<"ACCEPTED", TLCGet("stats").diameter - 1>>)
            /\ TLCGet("stats").diameter - 1 = Len(Trace)
=============================================================================
