SPECIFICATION Spec
CONSTANTS MaxLen = 3 MaxN = 4 Infinite = FALSE MaxOut = 100
  Vals = "nat" Stops = FALSE MaxRuns = 1 MaxLead = 0
  Alphabet <- AlphaC01
  Must <- NoMust
  Pairs <- Both
INVARIANT OpEqDen
INVARIANT OutIsPrefix
INVARIANT EmptyIsIdentity
INVARIANT BadRejectedAtBuild
INVARIANT Regroup
INVARIANT NoWorkBeforeDemand
INVARIANT NoDataInvisible
INVARIANT SliceIsPySlice
CHECK_DEADLOCK FALSE
