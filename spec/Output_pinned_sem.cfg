SPECIFICATION Spec
CONSTANTS
  Plans <- PlansPinnedSem
  CreatedSetsChanged = FALSE
  AutoReload = TRUE
  KeepHistory = FALSE
VIEW view
INVARIANT TypeOK
INVARIANT SemOK
INVARIANT AbsentFlagRedone
INVARIANT AbsentFlagCurrent
INVARIANT NoRedo
INVARIANT NoRedoPlot
INVARIANT SkippedUntouched
CHECK_DEADLOCK FALSE
