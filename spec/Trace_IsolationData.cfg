SPECIFICATION TSpec
POSTCONDITION Accepted
CHECK_DEADLOCK FALSE
