SPECIFICATION FairSpec
CONSTANTS MaxLen = 3 MaxN = 0 Infinite = TRUE MaxOut = 100
  Vals = "nat" Stops = FALSE MaxRuns = 1 MaxLead = 0
  Alphabet <- AlphaLive
  Must <- NoMust
  Pairs <- OnlyPairs
PROPERTY TerminatesIfSliced
CONSTRAINT Bounded
CHECK_DEADLOCK FALSE
