SPECIFICATION FairSpec
CONSTANTS MaxLen = 3 MaxN = 0 Infinite = TRUE MaxOut = 100
  Alphabet <- AlphaLive
  Pairs <- OnlyPairs
PROPERTY TerminatesIfSliced
CONSTRAINT Bounded
CHECK_DEADLOCK FALSE
