SPECIFICATION Spec
CONSTANTS MaxN = 2
  LenProfiles <- LensQuick
  Forms <- FormsQuick
  StopKinds = {"close"}
  Scenarios <- ScenQuick
  KeepHistory = TRUE
  Design = "rename"
VIEW view
CHECK_DEADLOCK FALSE
ACTION_CONSTRAINT EmitEdge
