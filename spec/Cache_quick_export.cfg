SPECIFICATION Spec
CONSTANTS MaxN = 2
  LenProfiles <- LensQuick
  Forms <- FormsQuick
  StopKinds = {"close"}
  Scenarios <- ScenQuick
  Reruns = {FALSE, TRUE}
  RerunScenarios <- ScenRerunQuick
  RerunLens <- LensRerunQuick
  RerunForms <- FormsRerunQuick
  KeepHistory = TRUE
  Design = "rename"
VIEW view
CHECK_DEADLOCK FALSE
ACTION_CONSTRAINT EmitEdge
