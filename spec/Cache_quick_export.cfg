SPECIFICATION Spec
CONSTANTS MaxN = 2
  LenProfiles <- LensQuick
  Forms = {"seq", "source", "seq_calter", "source_calter", "seq_malter", "source_malter"}
  StopKinds = {"close", "abandon"}
  Scenarios <- ScenQuick
  KeepHistory = TRUE
  Design = "rename"
VIEW view
CHECK_DEADLOCK FALSE
ACTION_CONSTRAINT EmitEdge
