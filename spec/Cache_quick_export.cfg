SPECIFICATION Spec
CONSTANTS MaxN = 2
  DataProfiles <- DataQuick
  Forms <- FormsQuick
  StopKinds = {"close", "keep"}
  Scenarios <- ScenQuick
  Reruns = {FALSE, TRUE}
  RerunScenarios <- ScenRerunQuick
  RerunData <- DataRerunQuick
  RerunForms <- FormsRerunQuick
  Holds = {TRUE}
  HoldScenarios <- ScenHoldQuick
  HoldData <- DataHoldQuick
  HoldForms <- FormsHoldQuick
  HoldRc = {FALSE}
  Muts = {TRUE}
  MutScenarios <- ScenMutQuick
  MutData <- DataMutQuick
  MutForms <- FormsMutQuick
  MutRc = {FALSE}
  MaxRep = 2
  KeepHistory = TRUE
  Design = "rename"
VIEW view
CHECK_DEADLOCK FALSE
ACTION_CONSTRAINT EmitEdge
