SPECIFICATION Spec
CONSTANTS MaxPre = 2 MaxN = 3
  PreAlphabet <- AlphaVars
  Accs <- AccsVars
  Posts <- PostsVars
  FlowKinds = {"ctx"}
  Drivers = {"fill"}
  Places = {"alone"}
  StopFlag = "per_branch"
  CopyMode = "per_branch"
  AdapterHides = TRUE
  VarCopy = "per_value"
  Bufs <- BufOne
INVARIANT DriversAgree
INVARIANT FillReaches
INVARIANT StopSound
INVARIANT ComputeOnce
INVARIANT BufBound
INVARIANT Emitted
CHECK_DEADLOCK FALSE
