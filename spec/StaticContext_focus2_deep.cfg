SPECIFICATION Spec
CONSTANTS MaxTok = 6 MaxDepth = 3
  Leaves <- LeavesFocus2b
  RootKinds <- AllRoots
  StoreByCopy = TRUE
  TailKeepsSets = TRUE
INVARIANT SeenIsExpected
INVARIANT PrefixOnly
INVARIANT SiblingIndependent
INVARIANT RootExpected
INVARIANT NoLeakToRuntime
INVARIANT Emitted
PROPERTY Causal
PROPERTY RunKeepsStatic
CHECK_DEADLOCK FALSE
