SPECIFICATION Spec
CONSTANTS
  Scenarios <- ScQuick
INVARIANT BuildIsRef
INVARIANT FlatIsRef
INVARIANT ClassIsRef
CHECK_DEADLOCK FALSE
