SPECIFICATION RSpec
POSTCONDITION Accepted
CHECK_DEADLOCK FALSE
