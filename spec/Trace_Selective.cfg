SPECIFICATION TSpec
CONSTANTS MaxA = 0 MaxB = 0 MaxFan = 0
  AsyncModes = {FALSE}
  Repeats = FALSE Cuts = FALSE
INVARIANT TypeOK
INVARIANT UnselIdentityOrder
INVARIANT SelIndependent
INVARIANT NoFsForUnsel
POSTCONDITION Accepted
CHECK_DEADLOCK FALSE
