SPECIFICATION Spec
CONSTANTS MaxBr = 2 MaxN = 3 CopyMode = "deep"
  BufSizes <- BufAll
  FillBr = 3
  ExtraBr = 2
  Shapes <- QuickShapes
  Classes <- QuickClasses
  FillTemplates <- FillFew
  Templates <- AllTemplates
INVARIANT Emitted
CHECK_DEADLOCK FALSE
