SPECIFICATION Spec
CONSTANTS MaxRuns = 3
  DataSets <- DataExport3
  BranchLists <- BrExport3
  BufSizes = {2, 1000}
  Edges1 <- E1
  EdgesY <- EY
  Caches = {FALSE, TRUE}
  WriteAlways = FALSE
INVARIANT PerBranch
INVARIANT FilesRef
INVARIANT NoRedo
INVARIANT RedoRef
INVARIANT RunIsSem
INVARIANT CacheRef
INVARIANT Emitted
CHECK_DEADLOCK FALSE
