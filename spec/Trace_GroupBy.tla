--------------------------- MODULE Trace_GroupBy ---------------------------
(***************************************************************************)
(* Validation of GroupBy runs recorded from the real code on key sets and  *)
(* contexts beyond the exhaustive bounds:                                  *)
(*   [G, M (sequences of key paths), ctxs (contexts of the filled values   *)
(*    when they were filled, in arrival order), now (what the context of   *)
(*    each value holds at the end - different when the source kept the     *)
(*    context object and modified it in place for a later value), groups   *)
(*    (sequences of positions)]                                            *)
(* A pair of values is compared when it is settled: both readings of       *)
(* "their contexts" - when filled, at the end - give the same answer.      *)
(***************************************************************************)
EXTENDS GroupBySem, IOUtils
Trace == JsonDeserialize(IOEnv.TRACE_FILE)
VARIABLE i
SetOf(s) == {s[j] : j \in DOMAIN s}
\* GB_MODE = "shape" / "split" / "merged" checks only that part (used to classify a rejection)
Mode == IF "GB_MODE" \in DOMAIN IOEnv THEN IOEnv.GB_MODE ELSE "both"
GroupIdx(r, x) == CHOOSE g \in 1..Len(r.groups) : \E j \in 1..Len(r.groups[g]) : r.groups[g][j] = x
Ok(r) == LET G == SetOf(r.G)  M == SetOf(r.M)  n == Len(r.ctxs) IN
  /\ Mode \in {"both", "shape"} =>
     \* a partition of the filled values
     /\ \A x \in 1..n : Cardinality({g \in 1..Len(r.groups) : \E j \in 1..Len(r.groups[g]) : r.groups[g][j] = x}) = 1
     /\ \A g \in 1..Len(r.groups) : \A j \in 1..Len(r.groups[g]) : r.groups[g][j] \in 1..n
     \* arrival order inside a group
     /\ \A g \in 1..Len(r.groups) : \A j \in 1..(Len(r.groups[g]) - 1) : r.groups[g][j] < r.groups[g][j + 1]
  \* same group exactly when the contexts agree on every selected path
  /\ Mode # "shape" =>
     \A x, y \in 1..n : (x < y /\ (SameGroup(r.ctxs[x], r.ctxs[y], G, M) <=> SameGroup(r.now[x], r.now[y], G, M))) =>
        LET together == GroupIdx(r, x) = GroupIdx(r, y)  same == SameGroup(r.ctxs[x], r.ctxs[y], G, M) IN
        /\ Mode \in {"both", "split"} => (same => together)       \* otherwise the implementation splits a class
        /\ Mode \in {"both", "merged"} => (together => same)      \* otherwise it merges two classes
Init == i = 1
Next == i <= Len(Trace) /\ Ok(Trace[i]) /\ i' = i + 1
Spec == Init /\ [][Next]_i
Accepted == /\ PrintT(<<"ACCEPTED", TLCGet("stats").diameter - 1>>)
            /\ TLCGet("stats").diameter - 1 = Len(Trace)
=============================================================================
