------------------------------- MODULE MathFns -------------------------------
(***************************************************************************)
(* One call of a function of lena.math.meshes / lena.math.utils / the      *)
(* histogram helpers of lena.structures.hist_functions per behaviour: Init *)
(* chooses the case (function and arguments), the action named after the   *)
(* function evaluates it the way the code does (MathFnsSem.tla), and the   *)
(* invariants state what the documentation promises.                       *)
(***************************************************************************)
EXTENDS MathFnsSem, TLC, Json

CONSTANTS Depth      \* 1 = small universes (quick), 2 = larger ones (thorough)

VARIABLES c,     \* the case: [fn |-> ..., arguments]
          res    \* NoRes, then the result
vars == <<c, res>>
NoRes == [ok |-> TRUE, exc |-> "pending", v |-> Str("")]
Done == res.exc # "pending"

\* ---- universes ------------------------------------------------------------
Rats == IF Depth = 1 THEN {<<-3, 1>>, <<-1, 2>>, <<0, 1>>, <<1, 3>>, <<7, 10>>, <<1, 1>>, <<5, 2>>}
        ELSE {<<-3, 1>>, <<-1, 1>>, <<-1, 2>>, <<0, 1>>, <<1, 3>>, <<1, 1>>, <<5, 2>>, <<7, 1>>}
MaxN == IF Depth = 1 THEN 5 ELSE 8
\* (thirds and tenths: steps that are not exact in binary floating point)
MeshRats == Rats \cup {<<1, 3>>, <<7, 10>>, <<-11, 10>>}
MeshCases == {[fn |-> "mesh", lo |-> lo, hi |-> hi, n |-> n] : lo \in MeshRats, hi \in MeshRats, n \in 1..(MaxN + 4)}
IncRats(lens) == {s \in UNION {[1..k -> Rats] : k \in lens} : \A j \in 1..(Len(s) - 1) : RLt(s[j], s[j + 1])}
RefineCases == {[fn |-> "refine", arr |-> a, r |-> r] : a \in IncRats(1..(IF Depth = 1 THEN 3 ELSE 4)), r \in 1..(IF Depth = 1 THEN 3 ELSE 5)}

\* trees: leaves, then sequences (lists and tuples) of at most two elements, two levels (three when Depth = 2)
N1 == Num(RI(1))
N2 == Num(<<-5, 2>>)
Leaves == {N1, N2}
Seqs(S) == UNION {[1..k -> S] : k \in 0..2}
Level1 == {Lst(xs) : xs \in Seqs(Leaves)} \cup {Tup(xs) : xs \in Seqs(Leaves)}
Level2 == {Lst(xs) : xs \in Seqs(Leaves \cup Level1)} \cup {Tup(xs) : xs \in Seqs(Leaves \cup Level1)}
Deep == {Lst(<<Lst(<<Lst(<<N1, N2>>), Lst(<<N2>>)>>), Lst(<<Lst(<<N1>>), Lst(<<N2, N2>>)>>)>>),
         Lst(<<Lst(<<Lst(<<>>)>>)>>), Lst(<<Tup(<<Lst(<<N1, Tup(<<N2>>)>>), N1>>), N2, Lst(<<Lst(<<Lst(<<N1>>)>>)>>)>>),
         Lst(<<Str("ab"), Lst(<<Str("c"), N1>>)>>), Tup(<<Tup(<<Tup(<<N1>>), N2>>), N1>>)}
Trees == Level1 \cup Level2 \cup Deep
FlattenCases == {[fn |-> "flatten", a |-> a] : a \in {x \in Trees : IsSeq(x)}}
\* md_map: regular arrays of numbers with arithmetic functions, arrays of tuples with len / identity,
\* and arguments that are not lists
RECURSIVE NumContents(_)
NumContents(a) == \A p \in ContentPaths(a) : Sub(a, p).t = "n"
TupContents(a) == \A p \in ContentPaths(a) : Sub(a, p).t = "t"
MdMapCases ==
  {[fn |-> "md_map", a |-> a, F |-> F] : a \in {x \in Trees : x.t = "l" /\ Regular(x) /\ NumContents(x)}, F \in {"neg", "dbl", "inc", "id"}}
  \cup {[fn |-> "md_map", a |-> a, F |-> F] : a \in {x \in Trees : x.t = "l" /\ Regular(x) /\ TupContents(x)}, F \in {"len", "id"}}
  \cup {[fn |-> "md_map", a |-> a, F |-> "id"] : a \in {x \in Level1 \cup {N1} : x.t # "l"}}
\* two arrays of the same shape: the array and its double
RECURSIVE Doubled(_)
Doubled(a) == IF a.t = "l" THEN Lst([i \in 1..Len(a.xs) |-> Doubled(a.xs[i])]) ELSE Num(RMul(a.v, RI(2)))
MdMap2Cases ==
  {[fn |-> "md_map2", a |-> a, b |-> Doubled(a), F |-> F] :
      a \in {x \in Trees : x.t = "l" /\ Regular(x) /\ NumContents(x)}, F \in {"add", "sub"}}
  \cup {[fn |-> "md_map2", a |-> Lst(<<N1>>), b |-> Tup(<<N1>>), F |-> "add"], [fn |-> "md_map2", a |-> Tup(<<N1>>), b |-> Lst(<<N1>>), F |-> "add"]}
\* clip
Intervals == {Tup(<<Num(lo), Num(hi)>>) : lo \in Rats, hi \in Rats} \cup {Lst(<<Num(lo), Num(hi)>>) : lo \in {<<0, 1>>}, hi \in Rats}
             \cup {Tup(<<>>), Tup(<<N1>>), Lst(<<N1, N1, N1>>), N1, Str("None")}
ClipCases == {[fn |-> "clip", a |-> a, iv |-> iv] : a \in Rats, iv \in Intervals}
\* isclose: numbers x against x perturbed (PertClose, HistOpsSem.tla), in both orders; containers with one
\* perturbed leaf; unsupported objects
TolKinds == {NoTol, [kind |-> "rel", rel |-> Eps, abs |-> RI(0)], [kind |-> "abs", rel |-> RI(0), abs |-> <<1, 4>>],
             [kind |-> "both", rel |-> Eps, abs |-> <<1, 4>>]}
PertsFor(tol) ==
  {NoPert} \cup {[axis |-> 1, pos |-> 1, kind |-> "grid", amt |-> am] : am \in {<<1, 8>>, <<1, 4>>, <<1, 2>>, <<-1, 4>>}}
  \cup {[axis |-> 1, pos |-> 1, kind |-> "rel", amt |-> t] :
          t \in (IF tol.kind = "default" THEN {<<1, 2>>, <<2, 1>>, <<1, 1024>>}
                 ELSE IF tol.kind = "abs" THEN {} ELSE {<<1, 2>>, <<1, 1>>, <<2, 1>>, <<-1, 1>>, <<-2, 1>>})}
Shapes == {"num", "list", "tuple-list", "nested", "nested-last"}
IsCloseCases ==
  UNION {{[fn |-> "isclose", x |-> x, tol |-> tol, pert |-> p, shape |-> sh, swap |-> sw] :
            x \in (IF Depth = 1 THEN {-4, 0, 3} ELSE -4..4), p \in PertsFor(tol), sh \in Shapes, sw \in BOOLEAN} : tol \in TolKinds}
\* the containers around the compared number x / y (the other leaves are equal numbers)
Wrap(sh, v, second) ==
  CASE sh = "num" -> v
    [] sh = "list" -> Lst(<<N1, v>>)
    [] sh = "tuple-list" -> IF second THEN Tup(<<v, N2>>) ELSE Lst(<<v, N2>>)
    [] sh = "nested" -> Lst(<<Tup(<<v>>), Lst(<<N1, N2>>)>>)
    [] sh = "nested-last" -> Tup(<<N2, Lst(<<N1, Tup(<<N2, v>>)>>)>>)
IsCloseBadCases == {[fn |-> "isclose_bad", a |-> a] : a \in {Str("text"), Str("None"), Lst(<<Str("text")>>), Tup(<<N1, Str("None")>>)}}
\* histogram helpers
EdgeArrs == UNION {[1..k -> {0, 1, 2}] : k \in 0..3}
T1(arr, tuple) == IF tuple THEN Tup([j \in 1..Len(arr) |-> Num(RI(arr[j]))]) ELSE Lst([j \in 1..Len(arr) |-> Num(RI(arr[j]))])
SomeArrs == {<<>>, <<1>>, <<0, 1>>, <<0, 2>>, <<1, 1>>, <<2, 1>>, <<0, 1, 2>>, <<0, 2, 2>>, <<0, 2, 1>>}
CheckCases ==
  {[fn |-> "check_edges", e |-> T1(a, tp)] : a \in EdgeArrs, tp \in BOOLEAN}
  \cup {[fn |-> "check_edges", e |-> Lst(<<T1(a, FALSE)>>)] : a \in EdgeArrs}
  \cup {[fn |-> "check_edges", e |-> Lst(<<T1(a, FALSE), T1(b, FALSE)>>)] : a \in SomeArrs, b \in SomeArrs}
  \cup {[fn |-> "check_edges", e |-> Tup(<<T1(a, TRUE), T1(b, TRUE), T1(<<0, 1>>, FALSE)>>)] : a \in SomeArrs, b \in {<<0, 2>>, <<2, 2>>, <<1>>}}
Meshes == {<<<<0, 2>>>>, <<<<-4, 0, 2, 12>>>>, <<<<0, 2, 6>>, <<2, 4, 8>>>>, <<<<0, 4>>, <<0, 2, 4, 10>>>>,
           <<<<0, 2, 6>>, <<2, 4>>, <<0, 4, 6, 8>>>>, <<<<0, 2>>, <<1, 3>>, <<5, 7, 9>>>>}
RECURSIVE PatB(_, _, _)
PatB(E, d, base) == IF d > Len(E) THEN base + 1
                    ELSE [j \in 1..NB(E[d]) |-> PatB(E, d + 1, base + (j - 1) * NCellsFrom(E, d + 1))]
BinEdgesCases == {[fn |-> "get_bin_edges", E |-> E, cell |-> cl] : E \in Meshes, cl \in UNION {Cells(M) : M \in Meshes}}
\* index vectors of length 1..dim with entries up to one beyond the last bin
IdxVecs(E) == UNION {{s \in [1..k -> 0..3] : \A d \in 1..k : s[d] <= NB(E[d])} : k \in 1..Len(E)}
BinOnIndexCases == {[fn |-> "get_bin_on_index", E |-> E, bins |-> PatB(E, 1, 0), idx |-> s] : E \in Meshes, s \in UNION {IdxVecs(M) : M \in Meshes}}
ExampleCases == {[fn |-> "get_example_bin", E |-> E, bins |-> PatB(E, 1, 4), hist |-> hs] : E \in Meshes, hs \in BOOLEAN}
UnifyCases == {[fn |-> "unify_1_md", E |-> E, tuple |-> tp] : E \in Meshes, tp \in BOOLEAN}
InitBinsCases == {[fn |-> "init_bins", E |-> E, val |-> v] : E \in Meshes, v \in {0, 5, -1}}
NameModes == {"default", "names", "var_context", "short", "long"}
CellStrCases == {[fn |-> "cell_to_string", E |-> E, cell |-> cl, mode |-> m, reverse |-> rv] :
                    E \in Meshes, cl \in UNION {Cells(M) : M \in Meshes}, m \in NameModes, rv \in BOOLEAN}
HistContextCases == {[fn |-> "make_hist_context", E |-> E] : E \in Meshes}
InDom(x) == IF x.fn \in {"get_bin_edges", "cell_to_string"} THEN x.cell \in Cells(x.E)
            ELSE IF x.fn = "get_bin_on_index" THEN x.idx \in IdxVecs(x.E) ELSE TRUE

Cases == MeshCases \cup RefineCases \cup FlattenCases \cup MdMapCases \cup MdMap2Cases \cup ClipCases \cup IsCloseCases
         \cup IsCloseBadCases \cup CheckCases \cup BinEdgesCases \cup BinOnIndexCases \cup ExampleCases \cup UnifyCases
         \cup InitBinsCases \cup CellStrCases \cup HistContextCases

Init == c \in {x \in Cases : InDom(x)} /\ res = NoRes

\* ---- the calls ------------------------------------------------------------
Call(fn, r) == c.fn = fn /\ ~Done /\ res' = r /\ UNCHANGED c
\* mesh((lo, hi), n): "(min, max)"; a degenerate or reversed range is not demanded
Mesh == c.fn = "mesh" /\ RLt(c.lo, c.hi) /\ Call("mesh", OkV(MeshOp(c.lo, c.hi, c.n)))
Refine == c.fn = "refine" /\ Call("refine", OkV(RefineOp(c.arr, c.r)))
Flatten == c.fn = "flatten" /\ Call("flatten", OkV(FlattenOp(c.a)))
MdMap == c.fn = "md_map" /\ Call("md_map", MdMapOp(c.a, c.F))
MdMap2 == c.fn = "md_map2" /\ Call("md_map2", MdMap2Op(c.a, c.b, c.F))
Clip == c.fn = "clip" /\ Call("clip", ClipOp(c.a, c.iv))
\* isclose(a, b[, rel_tol, abs_tol]): the number x against the perturbed y inside equal containers
IsClose == c.fn = "isclose" /\ Call("isclose", OkV(PertClose(c.x, c.pert, c.tol)))
IsCloseBad == c.fn = "isclose_bad" /\ Call("isclose_bad", Err("LenaTypeError"))
CheckEdges == c.fn = "check_edges" /\ Call("check_edges", CheckEdgesOp(c.e))
\* edges[coord][i], edges[coord][i+1] for every coordinate
BinEdges == c.fn = "get_bin_edges" /\ Call("get_bin_edges", OkV([d \in 1..Len(c.E) |-> <<c.E[d][c.cell[d] + 1], c.E[d][c.cell[d] + 2]>>]))
BinOnIndex == c.fn = "get_bin_on_index" /\ Call("get_bin_on_index", BinOnIndexOp(c.bins, c.idx, 1))
Example == c.fn = "get_example_bin" /\ Call("get_example_bin", OkV(ExampleBin(c.bins, Len(c.E))))
Unify == c.fn = "unify_1_md" /\ Call("unify_1_md", OkV(c.E))                     \* the edges, always as a list of axes
InitBinsA == c.fn = "init_bins" /\ Call("init_bins", OkV(InitBins(c.E, 1, c.val)))
Names(x) == CASE x.mode = "default" -> [d \in 1..Len(x.E) |-> <<"coord", d - 1>>]
              [] OTHER -> [d \in 1..Len(x.E) |-> <<"name", d - 1>>]
CellStr == c.fn = "cell_to_string" /\ Call("cell_to_string",
                IF c.mode \in {"short", "long"} THEN Err("LenaValueError")
                ELSE OkV(CellPieces(CellEdges(c.E, c.cell), Names(c), c.reverse)))
HistContext == c.fn = "make_hist_context" /\ Call("make_hist_context",
                    OkV([dim |-> Len(c.E), nbins |-> [d \in 1..Len(c.E) |-> NB(c.E[d])],
                         ranges |-> [d \in 1..Len(c.E) |-> <<c.E[d][1], c.E[d][Len(c.E[d])]>>]]))
Next == Mesh \/ Refine \/ Flatten \/ MdMap \/ MdMap2 \/ Clip \/ IsClose \/ IsCloseBad \/ CheckEdges \/ BinEdges
        \/ BinOnIndex \/ Example \/ Unify \/ InitBinsA \/ CellStr \/ HistContext
Spec == Init /\ [][Next]_vars

(***************************************************************************)
(* What the documentation promises.                                        *)
(***************************************************************************)
Is(fn) == Done /\ c.fn = fn
\* mesh: nbins cells = nbins + 1 points, end points included, equal spacing
MeshDoc == Is("mesh") =>
  /\ res.v = MeshRef(c.lo, c.hi, c.n)
  /\ Len(res.v) = c.n + 1 /\ res.v[1] = c.lo /\ res.v[c.n + 1] = c.hi
  /\ \A k \in 1..c.n : RSub(res.v[k + 1], res.v[k]) = RDiv(RSub(c.hi, c.lo), RI(c.n))
\* refine_mesh: every old point stays, r - 1 new equally spaced points in every interval
RefineDoc == Is("refine") =>
  /\ res.v = RefineRef(c.arr, c.r)
  /\ Len(res.v) = (Len(c.arr) - 1) * c.r + 1
  /\ \A j \in 1..Len(c.arr) : res.v[(j - 1) * c.r + 1] = c.arr[j]
  /\ \A k \in 1..(Len(res.v) - 1) : RLt(res.v[k], res.v[k + 1])
  /\ c.r = 1 => res.v = c.arr
\* flatten: the leaves in depth-first order (index paths in lexicographic order)
FlattenDoc == Is("flatten") =>
  LET ps == LeafPaths(c.a) IN
  /\ Len(res.v) = Cardinality(ps)
  /\ \A p \in ps : res.v[Cardinality({q \in ps : PathLess(q, p)}) + 1] = Sub(c.a, p)
  /\ \A k \in 1..Len(res.v) : ~IsSeq(res.v[k])
\* md_map: same dimensions, f at the contents; not a list -> LenaTypeError; empty -> empty
MdMapDoc == Is("md_map") =>
  /\ res.ok <=> c.a.t = "l"
  /\ ~res.ok => res.exc = "LenaTypeError"
  /\ res.ok => /\ SameShape(c.a, res.v)
               /\ \A p \in ContentPaths(c.a) : Sub(c.a, p).t # "l" => Sub(res.v, p) = ApplyF(c.F, Sub(c.a, p))
MdMap2Doc == Is("md_map2") =>
  /\ res.ok <=> (c.a.t = "l" /\ c.b.t = "l")
  /\ ~res.ok => res.exc = "LenaTypeError"
  /\ res.ok => /\ SameShape(c.a, res.v)
               /\ \A p \in ContentPaths(c.a) : Sub(c.a, p).t # "l" => Sub(res.v, p) = ApplyF2(c.F, Sub(c.a, p), Sub(c.b, p))
\* clip: inside the interval unchanged, outside the nearest edge; errors as documented
ClipDoc == Is("clip") =>
  IF ~IsSeq(c.iv) THEN ~res.ok /\ res.exc = "LenaTypeError"
  ELSE IF Len(c.iv.xs) # 2 THEN ~res.ok /\ res.exc = "LenaValueError"
  ELSE IF RLt(c.iv.xs[2].v, c.iv.xs[1].v) THEN ~res.ok /\ res.exc = "LenaValueError"
  ELSE res.ok /\ ClipRef(c.a, c.iv.xs[1].v, c.iv.xs[2].v, res.v.v)
\* isclose: the documented formula (either tolerance), symmetric in its arguments
IsCloseDoc == Is("isclose") =>
  /\ c.pert.kind = "none" => res.v
  /\ (c.tol.kind # "default" /\ c.pert.kind # "none") =>
       LET y == PertY(c.x, c.pert, c.tol) IN
       /\ res.v = DocClose(RI(c.x), y, c.tol.rel, c.tol.abs)
       /\ IsCloseOp(RI(c.x), y, c.tol.rel, c.tol.abs) = IsCloseOp(y, RI(c.x), c.tol.rel, c.tol.abs)
  \* the rule used for the default relative tolerance (1e-9) agrees with the exact formula for 2^-10
  /\ (c.tol.kind = "rel" /\ c.pert.kind # "none" /\ (c.pert.kind = "grid" \/ c.pert.amt[1] > 0)) =>
       (res.v = CloseRule(c.x, c.pert))
\* check_edges_increasing raises exactly for short or not strictly increasing (sub)arrays
CheckDoc == Is("check_edges") => (res.ok <=> CheckEdgesRef(c.e)) /\ (~res.ok => res.exc = "LenaValueError")
\* get_bin_edges = the edges of the cell (HistOpsSem.CellEdges); get_bin_on_index = Get / LenaIndexError
BinEdgesDoc == Is("get_bin_edges") => res.v = CellEdges(c.E, c.cell)
BinOnIndexDoc == Is("get_bin_on_index") =>
  LET inside == \A d \in 1..Len(c.idx) : c.idx[d] < NB(c.E[d]) IN
  /\ res.ok <=> inside
  /\ ~res.ok => res.exc = "LenaIndexError"
  /\ (res.ok /\ Len(c.idx) = Len(c.E)) => res.v = Get(c.bins, c.idx)
  /\ (res.ok /\ Len(c.idx) < Len(c.E)) => ShapeOK(res.v, SubSeq(c.E, Len(c.idx) + 1, Len(c.E)), 1)
ExampleDoc == Is("get_example_bin") => res.v = Get(c.bins, [d \in 1..Len(c.E) |-> 0])
InitBinsDoc == Is("init_bins") => ShapeOK(res.v, c.E, 1) /\ \A cl \in Cells(c.E) : Get(res.v, cl) = c.val
CellStrDoc == Is("cell_to_string") =>
  /\ res.ok <=> c.mode \notin {"short", "long"}
  /\ res.ok => /\ Len(res.v) = Len(c.E)
               /\ \A d \in 1..Len(c.E) :
                    LET k == IF c.reverse THEN Len(c.E) + 1 - d ELSE d IN
                    /\ res.v[k].lo = c.E[d][c.cell[d] + 1] /\ res.v[k].hi = c.E[d][c.cell[d] + 2]
                    /\ res.v[k].name[2] = d - 1
HistContextDoc == Is("make_hist_context") =>
  /\ res.v.dim = Len(c.E) /\ Len(res.v.nbins) = Len(c.E) /\ Len(res.v.ranges) = Len(c.E)
  /\ NCells(c.E) = (IF Len(c.E) = 1 THEN res.v.nbins[1] ELSE IF Len(c.E) = 2 THEN res.v.nbins[1] * res.v.nbins[2]
                    ELSE res.v.nbins[1] * res.v.nbins[2] * res.v.nbins[3])

Emitted == Done => PrintT(ToJson([c |-> c, res |-> res]))
=============================================================================
