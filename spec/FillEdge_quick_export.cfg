SPECIFICATION Spec
CONSTANTS MaxN = 3
  Chains <- ChainsQuick
  Drivers = {"fill"}
  Bufs <- BufQuick
  FillTruth = "truth"
  RunStop = "error"
INVARIANT DriversAgree
INVARIANT NoQuietEnd
INVARIANT TruthOnly
INVARIANT BufBound
INVARIANT Emitted
CHECK_DEADLOCK FALSE
