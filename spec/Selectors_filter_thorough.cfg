SPECIFICATION Spec
CONSTANTS U = "filter" F = "small"
INVARIANT TypeOK
INVARIANT Compositional
INVARIANT RoeFalseNeverRaises
INVARIANT NothingInvented
INVARIANT FilterKeeps
INVARIANT SecondRunSame
INVARIANT FilterOrder
INVARIANT Inside
CHECK_DEADLOCK FALSE
