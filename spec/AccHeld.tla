------------------------------ MODULE AccHeld ------------------------------
(***************************************************************************)
(* Results held by the consumer.  Every result yielded by compute() is     *)
(* kept by the consumer (held); the history variable records it frozen as  *)
(* it was when yielded.  The element of Accumulators.tla is extended with  *)
(* the identity of its containers, written like the code:                  *)
(*                                                                         *)
(*   gen       the generation of the element's containers: reset() drops   *)
(*             them and installs new ones (self.groups.clear(),            *)
(*             self._hist = histogram(..), self.group = [])                *)
(*   cont[g]   the present content of the containers of generation g       *)
(*                                                                         *)
(* Sharing(k): "copy" - compute() yields numbers, tuples, copies of the    *)
(* containers and deep copies of the context: the held result is frozen    *)
(* for ever; "live" - the documentation lets compute() yield the           *)
(* containers themselves (GroupBy "yields the filled values themselves",   *)
(* Histogram "yields histogram with context"): View(e), what the consumer  *)
(* sees now in a held result e, shows the present content of the           *)
(* containers of its generation; its context is a copy for every kind.     *)
(* (Graph yields the element itself, it is not a kind of this module.)     *)
(*                                                                         *)
(* HeldUnchanged: no step changes what the consumer sees in a held result  *)
(* unless the result shares the containers of the generation that is still *)
(* the element's own after the step - so reset() itself and everything     *)
(* after it leave every result yielded before it alone ("after reset() the *)
(* element is observationally equal to a newly constructed one": a new     *)
(* element shares nothing with old results), and results of "copy" kinds   *)
(* never change.  What a later fill() does to a "live" result of the same  *)
(* generation is left open.  keep[j]: the held results the j-th operation  *)
(* must leave unchanged (exported for the replay on the real elements).    *)
(*                                                                         *)
(* WrongReset (sensitivity guard): reset() that empties / reinitialises    *)
(* the containers in place before dropping them; TLC must refute           *)
(* HeldUnchanged.                                                          *)
(***************************************************************************)
EXTENDS Accumulators

CONSTANTS WrongReset

VARIABLES held, gen, cont, keep
hvars == <<vars, held, gen, cont, keep>>

RECURSIVE Sharing(_)
Sharing(k) == CASE k.t \in {"GroupBy", "Hist", "Hist2"} -> "live"
                [] k.t = "Vec" -> IF \E i \in 1..Len(k.inners) : Sharing(k.inners[i]) = "live" THEN "live" ELSE "copy"
                [] OTHER -> "copy"

HeldKinds == {Count0, Sum0, NSumK, MeanK("py", TRUE), VMC(TRUE, TRUE),
              Vec(Sum0), VecOf(<<Store(FALSE), Sum0>>, "list", "tuple", "num2"),
              VecOf(<<GroupByK("a"), GroupByK("a")>>, "list", "tuple", "pair2"),
              Store(TRUE), Store(FALSE), GroupByK("all"), GroupByK("a"), GroupByO("a", "dep"),
              GroupByC(<<Root>>, "str", <<>>, "tuple", ""),
              Hist("plain"), Hist("bins"), Hist2("plain")}
HeldKindsMore == HeldKinds \cup {k \in ThoroughKinds : k.t # "Graph"}

\* what the containers of the present generation show
Content == Result(ekind, st)
\* what the consumer sees now in the held result e
View(e) ==
  IF ~e.live \/ ~e.frozen.ok \/ ~cont[e.gen].ok THEN e.frozen
  ELSE Ok([j \in 1..Len(e.frozen.out) |->
             IF j <= Len(cont[e.gen].out) THEN [e.frozen.out[j] EXCEPT !.d = cont[e.gen].out[j].d]
             ELSE e.frozen.out[j]])
\* the containers emptied / reinitialised in place
Emptied(r) ==
  IF ~r.ok THEN r
  ELSE IF ekind.t = "GroupBy" THEN Ok([j \in 1..Len(r.out) |-> P(<<>>)])
  ELSE Result(FreshKind(kind), ResetState(ekind, st))

HInit == /\ \E k \in Kinds : InitFor(k)
         /\ h = <<>> /\ held = <<>> /\ gen = 0 /\ keep = <<>>
         /\ cont = [g \in {0} |-> Result(ekind, st)]

Kept(g2) == [j \in 1..Len(held) |-> ~held[j].live \/ held[j].gen < g2]
HFill == /\ Fill /\ UNCHANGED <<held, gen>>
         /\ cont' = [cont EXCEPT ![gen] = Result(ekind, st')]
         /\ keep' = Append(keep, Kept(gen))
HCompute == /\ Compute /\ UNCHANGED gen
            /\ held' = Append(held, [frozen |-> res', gen |-> gen, live |-> Sharing(kind) = "live", at |-> Len(h')])
            /\ cont' = [cont EXCEPT ![gen] = Result(ekind, st')]
            /\ keep' = Append(keep, Kept(gen))
HReset == /\ Reset /\ UNCHANGED held
          /\ IF HasReset(kind)
             THEN /\ gen' = gen + 1
                  /\ cont' = [g \in 0..(gen + 1) |->
                                IF g = gen + 1 THEN Result(ekind', st')
                                ELSE IF g = gen /\ WrongReset THEN Emptied(cont[g]) ELSE cont[g]]
                  /\ keep' = Append(keep, Kept(gen + 1))
             ELSE UNCHANGED <<gen, cont>> /\ keep' = Append(keep, Kept(gen))
HNext == HFill \/ HCompute \/ HReset
HSpec == HInit /\ [][HNext]_hvars

\* a step leaves every held result alone that does not share the containers the element still owns
HeldUnchanged ==
  [][\A j \in 1..Len(held) : (~held[j].live \/ held[j].gen < gen') => View(held[j])' = View(held[j])]_hvars
\* the flags given to the replay say the same
KeepIsRule == \A n \in 1..Len(keep) : \A j \in 1..Len(keep[n]) :
                keep[n][j] = (~held[j].live \/ \E m \in (held[j].at + 1)..n : h[m].op = "r")
\* a held result of a "copy" kind is what was yielded; a result as it was just yielded is what was yielded
HeldFrozen == \A j \in 1..Len(held) : (~held[j].live \/ held[j].at = Len(h)) => View(held[j]) = held[j].frozen
\* every result that is held was yielded by the compute at its place in the history
HeldIsYielded == \A j \in 1..Len(held) : h[held[j].at].op = "c" /\ h[held[j].at].x = held[j].frozen

HEmitted == (Len(h) = MaxLen /\ \E j \in 1..Len(h) : h[j].op = "c") =>
              PrintT(ToJson([kind |-> kind, h |-> h, keep |-> keep,
                             at |-> [j \in 1..Len(held) |-> held[j].at]]))
=============================================================================
