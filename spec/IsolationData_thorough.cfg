SPECIFICATION Spec
CONSTANTS MaxBr = 2 MaxN = 3 CopyMode = "deep"
  BufSizes <- BufAll
  Kinds <- AllKinds
  Templates <- AllTemplates
INVARIANT Isolated
INVARIANT YieldedStable
INVARIANT HeldDisjoint
INVARIANT YieldedDisjoint
INVARIANT SourceByLastOnly
INVARIANT Emitted
CHECK_DEADLOCK FALSE
