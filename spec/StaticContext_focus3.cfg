SPECIFICATION Spec
CONSTANTS MaxTok = 5 MaxDepth = 3
  Leaves <- LeavesFocus3
  RootKinds <- SeqRoot
  StoreByCopy = TRUE
  TailKeepsSets = TRUE
INVARIANT SeenIsExpected
INVARIANT PrefixOnly
INVARIANT SiblingIndependent
INVARIANT RootExpected
INVARIANT NoLeakToRuntime
INVARIANT Emitted
PROPERTY Causal
PROPERTY RunKeepsStatic
CHECK_DEADLOCK FALSE
