SPECIFICATION Spec
CONSTANTS PairSrc = "all" CtxU = "ops4" MaxFlow = 3 KeyU = "six"
INVARIANT IsPartition
INVARIANT SnapshotsRight
PROPERTY ResetEmpties
INVARIANT PartitionExact
INVARIANT OrderPreserved
INVARIANT NoEmptyGroup
INVARIANT PartitionIsEquivalence
INVARIANT OwnerIsLongest
PROPERTY Stable
INVARIANT DefaultsOneGroup
INVARIANT WholeContext
CHECK_DEADLOCK FALSE
