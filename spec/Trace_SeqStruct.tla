--------------------------- MODULE Trace_SeqStruct ---------------------------
(***************************************************************************)
(* Validation of behaviour recorded from the real lena classes on seeded   *)
(* random scenarios larger than the exhaustive bounds (longer argument     *)
(* lists, longer containers and arbitrary slices, deeper and wider trees,  *)
(* longer branches) against SeqStructRef.tla.  One record per call:        *)
(*   build  [kind, els, kw, single, obs ("" = built, else exception), len] *)
(*   item   [n, a, pos (0 = IndexError)]       slice  [n, a, b, s, pos]    *)
(*   flat   [tree, same, els (paths)]                                      *)
(*   class  [form, els, res]                   preds  [form, els, preds]   *)
(***************************************************************************)
EXTENDS SeqStructRef, TLC, Json, IOUtils

Trace == JsonDeserialize(IOEnv.TRACE_FILE)
VARIABLE i
RecOk(r) ==
  CASE r.mode = "build" -> /\ r.obs \in BuildExcs(r.kind, r.els, r.kw, r.single)
                           /\ r.obs = "" /\ (~r.single \/ r.kind = "Sequence") => r.len = Len(r.els)
    [] r.mode = "item"  -> r.pos = PyIndex(r.n, r.a)
    [] r.mode = "slice" -> r.pos = PySliceIdx(r.n, r.a, r.b, r.s)
    [] r.mode = "flat"  -> [same |-> r.same, els |-> r.els] = FlattenRef(r.tree)
    [] r.mode = "class" -> r.res \in ClassRef(r.form, r.els)
    [] r.mode = "preds" -> r.preds = PredsOf(r.form, r.els)
Init == i = 1
Next == i <= Len(Trace) /\ RecOk(Trace[i]) /\ i' = i + 1
Spec == Init /\ [][Next]_i
Accepted == /\ PrintT(<<"ACCEPTED", TLCGet("stats").diameter - 1>>)
            /\ TLCGet("stats").diameter - 1 = Len(Trace)
=============================================================================
