------------------------------- MODULE HistInd -------------------------------
(***************************************************************************)
(* Apalache obligation (extra to the TLC runs of Histogram.tla): weight    *)
(* conservation is INDUCTIVE for a histogram of N <= 12 cells (any         *)
(* dimension, flattened), UNBOUNDED integer contents and weights and any   *)
(* history: whatever cell index the search reports (a cell, or an under-/  *)
(* overflow), one fill keeps  sum(bins) + n_out_of_range = total weight.   *)
(*                                                                         *)
(*   apalache-mc check --cinit=CInit --init=Init    --inv=Conservation --length=0 *)
(*   apalache-mc check --cinit=CInit --init=IndInit --inv=Conservation --length=1 *)
(***************************************************************************)
EXTENDS Integers, Apalache

CONSTANT
  \* @type: Int;
  N

VARIABLES
  \* @type: Int -> Int;
  bins,
  \* @type: Int;
  oor,
  \* @type: Int;
  total

Dom == 0..11
Used == {i \in Dom : i < N}
CInit == N \in 1..12

SumBins == LET Add(acc, i) == acc + bins[i] IN ApaFoldSet(Add, 0, Used)
Conservation == SumBins + oor = total

Init == bins = [i \in Dom |-> 0] /\ oor = 0 /\ total = 0
IndInit == bins \in [Dom -> Int] /\ oor \in Int /\ total \in Int /\ Conservation

\* histogram.fill: i = what the walk along the reported indices arrives at
Fill == \E i \in -1..12 : \E w \in Int :
          /\ IF i \in Used
             THEN bins' = [bins EXCEPT ![i] = @ + w] /\ oor' = oor
             ELSE bins' = bins /\ oor' = oor + w
          /\ total' = total + w
Next == Fill
=============================================================================
