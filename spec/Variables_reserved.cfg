SPECIFICATION Spec
CONSTANTS MaxLen = 2
  Pool <- PoolReserved
  Starts <- StartsA
  Xs = {2}
  Nested = FALSE
  Ys <- NoData
  Extra <- NoElems
  Variant = "doc"
  CopyVarContext = TRUE
  ExtendByCompose = TRUE
  PathKeys = FALSE
INVARIANT TypedDeclarative
CHECK_DEADLOCK FALSE
