SPECIFICATION Spec
CONSTANTS U = "mc2q" F = "two"
INVARIANT TypeOK
INVARIANT Compositional
INVARIANT RoeFalseNeverRaises
INVARIANT NothingInvented
INVARIANT FilterKeeps
INVARIANT SecondRunSame
INVARIANT Classical
INVARIANT NotLaws
INVARIANT Inside
INVARIANT StackBound
CHECK_DEADLOCK FALSE
