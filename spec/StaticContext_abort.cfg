SPECIFICATION Spec
CONSTANTS MaxDepth = 3
  Families <- FamAbort
  StoreByCopy = TRUE
  TailKeepsSets = TRUE
  SplitContinues = FALSE
  SkipEmpty = TRUE
  SkipGetters = TRUE
  SplitCachesExport = FALSE
  SrcFRepass = TRUE
  MFRunCopies = TRUE
  AlterApplied = FALSE
INVARIANT SeenIsExpected
CHECK_DEADLOCK FALSE
