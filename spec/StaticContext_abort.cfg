SPECIFICATION Spec
CONSTANTS MaxDepth = 3
  Families <- FamAbort
  StoreByCopy = TRUE
  TailKeepsSets = TRUE
  SplitContinues = FALSE
INVARIANT SeenIsExpected
CHECK_DEADLOCK FALSE
