------------------------------- MODULE VarSem -------------------------------
(***************************************************************************)
(* lena.variables: meaning of Variable, Compose, Combine.                  *)
(*                                                                         *)
(* Encodings (DESIGN.md 3.1).  Context values are tagged records with the  *)
(* same fields:                                                            *)
(*   S(toks)   string, toks = its pieces split at "_" (Combine joins names  *)
(*             with "_"; TLC cannot concatenate strings)                   *)
(*   I(s)      integer, written as a string of digits                      *)
(*   L(l)      list of strings (compose, list-valued attributes)           *)
(*   T(t)      tuple of values (combine)                                   *)
(*   D(m)      dictionary, m a function from key strings                   *)
(* Data: DI(n) integer, DT(t) tuple of data, DN None, DD(n) the dictionary  *)
(*       {"layer": n}, DE "the getter raised".  A tuple of two data whose  *)
(*       second one is a dictionary LOOKS LIKE a (data, context) value     *)
(*       (lena.flow.functions._has_context): Hit(d) = ((x, x+1), {"layer": *)
(*       x}).  Data is what getters receive: it is never re-interpreted.   *)
(* Variable: [name |-> toks, type |-> string ("" = none),                  *)
(*            attrs |-> function attribute -> value, g |-> getter id]      *)
(* Expression: [k |-> "var", v |-> variable, ch |-> <<>>]                  *)
(*             [k |-> "cmp" | "cmb", v |-> NoVar, ch |-> expressions]      *)
(*             (for "cmb" v may hold keyword arguments name, type, attrs)  *)
(***************************************************************************)
EXTENDS Naturals, Sequences, FiniteSets, TLC

Val(k, l, t, m) == [k |-> k, l |-> l, t |-> t, m |-> m]
S(toks) == Val("S", toks, <<>>, <<>>)
I(s) == Val("I", <<s>>, <<>>, <<>>)
L(l) == Val("L", l, <<>>, <<>>)
T(t) == Val("T", <<>>, t, <<>>)
D(m) == Val("D", <<>>, <<>>, m)
N == Val("N", <<>>, <<>>, <<>>)       \* None
EmptyD == D(<<>>)
IsD(v) == v.k = "D"
Has(d, key) == key \in DOMAIN d.m
With(d, key, v) == D([x \in DOMAIN d.m \cup {key} |-> IF x = key THEN v ELSE d.m[x]])
Without(d, key) == D([x \in DOMAIN d.m \ {key} |-> d.m[x]])

DI(n) == [k |-> "I", i |-> n, t |-> <<>>]
DT(t) == [k |-> "T", i |-> 0, t |-> t]
DN == [k |-> "N", i |-> 0, t |-> <<>>]   \* None
DD(n) == [k |-> "D", i |-> n, t |-> <<>>]   \* the dictionary {"layer": n} as (part of) data
DE == [k |-> "E", i |-> 0, t |-> <<>>]   \* no data: a getter was given data it cannot take (raises)
\* a measurement that is a pair (coordinates, attributes): ((x, x+1), {"layer": x})
Hit(d) == DT(<<DT(<<d, DI(d.i + 1)>>), DD(d.i)>>)
\* data that lena.flow.get_data_context would take for a (data, context) pair
LooksLikeValue(d) == d.k = "T" /\ Len(d.t) = 2 /\ d.t[2].k = "D"

NoVar == [name |-> <<>>, type |-> "", attrs |-> <<>>, g |-> ""]
Var(v) == [k |-> "var", v |-> v, ch |-> <<>>]
Cmp(ch) == [k |-> "cmp", v |-> NoVar, ch |-> ch]
Cmb(ch) == [k |-> "cmb", v |-> NoVar, ch |-> ch]
CmbKw(ch, kw) == [k |-> "cmb", v |-> kw, ch |-> ch]
CmpKw(ch, kw) == [k |-> "cmp", v |-> kw, ch |-> ch]   \* Compose(.., **attributes)

(***************************************************************************)
(* Getters (the harness uses the same table).                              *)
(***************************************************************************)
\* which data a getter can take (anything else: it raises, DE)
IntGetters == {"inc", "dbl", "tri", "sq", "add5", "pair", "hit"}
Accepts(g, d) == CASE d.k = "E" -> FALSE
                   [] g \in IntGetters -> d.k = "I"
                   [] g = "first" -> d.k = "T" /\ Len(d.t) >= 1
                   [] g = "len" -> d.k = "T"
                   [] g = "layer" -> LooksLikeValue(d)
                   [] OTHER -> TRUE                     \* none, dflt, isnone, identity: total
G(g, d) == CASE ~Accepts(g, d) -> DE
             [] g = "inc" -> DI(d.i + 1)
             [] g = "dbl" -> DI(2 * d.i)
             [] g = "tri" -> DI(3 * d.i)
             [] g = "sq" -> DI(d.i * d.i)
             [] g = "add5" -> DI(d.i + 5)
             [] g = "none" -> DN                       \* a getter that returns None
             [] g = "pair" -> DT(<<d, DI(d.i + 1)>>)   \* a getter that returns a pair
             [] g = "first" -> d.t[1]                  \* first component of a tuple
             [] g = "hit" -> Hit(d)                    \* a pair that looks like a (data, context) value
             [] g = "len" -> DI(Len(d.t))              \* number of components of a tuple
             [] g = "layer" -> DI(d.t[2].i)            \* hit[1]["layer"]
             [] g = "dflt" -> IF d.k = "N" THEN DI(7) ELSE d    \* a default for missing data
             [] g = "isnone" -> DI(IF d.k = "N" THEN 1 ELSE 0)  \* data is None
             [] OTHER -> d

(***************************************************************************)
(* var_context of a plain variable (Variable.__init__): name and           *)
(* attributes; if it has a type, a copy of them under the type key, and    *)
(* "type".                                                                 *)
(***************************************************************************)
Attrs(v) == D([x \in DOMAIN v.attrs \cup {"name"} |-> IF x = "name" THEN S(v.name) ELSE v.attrs[x]])
VarContext(v) == IF v.type = "" THEN Attrs(v)
                 ELSE With(With(Attrs(v), v.type, Attrs(v)), "type", S(<<v.type>>))

(***************************************************************************)
(* Variable._update_context(context, var_context) as documented:           *)
(* context.variable becomes var_context; if the previous context.variable  *)
(* had a type, the types applied so far are kept in "compose" (in          *)
(* application order) and the description stored under each earlier type   *)
(* is preserved.  ExtendByCompose = TRUE: when the incoming var_context    *)
(* itself carries a compose list (it is a Compose) its whole list is       *)
(* appended; FALSE: list.extend(<type string>), i.e. the characters of the *)
(* type (variable.py:209) - modelled by marker strings.                    *)
(***************************************************************************)
CONSTANT ExtendByCompose

TypeOf(vc) == IF Has(vc, "type") THEN <<vc.m["type"].l[1]>> ELSE <<>>
UpdateVar(cvar, vc) ==
  IF cvar.m # <<>> /\ Has(cvar, "type")
  THEN LET base == IF Has(cvar, "compose") THEN cvar.m["compose"].l ELSE TypeOf(cvar)
           composed == IF Has(vc, "compose")
                       THEN (IF ExtendByCompose THEN base \o vc.m["compose"].l
                             ELSE base \o [j \in 1..Len(TypeOf(vc)) |-> "<characters of type>"])
                       ELSE base \o TypeOf(vc)
           keep == {t \in {composed[j] : j \in 1..Len(composed)} : ~Has(vc, t) /\ Has(cvar, t)}
       IN D([x \in DOMAIN vc.m \cup {"compose"} \cup keep |->
               IF x = "compose" THEN L(composed)
               ELSE IF x \in DOMAIN vc.m THEN vc.m[x] ELSE cvar.m[x]])
  ELSE vc
UpdateCtx(ctx, vc) ==
  With(ctx, "variable", UpdateVar(IF Has(ctx, "variable") THEN ctx.m["variable"] ELSE EmptyD, vc))

(***************************************************************************)
(* var_context and getter of an expression (Compose.__init__,              *)
(* Combine.__init__).                                                      *)
(***************************************************************************)
RECURSIVE JoinNames(_)
JoinNames(ns) == IF Len(ns) = 1 THEN ns[1] ELSE ns[1] \o <<"_">> \o JoinNames(Tail(ns))

RECURSIVE VC(_), FoldVC(_, _), Get(_, _), GetChain(_, _)
FoldVC(ch, acc) == IF ch = <<>> THEN acc ELSE FoldVC(Tail(ch), UpdateVar(acc, VC(Head(ch))))
VC(e) ==
  CASE e.k = "var" -> VarContext(e.v)
    [] e.k = "cmp" ->
         \* keyword arguments of Compose (attributes only) update the composed var_context
         LET vc == FoldVC(Tail(e.ch), VC(Head(e.ch))) IN
         D([x \in DOMAIN vc.m \cup DOMAIN e.v.attrs |-> IF x \in DOMAIN e.v.attrs THEN e.v.attrs[x] ELSE vc.m[x]])
    [] e.k = "cmb" ->
         \* e.v carries the keyword arguments name / type / attributes (NoVar: none)
         LET vcs == [j \in 1..Len(e.ch) |-> VC(e.ch[j])]
             nm == IF e.v.name # <<>> THEN e.v.name ELSE JoinNames([j \in 1..Len(vcs) |-> vcs[j].m["name"].l])
             base == D([x \in DOMAIN e.v.attrs \cup {"name", "dim", "combine"} |->
                          IF x = "name" THEN S(nm)
                          ELSE IF x = "dim" THEN I(ToString(Len(e.ch)))
                          ELSE IF x = "combine" THEN T(vcs) ELSE e.v.attrs[x]])
         IN IF e.v.type = "" THEN base ELSE With(With(base, e.v.type, base), "type", S(<<e.v.type>>))
\* a tuple can only be built when every member produced data
Tup(t) == IF \E j \in 1..Len(t) : t[j].k = "E" THEN DE ELSE DT(t)
GetChain(ch, d) == IF ch = <<>> THEN d ELSE GetChain(Tail(ch), Get(Head(ch), d))
\* THE REFERENCE: the getter of an expression as a function of data.  Compose is the composition
\* of the getters, Combine the tuple of the getters' results - whatever the data is (None, a tuple,
\* a pair that looks like a value).
Get(e, d) ==
  CASE e.k = "var" -> G(e.v.g, d)
    [] e.k = "cmp" -> GetChain(e.ch, d)
    [] e.k = "cmb" -> Tup([j \in 1..Len(e.ch) |-> Get(e.ch[j], d)])
\* the getters of the expression can take the data (no getter raises)
Def(e, d) == Get(e, d).k # "E"
DefChain(ch, d) == GetChain(ch, d).k # "E"

(***************************************************************************)
(* THE MACHINE: data returned by expression.__call__ for a value with the  *)
(* data d.  Variant = "doc": as documented, the getter is applied to the   *)
(* data, and a Combine / Compose applies the getters of its members.       *)
(* Design-level defect models (TLC must find the counterexample):          *)
(*   "combine-via-call"  Combine's getter routes the data through the      *)
(*       members' public call, get_data(var(data)): data that looks like a *)
(*       (data, context) pair is split once more                           *)
(*   "skip-missing"      Variable.__call__ leaves data None untouched      *)
(*       (the getters of Compose / Combine are still applied)              *)
(***************************************************************************)
CONSTANT Variant
Reinterpret(d) == IF LooksLikeValue(d) THEN d.t[1] ELSE d
RECURSIVE CallData(_, _), ImplGet(_, _), ImplChain(_, _)
CallData(e, d) == IF Variant = "skip-missing" /\ d.k = "N" THEN d ELSE ImplGet(e, d)
ImplChain(ch, d) == IF ch = <<>> THEN d ELSE ImplChain(Tail(ch), ImplGet(Head(ch), d))
ImplGet(e, d) ==
  CASE e.k = "var" -> G(e.v.g, d)
    [] e.k = "cmp" -> ImplChain(e.ch, d)
    [] e.k = "cmb" -> Tup([j \in 1..Len(e.ch) |->
                             IF Variant = "combine-via-call" THEN CallData(e.ch[j], Reinterpret(d))
                             ELSE ImplGet(e.ch[j], d)])

\* Variable.__call__ on the value [d, c]
Apply(e, val) == [d |-> CallData(e, val.d), c |-> UpdateCtx(val.c, VC(e))]
RECURSIVE ApplySeq(_, _)
ApplySeq(ch, val) == IF ch = <<>> THEN val ELSE ApplySeq(Tail(ch), Apply(Head(ch), val))

(***************************************************************************)
(* DECLARATIVE description for a chain of plain variables with pairwise    *)
(* distinct non-empty types, applied to a context whose variable (if any   *)
(* and typed) has the types prev (application order) with descriptions     *)
(* old: name, attributes and type of the last variable on top; the         *)
(* attributes of every variable under its type; compose = all types in     *)
(* application order (absent for a single variable on an untyped context). *)
(***************************************************************************)
AllTyped(ch) == \A j \in 1..Len(ch) : ch[j].k = "var" /\ ch[j].v.type # ""
\* a plain variable without type somewhere in the chain (also inside nested expressions)
RECURSIVE HasUntyped(_)
HasUntyped(ch) == \E j \in 1..Len(ch) : IF ch[j].k = "var" THEN ch[j].v.type = "" ELSE HasUntyped(ch[j].ch)
\* ... or a Combine without a type that is followed by another element: it is an untyped variable
\* as well (Combine does not take over the types of its members)
UntypedCombineInside(ch) == \E j \in 1..(Len(ch) - 1) : ch[j].k = "cmb" /\ ch[j].v.type = ""
LosesTypes(ch) == HasUntyped(ch) \/ UntypedCombineInside(ch)
DistinctTypes(ch) == \A j, j2 \in 1..Len(ch) : j # j2 => ch[j].v.type # ch[j2].v.type
Types(ch) == [j \in 1..Len(ch) |-> ch[j].v.type]
PrevTypes(ctx) ==
  IF Has(ctx, "variable") /\ ctx.m["variable"].m # <<>> /\ Has(ctx.m["variable"], "type")
  THEN (IF Has(ctx.m["variable"], "compose") THEN ctx.m["variable"].m["compose"].l
        ELSE TypeOf(ctx.m["variable"]))
  ELSE <<>>
Described(ctx, ch) ==
  LET n == Len(ch)
      last == ch[n].v
      prev == PrevTypes(ctx)
      all == prev \o Types(ch)
      old == IF Has(ctx, "variable") THEN ctx.m["variable"] ELSE EmptyD
      mine == {ch[j].v.type : j \in 1..n}
      kept == {t \in {prev[j] : j \in 1..Len(prev)} : t \notin mine /\ Has(old, t)}
      VarOfType(t) == ch[CHOOSE j \in 1..n : ch[j].v.type = t].v
  IN D([x \in DOMAIN Attrs(last).m \cup {"type"} \cup mine \cup kept
              \cup (IF Len(all) > 1 THEN {"compose"} ELSE {}) |->
          IF x = "compose" THEN L(all)
          ELSE IF x = "type" THEN S(<<last.type>>)
          ELSE IF x \in mine THEN Attrs(VarOfType(x))
          ELSE IF x \in kept THEN old.m[x]
          ELSE Attrs(last).m[x]])

\* the part of Described the statement fixes: everything except which descriptions of a
\* pre-existing context.variable survive
Required(ctx, ch) ==
  LET d == Described(ctx, ch)
      prev == PrevTypes(ctx)
      mine == {ch[j].v.type : j \in 1..Len(ch)}
      kept == {t \in {prev[j] : j \in 1..Len(prev)} : t \notin mine}
  IN D([x \in DOMAIN d.m \ kept |-> d.m[x]])
\* a type of the pre-existing context.variable equals the type of a chain member: the statement
\* ("pairwise distinct types") does not say what the compose list is then; only the rest of the
\* description (and the agreement of Compose and Sequence) is demanded
Collides(ctx, ch) == \E j \in 1..Len(PrevTypes(ctx)), i \in 1..Len(ch) : PrevTypes(ctx)[j] = ch[i].v.type
RequiredC(ctx, ch) == IF Collides(ctx, ch) THEN Without(Required(ctx, ch), "compose") ELSE Required(ctx, ch)
Contains(obs, req) == IsD(obs) /\ \A x \in DOMAIN req.m : x \in DOMAIN obs.m /\ obs.m[x] = req.m[x]

\* what the last variable of a chain describes itself with
LastVC(ch) == LET vc == VC(ch[Len(ch)]) IN IF Has(vc, "compose") THEN Without(vc, "compose") ELSE vc

\* chains with nested expressions: type names only, the chain's own types in application order
RECURSIVE TypeNames(_), TopType(_), IsSubseq(_, _)
TypeNames(e) == (IF e.v.type = "" THEN {} ELSE {e.v.type})
                \cup UNION {TypeNames(e.ch[j]) : j \in 1..Len(e.ch)}
TopType(e) == IF e.k = "cmp" THEN TopType(e.ch[Len(e.ch)]) ELSE e.v.type
IsSubseq(a, b) == IF a = <<>> THEN TRUE ELSE IF b = <<>> THEN FALSE
                  ELSE IF Head(a) = Head(b) THEN IsSubseq(Tail(a), Tail(b)) ELSE IsSubseq(a, Tail(b))
ComposeListOk(ctx, ch, var) ==
  Has(var, "compose") =>
    LET l == var.m["compose"].l
        names == UNION {TypeNames(ch[j]) : j \in 1..Len(ch)} \cup {PrevTypes(ctx)[j] : j \in 1..Len(PrevTypes(ctx))}
        tops == SelectSeq([j \in 1..Len(ch) |-> TopType(ch[j])], LAMBDA t : t # "")
    IN /\ \A j \in 1..Len(l) : l[j] \in names
       /\ IsSubseq(tops, l)
=============================================================================
