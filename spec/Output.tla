------------------------------- MODULE Output -------------------------------
(***************************************************************************)
(* lena/output: the chain                                                  *)
(*   ToCSV, MakeFilename, Write, RenderLaTeX, Write, LaTeXToPDF, PDFToPNG  *)
(* over histories of runs with changing data, changing template and        *)
(* deleted files.  One action per element handling one value (plot):       *)
(*   WriteCSV   Write.run on the csv text                                  *)
(*   WriteTeX   Write.run on the rendered template                         *)
(*   LaTeX      LaTeXToPDF.run: skip iff pdf exists, not overwrite and      *)
(*              changed is False (changed absent: the tex is newer)        *)
(*   PNG        PDFToPNG.run: skip iff png exists, not overwrite and        *)
(*              changed is not True                                        *)
(* output.changed travels with the value: "U" absent, "F", "T".             *)
(* Between runs: Delete(p, kind), ChangeData(p), ChangeTpl (in a canonical  *)
(* order, at most MaxTouch per step when histories are exported).           *)
(* CreatedSetsChanged = TRUE is the documented Write ("if a file was        *)
(* written, output.changed is set to True"); FALSE is the pinned code       *)
(* (a created file leaves output.changed as it was) - TLC refutes           *)
(* AllCurrent for it.                                                       *)
(***************************************************************************)
EXTENDS OutputRef, Json

CONSTANTS NP,          \* number of plots
          MaxRuns, MaxTouch,
          Settings,    \* set of [m1, m2, lo, po]: modes of the two Writes ("check", "existing_unchanged",
                       \* "overwrite"), overwrite of LaTeXToPDF and of PDFToPNG
          CreatedSetsChanged,
          KeepHistory

VARIABLES dataVer, tplVer, files,      \* files[p] = [csv, tex, pdf, png]
          texNewer,                    \* the tex was written after the pdf (modification times)
          set,                         \* the settings of this history
          runs, ph, cur, ch,           \* runs completed; stage; plot in work; its output.changed
          wrote, launched, chOut, pre, \* ghosts of the current / last run (per plot)
          touched, rank, fresh, rt,    \* touched since the last run; canonical order; nothing touched since
                                       \* the run that just ended; what had been touched before that run
          h
vars == <<dataVer, tplVer, files, texNewer, set, runs, ph, cur, ch, wrote, launched, chOut, pre, touched, rank, fresh, rt, h>>
view == <<dataVer, tplVer, files, texNewer, set, runs, ph, cur, ch, wrote, launched, chOut, pre, touched, rank, fresh, rt>>

Plots == 1..NP
NoTouch == [del |-> <<>>, data |-> <<>>, tpl |-> FALSE]
NoWrite == [csv |-> FALSE, tex |-> FALSE]
NoLaunch == [pdf |-> FALSE, png |-> FALSE]
AllModes == {"check", "existing_unchanged", "overwrite"}
SettingsAll == [m1 : AllModes, m2 : AllModes, lo : BOOLEAN, po : BOOLEAN]
SettingsDefault == {[m1 |-> "check", m2 |-> "check", lo |-> FALSE, po |-> FALSE]}
\* quick: the default and each option alone
SettingsQuick == SettingsDefault \cup
   {[m1 |-> a, m2 |-> a, lo |-> FALSE, po |-> FALSE] : a \in {"existing_unchanged", "overwrite"}} \cup
   {[m1 |-> "check", m2 |-> "check", lo |-> TRUE, po |-> FALSE], [m1 |-> "check", m2 |-> "check", lo |-> FALSE, po |-> TRUE]}

Init == /\ dataVer = [p \in Plots |-> 1] /\ tplVer = 1
        /\ files = [p \in Plots |-> [csv |-> Absent, tex |-> Absent, pdf |-> Absent, png |-> Absent]]
        /\ texNewer = [p \in Plots |-> FALSE] /\ set \in Settings
        /\ runs = 0 /\ ph = "idle" /\ cur = 0 /\ ch = "U"
        /\ wrote = [p \in Plots |-> NoWrite] /\ launched = [p \in Plots |-> NoLaunch]
        /\ chOut = [p \in Plots |-> "U"] /\ pre = files
        /\ touched = NoTouch /\ rank = 0 /\ fresh = FALSE /\ rt = NoTouch /\ h = <<>>

(***************************************************************************)
(* Between runs.                                                           *)
(***************************************************************************)
KindIdx(k) == CHOOSE i \in 1..4 : Kinds[i] = k
CanTouch(r) == ph = "idle" /\ runs >= 1 /\ runs < MaxRuns /\ r > rank
               /\ Len(touched.del) + Len(touched.data) + (IF touched.tpl THEN 1 ELSE 0) < MaxTouch
Keep == UNCHANGED <<texNewer, set, runs, ph, cur, ch, wrote, launched, chOut, pre, rt, h>>
Delete(p, k) == /\ CanTouch(4 * (p - 1) + KindIdx(k)) /\ ~files[p][k].a
                /\ files' = [files EXCEPT ![p][k] = Absent]
                /\ touched' = [touched EXCEPT !.del = Append(@, <<p, k>>)]
                /\ rank' = 4 * (p - 1) + KindIdx(k) /\ fresh' = FALSE
                /\ Keep /\ UNCHANGED <<dataVer, tplVer>>
\* existing_unchanged documents the assumption that existing files are up to date:
\* under it the data / template only change when the file to be written is not there
ChangeData(p) == /\ CanTouch(4 * NP + p)
                 /\ (set.m1 = "existing_unchanged" => files[p].csv.a)
                 /\ dataVer' = [dataVer EXCEPT ![p] = @ + 1]
                 /\ touched' = [touched EXCEPT !.data = Append(@, p)]
                 /\ rank' = 4 * NP + p /\ fresh' = FALSE
                 /\ Keep /\ UNCHANGED <<tplVer, files>>
ChangeTpl == /\ CanTouch(5 * NP + 1)
             /\ (set.m2 = "existing_unchanged" => \A p \in Plots : files[p].tex.a)
             /\ tplVer' = tplVer + 1 /\ touched' = [touched EXCEPT !.tpl = TRUE]
             /\ rank' = 5 * NP + 1 /\ fresh' = FALSE
             /\ Keep /\ UNCHANGED <<dataVer, files>>

(***************************************************************************)
(* A run.                                                                  *)
(***************************************************************************)
StartRun == /\ ph = "idle" /\ runs < MaxRuns
            /\ ph' = "csv" /\ cur' = 1 /\ ch' = "U"
            /\ wrote' = [p \in Plots |-> NoWrite] /\ launched' = [p \in Plots |-> NoLaunch]
            /\ chOut' = [p \in Plots |-> "U"] /\ pre' = files /\ fresh' = FALSE
            /\ rt' = touched /\ touched' = NoTouch /\ rank' = 0
            /\ UNCHANGED <<dataVer, tplVer, files, texNewer, set, runs, h>>

\* Write.run on one value (docstring of Write.run): [f: the file afterwards, ch, w: written]
WriteEl(mode, file, content, c) ==
  IF file.a THEN [f |-> content, ch |-> IF CreatedSetsChanged THEN "T" ELSE c, w |-> TRUE]
  ELSE IF mode = "existing_unchanged" THEN [f |-> file, ch |-> IF c = "U" THEN "F" ELSE c, w |-> FALSE]
  ELSE IF mode = "overwrite" \/ file # content THEN [f |-> content, ch |-> "T", w |-> TRUE]
  ELSE [f |-> file, ch |-> IF c = "U" THEN "F" ELSE c, w |-> FALSE]

InRun == UNCHANGED <<dataVer, tplVer, set, runs, cur, chOut, pre, touched, rank, fresh, rt, h>>
WriteCSV == /\ ph = "csv"
            /\ LET r == WriteEl(set.m1, files[cur].csv, C(0, dataVer[cur]), ch) IN
                 /\ files' = [files EXCEPT ![cur].csv = r.f] /\ ch' = r.ch
                 /\ wrote' = [wrote EXCEPT ![cur].csv = r.w]
            /\ ph' = "tex" /\ InRun /\ UNCHANGED <<texNewer, launched>>
WriteTeX == /\ ph = "tex"
            /\ LET r == WriteEl(set.m2, files[cur].tex, C(tplVer, 0), ch) IN
                 /\ files' = [files EXCEPT ![cur].tex = r.f] /\ ch' = r.ch
                 /\ wrote' = [wrote EXCEPT ![cur].tex = r.w]
                 /\ texNewer' = [texNewer EXCEPT ![cur] = @ \/ r.w]
            /\ ph' = "pdf" /\ InRun /\ UNCHANGED launched
LaTeX == /\ ph = "pdf"
         /\ LET c == IF ch = "U" THEN (IF files[cur].pdf.a \/ texNewer[cur] THEN "T" ELSE "F") ELSE ch
                skip == ~set.lo /\ ~files[cur].pdf.a /\ c # "T" IN
              IF skip THEN /\ ch' = "F" /\ UNCHANGED <<files, launched, texNewer>>
              ELSE /\ files' = [files EXCEPT ![cur].pdf = C(files[cur].tex.t, files[cur].csv.d)]
                   /\ launched' = [launched EXCEPT ![cur].pdf = TRUE]
                   /\ texNewer' = [texNewer EXCEPT ![cur] = FALSE] /\ ch' = "T"
         /\ ph' = "png" /\ InRun /\ UNCHANGED wrote
Rec == [touched |-> rt,
        exp |-> [p \in Plots |-> [files |-> files'[p], wrote |-> wrote[p], launched |-> launched'[p], ch |-> chOut'[p]]]]
PNG == /\ ph = "png"
       /\ LET skip == ~files[cur].png.a /\ ~set.po /\ ch # "T" IN
            IF skip THEN /\ chOut' = [chOut EXCEPT ![cur] = "F"] /\ UNCHANGED <<files, launched>>
            ELSE /\ files' = [files EXCEPT ![cur].png = files[cur].pdf]
                 /\ launched' = [launched EXCEPT ![cur].png = TRUE]
                 /\ chOut' = [chOut EXCEPT ![cur] = "T"]
       /\ IF cur < NP THEN /\ cur' = cur + 1 /\ ph' = "csv" /\ ch' = "U"
                           /\ UNCHANGED <<runs, fresh, h>>
          ELSE /\ ph' = "idle" /\ cur' = 0 /\ ch' = "U" /\ runs' = runs + 1 /\ fresh' = TRUE
               /\ h' = IF KeepHistory THEN Append(h, Rec) ELSE h
       /\ UNCHANGED <<dataVer, tplVer, texNewer, set, wrote, pre, touched, rank, rt>>

DeleteAny == \E p \in Plots, k \in {"csv", "tex", "pdf", "png"} : Delete(p, k)
ChangeDataAny == \E p \in Plots : ChangeData(p)
Next == DeleteAny \/ ChangeDataAny \/ ChangeTpl \/ StartRun \/ WriteCSV \/ WriteTeX \/ LaTeX \/ PNG
Spec == Init /\ [][Next]_vars

(***************************************************************************)
(* Properties (right after a run: fresh).                                  *)
(***************************************************************************)
AllCurrent == fresh => \A p \in Plots : files[p] = Current(tplVer, dataVer[p])
Regenerated == fresh => \A p \in Plots : RegeneratedPdf(pre[p], wrote[p], launched[p]) /\ RegeneratedPng(pre[p], launched[p])
ChangedOK == fresh => \A p \in Plots : /\ ChangedFlag(chOut[p], wrote[p], launched[p])
                                        /\ ChangedExact(chOut[p], wrote[p], launched[p]) /\ chOut[p] # "U"
NoOverwrite == set.m1 # "overwrite" /\ set.m2 # "overwrite" /\ ~set.lo /\ ~set.po
\* a run whose inputs are unchanged rewrites no file and launches no converter
NoRedo == (fresh /\ runs >= 2 /\ rt = NoTouch /\ NoOverwrite) => \A p \in Plots : Nothing(wrote[p], launched[p])
\* (model only) the same per plot: a plot none of whose inputs or files was touched is not redone
TouchedPlot(p) == rt.tpl \/ (\E i \in 1..Len(rt.data) : rt.data[i] = p) \/ (\E i \in 1..Len(rt.del) : rt.del[i][1] = p)
NoRedoPlot == (fresh /\ runs >= 2 /\ NoOverwrite) => \A p \in Plots : (~TouchedPlot(p) => Nothing(wrote[p], launched[p]))
\* what is skipped was there before and is left alone
SkippedUntouched == fresh => \A p \in Plots : /\ (~launched[p].pdf => files[p].pdf = pre[p].pdf)
                                               /\ (~launched[p].png => files[p].png = pre[p].png)
                                               /\ (~wrote[p].csv => files[p].csv = pre[p].csv)
                                               /\ (~wrote[p].tex => files[p].tex = pre[p].tex)
TypeOK == /\ ph \in {"idle", "csv", "tex", "pdf", "png"} /\ ch \in {"U", "F", "T"} /\ runs \in 0..MaxRuns
          /\ cur \in 0..NP /\ set \in SettingsAll

Terminal == ph = "idle" /\ runs = MaxRuns
Emitted == Terminal => PrintT(ToJson([np |-> NP, set |-> set, h |-> h]))
=============================================================================
