------------------------------- MODULE Output -------------------------------
(***************************************************************************)
(* lena/output: the chain                                                  *)
(*   ToCSV, MakeFilename, Write, RenderLaTeX, Write, LaTeXToPDF, PDFToPNG  *)
(* and its grouped variant (lena/flow/group_plots.py)                      *)
(*   GroupBy, group_plots, MapGroup(ToCSV, MakeFilename, Write),           *)
(*   MakeFilename, RenderLaTeX, Write, LaTeXToPDF, PDFToPNG                *)
(* over histories of runs with changing data, changing template and        *)
(* deleted files.  A plot has sc.srcs[p] sources (csv files); with several  *)
(* sources it is a group rendered into one tex / pdf / png.  One action     *)
(* per element handling one value:                                         *)
(*   WriteCSV   Write.run on the csv text of one source (inside MapGroup    *)
(*              for a group); after the last source the flags of the        *)
(*              members are combined (group_plots / MapGroup: True if any   *)
(*              is True, else False).  A source that is an object with a    *)
(*              `write` method (sc.obj[p]) is always written, changed True  *)
(*   WriteTeX   Write.run on the rendered template                         *)
(*   LaTeX      LaTeXToPDF.run: skip iff pdf exists, not overwrite and      *)
(*              changed is False                                           *)
(*   LaTeXByTime  the same when changed is absent: the modification times   *)
(*              decide (changed = the tex is newer than the pdf)           *)
(*   PNG        PDFToPNG.run: skip iff png exists, not overwrite and        *)
(*              changed is not True                                        *)
(* output.changed travels with the value: "U" absent, "F", "T".             *)
(* Between runs: Delete(p, kind, m), ChangeData(p, m), ChangeTpl (in a      *)
(* canonical order, at most MaxTouch per step).                             *)
(* CreatedSetsChanged = TRUE is the documented Write ("if a file was        *)
(* written, output.changed is set to True"); FALSE is the pinned code       *)
(* (a created file leaves output.changed as it was) - TLC refutes           *)
(* Regenerated / AllCurrent for it.                                         *)
(***************************************************************************)
EXTENDS OutputSem, Json

CONSTANTS Plans,       \* what is explored: set of pipelines with their bounds
                       \* [srcs: sources per plot, obj: the source is an object with a write method,
                       \*  grouped: the grouped variant of the chain, runs, touch: bounds on the runs and on
                       \*  the touches before a run, sets: which option settings ("All", "Quick", "Default",
                       \*  "Options"), reuses: "Both" | "Fresh" | "Reused"]
                       \* settings are [m1, m2, lo, po]: modes of the two Writes ("check",
                       \* "existing_unchanged", "overwrite"), overwrite of LaTeXToPDF and of PDFToPNG;
                       \* reuse FALSE = the pipeline objects are built anew for every run, TRUE = the same
                       \* objects run again and again (plain chain only: GroupBy keeps its groups);
                       \* the properties must hold both ways
          CreatedSetsChanged,
          AutoReload,  \* TRUE: a reused RenderLaTeX renders the template file as it is now (jinja2 checks
                       \* the file); FALSE: it keeps the template it loaded first - TLC refutes AllCurrent
          KeepHistory

VARIABLES sc,                          \* the pipeline of this history
          reuse, cached,               \* are the objects reused; template version held by the RenderLaTeX
                                       \* object (0: none)
          dataVer, tplVer, files,      \* dataVer[p][m]; files[p] = [csv (one per source), tex, pdf, png]
          texNewer, preNewer,          \* the tex was written after the pdf (modification times); (ghost) the same
                                       \* when the current / last run started
          set,                         \* the settings of this history
          runs, ph, cur, mem, ch, mch, \* runs completed; stage; plot and source in work; output.changed of
                                       \* the value in work; flags of the sources handled so far
          wrote, launched, chOut, pre, \* ghosts of the current / last run (per plot)
          touched, rank, fresh, rt,    \* touched since the last run; canonical order; nothing touched since
                                       \* the run that just ended; what had been touched before that run
          h
vars == <<sc, reuse, cached, dataVer, tplVer, files, texNewer, preNewer, set, runs, ph, cur, mem, ch, mch, wrote, launched,
          chOut, pre, touched, rank, fresh, rt, h>>
view == <<sc, reuse, cached, dataVer, tplVer, files, texNewer, preNewer, set, runs, ph, cur, mem, ch, mch, wrote, launched,
          chOut, pre, touched, rank, fresh, rt>>

NP == Len(sc.srcs)
Plots == 1..NP
NS(p) == sc.srcs[p]
NoTouch == [del |-> <<>>, data |-> <<>>, tpl |-> FALSE]
NoWrite(p) == [csv |-> [m \in 1..NS(p) |-> FALSE], tex |-> FALSE]
NoLaunch == [pdf |-> FALSE, png |-> FALSE]
AllModes == {"check", "existing_unchanged", "overwrite"}
SettingsAll == [m1 : AllModes, m2 : AllModes, lo : BOOLEAN, po : BOOLEAN]
SettingsDefault == {[m1 |-> "check", m2 |-> "check", lo |-> FALSE, po |-> FALSE]}
\* the default and each option alone
SettingsQuick == SettingsDefault \cup
   {[m1 |-> a, m2 |-> a, lo |-> FALSE, po |-> FALSE] : a \in {"existing_unchanged", "overwrite"}} \cup
   {[m1 |-> "check", m2 |-> "check", lo |-> TRUE, po |-> FALSE], [m1 |-> "check", m2 |-> "check", lo |-> FALSE, po |-> TRUE]}
\* pipelines
Plain(n) == [srcs |-> [p \in 1..n |-> 1], obj |-> [p \in 1..n |-> FALSE], grouped |-> FALSE]
Group(s) == [srcs |-> s, obj |-> [p \in 1..Len(s) |-> FALSE], grouped |-> TRUE]
WithObj(o) == [srcs |-> [p \in 1..Len(o) |-> 1], obj |-> o, grouped |-> FALSE]
\* a pipeline with its bounds (one TLC run explores a whole set of plans)
Plan(s, r, t, sets, reuses) == [srcs |-> s.srcs, obj |-> s.obj, grouped |-> s.grouped,
                                runs |-> r, touch |-> t, sets |-> sets, reuses |-> reuses]
SetsOf(name) == CASE name = "All" -> SettingsAll [] name = "Quick" -> SettingsQuick
                  [] name = "Default" -> SettingsDefault [] name = "Options" -> SettingsQuick \ SettingsDefault
ReusesOf(name) == CASE name = "Both" -> {FALSE, TRUE} [] name = "Fresh" -> {FALSE} [] name = "Reused" -> {TRUE}
MaxRuns == sc.runs
MaxTouch == sc.touch
Obj1 == WithObj(<<TRUE>>)
Obj2 == WithObj(<<TRUE, FALSE>>)
Obj3 == WithObj(<<FALSE, TRUE, FALSE>>)
\* model checking
PlansQuickMC == {Plan(Plain(1), 3, 99, "All", "Both"), Plan(Group(<<2>>), 3, 2, "Quick", "Fresh"),
                 Plan(Obj1, 3, 2, "Quick", "Both")}
PlansThoroughMC1 == {Plan(Plain(1), 4, 99, "All", "Both")}
PlansThoroughMC2 == {Plan(Plain(2), 3, 2, "All", "Both"), Plan(Group(<<2>>), 3, 99, "Quick", "Fresh")} \cup
                    {Plan(s, 3, 2, "Quick", "Both") : s \in {Group(<<3>>), Group(<<2, 2>>), Group(<<2, 3>>), Obj1, Obj2, Obj3}}
PlansPinned == {Plan(Plain(1), 3, 99, "Default", "Fresh"), Plan(Group(<<2>>), 2, 99, "Default", "Fresh")}
PlansNoReload == {Plan(Plain(1), 3, 99, "Default", "Reused")}
\* the pinned design explored in full (its closed form RunPlot(FALSE, ...) is the oracle of the known finding)
PlansPinnedSem == {Plan(Plain(1), 3, 99, "Quick", "Both"), Plan(Plain(2), 2, 3, "Default", "Fresh"),
                   Plan(Group(<<2>>), 3, 2, "Default", "Fresh"), Plan(Obj2, 2, 2, "Default", "Fresh")}
PlansPinnedSemThorough == {Plan(Plain(1), 4, 99, "All", "Both"), Plan(Plain(2), 3, 3, "Quick", "Both"),
                           Plan(Group(<<2>>), 3, 99, "Quick", "Fresh"), Plan(Group(<<2, 3>>), 3, 2, "Default", "Fresh"),
                           Plan(Obj2, 3, 2, "Quick", "Both")}
\* export (quick: the harness replays one deterministic half of the plain histories with reused objects)
PlansQuickExport == {Plan(Plain(1), 3, 2, "Default", "Fresh"), Plan(Plain(1), 2, 2, "Options", "Fresh"),
                     Plan(Group(<<2>>), 2, 2, "Quick", "Fresh"), Plan(Group(<<2>>), 3, 1, "Default", "Fresh"),
                     Plan(Plain(2), 2, 2, "Default", "Fresh"), Plan(Obj1, 2, 2, "Default", "Fresh"),
                     Plan(Obj2, 2, 2, "Default", "Fresh"), Plan(Group(<<2, 2>>), 2, 2, "Default", "Fresh")}
PlansThoroughExport1 == {Plan(Plain(1), 3, 3, "Default", "Both"), Plan(Plain(1), 3, 2, "Options", "Both"),
                         Plan(Plain(1), 2, 99, "All", "Both"), Plan(Plain(2), 3, 2, "Default", "Both"),
                         Plan(Plain(3), 2, 2, "Quick", "Both")}
PlansThoroughExport2 == {Plan(Group(<<2>>), 3, 2, "Default", "Fresh"), Plan(Group(<<2>>), 2, 99, "Quick", "Fresh")} \cup
                        {Plan(s, 2, 2, "Quick", "Both") : s \in {Group(<<3>>), Group(<<2, 2>>), Group(<<2, 3>>), Obj1, Obj2, Obj3}}

Init == /\ sc \in Plans /\ set \in SetsOf(sc.sets)
        /\ reuse \in {r \in ReusesOf(sc.reuses) : sc.grouped => ~r} /\ cached = 0
        /\ dataVer = [p \in 1..Len(sc.srcs) |-> [m \in 1..sc.srcs[p] |-> 1]] /\ tplVer = 1
        /\ files = [p \in 1..Len(sc.srcs) |-> [csv |-> [m \in 1..sc.srcs[p] |-> Absent], tex |-> Absent,
                                               pdf |-> Absent, png |-> Absent]]
        /\ texNewer = [p \in 1..Len(sc.srcs) |-> FALSE] /\ preNewer = texNewer
        /\ runs = 0 /\ ph = "idle" /\ cur = 0 /\ mem = 0 /\ ch = "U" /\ mch = <<>>
        /\ wrote = [p \in 1..Len(sc.srcs) |-> [csv |-> [m \in 1..sc.srcs[p] |-> FALSE], tex |-> FALSE]]
        /\ launched = [p \in 1..Len(sc.srcs) |-> NoLaunch]
        /\ chOut = [p \in 1..Len(sc.srcs) |-> "U"] /\ pre = files
        /\ touched = NoTouch /\ rank = 0 /\ fresh = FALSE /\ rt = NoTouch /\ h = <<>>

(***************************************************************************)
(* Between runs.  A touch is <<p, kind, m>> (m = 0 for tex / pdf / png).   *)
(***************************************************************************)
DelRank(p, k, m) == 10 * (p - 1) + (CASE k = "csv" -> m [] k = "tex" -> 6 [] k = "pdf" -> 7 [] k = "png" -> 8)
DataRank(p, m) == 10 * NP + 4 * (p - 1) + m
TplRank == 14 * NP + 1
CanTouch(r) == ph = "idle" /\ runs >= 1 /\ runs < MaxRuns /\ r > rank
               /\ Len(touched.del) + Len(touched.data) + (IF touched.tpl THEN 1 ELSE 0) < MaxTouch
Keep == UNCHANGED <<sc, reuse, cached, texNewer, preNewer, set, runs, ph, cur, mem, ch, mch, wrote, launched, chOut, pre, rt, h>>
DeleteCsv(p, m) == /\ CanTouch(DelRank(p, "csv", m)) /\ ~files[p].csv[m].a
                   /\ files' = [files EXCEPT ![p].csv[m] = Absent]
                   /\ touched' = [touched EXCEPT !.del = Append(@, <<p, "csv", m>>)]
                   /\ rank' = DelRank(p, "csv", m) /\ fresh' = FALSE
                   /\ Keep /\ UNCHANGED <<dataVer, tplVer>>
DeleteOther(p, k) == /\ CanTouch(DelRank(p, k, 0)) /\ ~files[p][k].a
                     /\ files' = [files EXCEPT ![p][k] = Absent]
                     /\ touched' = [touched EXCEPT !.del = Append(@, <<p, k, 0>>)]
                     /\ rank' = DelRank(p, k, 0) /\ fresh' = FALSE
                     /\ Keep /\ UNCHANGED <<dataVer, tplVer>>
\* existing_unchanged documents the assumption that existing files are up to date:
\* under it the data / template only change when the file to be written is not there
ChangeData(p, m) == /\ CanTouch(DataRank(p, m))
                    /\ (set.m1 = "existing_unchanged" => files[p].csv[m].a)
                    /\ dataVer' = [dataVer EXCEPT ![p][m] = @ + 1]
                    /\ touched' = [touched EXCEPT !.data = Append(@, <<p, m>>)]
                    /\ rank' = DataRank(p, m) /\ fresh' = FALSE
                    /\ Keep /\ UNCHANGED <<tplVer, files>>
ChangeTpl == /\ CanTouch(TplRank)
             /\ (set.m2 = "existing_unchanged" => \A p \in Plots : files[p].tex.a)
             /\ tplVer' = tplVer + 1 /\ touched' = [touched EXCEPT !.tpl = TRUE]
             /\ rank' = TplRank /\ fresh' = FALSE
             /\ Keep /\ UNCHANGED <<dataVer, files>>

(***************************************************************************)
(* A run.                                                                  *)
(***************************************************************************)
StartRun == /\ ph = "idle" /\ runs < MaxRuns
            /\ ph' = "csv" /\ cur' = 1 /\ mem' = 1 /\ ch' = "U" /\ mch' = <<>>
            /\ wrote' = [p \in Plots |-> NoWrite(p)] /\ launched' = [p \in Plots |-> NoLaunch]
            /\ chOut' = [p \in Plots |-> "U"] /\ pre' = files /\ fresh' = FALSE
            /\ rt' = touched /\ touched' = NoTouch /\ rank' = 0 /\ preNewer' = texNewer
            \* new objects have loaded no template yet
            /\ cached' = IF reuse THEN cached ELSE 0
            /\ UNCHANGED <<sc, reuse, dataVer, tplVer, files, texNewer, set, runs, h>>

\* the elements as functions: OutputSem.tla (WriteElP, WriteObj, Combine, LaTeXEl, PNGEl)
WriteEl(mode, file, content, c) == WriteElP(CreatedSetsChanged, mode, file, content, c)

InRun == UNCHANGED <<sc, reuse, dataVer, tplVer, set, runs, cur, chOut, pre, preNewer, touched, rank, fresh, rt, h>>
\* RenderLaTeX: the template version that is rendered now
Rendered == IF reuse /\ cached # 0 /\ ~AutoReload THEN cached ELSE tplVer
WriteCSV == /\ ph = "csv"
            /\ LET content == C(0, <<dataVer[cur][mem]>>)
                   r == IF sc.obj[cur] THEN WriteObj(content) ELSE WriteEl(set.m1, files[cur].csv[mem], content, "U")
                   all == Append(mch, r.ch) IN
                 /\ files' = [files EXCEPT ![cur].csv[mem] = r.f]
                 /\ wrote' = [wrote EXCEPT ![cur].csv[mem] = r.w]
                 /\ IF mem < NS(cur) THEN mem' = mem + 1 /\ mch' = all /\ UNCHANGED <<ph, ch>>
                    ELSE /\ mem' = 1 /\ mch' = <<>> /\ ph' = "tex"
                         /\ ch' = IF sc.grouped THEN Combine(all) ELSE all[1]
            /\ InRun /\ UNCHANGED <<texNewer, launched, cached>>
\* RenderLaTeX + Write
WriteTeX == /\ ph = "tex"
            /\ LET r == WriteEl(set.m2, files[cur].tex, C(Rendered, <<>>), ch) IN
                 /\ files' = [files EXCEPT ![cur].tex = r.f] /\ ch' = r.ch
                 /\ wrote' = [wrote EXCEPT ![cur].tex = r.w]
                 /\ texNewer' = [texNewer EXCEPT ![cur] = @ \/ r.w]
            /\ cached' = Rendered
            /\ ph' = "pdf" /\ InRun /\ UNCHANGED <<launched, mem, mch>>
\* LaTeXToPDF: two named actions - output.changed is there / is absent (decided by the modification times)
LaTeXBody ==
         /\ LET r == LaTeXEl(set.lo, files[cur].tex, files[cur].csv, files[cur].pdf, texNewer[cur], ch) IN
              /\ files' = [files EXCEPT ![cur].pdf = r.f]
              /\ launched' = [launched EXCEPT ![cur].pdf = r.l]
              /\ texNewer' = [texNewer EXCEPT ![cur] = IF r.l THEN FALSE ELSE @]
              /\ ch' = r.ch
         /\ ph' = "png" /\ InRun /\ UNCHANGED <<wrote, mem, mch, cached>>
LaTeX == ph = "pdf" /\ ch # "U" /\ LaTeXBody
LaTeXByTime == ph = "pdf" /\ ch = "U" /\ LaTeXBody
Rec == [touched |-> rt,
        exp |-> [p \in Plots |-> [files |-> files'[p], wrote |-> wrote[p], launched |-> launched'[p], ch |-> chOut'[p]]]]
PNG == /\ ph = "png"
       /\ LET r == PNGEl(set.po, files[cur].pdf, files[cur].png, ch) IN
            /\ files' = [files EXCEPT ![cur].png = r.f]
            /\ launched' = [launched EXCEPT ![cur].png = r.l]
            /\ chOut' = [chOut EXCEPT ![cur] = r.ch]
       /\ IF cur < NP THEN /\ cur' = cur + 1 /\ ph' = "csv" /\ ch' = "U"
                           /\ UNCHANGED <<runs, fresh, h>>
          ELSE /\ ph' = "idle" /\ cur' = 0 /\ ch' = "U" /\ runs' = runs + 1 /\ fresh' = TRUE
               /\ h' = IF KeepHistory THEN Append(h, Rec) ELSE h
       /\ UNCHANGED <<sc, reuse, cached, dataVer, tplVer, texNewer, preNewer, set, wrote, pre, touched, rank, rt, mem, mch>>

DeleteCsvAny == \E p \in Plots : \E m \in 1..NS(p) : DeleteCsv(p, m)
DeleteOtherAny == \E p \in Plots, k \in {"tex", "pdf", "png"} : DeleteOther(p, k)
ChangeDataAny == \E p \in Plots : \E m \in 1..NS(p) : ChangeData(p, m)
Next == DeleteCsvAny \/ DeleteOtherAny \/ ChangeDataAny \/ ChangeTpl \/ StartRun \/ WriteCSV \/ WriteTeX \/ LaTeX
        \/ LaTeXByTime \/ PNG
Spec == Init /\ [][Next]_vars

(***************************************************************************)
(* Properties (right after a run: fresh).                                  *)
(***************************************************************************)
AllCurrent == fresh => \A p \in Plots : files[p] = Current(tplVer, dataVer[p])
Regenerated == fresh => \A p \in Plots : RegeneratedPdf(pre[p], wrote[p], launched[p]) /\ RegeneratedPng(pre[p], launched[p])
ChangedOK == fresh => \A p \in Plots : /\ ChangedFlag(chOut[p], wrote[p], launched[p])
                                        /\ ChangedExact(chOut[p], wrote[p], launched[p]) /\ chOut[p] # "U"
NoOverwrite == set.m1 # "overwrite" /\ set.m2 # "overwrite" /\ ~set.lo /\ ~set.po
\* a run whose inputs are unchanged rewrites no file and launches no converter
\* (a source with a write method is always written: excepted by the docstring of Write.run)
NoRedo == (fresh /\ runs >= 2 /\ rt = NoTouch /\ NoOverwrite) =>
             \A p \in Plots : ~sc.obj[p] => Nothing(wrote[p], launched[p])
\* (model only) the same per plot: a plot none of whose inputs or files was touched is not redone
TouchedPlot(p) == rt.tpl \/ (\E i \in 1..Len(rt.data) : rt.data[i][1] = p) \/ (\E i \in 1..Len(rt.del) : rt.del[i][1] = p)
NoRedoPlot == (fresh /\ runs >= 2 /\ NoOverwrite) =>
                 \A p \in Plots : (~TouchedPlot(p) /\ ~sc.obj[p]) => Nothing(wrote[p], launched[p])
\* what is skipped was there before and is left alone
SkippedUntouched == fresh => \A p \in Plots : /\ (~launched[p].pdf => files[p].pdf = pre[p].pdf)
                                               /\ (~launched[p].png => files[p].png = pre[p].png)
                                               /\ \A m \in 1..NS(p) : ~wrote[p].csv[m] => files[p].csv[m] = pre[p].csv[m]
                                               /\ (~wrote[p].tex => files[p].tex = pre[p].tex)
\* a group is redone as a whole as soon as one of its sources was rewritten
GroupRedone == fresh => \A p \in Plots : AnyCsv(wrote[p]) => launched[p].pdf /\ launched[p].png
\* operational = closed form: the interleaved element actions of a run leave, for every plot, exactly what
\* RunPlot (OutputSem.tla) says - the function Trace_Output.tla uses to tell the known finding from anything else
Sem(p) == RunPlot(CreatedSetsChanged, set, sc.obj[p], sc.grouped, pre[p], preNewer[p], dataVer[p], tplVer)
SemOK == fresh => \A p \in Plots : /\ files[p] = Sem(p).files /\ wrote[p] = Sem(p).wrote /\ launched[p] = Sem(p).launched
                                    /\ chOut[p] = Sem(p).ch /\ texNewer[p] = Sem(p).newer
\* the documented Write always reports output.changed: the flag is never absent at LaTeXToPDF
FlagPresent == CreatedSetsChanged => (ph = "pdf" => ch # "U")
\* whatever Write does about the flag of created files (documented or pinned): when output.changed reaches
\* LaTeXToPDF absent, the tex has just been written, it is newer than any pdf, and pdf and png are made anew
AbsentFlagRedone == fresh => \A p \in Plots : Sem(p).chPdf = "U" => launched[p].pdf /\ launched[p].png /\ chOut[p] = "T"
\* ... and the plot is then up to date
AbsentFlagCurrent == fresh => \A p \in Plots : Sem(p).chPdf = "U" => files[p] = Current(tplVer, dataVer[p])
TypeOK == /\ ph \in {"idle", "csv", "tex", "pdf", "png"} /\ ch \in {"U", "F", "T"} /\ runs \in 0..MaxRuns
          /\ cur \in 0..NP /\ set \in SettingsAll

Terminal == ph = "idle" /\ runs = MaxRuns
Emitted == Terminal => PrintT(ToJson([sc |-> sc, reuse |-> reuse, set |-> set, h |-> h]))
=============================================================================
