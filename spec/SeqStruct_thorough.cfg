SPECIFICATION Spec
CONSTANTS
  Scenarios <- ScThorough
INVARIANT BuildIsRef
INVARIANT FlatIsRef
INVARIANT ClassIsRef
CHECK_DEADLOCK FALSE
