SPECIFICATION Spec
CONSTANTS MaxBlock = 5 MaxOps = 9 MaxLen = 12
  Ms = {0, 1, 2, 9}
  Takes = {0, 1, 2}
  Srcs = {"iter", "list", "tuple"}
  SplitBufs <- SplitBufsThorough
  Rets = {"gen", "fresh", "own", "iter", "tuple"}
  Variant = "intended"
INVARIANT Emitted
CHECK_DEADLOCK FALSE
