SPECIFICATION Spec
CONSTANTS MaxBr = 4 MaxN = 7
  Kinds <- KindsQuick
  BufSizes <- BufThorough
INVARIANT OpEqDen
INVARIANT OutIsPrefix
INVARIANT BufBound
INVARIANT BufsizeIndependent
INVARIANT OnceOnly
INVARIANT FRAccount
CHECK_DEADLOCK FALSE
