SPECIFICATION Spec
CONSTANTS MaxLen = 2 MaxN = 3 Infinite = FALSE MaxOut = 100
  Vals = "nat" Stops = FALSE MaxRuns = 1 MaxLead = 2
  Alphabet <- AlphaObj
  Must <- ObjC01
  Pairs <- Both
INVARIANT OpEqDen
INVARIANT OutIsPrefix
INVARIANT Regroup
INVARIANT NoWorkBeforeDemand
INVARIANT NoDataInvisible
INVARIANT LeadUntouched
INVARIANT SliceIsPySlice
INVARIANT Buffers
INVARIANT Emitted
CHECK_DEADLOCK FALSE
