SPECIFICATION Spec
CONSTANTS MaxN = 8 MaxK = 5
INVARIANT Emitted
CHECK_DEADLOCK FALSE
