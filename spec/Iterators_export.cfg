SPECIFICATION Spec
CONSTANTS MaxN = 8 MaxK = 5 ShareBuffer = FALSE
INVARIANT Emitted
CHECK_DEADLOCK FALSE
