SPECIFICATION Spec
CONSTANTS MaxA = 2 MaxB = 3 MaxFan = 1
  AsyncModes = {FALSE}
  Repeats = TRUE Cuts = FALSE
INVARIANT Emitted_
CHECK_DEADLOCK FALSE
