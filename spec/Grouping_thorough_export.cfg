SPECIFICATION Spec
CONSTANTS U = "thorough"
INVARIANT Emitted
CHECK_DEADLOCK FALSE
