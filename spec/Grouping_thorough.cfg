SPECIFICATION Spec
CONSTANTS U = "thorough"
INVARIANT TypeOK
INVARIANT GroupsPartition
INVARIANT PassThrough
INVARIANT GroupContexts
INVARIANT ScaledToNumber
INVARIANT ScaleToReference
INVARIANT ScaleErrors
INVARIANT MapGroupShape
INVARIANT DropContexts
INVARIANT PassIdentity
INVARIANT ShapeLaw
INVARIANT OpEqDecl
INVARIANT ValsBeforeGroups
CHECK_DEADLOCK FALSE
