SPECIFICATION FSpec
CONSTANTS MaxN = 4 Bound = 2 MaxStep = 2
  CapNames = {}
  HintNames = {"exact"}
  MaxGrowAt = 2 MaxGrowBy = 2 UseHint = TRUE
INVARIANT FlowIndependent
CHECK_DEADLOCK FALSE
