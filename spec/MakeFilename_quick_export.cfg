SPECIFICATION Spec
CONSTANTS MaxLen = 2
  Vocabulary <- SmallElements
INVARIANT OpEqDen
INVARIANT RunTimeWins
INVARIANT AffixOnce
INVARIANT PendingOnce
PROPERTY NameStable
PROPERTY AffixConsumed
INVARIANT Emitted
CHECK_DEADLOCK FALSE
