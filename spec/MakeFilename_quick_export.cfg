SPECIFICATION Spec
CONSTANTS MaxLen = 2
  Vocabulary <- SmallElements
INVARIANT Emitted
CHECK_DEADLOCK FALSE
