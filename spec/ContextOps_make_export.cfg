SPECIFICATION Spec
CONSTANTS
  KeyOrder <- KO2
  Ctxs <- OneCtx
  Flows <- SingleFlows
  Calls <- MakeCalls
INVARIANT Emit
CHECK_DEADLOCK FALSE
