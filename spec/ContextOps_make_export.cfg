SPECIFICATION Spec
CONSTANTS
  KeyOrder <- KO2
  Ctxs <- OneCtx
  Calls <- MakeCalls
INVARIANT Emit
CHECK_DEADLOCK FALSE
