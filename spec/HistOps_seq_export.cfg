SPECIFICATION Spec
CONSTANTS MaxOps = 4
  HistChoices <- HistsSeq2
  Targets <- TargetsSeq
  NevTargets <- NevSeq
  AddWeights <- WeightsSeq
  SeqOnly = TRUE
INVARIANT TypeOK
PROPERTY ScaleExact
PROPERTY ScaleRecomputed
PROPERTY ZeroScaleRaises
PROPERTY GetScalePure
PROPERTY NeventsSet
PROPERTY AllowZeroSkips
PROPERTY NeventsZeroRaises
PROPERTY ToGraphScalePure
PROPERTY HeldFrozen
PROPERTY AddCellwise
PROPERTY AddOnlyEqualEdges
PROPERTY AddPure
PROPERTY AddIntoFresh
INVARIANT CacheHonest
INVARIANT Emitted
CHECK_DEADLOCK FALSE
