SPECIFICATION Spec
CONSTANTS MaxOps = 4
  HistChoices <- HistsSeq
  Targets <- TargetsSeq
  NevTargets <- NevSeq
  AddWeights <- WeightsSeq
  SeqOnly = TRUE
INVARIANT Emitted
CHECK_DEADLOCK FALSE
