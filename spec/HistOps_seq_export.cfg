SPECIFICATION Spec
CONSTANTS MaxOps = 4
  HistChoices <- HistsSeq2
  Targets <- TargetsSeq
  NevTargets <- NevSeq
  AddWeights <- WeightsSeq
  SeqOnly = TRUE
INVARIANT Emitted
CHECK_DEADLOCK FALSE
