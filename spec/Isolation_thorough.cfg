SPECIFICATION Spec
CONSTANTS MaxBr = 3 MaxN = 4 CopyMode = "deep"
  BufSizes <- BufAll
  Templates <- AllTemplates
INVARIANT Isolated
INVARIANT YieldedStable
INVARIANT PrefixIsolated
INVARIANT HeldDisjoint
INVARIANT OnlyLastSeesSource
INVARIANT ZipNeverSeesSource
CHECK_DEADLOCK FALSE
