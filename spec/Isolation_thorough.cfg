SPECIFICATION Spec
CONSTANTS MaxBr = 3 MaxN = 4 CopyMode = "deep"
  BufSizes <- BufAll
  FillBr = 3
  ExtraBr = 3
  Shapes <- AllShapes
  Classes <- AllClasses
  FillTemplates <- FillFew
  Templates <- AllTemplates
INVARIANT Isolated
INVARIANT YieldedStable
INVARIANT PrefixIsolated
INVARIANT HeldDisjoint
INVARIANT OnlyLastSeesSource
INVARIANT ZipNeverSeesSource
INVARIANT SourceByLastOnly
CHECK_DEADLOCK FALSE
