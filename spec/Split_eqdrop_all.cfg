SPECIFICATION SpecEqDrop
CONSTANTS MaxRuns = 1
  Scenarios <- ScEqAllOnly
INVARIANT OpEqDen
CHECK_DEADLOCK FALSE
