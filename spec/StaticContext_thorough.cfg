SPECIFICATION Spec
CONSTANTS MaxDepth = 3
  Families <- FamThorough
  StoreByCopy = TRUE
  TailKeepsSets = TRUE
  SplitContinues = TRUE
INVARIANT SeenIsExpected
INVARIANT PrefixOnly
INVARIANT SiblingIndependent
INVARIANT RootExpected
INVARIANT NoLeakToRuntime
PROPERTY Causal
PROPERTY RunKeepsStatic
CHECK_DEADLOCK FALSE
