--------------------------- MODULE Trace_FillEdge ---------------------------
(***************************************************************************)
(* Validation of chains with selectors returning arbitrary objects and     *)
(* with faulty elements, driven on the real code beyond the exhaustive     *)
(* bounds (longer chains and flows, any bufsize).  One record per run:     *)
(*   [ch, N, drv, bs, st, exc, out]   st = "ok" | "raised", exc = class of *)
(*   the exception ("" if none), out = the results yielded before the end  *)
(* Whatever the driver, the outcome must be FillEdge!Outcome: the same     *)
(* results, or an error after the same results, surfacing under one of the *)
(* classes Surfaces allows.                                                *)
(***************************************************************************)
EXTENDS Integers, Sequences, TLC, Json, IOUtils

Trace == JsonDeserialize(IOEnv.TRACE_FILE)
VARIABLE i
FE == INSTANCE FillEdge WITH MaxN <- 0, Chains <- {}, Drivers <- {}, Bufs <- {}, FillTruth <- "truth", RunStop <- "error",
        ch <- 0, N <- 0, drv <- 0, bs <- 0, pos <- 0, fed <- 0, buf <- 0, phase <- 0, res <- 0, act <- 0
Ok(r) == LET o == FE!Outcome(r.ch, [j \in 1..r.N |-> j - 1]) IN
         /\ r.st = o.st /\ r.out = o.out /\ r.exc \in FE!Surfaces(o.exc)
Init == i = 1
Next == i <= Len(Trace) /\ Ok(Trace[i]) /\ i' = i + 1
Spec == Init /\ [][Next]_i
Accepted == /\ PrintT(<<"ACCEPTED", TLCGet("stats").diameter - 1>>)
            /\ TLCGet("stats").diameter - 1 = Len(Trace)
=============================================================================
