SPECIFICATION Spec
CONSTANTS MaxLen = 4
  Pool <- PoolA
  Starts <- StartsA
  Xs = {2}
  Nested = FALSE
  Ys <- NoData
  Extra <- ExtraA
  Variant = "doc"
  CopyVarContext = TRUE
  ExtendByCompose = TRUE
  PathKeys = FALSE
INVARIANT DataEq
INVARIANT ComposeEqSeq
INVARIANT CombineTuple
INVARIANT TypedDeclarative
INVARIANT TypesAvailable
INVARIANT NestedFlattens
INVARIANT CarriesName
INVARIANT CarriesAttributes
INVARIANT FrameVariableOnly
INVARIANT VarUnchanged
INVARIANT Repeatable
CHECK_DEADLOCK FALSE
