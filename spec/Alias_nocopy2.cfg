SPECIFICATION Spec
CONSTANTS MaxLen = 4 Classes <- QuickClasses CopyOnCompute = "none"
PROPERTY MutateIsLocal
CHECK_DEADLOCK FALSE
