SPECIFICATION Spec
CONSTANTS MaxLen = 4 CopyOnCompute = "none"
PROPERTY MutateIsLocal
CHECK_DEADLOCK FALSE
