SPECIFICATION Spec
CONSTANTS MaxLen = 4 CopyOnCompute = FALSE
PROPERTY MutateIsLocal
CHECK_DEADLOCK FALSE
