SPECIFICATION Spec
CONSTANTS MaxRuns = 2 MaxTouch = 2
  Scens <- ScenExpC
  Settings <- SettingsDefault
  CreatedSetsChanged = TRUE
  KeepHistory = TRUE
INVARIANT Emitted
CHECK_DEADLOCK FALSE
