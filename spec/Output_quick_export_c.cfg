SPECIFICATION Spec
CONSTANTS NP = 2 MaxRuns = 2 MaxTouch = 2
  Settings <- SettingsDefault
  CreatedSetsChanged = TRUE
  KeepHistory = TRUE
INVARIANT Emitted
CHECK_DEADLOCK FALSE
