SPECIFICATION Spec
CONSTANTS MaxN = 5 Infinite = FALSE MaxOut = 3 MaxPos = 14 Stops = FALSE Guard = "wholeflow"
  Scen <- ScenGuard
INVARIANT TypeOK
INVARIANT NoWorkBeforeDemand
INVARIANT ResultsAreSem
INVARIANT MachineIsSem
INVARIANT BlockPrefixOnly
CONSTRAINT Bounded
CHECK_DEADLOCK FALSE
