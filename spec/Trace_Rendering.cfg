SPECIFICATION TSpec
CONSTANTS Parts = {} MaxSrc = 0 MaxRows = 0 Deep = FALSE
POSTCONDITION Accepted
CHECK_DEADLOCK FALSE
