SPECIFICATION Spec
CONSTANTS Parts = {"sel", "table", "csv", "cmd", "repr", "ctxop"} MaxSrc = 4 MaxRows = 2 Deep = FALSE
INVARIANT Emitted
CHECK_DEADLOCK FALSE
