SPECIFICATION Spec
CONSTANTS MaxLen = 3 MaxN = 3 Infinite = FALSE MaxOut = 100
  Vals = "nat" Stops = FALSE MaxRuns = 1 MaxLead = 3
  Alphabet <- AlphaLead
  Must <- NoDatas
  Pairs <- Both
INVARIANT OpEqDen
INVARIANT OutIsPrefix
INVARIANT Regroup
INVARIANT NoWorkBeforeDemand
INVARIANT NoDataInvisible
INVARIANT LeadUntouched
INVARIANT SliceIsPySlice
INVARIANT Buffers
INVARIANT Emitted
CHECK_DEADLOCK FALSE
