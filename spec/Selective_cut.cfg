SPECIFICATION Spec
CONSTANTS MaxA = 2 MaxB = 2 MaxFan = 1
  AsyncModes = {FALSE, TRUE}
  Repeats = FALSE Cuts = TRUE
INVARIANT TypeOK
INVARIANT UnselIdentityOrder
INVARIANT SelIndependent
INVARIANT NoFsForUnsel
INVARIANT Metamorphic
CHECK_DEADLOCK FALSE
