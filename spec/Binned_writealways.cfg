SPECIFICATION Spec
CONSTANTS MaxRuns = 2
  DataSets <- DataQuick
  BranchLists <- BrExport
  BufSizes = {2}
  EdgesX <- EX1
  EdgesY <- EY1
  EdgesH <- EH1
  WriteAlways = TRUE
  ClosedLast = FALSE
VIEW view
INVARIANT PerCell
INVARIANT NoRedo
CHECK_DEADLOCK FALSE
