SPECIFICATION Spec
CONSTANTS PairSrc = "all" CtxU = "tiny" MaxFlow = 3 KeyU = "six" Writ = "all" NObj = 0
INVARIANT IsPartition
INVARIANT SnapshotsRight
PROPERTY ResetEmpties
INVARIANT PartitionExact
INVARIANT OrderPreserved
INVARIANT NoEmptyGroup
INVARIANT PartitionIsEquivalence
INVARIANT OwnerIsLongest
INVARIANT WritingIrrelevant
PROPERTY Stable
INVARIANT DefaultsOneGroup
INVARIANT WholeContext
CHECK_DEADLOCK FALSE
