------------------------------ MODULE FlowSrc ------------------------------
(***************************************************************************)
(* C02: the KIND OF INPUT ITERATOR a pipeline is run on, and what happens  *)
(* to the input once the pipeline has been released.                       *)
(*                                                                         *)
(* The coroutine machine of Flow.tla reads its input through one operation *)
(* only (Source: next()).  Real iterators offer a second one: PEP 424      *)
(* __length_hint__ (iter(list), iter(range), a reader that knows how many  *)
(* records are left; the number may be exact, too large or too small).     *)
(* Reading the hint (ReadHint) is not a pull and is allowed; what is       *)
(* pulled, and when, must not depend on it: src is chosen freely in the    *)
(* initial state, and the laziness properties of Flow.tla are checked for  *)
(* every kind (LazyEqDen: pulls at each delivery = MinNeed).               *)
(*                                                                         *)
(* Release: a pipeline is released when the consumer closes / drops /      *)
(* throws into it (Stop of Flow.tla), and every stage upstream of a stage  *)
(* that has finished (a Slice that reached its stop, End) is released by   *)
(* that stage.  A released generator runs its clean-up code; that code     *)
(* pulls nothing: NoPullAfterStop (Flow), NoPullAfterFinish (here).        *)
(*                                                                         *)
(* Wrong selects a sensitivity guard: an implementation TLC must refute.   *)
(*   "buffer-if-sized"  : a callable adapter that reads a whole sized flow *)
(*                        before it yields its first result                *)
(*   "drain-on-release" : a Count that counts the rest of the flow when    *)
(*                        its generator is closed                          *)
(***************************************************************************)
EXTENDS Flow

CONSTANTS SrcKinds,    \* subset of {"plain", "exact", "over", "under", "list", "range"}
          MaxHints,    \* how often the hint may be read in a run (0: export configurations)
          Wrong        \* "none" | "buffer-if-sized" | "drain-on-release"

VARIABLES src,         \* the kind of iterator the pipeline is run on
          hints        \* number of times its length hint was read
svars == <<vars, src, hints>>

Sized == src # "plain"
\* what __length_hint__ answers now (-1: the iterator has no such method)
HintOf == IF ~Sized THEN -1
          ELSE IF N = Inf THEN Inf
          ELSE IF src = "over" THEN N - pos + 2
          ELSE IF src = "under" THEN (IF N - pos > 1 THEN N - pos - 1 ELSE 0)
          ELSE N - pos            \* exact, iter(list), iter(range)

SInit == /\ Init /\ src \in SrcKinds /\ hints = 0
         /\ src \in {"list", "range"} => N # Inf

\* a stage that is asked and has to ask the input may look at the hint first: not a pull
ReadHint == /\ Sized /\ hints < MaxHints /\ ctl.k = "need" /\ ctl.at = lead
            /\ hints' = hints + 1 /\ UNCHANGED <<vars, src>>

\* ---- sensitivity guards ----
BufferIfSized == /\ Wrong = "buffer-if-sized" /\ ctl.k = "need" /\ ctl.at = lead /\ lead < n
                 /\ Core(prog[lead + 1]).t = "map" /\ HintOf > 0 /\ N # Inf /\ pos < N
                 /\ pos' = N /\ ctl' = [at |-> lead + 1, k |-> "have", v |-> ValAt(pos, base, pairs)]
                 /\ UNCHANGED <<scen, runvars, loc, q, fin, out, pulls, asked, stopped, src, hints>>
DrainOnRelease == /\ Wrong = "drain-on-release" /\ N # Inf /\ pos < N /\ asked
                  /\ stopped = "closed" \/ Exhausted
                  /\ \E i \in 1..n : Core(prog[i]).t = "count" /\ ~fin[i]
                  /\ pos' = N
                  /\ UNCHANGED <<scen, runvars, loc, q, fin, ctl, out, pulls, asked, stopped, src, hints>>

SNext == \/ Next /\ UNCHANGED <<src, hints>>
         \/ ReadHint \/ BufferIfSized \/ DrainOnRelease
SSpec == SInit /\ [][SNext]_svars

\* reading the hint changes nothing that can be observed
HintIsNoPull == [][hints' # hints => pos' = pos /\ out' = out /\ loc' = loc /\ q' = q]_svars
\* once a stage has finished, everything upstream of it is released: the input is not pulled again in that run
NoPullAfterFinish == [][((\E i \in 1..n : fin[i]) /\ run' = run) => pos' = pos]_svars
\* the consumer received the end of the flow: nothing is pulled afterwards
NoPullAfterEnd == [][(Exhausted /\ run' = run) => pos' = pos]_svars
\* an exhausted run that ended before the input did: some stage finished early and released its input
ReleasedEarly == Exhausted /\ N # Inf /\ pos < N
ReleasedByStage == (Exhausted /\ pos < N) => \E i \in 1..n : fin[i]

EmittedS == (Done /\ stopped = "no") =>
               PrintT(ToJson([prog |-> prog, n |-> N, pairs |-> pairs, built |-> built, lead |-> lead,
                              out |-> out, pulls |-> pulls, endpos |-> pos, exhausted |-> Exhausted,
                              src |-> src, hint0 |-> (IF ~Sized THEN -1 ELSE IF N = Inf THEN Inf
                                                      ELSE IF src = "over" THEN N + 2
                                                      ELSE IF src = "under" THEN (IF N > 1 THEN N - 1 ELSE 0) ELSE N),
                              released |-> (Exhausted /\ pos < N)]))

\* callables of every kind the adapter wraps, elements that finish early / look ahead / buffer
AlphaSrc == {Map("inc"), Map("var"), Map("upd"), Filter("even"), Slice(0, 2, 1), Slice(1, 3, 1), Count,
             RunIf("even", "inc"), SplitSt(<<Map("inc")>>, 2)}
AlphaSrcT == AlphaSrc \cup {Map("mkfn"), Map("print"), LagK(1), NSlice(None, -1, 1), Slice(0, 3, 2),
                            SplitC(<<Map("inc"), Filter("even")>>, 2, FALSE)}
AlphaSrcMC == {Map("inc"), Filter("even"), Slice(0, 2, 1), Count, RunIf("even", "inc"), SplitSt(<<Map("inc")>>, 2)}
MCKinds == {"plain", "exact", "over", "under"}
AllKinds == {"plain", "exact", "over", "under", "list", "range"}
SizedKinds == {"exact", "over", "under", "list"}
=============================================================================
