SPECIFICATION TSpec
CONSTANTS MaxFlow = 0 MaxVals = 0
POSTCONDITION Accepted
CHECK_DEADLOCK FALSE
