SPECIFICATION Spec
CONSTANTS Modes = {"veto", "require", "data", "presence"}
  Depths = {1, 2}
INVARIANT TypeOK
INVARIANT LookupAgrees
INVARIANT DecisionAgrees
INVARIANT PassedOnlyIfNotSelected
INVARIANT TransformedOnlyIfNotUnselected
INVARIANT UnselUntouched
CHECK_DEADLOCK FALSE
