SPECIFICATION Spec
CONSTANTS
  K = {"a", "b"}
  NC = 2
  Variant = "lena"
  Kinds <- KindsThoroughHistory
INVARIANT Emit
CHECK_DEADLOCK FALSE
