------------------------------- MODULE Cache -------------------------------
(***************************************************************************)
(* lena/flow/cache.py  Cache  (+ lena/core/meta.py alter_sequence)          *)
(*                                                                         *)
(* Pipeline   src -> [pre] -> C1 -> [mid] -> [C2] -> [post] -> consumer      *)
(* (nc = 1: no mid, no C2).  pre / mid / post are one-to-one elements, so   *)
(* one consumer `next` moves one value through the whole chain.             *)
(*                                                                         *)
(* Operational part (one action per public call / generator resumption):    *)
(*   New(r)       build the pipeline objects; r[c] = recompute of cache c   *)
(*   Drop(c)      Cache.drop_cache()                                        *)
(*   ChangeData   the upstream data changes (flow version ver)              *)
(*   Restart      the container object of the last Start is run once more   *)
(*   Start(form)  Sequence.run(flow) / Source() / the result of             *)
(*                alter_sequence: every Cache.run decides by cache_exists() *)
(*                (file there and not recompute) between _load_flow and     *)
(*                _dump_flow_and_yield; the LAST loadable cache L feeds the  *)
(*                run, everything before it is never iterated (or not even   *)
(*                part of the hoisted Source), caches after it dump          *)
(*   Deliver      one `next`: load one value / pull, store, yield one value  *)
(*   Exhaust      `next` finds the flow exhausted: the dumping caches now    *)
(*                hold the complete flow                                     *)
(*   RaiseAt(s)   src / pre / mid / post raises while handling the next      *)
(*                value, or the first cache cannot pickle it ("pkl"): the    *)
(*                run is interrupted                                         *)
(*   Stop(kind)   the consumer closes / abandons the generator: interrupted; *)
(*                kind "keep": it just stops pulling and KEEPS the iterator: *)
(*                the dumps of the run stay suspended (held) while later     *)
(*                runs start.  RaiseAt(s, TRUE): the caller keeps the        *)
(*                exception object - its traceback keeps every generator     *)
(*                upstream of the raising element suspended the same way     *)
(*   Release      the kept iterators / exceptions are dropped: the suspended *)
(*                dumps are finalised now, between or after later runs       *)
(*   BrokenRaise  `next` on a run fed by a cache left unusable: raises       *)
(*                                                                         *)
(* What the statement leaves open is nondeterministic (AfterInterrupt):     *)
(* an interrupted dump may leave the cache as it was (in particular keep an *)
(* older complete cache), remove it, leave something a later run refuses    *)
(* with an exception ("B"), or - harmlessly - the complete flow.  It may    *)
(* never leave a loadable proper prefix: NoTruncated, CompleteIsComplete.   *)
(* Design = "final_name" is the design of the pinned code (values written   *)
(* to the final file name while yielding); TLC refutes NoTruncated for it.  *)
(*                                                                         *)
(* Flow values: the data of version v is a sequence of value codes          *)
(* vk[v] - FRESH: a value of its own (100 * v + i), DUP: the same object as  *)
(* the value before it, k >= 0: the special value number k, the same in      *)
(* every version and at every position (None, an EOFError instance, b"", 0  *)
(* ... things a loader could take for "no value" / "end of file").  A cache *)
(* stores and replays them like any other value: nothing in the spec looks  *)
(* at a value.                                                             *)
(*                                                                         *)
(* In-place modification downstream (mu = TRUE, the fourth part of the      *)
(* model): the values are mutable objects and the consumer (any element     *)
(* after the cache) modifies every object it receives in place after it was *)
(* yielded - Mod(v) is the value of such an object afterwards.  "Stored" is *)
(* the value as it was when it passed the cache in the filling run; every   *)
(* later run must yield objects with exactly that value: nothing a previous *)
(* run yielded (and the consumer modified since) may be yielded again.      *)
(* memo[c].n (ghost) counts the complete replays served by the cache OBJECT *)
(* c since it was built / filled / dropped (up to MaxRep), so that the      *)
(* explored and exported histories replay one Cache object completely       *)
(* several times (new containers around it, the same container - plain or   *)
(* hoisted Source - once more), then a fresh object on the same file.       *)
(* Design = "memo" is a design that keeps the objects of a complete replay  *)
(* in the Cache object and serves later replays from them (memo[c].m: their *)
(* values now); TLC refutes LoadIsStored for it.                            *)
(*                                                                         *)
(* Declarative part: stored[c] (ghost) is the version of the last complete  *)
(* first run through c since the last drop; a later run must yield          *)
(* F(stored[L]) and touch nothing before L.                                 *)
(***************************************************************************)
EXTENDS Integers, Sequences, FiniteSets, TLC, Json

CONSTANTS MaxN,       \* flows of length 0..MaxN
          DataProfiles,\* set of sequences: the value codes (FRESH, DUP, special value k >= 0) of the upstream
                      \* flow for data version 1, 2, .. (the number of versions is the length of the profile;
                      \* a version of length 0 followed by a longer one makes loading an EMPTY stored flow observable)
          Scenarios,  \* pipelines explored: set of <<number of caches, shape>>
          Forms,      \* how a run is started (labels for the harness, same meaning)
          Reruns,     \* subset of BOOLEAN: the values of rr explored.  rr = TRUE: the container object of a Start is
                      \* kept and can be run again (Restart); rr = FALSE: every run uses a new container
          RerunScenarios, RerunData, RerunForms,   \* the pipelines / data profiles / forms explored with rr = TRUE
          Holds,      \* subset of BOOLEAN: the values of hd explored.  hd = TRUE: the consumer may keep the iterator of a
                      \* stopped run / the exception of a failed run (Stop("keep"), RaiseAt(s, TRUE), Release)
          HoldScenarios, HoldData, HoldForms,      \* the pipelines / data profiles / forms explored with hd = TRUE
          HoldRc,                                  \* ... and the values of recompute of (all) their caches
          Muts,       \* subset of BOOLEAN: the values of mu explored.  mu = TRUE: the consumer modifies every value it
                      \* receives in place (mutable flow values); containers are kept (rr = TRUE) and the complete
                      \* replays of every cache object are counted up to MaxRep
          MutScenarios, MutData, MutForms, MutRc,  \* the pipelines / data profiles / forms / recompute values with mu = TRUE
          MaxRep,     \* mu = TRUE: complete replays of one cache object that are told apart (the histories replay
                      \* one object MaxRep + 1 times)
          StopKinds,  \* "close", "abandon"
          KeepHistory,\* TRUE: record the commands in h (export); FALSE: h stays empty
          Design      \* "allowed" (what the statement permits) | "rename" (one conforming design:
                      \* temporary name, renamed on exhaustion; used to generate the command
                      \* histories of the export) | "final_name" (pinned code) | "memo" (rename + the objects of a
                      \* complete replay kept in the Cache object and yielded again by its later replays)

VARIABLES rr,                     \* scenario: containers are kept (see Reruns)
          hd,                     \* scenario: stopped runs may be kept suspended (see Holds)
          mu,                     \* scenario: the consumer modifies the values it receives in place (see Muts)
          memo,                   \* per cache OBJECT: [n |-> ghost (mu = TRUE only): complete replays it has served since it
                                  \* was built / filled / dropped, up to MaxRep; m |-> Design = "memo" only: the values NOW
                                  \* of the objects it yielded in its last complete replay (it still refers to them)]
          lens, vk, nc, shape,    \* scenario: flow length and value codes per data version, number of caches,
                                  \* which of pre/mid/post exist
          held,                   \* the caches with a suspended dump: a run through them was stopped and its
                                  \* iterator (or the exception that ended it) is still kept by the caller
          hg,                     \* ghost: <<version of the flow, number of values written>> of the run suspended
                                  \* last (keeps the states apart in which the suspended run saw other data than
                                  \* the later runs, so that the exported histories change the data in between)
          ver,                    \* current version of the upstream data
          file,                   \* per cache: [k |-> "A" absent | "F" loadable | "B" refused, c |-> content]
          stored,                 \* ghost: version completely stored in cache c, 0 = none
          intr,                   \* ghost: the last dump through cache c was interrupted (keeps the
                                  \* state after an interrupted run apart, so that the exported
                                  \* histories continue after every interruption)
          ph,                     \* "noobj" | "idle" | "run"
          rc,                     \* recompute flag of each cache object
          L,                      \* in a run: the cache that feeds it (0: the source does)
          eager,                  \* in a run: the pipeline is a Split branch - Split.run reads its input in
                                  \* blocks before the branch runs, so the source is pulled (and may raise)
                                  \* whatever the caches do; only the source is affected
          cont,                   \* the container object of the last Start since New (it can be run again, Restart):
                                  \* [k |-> there is one, hl |-> the cache it was hoisted at when it was built
                                  \* (0: not hoisted), f |-> the form it was built in, e |-> ghost: how its last run
                                  \* ended ("new": it has not run to an end yet, "full", "intr") - keeps the states
                                  \* after a complete and after an interrupted run of the same object apart, so that
                                  \* the exported histories run it again after either]
          pos, out,               \* values delivered in this run
          pulled, wpre, wmid,     \* pulls from src, values handled by pre, by mid in this run
          h                       \* ghost: commands so far (hidden by VIEW; exported)
vars == <<rr, hd, mu, memo, lens, vk, nc, shape, held, hg, ver, file, stored, intr, ph, rc, L, eager, cont, pos, out, pulled, wpre, wmid, h>>
view == <<rr, hd, mu, memo, lens, vk, nc, shape, held, hg, ver, file, stored, intr, ph, rc, L, eager, cont, pos, out, pulled, wpre, wmid>>
\* forms of starting a run in which the pipeline is a branch of Split([...]) (core/split.py: the branches go
\* through meta.alter_sequence when the Split is built)
EagerForms == {"split"}
\* forms in which the container is the result of an alter_sequence: it MAY be a Source hoisted at the last filled cache
\* (an optimisation: whether it really is one is left open)
AlterForms == {"seq_calter", "source_calter", "seq_malter", "source_malter", "el_calter", "el_malter", "split",
               "seq_nested_calter", "seq_nested_malter"}
NoCont == [k |-> FALSE, hl |-> 0, f |-> "", e |-> ""]
ContEnd(x) == cont' = IF cont.k THEN [cont EXCEPT !.e = x] ELSE cont
\* (quick: "split", "source", the nested forms and consumer "abandon" are left to the random histories and to thorough)
FormsQuick == {"seq", "source_calter", "seq_malter", "el_calter", "el_malter"}
FormsAll == {"seq", "source", "seq_calter", "source_calter", "seq_malter", "source_malter", "el_calter", "el_malter",
             "split", "seq_nested_calter", "seq_nested_malter"}
\* thorough: together with FormsQuick every form is explored exhaustively in one of the tiers
FormsThorough == {"seq", "source", "seq_calter", "source_malter", "el_calter", "el_malter", "split", "seq_nested_calter"}

MaxVer == Len(lens)
FRESH == -1
DUP == -2
\* the value at position i of data version v: a special value is the same wherever it occurs; a DUP is the value
\* before it (at position 1: a value of its own)
Val(v, i) == LET j == CHOOSE j \in 1..i : (j = 1 \/ vk[v][j] # DUP) /\ \A m \in (j + 1)..i : vk[v][m] = DUP
             IN  IF vk[v][j] >= 0 THEN vk[v][j] ELSE 100 * v + j
F(v) == [i \in 1..lens[v] |-> Val(v, i)]
Plain(n) == [i \in 1..n |-> FRESH]
\* quick: an empty flow / a flow that IS one special value / a special value first (the rest of the stored flow comes
\* after it) and a repeated object; thorough: special values at every position, several of them, repeated ones
DataQuick == {<<Plain(0), Plain(2)>>, <<<<0>>, Plain(1)>>, <<<<0, FRESH>>, <<FRESH, DUP>>>>}
DataThorough == {<<Plain(0), <<FRESH, 0>>, <<1>>>>, <<Plain(1), Plain(0), <<0, DUP>>>>,
                 <<Plain(3), <<FRESH, DUP, 0>>, <<2, 0, FRESH>>>>}
\* the value of an object after the consumer has modified it in place (once more)
Mod(v) == v + 10000
NoMemo == [n |-> 0, m |-> <<>>]
Absent == [k |-> "A", c |-> <<>>]
Refused == [k |-> "B", c |-> <<>>]
Full(s) == [k |-> "F", c |-> s]

Shape(a, b, c) == [pre |-> a, mid |-> b, post |-> c]
ShapesFor(m) == {Shape(a, b, c) : a \in BOOLEAN, b \in (IF m = 1 THEN {FALSE} ELSE BOOLEAN), c \in BOOLEAN}
Cmd(name, a, r, c) == [cmd |-> name, a |-> a, rc |-> r, c |-> c]
Log(hh, c) == IF KeepHistory THEN Append(hh, c) ELSE hh

InitWith(rr0, hd0, mu0, data0, nc0, shape0) ==
  /\ rr = rr0 /\ hd = hd0 /\ mu = mu0 /\ memo = [c \in 1..nc0 |-> NoMemo] /\ vk = data0 /\ lens = [v \in 1..Len(data0) |-> Len(data0[v])]
  /\ nc = nc0 /\ shape = shape0 /\ ver = 1 /\ held = {} /\ hg = <<0, 0>>
  /\ file = [c \in 1..nc0 |-> Absent] /\ stored = [c \in 1..nc0 |-> 0]
  /\ intr = [c \in 1..nc0 |-> FALSE]
  /\ ph = "noobj" /\ rc = [c \in 1..nc0 |-> FALSE]
  /\ L = 0 /\ eager = FALSE /\ cont = NoCont /\ pos = 0 /\ out = <<>> /\ pulled = 0 /\ wpre = 0 /\ wmid = 0 /\ h = <<>>
Init == \/ FALSE \in Reruns /\ \E d0 \in DataProfiles, sc \in Scenarios : InitWith(FALSE, FALSE, FALSE, d0, sc[1], sc[2])
        \/ TRUE \in Reruns /\ \E d0 \in RerunData, sc \in RerunScenarios : InitWith(TRUE, FALSE, FALSE, d0, sc[1], sc[2])
        \/ TRUE \in Holds /\ \E d0 \in HoldData, sc \in HoldScenarios : InitWith(FALSE, TRUE, FALSE, d0, sc[1], sc[2])
        \/ TRUE \in Muts /\ \E d0 \in MutData, sc \in MutScenarios : InitWith(TRUE, FALSE, TRUE, d0, sc[1], sc[2])
ScenAll == {<<m, s>> : m \in {1, 2}, s \in ShapesFor(2)} \ {<<1, s>> : s \in {t \in ShapesFor(2) : t.mid}}
\* rr = TRUE, thorough
DataRerunThorough == {<<Plain(2), Plain(1)>>, <<Plain(0), Plain(2)>>}
ScenRerunThorough == {<<1, Shape(FALSE, FALSE, FALSE)>>, <<1, Shape(TRUE, FALSE, TRUE)>>, <<1, Shape(TRUE, FALSE, FALSE)>>,
                      <<2, Shape(FALSE, FALSE, FALSE)>>, <<2, Shape(FALSE, TRUE, FALSE)>>, <<2, Shape(TRUE, TRUE, TRUE)>>}
\* rr = TRUE, quick
ScenRerunQuick == {<<1, Shape(FALSE, FALSE, FALSE)>>, <<1, Shape(TRUE, FALSE, TRUE)>>, <<2, Shape(FALSE, FALSE, FALSE)>>}
DataRerunQuick == {<<Plain(1), Plain(2)>>}
\* hd = TRUE: a tap after the cache(s) (the exception of `post` / `mid` can be kept), the data change while a run is held
ScenHoldQuick == {<<1, Shape(FALSE, FALSE, TRUE)>>, <<2, Shape(FALSE, TRUE, FALSE)>>}
DataHoldQuick == {<<Plain(1), Plain(2)>>}
FormsHoldQuick == {"seq", "source_calter"}
ScenHoldThorough == {<<1, Shape(TRUE, FALSE, TRUE)>>, <<2, Shape(FALSE, TRUE, FALSE)>>}
DataHoldThorough == {<<Plain(2), Plain(1)>>}
FormsHoldThorough == {"seq", "source_calter", "split"}
FormsRerunQuick == {"seq", "source_calter", "el_malter", "split"}
\* mu = TRUE: a bare cache / a tap after the cache (the consumer modifies the object inside the tap's tuple) /
\* two caches (the second one feeds the later runs); the data change (a refilled cache replays the NEW flow)
ScenMutQuick == {<<1, Shape(FALSE, FALSE, FALSE)>>, <<1, Shape(TRUE, FALSE, TRUE)>>, <<2, Shape(FALSE, TRUE, FALSE)>>}
DataMutQuick == {<<Plain(2), Plain(1)>>}
FormsMutQuick == {"seq", "source_calter", "el_malter"}
ScenMutThorough == {<<1, Shape(FALSE, FALSE, FALSE)>>, <<1, Shape(TRUE, FALSE, TRUE)>>, <<2, Shape(FALSE, TRUE, FALSE)>>}
DataMutThorough == {<<<<FRESH, 0>>, Plain(3)>>}
FormsMutThorough == {"seq", "source_calter", "el_malter", "split"}
\* quick: a cache first, last and next to the other one (no taps); every tap present
ScenQuick == {<<1, Shape(FALSE, FALSE, FALSE)>>, <<1, Shape(TRUE, FALSE, TRUE)>>,
              <<2, Shape(FALSE, FALSE, FALSE)>>, <<2, Shape(TRUE, TRUE, TRUE)>>}

Scenario == UNCHANGED <<rr, hd, mu, lens, vk, nc, shape>>
RunVars == <<L, eager, pos, out, pulled, wpre, wmid>>

(***************************************************************************)
(* Between runs.                                                           *)
(***************************************************************************)
\* (new Cache objects: nothing of the earlier runs is referred to any more)
New(r) == /\ ph \in {"noobj", "idle"} /\ ph' = "idle" /\ rc' = r /\ cont' = NoCont
          /\ memo' = [c \in 1..nc |-> NoMemo]
          /\ h' = Log(h, Cmd("new", "", r, 0))
          /\ Scenario /\ UNCHANGED <<ver, file, stored, intr, held, hg>> /\ UNCHANGED RunVars
Drop(c) == /\ ph = "idle" /\ file' = [file EXCEPT ![c] = Absent] /\ stored' = [stored EXCEPT ![c] = 0]
           /\ intr' = [intr EXCEPT ![c] = FALSE] /\ memo' = [memo EXCEPT ![c] = NoMemo]
           /\ h' = Log(h, Cmd("drop", "", rc, c))
           /\ Scenario /\ UNCHANGED <<ver, ph, rc, cont, held, hg>> /\ UNCHANGED RunVars
ChangeData == /\ ph = "idle" /\ ver < MaxVer /\ ver' = ver + 1
              /\ h' = Log(h, Cmd("data", "", rc, 0))
              /\ Scenario /\ UNCHANGED <<file, stored, intr, ph, rc, cont, held, hg, memo>> /\ UNCHANGED RunVars

(***************************************************************************)
(* A run.                                                                  *)
(***************************************************************************)
\* cache_exists(): the file is there and recompute is off
Loadable(c) == ~rc[c] /\ file[c].k # "A"
LastLoadable == IF \E c \in 1..nc : Loadable(c) THEN CHOOSE c \in 1..nc : Loadable(c) /\ \A d \in 1..nc : Loadable(d) => d <= c
                ELSE 0
\* a new container is built and run
Start(form) == /\ ph = "idle" /\ ph' = "run" /\ L' = LastLoadable /\ eager' = (form \in EagerForms)
               /\ IF rr THEN \E x \in (IF form \in AlterForms THEN {0, LastLoadable} ELSE {0}) :
                                 cont' = [k |-> TRUE, hl |-> x, f |-> form, e |-> "new"]
                        ELSE cont' = NoCont
               /\ pos' = 0 /\ out' = <<>> /\ pulled' = 0 /\ wpre' = 0 /\ wmid' = 0
               /\ h' = Log(h, Cmd("start", form, rc, 0))
               /\ Scenario /\ UNCHANGED <<ver, file, stored, intr, rc, held, hg, memo>>
\* the SAME container object is run again.  Every Cache.run in it decides anew; a Source hoisted at cache hl when the
\* container was built is fed by that cache whatever has happened to it since (unless a later cache can be loaded)
Restart == /\ ph = "idle" /\ cont.k /\ ph' = "run"
           /\ L' = (IF LastLoadable >= cont.hl THEN LastLoadable ELSE cont.hl) /\ eager' = (cont.f \in EagerForms)
           /\ pos' = 0 /\ out' = <<>> /\ pulled' = 0 /\ wpre' = 0 /\ wmid' = 0
           /\ h' = Log(h, Cmd("restart", "", rc, 0))
           /\ ContEnd("new")     \* (the ghost only tells idle states apart)
           /\ Scenario /\ UNCHANGED <<ver, file, stored, intr, rc, held, hg, memo>>

\* Design = "memo": the cache object serves a replay from the objects of its last complete replay
Memoed(c) == Design = "memo" /\ memo[c].n > 0
Cur == IF L = 0 THEN F(ver) ELSE IF Memoed(L) THEN memo[L].m ELSE file[L].c     \* the flow that feeds this run
CurVer == IF L = 0 THEN ver ELSE stored[L]
\* (a hoisted container run again after its cache was dropped has nothing to load and no upstream: it can only raise)
Broken == L > 0 /\ file[L].k # "F"
Dumping(c) == c > L
Active(site) == CASE site = "src" -> L = 0 \/ eager
                  [] site = "pre" -> L = 0 /\ shape.pre
                  [] site = "mid" -> L <= 1 /\ shape.mid
                  [] site = "post" -> shape.post
                  [] site = "pkl" -> L = 0       \* the source delivers a value the first cache cannot pickle
EndRun == ph' = "idle" /\ L' = 0 /\ eager' = FALSE /\ pos' = 0 /\ out' = <<>> /\ pulled' = 0 /\ wpre' = 0 /\ wmid' = 0

Deliver == /\ ph = "run" /\ ~Broken /\ pos < Len(Cur)
           /\ pos' = pos + 1 /\ out' = Append(out, Cur[pos + 1])
           /\ pulled' = pulled + (IF L = 0 THEN 1 ELSE 0)
           /\ wpre' = wpre + (IF L = 0 /\ shape.pre THEN 1 ELSE 0)
           /\ wmid' = wmid + (IF L <= 1 /\ shape.mid THEN 1 ELSE 0)
           /\ h' = Log(h, Cmd("next", "", rc, 0))
           /\ Scenario /\ UNCHANGED <<ver, file, stored, intr, ph, rc, L, eager, cont, held, hg, memo>>

Exhaust == /\ ph = "run" /\ ~Broken /\ pos = Len(Cur)
           /\ file' = [c \in 1..nc |-> IF Dumping(c) THEN Full(Cur) ELSE file[c]]
           /\ stored' = [c \in 1..nc |-> IF Dumping(c) THEN CurVer ELSE stored[c]]
           /\ intr' = [c \in 1..nc |-> IF Dumping(c) THEN FALSE ELSE intr[c]]
           \* a cache that was (re)filled starts anew; the cache object that fed the run has served one more complete
           \* replay - the consumer has modified every object of it (mu) after it was yielded
           /\ memo' = [c \in 1..nc |-> IF Dumping(c) THEN NoMemo
                                       ELSE IF c = L /\ mu
                                       THEN [n |-> IF memo[c].n < MaxRep THEN memo[c].n + 1 ELSE MaxRep,
                                             m |-> IF Design = "memo" THEN [i \in 1..Len(out) |-> Mod(out[i])] ELSE <<>>]
                                       ELSE memo[c]]
           /\ h' = Log(h, Cmd("next", "", rc, 0))
           /\ EndRun /\ Scenario /\ UNCHANGED <<ver, rc, held, hg>> /\ ContEnd("full")

\* what an interrupted dump may leave at the final file name
AfterInterrupt(c) ==
  IF Design = "allowed" THEN {file[c], Absent, Refused} \cup (IF Broken THEN {} ELSE {Full(Cur)})
  ELSE IF Design \in {"rename", "memo"} THEN {file[c]}
  ELSE {IF pos = 0 THEN file[c] ELSE Full(SubSeq(Cur, 1, pos))}
Interrupt ==
  /\ file' \in {f \in [1..nc -> UNION {AfterInterrupt(c) : c \in 1..nc} \cup {file[c] : c \in 1..nc}] :
                  \A c \in 1..nc : IF Dumping(c) THEN f[c] \in AfterInterrupt(c) ELSE f[c] = file[c]}
  /\ stored' = [c \in 1..nc |-> IF file'[c] = file[c] THEN stored[c]
                                ELSE IF file'[c] = Full(Cur) THEN CurVer ELSE 0]
  /\ intr' = [c \in 1..nc |-> IF Dumping(c) THEN TRUE ELSE intr[c]]
  /\ UNCHANGED memo      \* (only a COMPLETE replay counts; what an interrupted replay yielded is not referred to)

\* (an element raises while it handles the next value of the feeding flow; inside a Split the source is read,
\* and may raise, before anything is delivered - whatever the flow that feeds the run)
\* keep: the caller keeps the exception object.  Its traceback refers to the frame of the raising element, and that
\* frame to the generator it was reading from: every dumping cache UPSTREAM of the raising element stays suspended
\* (the exception never passed through it); the caches downstream of it have seen the exception and are finished
UpstreamOf(c, site) == site = "post" \/ (site = "mid" /\ c = 1)
RaiseAt(site, keep) ==
                 /\ ph = "run" /\ Active(site) /\ (keep => hd)
                 /\ ((~Broken /\ pos < Len(Cur)) \/ (eager /\ site = "src" /\ lens[ver] > 0))
                 /\ Interrupt /\ h' = Log(h, Cmd("raise", site, rc, IF keep THEN 1 ELSE 0))
                 /\ held' = IF keep THEN held \cup {c \in 1..nc : Dumping(c) /\ UpstreamOf(c, site)} ELSE held
                 /\ hg' = IF held' # held THEN <<CurVer, pos + 1>> ELSE hg
                 /\ EndRun /\ Scenario /\ UNCHANGED <<ver, rc>> /\ ContEnd("intr")
\* kind "keep": the consumer stops pulling and keeps the iterator - every dump of the run stays suspended
Stop(kind) == /\ ph = "run" /\ Interrupt /\ h' = Log(h, Cmd("stop", kind, rc, 0))
              /\ (kind = "keep" => hd)
              /\ held' = IF kind = "keep" THEN held \cup {c \in 1..nc : Dumping(c)} ELSE held
              /\ hg' = IF held' # held THEN <<CurVer, pos>> ELSE hg
              /\ EndRun /\ Scenario /\ UNCHANGED <<ver, rc>> /\ ContEnd("intr")
BrokenRaise == /\ ph = "run" /\ Broken /\ Interrupt /\ h' = Log(h, Cmd("next", "", rc, 0))
               /\ EndRun /\ Scenario /\ UNCHANGED <<ver, rc, held, hg>> /\ ContEnd("intr")
\* The kept iterators / exceptions are dropped (all of them): the suspended dumps are closed now - possibly after
\* later runs have used, filled or dropped the same caches.  A release may leave a cache as it is, remove it or
\* leave something a later run refuses; it never makes anything loadable that was not there before
\* (no prefix, and no mixture of the suspended run's values with what a later complete run stored).
AfterRelease(c) == IF Design = "allowed" THEN {file[c], Absent, Refused} ELSE {file[c]}
Release == /\ ph = "idle" /\ held # {}
           /\ file' \in {f \in [1..nc -> {Absent, Refused} \cup {file[c] : c \in 1..nc}] :
                           \A c \in 1..nc : IF c \in held THEN f[c] \in AfterRelease(c) ELSE f[c] = file[c]}
           /\ stored' = [c \in 1..nc |-> IF file'[c] = file[c] THEN stored[c] ELSE 0]
           /\ held' = {} /\ hg' = <<0, 0>>
           /\ h' = Log(h, Cmd("release", "", rc, 0))
           /\ Scenario /\ UNCHANGED <<ver, intr, ph, rc, cont, memo>> /\ UNCHANGED RunVars

Sites == {"src", "pre", "mid", "post", "pkl"}
StartAny == \E f \in (IF mu THEN MutForms ELSE IF hd THEN HoldForms ELSE IF rr THEN RerunForms ELSE Forms) : Start(f)
\* (hd = TRUE: all caches of the pipeline with the same recompute)
NewAny == \E r \in (IF hd THEN {[c \in 1..nc |-> b] : b \in HoldRc}
                     ELSE IF mu THEN {[c \in 1..nc |-> b] : b \in MutRc} ELSE [1..nc -> BOOLEAN]) : New(r)
DropAny == \E c \in 1..nc : Drop(c)
Next == \/ NewAny \/ DropAny
        \/ ChangeData
        \/ StartAny
        \/ Restart
        \/ Deliver \/ Exhaust \/ BrokenRaise
        \/ \E s \in Sites, keep \in BOOLEAN : RaiseAt(s, keep)
        \/ \E k \in StopKinds : Stop(k)
        \/ Release
Spec == Init /\ [][Next]_vars

(***************************************************************************)
(* Properties.                                                             *)
(***************************************************************************)
IsPrefix(a, b) == Len(a) <= Len(b) /\ a = SubSeq(b, 1, Len(a))
TypeOK == /\ (\A v \in 1..MaxVer : lens[v] \in 0..MaxN) /\ nc \in {1, 2} /\ ver \in 1..MaxVer
          /\ ph \in {"noobj", "idle", "run"}
          /\ L \in 0..nc /\ pos \in 0..MaxN /\ Len(out) = pos /\ cont.hl \in 0..nc /\ (cont.hl > 0 => cont.k /\ ~rc[cont.hl])
          /\ \A c \in 1..nc : file[c].k \in {"A", "F", "B"} /\ stored[c] \in 0..MaxVer
          /\ mu \in BOOLEAN /\ (mu => rr) /\ (\A c \in 1..nc : memo[c].n \in 0..MaxRep /\ (~mu => memo[c] = NoMemo))
          /\ held \subseteq 1..nc /\ (held # {} => hd) /\ \A v \in 1..MaxVer : Len(vk[v]) = lens[v]
\* a loadable cache always holds a complete flow (never a proper prefix)
NoTruncated == \A c \in 1..nc : file[c].k = "F" => \E v \in 1..ver : file[c].c = F(v)
\* ... namely the one of the last complete first run through it
StoredIsLastComplete == \A c \in 1..nc : file[c].k = "F" => stored[c] \in 1..ver /\ file[c].c = F(stored[c])
\* first run (and every run nothing can be loaded in): the flow passes unaltered
FirstRunTransparent == (ph = "run" /\ L = 0) => out = SubSeq(F(ver), 1, pos) /\ (~eager => pulled = pos)
\* later runs: exactly the stored values in the original order ...
LoadIsStored == (ph = "run" /\ L > 0 /\ ~Broken) => out = SubSeq(F(stored[L]), 1, pos)
\* (with mu = TRUE: although the consumer has modified, in place, every object that earlier runs yielded - the
\* values of F are the values as they were when they passed the cache in the filling run)
\* ... without pulling from the source or running anything before the loaded cache
\* (inside a Split the source is read by Split.run itself; the elements before the cache still do not run)
LoadNoPull == (ph = "run" /\ L > 0) => (~eager => pulled = 0) /\ wpre = 0 /\ (L = 2 => wmid = 0)
\* recompute=True and drop_cache() restore the first-run behaviour
\* (the one exception: a container that was hoisted at cache c and is run again after drop_cache() - it raises)
Dangling == cont.k /\ cont.hl > 0 /\ L = cont.hl /\ Broken
RestoreFirstRun == ph = "run" => \A c \in 1..nc : (rc[c] \/ file[c].k = "A") => (L # c \/ Dangling)
FirstRunWhenNothingLoadable == (ph = "run" /\ \A c \in 1..nc : rc[c] \/ file[c].k = "A") => (L = 0 \/ Dangling)
\* a run that ends normally has presented a complete flow (never a prefix as if complete),
\* the current one when nothing was loaded, and has stored it in every cache it passed
CompleteIsComplete == [][Exhaust => /\ \E v \in 1..ver : out = F(v)
                                    /\ (L = 0 => out = F(ver))
                                    /\ \A c \in 1..nc : c > L => file'[c] = Full(out)]_vars
DropRestores == [][\A c \in 1..nc : Drop(c) => ~Loadable(c)']_vars
\* an interrupted run never changes a cache it only loaded from or never reached
InterruptKeepsLoaded == [][(ph = "run" /\ ph' = "idle") => \A c \in 1..nc : c <= L => file'[c] = file[c]]_vars
\* dropping a kept iterator / exception never makes anything loadable (what a later complete run stored in the
\* meantime is replayed as it is, or not at all) and touches no cache whose dump was not suspended
ReleaseNeverFills == [][Release => \A c \in 1..nc : /\ (file'[c].k = "F" => file'[c] = file[c])
                                                     /\ (c \notin held => file'[c] = file[c])]_vars
\* while a stopped run is kept suspended no cache holds a proper prefix either (NoTruncated is a state invariant:
\* it holds in the states with held # {} as in all others)

(***************************************************************************)
(* Export: every transition of the state graph with a shortest command     *)
(* history leading to it (each distinct state is expanded once, with the    *)
(* history that reached it first; h is hidden by VIEW).                     *)
(***************************************************************************)
\* (with rr = TRUE only the histories with a Restart: the others are those of rr = FALSE)
\* (with hd = TRUE only the histories in which something is kept)
Keeps(c) == (c.cmd = "stop" /\ c.a = "keep") \/ (c.cmd = "raise" /\ c.c = 1)
\* (with mu = TRUE every history: the consumer behaves differently in all of them)
EmitEdge == IF (~rr /\ ~hd) \/ mu \/ (rr /\ \E i \in 1..Len(h') : h'[i].cmd = "restart") \/ (hd /\ \E i \in 1..Len(h') : Keeps(h'[i]))
            THEN PrintT(ToJson([mu |-> mu, lens |-> lens, vk |-> vk, nc |-> nc, shape |-> shape, h |-> h'])) ELSE TRUE
=============================================================================
