SPECIFICATION Spec
CONSTANTS
  K = {"a", "b", "c"}
  NC = 2
  Levels <- LevelsThorough
  Ops <- AllOps
  UPair <- V1
  UTriple <- V1
INVARIANT Emit
CHECK_DEADLOCK FALSE
