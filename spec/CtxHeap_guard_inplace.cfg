SPECIFICATION Spec
CONSTANTS
  K = {"a", "b"}
  NC = 2
  Variant = "inplace"
  Kinds <- KindsGuardSharing
INVARIANT InitOK
INVARIANT MutatedIsPrivate
PROPERTY StepsOK
CHECK_DEADLOCK FALSE
