----------------------------- MODULE SliceFlow -----------------------------
(***************************************************************************)
(* "for every finite flow xs": the flow handed to Slice.run is any Python  *)
(* object that can be iterated.  Which OTHER protocols the object offers   *)
(* is a dimension of its own - the protocol surface (profile) of the flow: *)
(*                                                                         *)
(*   proto   how iter(flow) works                                          *)
(*             "once"    the flow is its own iterator (iterator,           *)
(*                       generator): one cursor, shared by all iter()      *)
(*             "iter"    __iter__ returns a fresh iterator (a container)   *)
(*             "legacy"  no __iter__: iter() falls back to __getitem__(0), *)
(*                       (1), ... until IndexError (needs "index")         *)
(*   caps    subset of                                                     *)
(*             "len"     __len__                                           *)
(*             "index"   __getitem__ with a non-negative integer           *)
(*             "neg"     ... also with a negative integer                  *)
(*             "slice"   ... also with a slice object                      *)
(*             "seq"     registered collections.abc.Sequence (the abstract *)
(*                       methods of that class are __len__ and             *)
(*                       __getitem__ with integers; slices and negative    *)
(*                       indices are NOT part of the contract: deque)      *)
(*             "rev"     __reversed__                                      *)
(*                                                                         *)
(* list / tuple / range / bytes have every capability, collections.deque   *)
(* everything but "slice", a dict keys view only len / rev, a generator    *)
(* nothing.  The machine of Slice.tla obtains ONE iterator from the flow   *)
(* (Start) and then only pulls from it (pos is the cursor of that          *)
(* iterator); it never looks at the profile, so the result is the list     *)
(* slice of the iterated values for every profile.  TLC enumerates         *)
(* scenario x profile; the harness builds, for every exported record, an   *)
(* object with exactly that protocol surface (every other operation raises *)
(* what Python raises for a missing method) plus the builtin types that    *)
(* have this surface, and runs the real element over it.                   *)
(*                                                                         *)
(* Two further surfaces of the flow (round 8):                             *)
(*                                                                         *)
(*   hint    what operator.length_hint(iter(flow)) tells about the number  *)
(*           of values still to come (PEP 424: an ESTIMATE that "may be    *)
(*           larger or smaller than the actual size"; NotImplemented and a *)
(*           TypeError mean "no idea" = the default 0):                    *)
(*             "absent"   no __length_hint__ (generators, user iterators)  *)
(*             "exact"    the true number of remaining values (list, range *)
(*                        tuple, deque, dict iterators; computed from the  *)
(*                        live state of the iterator at each request)      *)
(*             "small"    one less than that (not below 0)                 *)
(*             "large"    two more than that                               *)
(*             "zero"     always 0                                         *)
(*             "notimpl"  returns NotImplemented                           *)
(*             "typeerr"  raises TypeError                                 *)
(*           HintOf(p, rem) is the number length_hint returns.  The hint   *)
(*           is explored on the profiles with caps \subseteq {"len"} (it   *)
(*           belongs to the iterator, not to the container).               *)
(*   growth  the flow is LIVE: while the run generator is suspended at its *)
(*           gat-th yield the consumer appends gby values to the list the  *)
(*           flow iterates over (action FGrow: N' = N + gby).  A list      *)
(*           iterator (like every iterator that has not yet signalled its  *)
(*           end) delivers them; after the end was seen (phases emit /     *)
(*           done) nothing can be added.  The finite flow xs of the        *)
(*           statement is the sequence the iterator delivers until it      *)
(*           ends: Iota(N) for the final N.                                *)
(*                                                                         *)
(* The machine looks at neither, so FlowIndependent holds for all of them. *)
(* Sensitivity guard: with UseHint = TRUE the machine is the (wrong)       *)
(* design "resolve negative indices at once from the length hint and read  *)
(* the flow through islice" - TLC must refute FlowIndependent for it       *)
(* (SliceFlow_guard_hint.cfg: inexact hints; SliceFlow_guard_grow.cfg:     *)
(* exact hints of a growing flow).                                         *)
(***************************************************************************)
EXTENDS Slice

CONSTANTS CapNames,     \* the capabilities explored (a subset of those listed above)
          HintNames,    \* the length-hint surfaces explored
          MaxGrowAt,    \* growth after the 1st .. MaxGrowAt-th yield (0: static flows only)
          MaxGrowBy,    \* by 1 .. MaxGrowBy values
          UseHint       \* FALSE: the machine of the statement; TRUE: sensitivity guard (see above)

VARIABLES prof,
          gat, gby, grown, N0,   \* growth plan (gat = 0: none), whether it happened, the initial length
          ha, hb                 \* guard variant only: the indices resolved from the hint
fvars == <<a, b, s, N, pos, dq, ph, ind, ny, cnt, nxt, out, pulls, prof, gat, gby, grown, N0, ha, hb>>

Protos == {"once", "iter", "legacy"}
Has(p, c) == c \in p.caps
WellFormed(p) == /\ p.proto = "legacy" => Has(p, "index")
                 /\ Has(p, "neg") => Has(p, "index")
                 /\ Has(p, "slice") => Has(p, "index")
                 /\ Has(p, "seq") => Has(p, "len") /\ Has(p, "index")     \* the abstract methods of Sequence
                 /\ p.proto = "once" => p.caps = {}                       \* iterators and generators
                 \* iter() of an object without __iter__ is the builtin sequence iterator: its hint is not a choice
                 /\ p.hint # "absent" => p.proto # "legacy" /\ p.caps \subseteq {"len"}
Profiles == {p \in [proto : Protos, caps : SUBSET CapNames, hint : HintNames \cup {"absent"}] : WellFormed(p)}
\* live flows: iterators and containers without / with all the other protocols, without / with an exact hint
CanGrow(p) == /\ p.proto # "legacy" /\ p.hint \in {"absent", "exact"}
              /\ p.caps = {} \/ (p.caps = CapNames /\ p.hint = "absent")

\* operator.length_hint(iterator) when rem values are still to come
HintOf(p, rem) == CASE p.hint = "exact" -> rem
                    [] p.hint = "small" -> Max(rem - 1, 0)
                    [] p.hint = "large" -> rem + 2
                    [] OTHER -> 0           \* absent, zero, notimpl, typeerr: the default

FInit == /\ Init /\ prof \in Profiles /\ N0 = N /\ grown = FALSE /\ ha = 0 /\ hb = 0
         /\ \/ gat = 0 /\ gby = 0
            \/ CanGrow(prof) /\ gat \in 1..MaxGrowAt /\ gby \in 1..MaxGrowBy
P == UNCHANGED <<prof, gat, gby, grown, N0, ha, hb>>
HintPath == UseHint /\ Negative /\ HintOf(prof, N) # 0
FStart == ~HintPath /\ Start /\ P
FHintStart == /\ HintPath /\ ph = "start" /\ ph' = "hint"
              /\ ha' = NormIdx(a, HintOf(prof, N), 0) /\ hb' = NormIdx(b, HintOf(prof, N), HintOf(prof, N))
              /\ UNCHANGED <<a, b, s, N, pos, dq, ind, ny, cnt, nxt, out, pulls, prof, gat, gby, grown, N0>>
FSkip == Skip /\ P
FFill == Fill /\ P
FLag == Lag /\ P
FDrain == Drain /\ P
FEmit == Emit /\ P
FCollect == Collect /\ P
FISlice == ISlice /\ P
\* guard variant: islice(flow, ha, hb), the step applied outside as for the other branches
FHint == /\ ph = "hint"
         /\ IF pos >= hb \/ Exhausted THEN ph' = "done" /\ UNCHANGED <<pos, ny, out, pulls>>
            ELSE /\ pos' = pos + 1 /\ UNCHANGED ph
                 /\ IF pos >= ha THEN Deliver(pos) ELSE UNCHANGED <<ny, out, pulls>>
         /\ UNCHANGED <<a, b, s, N, dq, ind, cnt, nxt>> /\ P
\* the consumer, holding the suspended generator after its gat-th value, appends gby values to the live flow
Suspended == out # <<>> /\ pulls[Len(pulls)] = pos /\ ph \in {"lag", "islice", "hint"}
FGrow == /\ gat > 0 /\ ~grown /\ Len(out) = gat /\ Suspended
         /\ N' = N + gby /\ grown' = TRUE
         /\ UNCHANGED <<a, b, s, pos, dq, ph, ind, ny, cnt, nxt, out, pulls, prof, gat, gby, N0, ha, hb>>
FNext == FStart \/ FHintStart \/ FSkip \/ FFill \/ FLag \/ FDrain \/ FEmit \/ FCollect \/ FISlice \/ FHint \/ FGrow
FSpec == FInit /\ [][FNext]_fvars

(***************************************************************************)
(* Declarative side.  What the iteration protocol delivers from a flow     *)
(* holding 0..n-1, by profile: the same list for all of them - that list   *)
(* (not the object's own subscription flow[a:b:s], which most profiles do  *)
(* not define, and not what the flow estimates about itself) is what the   *)
(* statement slices.                                                       *)
(***************************************************************************)
Listed(p, n) == Iota(n)

\* C17 for every protocol surface: the stream machine delivers the slice of the iterated list
FlowIndependent == Done => out = PySlice(Len(Listed(prof, N)), a, b, s)
\* one iterator, one cursor: the values pulled are a prefix of the flow (nothing is read twice or skipped)
OneCursor == pos <= N /\ \A k \in 1..Len(pulls) : pulls[k] <= N /\ (k > 1 => pulls[k - 1] <= pulls[k])
\* a flow grows only under the hands of the consumer and only before its end was seen
GrowthSeen == /\ N = N0 + (IF grown THEN gby ELSE 0)
              /\ grown => Len(out) >= gat

FEmitted == (Done /\ (gat = 0 \/ grown)) =>
            PrintT(ToJson([a |-> J(a), b |-> J(b), s |-> J(s), n |-> N0, out |-> out, branch |-> Branch,
                           proto |-> prof.proto,
                           len |-> Has(prof, "len"), index |-> Has(prof, "index"), neg |-> Has(prof, "neg"),
                           slice |-> Has(prof, "slice"), seq |-> Has(prof, "seq"), rev |-> Has(prof, "rev"),
                           hint |-> prof.hint, hint0 |-> HintOf(prof, N0), gat |-> gat, gby |-> gby]))
=============================================================================
