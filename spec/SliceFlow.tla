----------------------------- MODULE SliceFlow -----------------------------
(***************************************************************************)
(* "for every finite flow xs": the flow handed to Slice.run is any Python  *)
(* object that can be iterated.  Which OTHER protocols the object offers   *)
(* is a dimension of its own - the protocol surface (profile) of the flow: *)
(*                                                                         *)
(*   proto   how iter(flow) works                                          *)
(*             "once"    the flow is its own iterator (iterator,           *)
(*                       generator): one cursor, shared by all iter()      *)
(*             "iter"    __iter__ returns a fresh iterator (a container)   *)
(*             "legacy"  no __iter__: iter() falls back to __getitem__(0), *)
(*                       (1), ... until IndexError (needs "index")         *)
(*   caps    subset of                                                     *)
(*             "len"     __len__                                           *)
(*             "index"   __getitem__ with a non-negative integer           *)
(*             "neg"     ... also with a negative integer                  *)
(*             "slice"   ... also with a slice object                      *)
(*             "seq"     registered collections.abc.Sequence (the abstract *)
(*                       methods of that class are __len__ and             *)
(*                       __getitem__ with integers; slices and negative    *)
(*                       indices are NOT part of the contract: deque)      *)
(*             "rev"     __reversed__                                      *)
(*                                                                         *)
(* list / tuple / range / bytes have every capability, collections.deque   *)
(* everything but "slice", a dict keys view only len / rev, a generator    *)
(* nothing.  The machine of Slice.tla obtains ONE iterator from the flow   *)
(* (Start) and then only pulls from it (pos is the cursor of that          *)
(* iterator); it never looks at the profile, so the result is the list     *)
(* slice of the iterated values for every profile.  TLC enumerates         *)
(* scenario x profile; the harness builds, for every exported record, an   *)
(* object with exactly that protocol surface (every other operation raises *)
(* what Python raises for a missing method) plus the builtin types that    *)
(* have this surface, and runs the real element over it.                   *)
(***************************************************************************)
EXTENDS Slice

CONSTANTS CapNames      \* the capabilities explored (a subset of those listed above)

VARIABLE prof
fvars == <<a, b, s, N, pos, dq, ph, ind, ny, cnt, nxt, out, pulls, prof>>

Protos == {"once", "iter", "legacy"}
Has(p, c) == c \in p.caps
WellFormed(p) == /\ p.proto = "legacy" => Has(p, "index")
                 /\ Has(p, "neg") => Has(p, "index")
                 /\ Has(p, "slice") => Has(p, "index")
                 /\ Has(p, "seq") => Has(p, "len") /\ Has(p, "index")     \* the abstract methods of Sequence
                 /\ p.proto = "once" => p.caps = {}                       \* iterators and generators
Profiles == {p \in [proto : Protos, caps : SUBSET CapNames] : WellFormed(p)}

FInit == Init /\ prof \in Profiles
P == UNCHANGED prof
FStart == Start /\ P
FSkip == Skip /\ P
FFill == Fill /\ P
FLag == Lag /\ P
FDrain == Drain /\ P
FEmit == Emit /\ P
FCollect == Collect /\ P
FISlice == ISlice /\ P
FNext == FStart \/ FSkip \/ FFill \/ FLag \/ FDrain \/ FEmit \/ FCollect \/ FISlice
FSpec == FInit /\ [][FNext]_fvars

(***************************************************************************)
(* Declarative side.  What the iteration protocol delivers from a flow     *)
(* holding 0..n-1, by profile: the same list for all of them - that list   *)
(* (not the object's own subscription flow[a:b:s], which most profiles do  *)
(* not define) is what the statement slices.                               *)
(***************************************************************************)
Listed(p, n) == Iota(n)

\* C17 for every protocol surface: the stream machine delivers the slice of the iterated list
FlowIndependent == Done => out = PySlice(Len(Listed(prof, N)), a, b, s)
\* one iterator, one cursor: the values pulled are a prefix of the flow (nothing is read twice or skipped)
OneCursor == pos <= N /\ \A k \in 1..Len(pulls) : pulls[k] <= N /\ (k > 1 => pulls[k - 1] <= pulls[k])

FEmitted == Done => PrintT(ToJson([a |-> J(a), b |-> J(b), s |-> J(s), n |-> N, out |-> out, branch |-> Branch,
                                   proto |-> prof.proto,
                                   len |-> Has(prof, "len"), index |-> Has(prof, "index"), neg |-> Has(prof, "neg"),
                                   slice |-> Has(prof, "slice"), seq |-> Has(prof, "seq"), rev |-> Has(prof, "rev")]))
=============================================================================
