SPECIFICATION Spec
CONSTANTS Modes = {"veto", "require", "data", "presence"}
  Depths = {1, 2}
INVARIANT Emitted_
CHECK_DEADLOCK FALSE
