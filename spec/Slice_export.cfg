SPECIFICATION Spec
CONSTANTS MaxN = 10 Bound = 7 MaxStep = 4
INVARIANT Emitted
CHECK_DEADLOCK FALSE
