SPECIFICATION Spec
CONSTANTS Ns = {0, 2} CopyMode = "deep"
  BufSizes <- BufAll
  Classes <- DictOnly
  Family = "quick"
INVARIANT Isolated
INVARIANT YieldedStable
INVARIANT PrefixIsolated
INVARIANT HeldDisjoint
INVARIANT OnlyLastLeafSeesSource
INVARIANT ZipNeverSeesSource
INVARIANT SourceByLastOnly
INVARIANT Emitted
CHECK_DEADLOCK FALSE
