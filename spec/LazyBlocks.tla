----------------------------- MODULE LazyBlocks -----------------------------
(***************************************************************************)
(* X09  Block-wise laziness of fill/request elements inside lazy pipelines *)
(* (lena/core/adapters.py FillRequest.run, lena/core/fill_request_seq.py,  *)
(* lena/core/split.py fill_request branches, docs tutorial 2-split:        *)
(* "A FillRequest element ... if an element can consume much memory, it    *)
(* must be a FillRequest element").                                        *)
(*                                                                         *)
(* Pipeline:  source -> pre (streaming: nothing / Filter(even) / map inc)  *)
(*            -> block stage -> post (nothing / Slice(k)) -> consumer      *)
(* Block stage (sc.mode):                                                  *)
(*   "run"    FillRequest(el, bufsize = n, ...) as a Run element           *)
(*   "seq"    FillRequestSeq(FillRequest(el, n, ...), bufsize = B2,        *)
(*            yield_on_remainder = oyor)                                   *)
(*   "split"  Split([FillRequest(el, n, ...)], bufsize = B2)               *)
(* The machine is a coroutine machine in the style of Flow.tla: a demand   *)
(* token, a per-block buffer, a request at block end.  It is the laziest   *)
(* implementation the documentation allows; the code may pull less at a    *)
(* delivery (a run element that yields before it has read its slice) but   *)
(* never more.  The results are those of RunSem.tla (C16).                 *)
(***************************************************************************)
EXTENDS RunSem, Json, TLC

CONSTANTS MaxN,      \* finite sources have 0..MaxN values
          Infinite,  \* also an infinite source
          MaxOut,    \* the consumer asks for at most MaxOut results
          MaxPos,    \* state constraint for infinite sources
          Stops,     \* the consumer may stop at any moment
          Guard,     \* "none" | "predemand" | "wholeflow"  (sensitivity guards: must be refuted)
          Scen       \* set of scenarios
INF == 1000

VARIABLES sc, N, pos, vs, cnt, st, blk, acc, ready, out, pulls, demand, phase, eof, stash, stoppedAt
vars == <<sc, N, pos, vs, cnt, st, blk, acc, ready, out, pulls, demand, phase, eof, stash, stoppedAt>>

Cfg(n, bufIn, reset, yor, kind, m) ==
  [n |-> n, bufIn |-> bufIn, reset |-> reset, yor |-> yor, kind |-> kind, m |-> m, pv |-> FALSE, take |-> 0]
Sc(mode, cfg, b2, oyor, pre, k) == [mode |-> mode, cfg |-> cfg, B2 |-> b2, oyor |-> oyor, pre |-> pre, k |-> k]

\* ---- the streaming elements before the block stage
Pass(s, i) == s.pre # "even" \/ i % 2 = 0
PreVal(s, i) == IF s.pre = "inc" THEN i + 100 ELSE i
RECURSIVE Passed(_, _)
\* the values that reach the block stage when p source values have been pulled
Passed(s, p) == IF p = 0 THEN <<>>
                ELSE Passed(s, p - 1) \o (IF Pass(s, p - 1) THEN <<PreVal(s, p - 1)>> ELSE <<>>)
\* outer block size: the values read before a request
B(s) == IF s.mode = "run" THEN s.cfg.n ELSE s.B2
BlockSize(s) == IF B(s) > s.cfg.n THEN B(s) ELSE s.cfg.n
Take(sq, k) == IF k = 0 \/ Len(sq) <= k THEN sq ELSE SubSeq(sq, 1, k)

(***************************************************************************)
(* Declarative part.  SemFull: the results on the complete flow (RunSem).  *)
(* SemPartial: the results that need no knowledge of the end of the flow:  *)
(* those of the complete outer blocks.                                     *)
(***************************************************************************)
SemFull(s, xs) ==
  CASE s.mode = "run" -> RunSem(s.cfg, xs)
    [] s.mode = "seq" -> FRSeqRun(s.cfg, xs, s.B2, s.oyor)
    [] s.mode = "split" -> SplitAround(s.cfg, xs, s.B2)
WholeBlocks(s, xs) == SubSeq(xs, 1, B(s) * (Len(xs) \div B(s)))
SemPartial(s, xs) ==
  LET ws == WholeBlocks(s, xs) IN
  CASE s.mode = "run" -> RunSem([s.cfg EXCEPT !.yor = FALSE], ws)
    [] s.mode = "seq" -> FRSeqRun(s.cfg, ws, s.B2, FALSE)
    [] s.mode = "split" -> IF ws = <<>> THEN <<>> ELSE SplitAround(s.cfg, ws, s.B2)
\* what the consumer can have received when p of the n source values have been pulled
Avail(s, n, p) == Take(IF p = n THEN SemFull(s, Passed(s, p)) ELSE SemPartial(s, Passed(s, p)), s.k)
\* least number of source values whose pulling makes result j available (horizon: n, or hz for an infinite source)
MinNeed(s, n, j, hz) ==
  LET top == IF n = INF THEN hz ELSE n
      ok == {p \in 0..top : Len(Avail(s, n, p)) >= j}
  IN IF ok = {} THEN -1 ELSE CHOOSE p \in ok : \A q \in ok : p <= q
\* retention documented: one block of the flow (the larger of the two block sizes)
RetainBound(s) == BlockSize(s)

(***************************************************************************)
(* Operational part.                                                       *)
(***************************************************************************)
Ns == (0..MaxN) \cup (IF Infinite THEN {INF} ELSE {})
Init == /\ sc \in Scen /\ N \in Ns
        /\ pos = 0 /\ vs = <<>> /\ cnt = 0 /\ st = S0 /\ blk = <<>> /\ acc = <<>> /\ ready = <<>>
        /\ out = <<>> /\ pulls = <<>> /\ demand = FALSE /\ phase = "built" /\ eof = FALSE /\ stash = <<>>
        /\ stoppedAt = -1

SliceDone == sc.k > 0 /\ Len(out) >= sc.k
\* the consumer
Ask == /\ phase \in {"built", "running"} /\ ~demand /\ Len(out) < MaxOut
       /\ demand' = TRUE /\ phase' = "running"
       /\ UNCHANGED <<sc, N, pos, vs, cnt, st, blk, acc, ready, out, pulls, eof, stash, stoppedAt>>
Stop == /\ Stops /\ phase \in {"built", "running"} /\ ~demand
        /\ phase' = "stopped" /\ stoppedAt' = pos
        /\ UNCHANGED <<sc, N, pos, vs, cnt, st, blk, acc, ready, out, pulls, demand, eof, stash>>
\* Slice(k) after the block stage: islice stops without asking its input
SliceEnd == /\ demand /\ SliceDone
            /\ phase' = "exhausted" /\ demand' = FALSE
            /\ UNCHANGED <<sc, N, pos, vs, cnt, st, blk, acc, ready, out, pulls, eof, stash, stoppedAt>>
Deliver == /\ demand /\ ~SliceDone /\ ready # <<>>
           /\ (Guard = "wholeflow" /\ N # INF) => pos = N
           /\ out' = Append(out, Head(ready)) /\ ready' = Tail(ready) /\ pulls' = Append(pulls, pos)
           /\ demand' = FALSE
           /\ UNCHANGED <<sc, N, pos, vs, cnt, st, blk, acc, phase, eof, stash, stoppedAt>>
\* one value enters the block stage
Feed(v) == /\ vs' = Append(vs, v) /\ cnt' = cnt + 1
           /\ IF sc.mode = "run" THEN blk' = Append(blk, v) /\ st' = st
              ELSE st' = FillStep(sc.cfg, st, v) /\ blk' = blk
\* the block stage asks its input for one more value of the current block
Pull == /\ demand /\ ~SliceDone /\ ready = <<>> /\ ~eof /\ cnt < B(sc)
        /\ IF stash # <<>>
           THEN /\ stash' = Tail(stash) /\ pos' = pos /\ Feed(Head(stash))
           ELSE /\ pos < N /\ pos' = pos + 1 /\ stash' = stash
                /\ IF Pass(sc, pos) THEN Feed(PreVal(sc, pos)) ELSE UNCHANGED <<vs, cnt, blk, st>>
        /\ UNCHANGED <<sc, N, acc, ready, out, pulls, demand, phase, eof, stoppedAt>>
\* the block is complete: request
Request == /\ demand /\ ~SliceDone /\ ready = <<>> /\ ~eof /\ cnt = B(sc)
           /\ IF sc.mode = "run"
              THEN /\ ready' = Res(sc.cfg, acc \o blk) /\ acc' = AfterYield(sc.cfg, acc \o blk)
                   /\ blk' = <<>> /\ st' = st
              ELSE LET r == RequestStep(sc.cfg, st) IN
                   /\ ready' = r.res /\ st' = r.s /\ blk' = blk /\ acc' = acc
           /\ cnt' = 0
           /\ UNCHANGED <<sc, N, pos, vs, out, pulls, demand, phase, eof, stash, stoppedAt>>
\* the input is exhausted inside a block
Eof == /\ demand /\ ~SliceDone /\ ready = <<>> /\ ~eof /\ cnt < B(sc) /\ pos = N /\ stash = <<>>
       /\ eof' = TRUE
       /\ CASE sc.mode = "run" ->
                 /\ ready' = IF sc.cfg.yor /\ blk # <<>> THEN Res(sc.cfg, acc \o blk) ELSE <<>>
                 /\ UNCHANGED <<st, acc, blk>>
            [] sc.mode = "seq" ->
                 /\ ready' = IF sc.oyor /\ cnt > 0 THEN RequestStep(sc.cfg, st).res ELSE <<>>
                 /\ UNCHANGED <<st, acc, blk>>
            [] sc.mode = "split" ->
                 /\ ready' = IF cnt > 0 \/ vs = <<>> THEN RequestStep(sc.cfg, st).res ELSE <<>>
                 /\ UNCHANGED <<st, acc, blk>>
       /\ UNCHANGED <<sc, N, pos, vs, cnt, out, pulls, demand, phase, stash, stoppedAt>>
Finish == /\ demand /\ ~SliceDone /\ ready = <<>> /\ eof
          /\ phase' = "exhausted" /\ demand' = FALSE
          /\ UNCHANGED <<sc, N, pos, vs, cnt, st, blk, acc, ready, out, pulls, eof, stash, stoppedAt>>
\* ---- sensitivity guards (never enabled with Guard = "none")
\* work before the first demand
EarlyPull == /\ Guard = "predemand" /\ phase = "built" /\ pos = 0 /\ pos < N
             /\ pos' = 1 /\ stash' = <<PreVal(sc, 0)>>
             /\ UNCHANGED <<sc, N, vs, cnt, st, blk, acc, ready, out, pulls, demand, phase, eof, stoppedAt>>
\* a stage that reads the whole flow before it yields its first result
ReadAll == /\ Guard = "wholeflow" /\ demand /\ ready # <<>> /\ N # INF /\ pos < N
           /\ pos' = pos + 1
           /\ stash' = IF Pass(sc, pos) THEN Append(stash, PreVal(sc, pos)) ELSE stash
           /\ UNCHANGED <<sc, N, vs, cnt, st, blk, acc, ready, out, pulls, demand, phase, eof, stoppedAt>>

Machine == SliceEnd \/ Deliver \/ Pull \/ Request \/ Eof \/ Finish
Next == Ask \/ Stop \/ Machine \/ EarlyPull \/ ReadAll
Spec == Init /\ [][Next]_vars
FairSpec == Init /\ [][Next]_vars /\ WF_vars(Machine) /\ WF_vars(Ask)
Bounded == pos <= MaxPos

(***************************************************************************)
(* Properties.                                                             *)
(***************************************************************************)
Held == (IF sc.mode = "run" THEN Len(blk) ELSE IF sc.mode = "split" THEN cnt ELSE Len(st.bin)) + Len(stash)
TypeOK == /\ Len(pulls) = Len(out) /\ cnt <= B(sc) /\ pos <= N
          /\ vs \o stash = Passed(sc, pos)
\* building the pipeline and calling run() pull nothing; values are pulled only under a demand
NoWorkBeforeDemand == phase = "built" => pos = 0 /\ out = <<>>
PullOnlyOnDemand == [][pos' # pos => demand]_vars
\* when the consumer has received result j only the blocks needed for it have been pulled, and that is the least
\* number of values that makes result j available at all (declarative bound); never the whole flow
BlockPrefixOnly ==
  \A j \in 1..Len(out) :
    /\ pulls[j] = MinNeed(sc, N, j, pulls[j])
    /\ Len(Passed(sc, pulls[j])) % B(sc) = 0 \/ pulls[j] = N
    /\ (j > 1 => pulls[j - 1] <= pulls[j])
RetentionBound == Held <= RetainBound(sc)
\* a consumer that stops stops the pulling
StoppedNoPull == phase = "stopped" => pos = stoppedAt
\* results: those of RunSem (C16), in order
ResultsAreSem == /\ out = Take(out, Len(out))
                 /\ LET av == Avail(sc, N, pos) IN
                    Len(out) <= Len(av) /\ out = SubSeq(av, 1, Len(out))
MachineIsSem == (phase = "exhausted" /\ N # INF) => out = Take(SemFull(sc, Passed(sc, N)), sc.k)
\* Slice(k) after a productive block stage over an infinite source terminates
Productive(s) == s.k > 0 /\ s.cfg.m > 0
TerminatesIfSliced == (N = INF /\ Productive(sc)) => <>(phase = "exhausted")
Terminal == phase = "exhausted" \/ (phase = "running" /\ ~demand /\ Len(out) = MaxOut)
Emitted == Terminal =>
  PrintT(ToJson([sc |-> sc, n |-> N, out |-> out, pulls |-> pulls, endpos |-> pos,
                 exhausted |-> phase = "exhausted", bound |-> RetainBound(sc)]))

(***************************************************************************)
(* Scenario sets.                                                          *)
(***************************************************************************)
Pres == {"none", "even", "inc"}
RunCfgs(ns, ms) == {Cfg(n, bi, rs, yor, kind, m) : n \in ns, bi \in BOOLEAN, rs \in BOOLEAN, yor \in BOOLEAN,
                                                   kind \in {"fc", "run"}, m \in ms}
\* inside FillRequestSeq / Split the element is filled and requested: fill/compute kinds, no inner remainder
InCfgs(ns, ms) == {Cfg(n, bi, rs, FALSE, "fc", m) : n \in ns, bi \in BOOLEAN, rs \in BOOLEAN, m \in ms}
ScRun(ns, ms, ks) == {Sc("run", c, 0, FALSE, p, k) : c \in RunCfgs(ns, ms), p \in Pres, k \in ks}
ScSeq(ns, bs, ms, ks) == {Sc("seq", c, b, oy, p, k) : c \in InCfgs(ns, ms), b \in bs, oy \in BOOLEAN, p \in Pres, k \in ks}
ScSplit(ns, bs, ms, ks) == {Sc("split", c, b, FALSE, p, k) : c \in InCfgs(ns, ms), b \in bs, p \in Pres, k \in ks}
ScenQuick == ScRun(1..2, {1, 2}, {0, 2}) \cup ScRun({3}, {1}, {0}) \cup ScSeq({1, 2}, {1, 3}, {1}, {0, 2}) \cup ScSplit({1, 2}, {1, 3}, {1}, {0, 2})
ScenThorough == ScRun(1..3, {0, 1, 2}, {0, 1, 3}) \cup ScSeq(1..2, 1..4, {1, 2}, {0, 1, 3})
                  \cup ScSplit(1..2, 1..4, {1, 2}, {0, 1, 3})
ScenExportQuick == ScRun({1, 2, 3}, {1}, {0, 2}) \cup ScRun({2}, {2}, {0, 2}) \cup ScSeq({2}, {1, 3}, {1}, {0, 2})
                     \cup ScSplit({2}, {1, 3}, {1}, {0, 2}) \cup ScSeq({1}, {2}, {1}, {0, 2}) \cup ScSplit({1}, {2}, {1}, {0, 2})
ScenLive == {s \in ScRun({1, 2}, {1}, {2}) \cup ScSeq({2}, {1, 3}, {1}, {2}) \cup ScSplit({2}, {1, 3}, {1}, {2}) : Productive(s)}
ScenLiveThorough == {s \in ScenQuick : Productive(s)}
ScenCover == ScRun({2}, {1}, {0, 2}) \cup ScSplit({1}, {2}, {1}, {0, 2}) \cup ScSeq({1}, {2}, {1}, {0})
ScenGuard == ScRun({2}, {1}, {0}) \cup ScSplit({1}, {2}, {1}, {0})
=============================================================================
