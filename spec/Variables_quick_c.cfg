SPECIFICATION Spec
CONSTANTS MaxLen = 3
  Pool <- PoolK6
  Starts <- StartsK6
  Xs = {2}
  Nested = FALSE
  Ys <- DataK6
  Extra <- ExtraK6
  Variant = "doc"
  CopyVarContext = TRUE
  ExtendByCompose = TRUE
  PathKeys = FALSE
INVARIANT DataEq
INVARIANT ComposeEqSeq
INVARIANT CombineTuple
INVARIANT TypedDeclarative
INVARIANT TypesAvailable
INVARIANT NestedFlattens
INVARIANT CarriesName
INVARIANT CarriesAttributes
INVARIANT FrameVariableOnly
INVARIANT VarUnchanged
INVARIANT Repeatable
CHECK_DEADLOCK FALSE
