SPECIFICATION Spec
CONSTANTS MaxLen = 6 Wide = FALSE
  Kinds <- ThoroughKinds
INVARIANT Aggregate
INVARIANT Yielded
INVARIANT FreshEquiv
INVARIANT ContextOfLast
INVARIANT NoMemory
INVARIANT VarianceIdentity
INVARIANT DSumOrderFree
INVARIANT NumericKinds
PROPERTY ResetIsFresh
PROPERTY ComputeIdempotent
CHECK_DEADLOCK FALSE
