SPECIFICATION Spec
CONSTANTS MaxLen = 4 Classes <- QuickClasses CopyOnCompute = "once"
INVARIANT Fresh
CHECK_DEADLOCK FALSE
