SPECIFICATION Spec
CONSTANTS MaxLen = 4 CopyOnCompute = "once"
INVARIANT Fresh
CHECK_DEADLOCK FALSE
