SPECIFICATION Spec
CONSTANTS MaxRuns = 2 MaxTouch = 99
  Scens <- ScenGroup2
  Settings <- SettingsDefault
  CreatedSetsChanged = FALSE
  Reuses = {FALSE}
  AutoReload = TRUE
  KeepHistory = FALSE
VIEW view
INVARIANT TypeOK
INVARIANT AllCurrent
INVARIANT Regenerated
INVARIANT ChangedOK
INVARIANT NoRedo
INVARIANT NoRedoPlot
INVARIANT SkippedUntouched
INVARIANT GroupRedone
CHECK_DEADLOCK FALSE
