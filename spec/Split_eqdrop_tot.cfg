SPECIFICATION SpecEqDrop
CONSTANTS MaxRuns = 1
  Scenarios <- ScEqTotOnly
INVARIANT OpEqDen
CHECK_DEADLOCK FALSE
