SPECIFICATION Spec
CONSTANTS MaxOps = 2
  Tails = {"", "low"}
  MaxErr = 3
  GScales <- ScalesAll
  Targets <- TargetsAll
  Patterns = {1, 2}
VIEW view
PROPERTY ScaleExact
PROPERTY UnknownScaleRaises
PROPERTY GetScalePure
PROPERTY RoundTrip
CHECK_DEADLOCK FALSE
