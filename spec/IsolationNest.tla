---------------------------- MODULE IsolationNest ----------------------------
(***************************************************************************)
(* C04, model A': branch isolation of NESTED Splits (copy_buf = True       *)
(* everywhere): the sequences of a lena.core.Split / lena.flow.Zip are     *)
(* branches of Isolation.tla or Splits themselves - bare, or behind prefix *)
(* elements in a Sequence / FillComputeSeq - to any depth                  *)
(* (IsolationNestSem: nodes, typing, well-formedness, the reference).      *)
(*                                                                         *)
(* Operational part, on the heap of Heap.tla.  The root is a state         *)
(* machine like Isolation.tla (ReadBlock, Child, BlockDone, Final); what a *)
(* nested Split does with the buffer / the value it is given is computed   *)
(* by the recursive operators below, which follow the code:                *)
(*   Split.run    for every buffer (islice of its bufsize; the values are  *)
(*                pulled through the prefix elements first) and every      *)
(*                sequence: buf = deepcopy(orig_buf) unless it is the last *)
(*                one; a "sequence" is run on buf, a fill/compute one is   *)
(*                filled, a fill/request one is filled and requested;      *)
(*                after the flow compute() of the fill/compute ones; if    *)
(*                the flow was empty everything is called once nevertheless*)
(*   Split._fill  the prefix elements, then every sequence but the last    *)
(*                gets deepcopy(val), the last val itself                  *)
(*   Split._compute / _request   the sequences in order                    *)
(*   Zip._fill    (root only) every sequence gets deepcopy(val)            *)
(* Every Split of the tree copies on its own account: the copy made by an  *)
(* outer Split for the sequence a nested Split sits in does not replace    *)
(* the copies the nested Split owes ITS sequences.  CopyMode "nestedshare" *)
(* (what if a Split nested in a sequence that is given a copy anyway did   *)
(* not copy again), "innernone" (no nested Split copies) and "none" are    *)
(* refuted by TLC: sensitivity guards of the model.                        *)
(*                                                                         *)
(* Properties: Isolated - every LEAF yields what its effective branch      *)
(* (prefixes of its ancestors \o its own elements) yields alone on pure    *)
(* values, as snapshotted when yielded and as it is at the end;            *)
(* YieldedStable, PrefixIsolated, HeldDisjoint, OnlyLastLeafSeesSource,    *)
(* ZipNeverSeesSource, SourceByLastOnly as in Isolation.tla.               *)
(***************************************************************************)
EXTENDS IsolationNestSem, Json

CONSTANTS Family,        \* which bounded set of trees (IsolationNestSem!RootsOf)
          Ns,            \* lengths of the flow
          BufSizes, Classes,
          CopyMode       \* "deep" (the code) | "nestedshare" | "innernone" | "none"

VARIABLES root, N, bs, drv, rq, cls,     \* scenario
          M,                       \* heap
          src,                     \* the flow values as the producer created them (VRefs)
          pos, orig, ind,          \* values read, current buffer, index of the sequence of the root
          st,                      \* per leaf: stored VRefs, number of fills, count of Count.run
          out,                     \* yielded: [b |-> leaf, r |-> VRef, x |-> snapshot when yielded]
          exp,                     \* the reference (declarative, IsolationNestSem!ExpectedOf): what every leaf yields alone
          phase
vars == <<root, N, bs, drv, rq, cls, M, src, pos, orig, ind, st, out, exp, phase>>
Shape == "pair"
Roots == RootsOf(Family)    \* the lists of sequences of the root Split / Zip

\* (the conjuncts are ordered so that TLC filters early; no disjunctions: TLC would enumerate a state twice)
Init == /\ root \in Roots /\ drv \in {"run", "fill", "fillreq", "zip"}
        /\ DrvOK(root, drv)
        /\ rq \in {0, 1}
        /\ (drv \in {"run", "fill"} => rq = 0)
        /\ ((drv = "zip" /\ TypesOf(root) # {"fr"}) => rq = 0)
        /\ N \in Ns /\ bs \in BufSizes
        \* a bufsize >= the length of the flow is the same scenario as None; only Split.run has one
        /\ (bs # None => (drv = "run" /\ bs < N))
        /\ cls \in Classes
        /\ LET r == AllocAll(EmptyHeap, FlowS(N, Shape)) IN M = r.M /\ src = r.vs
        /\ pos = 0 /\ orig = <<>> /\ ind = 1
        /\ st = [l \in 1..NLs(root) |-> [stored |-> <<>>, nf |-> 0, runcount |-> 0]]
        /\ exp = ExpectedOf(root, N, bs, Shape)
        /\ out = <<>> /\ phase = "read"

Entry(h, b, v) == [b |-> b, r |-> v, x |-> SnapVal(h, v)]
Entries(h, b, vs) == [j \in 1..Len(vs) |-> Entry(h, b, vs[j])]
Res(Mm, s, o) == [M |-> Mm, st |-> s, out |-> o]

(***************************************************************************)
(* Leaves (as in Isolation.tla).                                           *)
(***************************************************************************)
\* a Sequence over one buffer: every value through the elements, Count.run marks the last one
RECURSIVE RunSeq(_, _, _, _, _)
RunSeq(Mm, b, vs, total, acc) ==
  IF vs = <<>> THEN [M |-> Mm, vs |-> acc]
  ELSE LET r == HApplyAll(Mm, Head(vs), b.muts)
           M2 == IF HasCnt(b) /\ Len(vs) = 1 THEN HSetKey(r.M, r.v.c, CntName(b), total) ELSE r.M
       IN RunSeq(M2, b, Tail(vs), total, Append(acc, r.v))
\* compute() of a fill/compute leaf: [M, vs]
ComputeOf(Mm, b, s) ==
  IF b.end = "store" THEN [M |-> Mm, vs |-> s.stored]
  ELSE \* lena.flow.Count.compute: writes its key into the stored context, yields (count, deep copy)
       LET M0 == IF s.stored = <<>> THEN AllocCtx(Mm, <<>>) ELSE [M |-> Mm, id |-> s.stored[Len(s.stored)].c]
           M1 == HSetKey(M0.M, M0.id, b.name, s.nf)
           cc == DeepCopyCtx(M1, M0.id)
           M2 == NewCell(cc.M, LCell(<<s.nf>>))
       IN [M |-> M2, vs |-> <<[d |-> cc.M.n, c |-> cc.id]>>]
\* the prefix elements of a nested Split on the values pulled into one buffer
RECURSIVE ApplyPre(_, _, _, _)
ApplyPre(Mm, vs, muts, acc) ==
  IF vs = <<>> THEN [M |-> Mm, vs |-> acc]
  ELSE LET r == HApplyAll(Mm, Head(vs), muts) IN ApplyPre(r.M, Tail(vs), muts, Append(acc, r.v))

(***************************************************************************)
(* Splits.  n: a split node, off: the number of its first leaf, cp: its    *)
(* copy_buf as the model variant leaves it.                                *)
(***************************************************************************)
\* copy_buf of a Split nested as (in) sequence j of a Split
ChildCp(last) == CASE CopyMode = "nestedshare" -> last
                   [] CopyMode \in {"innernone", "none"} -> FALSE
                   [] OTHER -> TRUE
Off(n, off, j) == off + NLs(SubSeq(n.sub, 1, j - 1))

RECURSIVE RunNode(_, _, _, _, _, _), SplitRun(_, _, _, _, _, _), BlocksLoop(_, _, _, _, _, _, _),
          ChildrenLoop(_, _, _, _, _, _, _, _, _), OneChild(_, _, _, _, _, _, _, _),
          FillAll(_, _, _, _, _, _), FillNode(_, _, _, _, _, _), FinalOf(_, _, _, _, _, _, _, _),
          ComputeNode(_, _, _, _), ComputeList(_, _, _, _, _, _), RequestNode(_, _, _, _), RequestList(_, _, _, _, _, _)

\* run() of a "sequence": a leaf Sequence, or Sequence(prefix..., Split)
RunNode(Mm, s, n, off, buf, cp) ==
  IF ~IsSplit(n)
  THEN LET total == s[off].runcount + Len(buf)
           r == RunSeq(Mm, n, buf, total, <<>>)
       IN Res(r.M, [s EXCEPT ![off].runcount = total], Entries(r.M.h, off, r.vs))
  ELSE SplitRun(Mm, s, n, off, buf, cp)

\* Split.run over the flow vs
SplitRun(Mm, s, n, off, vs, cp) ==
  LET b == BlocksLoop(Mm, s, n, off, vs, cp, <<>>)
      f == FinalOf(b.M, b.st, n, off, vs = <<>>, cp, 1, <<>>)
  IN Res(f.M, f.st, b.out \o f.out)
BlocksLoop(Mm, s, n, off, vs, cp, acc) ==
  IF vs = <<>> THEN Res(Mm, s, acc)
  ELSE LET k == IF n.ibs = None THEN Len(vs) ELSE Min(n.ibs, Len(vs))
           p == ApplyPre(Mm, SubSeq(vs, 1, k), n.muts, <<>>)
           c == ChildrenLoop(p.M, s, n, off, p.vs, cp, 1, <<>>, "run")
       IN BlocksLoop(c.M, c.st, n, off, SubSeq(vs, k + 1, Len(vs)), cp, acc \o c.out)
\* the sequences j.. of Split n on one buffer (mode "run") / one value (mode "fill"; "zip" at the root)
ChildrenLoop(Mm, s, n, off, blk, cp, j, acc, mode) ==
  IF j > Len(n.sub) THEN Res(Mm, s, acc)
  ELSE LET r == OneChild(Mm, s, n, off, blk, cp, j, mode)
       IN ChildrenLoop(r.M, r.st, n, off, blk, cp, j + 1, acc \o r.out, mode)
OneChild(Mm, s, n, off, blk, cp, j, mode) ==
  LET child == n.sub[j]
      coff == Off(n, off, j)
      last == j = Len(n.sub)
      needcopy == CopyMode # "none" /\ cp /\ (mode = "zip" \/ ~last)
      buf == IF needcopy THEN DeepCopyAll(Mm, blk) ELSE [M |-> Mm, vs |-> blk]
      ccp == ChildCp(last)
      t == TypeOf(child)
  IN IF mode = "run" /\ t = "sequence" THEN RunNode(buf.M, s, child, coff, buf.vs, ccp)
     ELSE LET f == FillAll(buf.M, s, child, coff, buf.vs, ccp) IN
          IF mode = "run" /\ t = "fr" THEN RequestNode(f.M, f.st, child, coff)   \* after every buffer
          ELSE f
FillAll(Mm, s, n, off, vs, cp) ==
  IF vs = <<>> THEN Res(Mm, s, <<>>)
  ELSE LET f == FillNode(Mm, s, n, off, Head(vs), cp) IN FillAll(f.M, f.st, n, off, Tail(vs), cp)
\* fill(v) of a fill/compute or fill/request leaf, of a Split (Split._fill), of FillComputeSeq(prefix..., Split)
FillNode(Mm, s, n, off, v, cp) ==
  LET r == HApplyAll(Mm, v, n.muts) IN
  IF ~IsSplit(n) THEN Res(r.M, [s EXCEPT ![off].stored = Append(@, r.v), ![off].nf = @ + 1], <<>>)
  ELSE ChildrenLoop(r.M, s, n, off, <<r.v>>, cp, 1, <<>>, "fill")
\* the end of Split.run: compute() of the fill/compute sequences; everything is called if the flow was empty
FinalOf(Mm, s, n, off, empty, cp, j, acc) ==
  IF j > Len(n.sub) THEN Res(Mm, s, acc)
  ELSE LET child == n.sub[j]
           coff == Off(n, off, j)
           t == TypeOf(child)
           r == IF t = "fc" THEN ComputeNode(Mm, s, child, coff)
                ELSE IF ~empty THEN Res(Mm, s, <<>>)
                ELSE IF t = "fr" THEN RequestNode(Mm, s, child, coff)
                ELSE RunNode(Mm, s, child, coff, <<>>, ChildCp(j = Len(n.sub)))
       IN FinalOf(r.M, r.st, n, off, empty, cp, j + 1, acc \o r.out)
ComputeNode(Mm, s, n, off) ==
  IF ~IsSplit(n) THEN LET c == ComputeOf(Mm, n, s[off]) IN Res(c.M, s, Entries(c.M.h, off, c.vs))
  ELSE ComputeList(Mm, s, n, off, 1, <<>>)
ComputeList(Mm, s, n, off, j, acc) ==
  IF j > Len(n.sub) THEN Res(Mm, s, acc)
  ELSE LET r == ComputeNode(Mm, s, n.sub[j], Off(n, off, j)) IN ComputeList(r.M, r.st, n, off, j + 1, acc \o r.out)
RequestNode(Mm, s, n, off) ==
  IF ~IsSplit(n) THEN Res(Mm, [s EXCEPT ![off].stored = <<>>], Entries(Mm.h, off, s[off].stored))
  ELSE RequestList(Mm, s, n, off, 1, <<>>)
RequestList(Mm, s, n, off, j, acc) ==
  IF j > Len(n.sub) THEN Res(Mm, s, acc)
  ELSE LET r == RequestNode(Mm, s, n.sub[j], Off(n, off, j)) IN RequestList(r.M, r.st, n, off, j + 1, acc \o r.out)

(***************************************************************************)
(* The root: Split(root, bufsize = bs).run / .fill + compute / .fill +     *)
(* request / Zip(root).                                                    *)
(***************************************************************************)
RootNode == SplitN(<<>>, bs, root)
RootCp == CopyMode # "none"
Mode == CASE drv = "run" -> "run" [] drv = "zip" -> "zip" [] OTHER -> "fill"
Fixed == UNCHANGED <<root, N, bs, drv, rq, cls, src, exp>>

\* the next buffer of Split.run / the next value filled by the driver
ReadBlock ==
  /\ phase = "read" /\ Fixed
  /\ LET k == IF drv # "run" THEN Min(1, N - pos) ELSE IF bs = None THEN N - pos ELSE Min(bs, N - pos) IN
     IF k = 0 THEN /\ phase' = "final" /\ UNCHANGED <<pos, orig>>
     ELSE /\ orig' = SubSeq(src, pos + 1, pos + k) /\ pos' = pos + k /\ phase' = "branches"
  /\ ind' = 1 /\ UNCHANGED <<M, st, out>>

\* one sequence of the root on the current buffer / value
Child ==
  /\ phase = "branches" /\ ind <= Len(root) /\ Fixed
  /\ LET r == OneChild(M, st, RootNode, 1, orig, RootCp, ind, Mode)
     IN M' = r.M /\ st' = r.st /\ out' = out \o r.out
  /\ ind' = ind + 1 /\ UNCHANGED <<pos, orig, phase>>

\* the driver of a fill/request Split or Zip may request after every value
BlockDone ==
  /\ phase = "branches" /\ ind > Len(root) /\ Fixed
  /\ IF drv \in {"fillreq", "zip"} /\ rq = 1
     THEN LET r == RequestNode(M, st, RootNode, 1) IN M' = r.M /\ st' = r.st /\ out' = out \o r.out
     ELSE UNCHANGED <<M, st, out>>
  /\ phase' = "read" /\ UNCHANGED <<pos, orig, ind>>

Final ==
  /\ phase = "final" /\ Fixed
  /\ LET r == CASE drv = "run" -> FinalOf(M, st, RootNode, 1, N = 0, RootCp, 1, <<>>)
                [] TypesOf(root) = {"fc"} -> ComputeNode(M, st, RootNode, 1)
                [] OTHER -> RequestNode(M, st, RootNode, 1)
     IN M' = r.M /\ st' = r.st /\ out' = out \o r.out
  /\ phase' = "done" /\ UNCHANGED <<pos, orig, ind>>

Next == ReadBlock \/ Child \/ BlockDone \/ Final
Spec == Init /\ [][Next]_vars
Done == phase = "done"

(***************************************************************************)
(* Properties.                                                             *)
(***************************************************************************)
Expected == exp
NLeaves == Len(exp)
ReferenceIsDeclarative == exp = ExpectedOf(root, N, bs, Shape)
RECURSIVE Proj(_, _)
Proj(o, b) == IF o = <<>> THEN <<>> ELSE (IF Head(o).b = b THEN <<Head(o)>> ELSE <<>>) \o Proj(Tail(o), b)
WhenYielded(es) == [j \in 1..Len(es) |-> es[j].x]
AtEnd(es) == [j \in 1..Len(es) |-> SnapVal(M.h, es[j].r)]
\* each leaf yields what its effective branch would yield alone on a private copy of the flow
Isolated == Done => \A l \in 1..NLeaves :
               /\ WhenYielded(Proj(out, l)) = Expected[l]
               /\ AtEnd(Proj(out, l)) = Expected[l]
YieldedStable == \A j \in 1..Len(out) : SnapVal(M.h, out[j].r) = out[j].x
IsPrefix(a, c) == Len(a) <= Len(c) /\ a = SubSeq(c, 1, Len(a))
PrefixIsolated == \A l \in 1..NLeaves : IsPrefix(WhenYielded(Proj(out, l)), Expected[l])
Held(l) == UNION {Reach(M.h, st[l].stored[j]) : j \in 1..Len(st[l].stored)}
HeldDisjoint == \A l1, l2 \in 1..NLeaves : l1 # l2 => Held(l1) \cap Held(l2) = {}
SrcObjs == UNION {Reach(M.h, src[j]) : j \in 1..Len(src)}
\* only the last sequence of the last sequence ... of the root may touch the producer's objects
OnlyLastLeafSeesSource == (CopyMode = "deep" /\ drv # "zip") =>
   \A l \in 1..NLeaves : (Held(l) \cap SrcObjs # {}) => l = NLeaves
ZipNeverSeesSource == (CopyMode = "deep" /\ drv = "zip") => \A l \in 1..NLeaves : Held(l) \cap SrcObjs = {}
SrcAfter == [j \in 1..Len(src) |-> SnapVal(M.h, src[j])]
StripC(c) == [k \in (DOMAIN c) \ {"cnt", "c1"} |-> c[k]]
\* the producer's values are changed by the elements on the path to the last leaf only, applied once
SourceByLastOnly == (Done /\ CopyMode = "deep") => \A j \in 1..Len(src) :
   LET a == SnapVal(M.h, src[j])
       e == EffOf(root, N, bs, Shape)
       y == PApplyAll(XS(j, Shape), e[Len(e)].b.muts)
   IN IF drv = "zip" THEN a = XS(j, Shape)
      ELSE StripC(a.c) = StripC(y.c) /\ a.d \in {XS(j, Shape).d, y.d}
Emitted == Done => PrintT(ToJson([root |-> root, N |-> N, bs |-> bs, drv |-> drv, rq |-> rq, shape |-> Shape,
                                  cls |-> cls, exp |-> Expected, src |-> SrcAfter]))
=============================================================================
