
