SPECIFICATION XSpec
CONSTANTS PairSrc = "file" CtxU = "falsy" MaxFlow = 0 KeyU = "six"
INVARIANT EmitClasses
CHECK_DEADLOCK FALSE
