SPECIFICATION XSpec
CONSTANTS PairSrc = "file" CtxU = "falsy" MaxFlow = 0 KeyU = "six" Writ = "all" NObj = 0
INVARIANT EmitClasses
CHECK_DEADLOCK FALSE
