SPECIFICATION Spec
CONSTANTS MaxLen = 5 CopyOnCompute = TRUE
INVARIANT Emitted
CHECK_DEADLOCK FALSE
