SPECIFICATION Spec
CONSTANTS MaxLen = 5 CopyOnCompute = "each"
INVARIANT Emitted
CHECK_DEADLOCK FALSE
