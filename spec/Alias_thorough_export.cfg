SPECIFICATION Spec
CONSTANTS MaxLen = 5 Classes <- AllClasses CopyOnCompute = "each"
INVARIANT Emitted
CHECK_DEADLOCK FALSE
