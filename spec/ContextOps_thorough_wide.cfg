SPECIFICATION Spec
CONSTANTS
  KeyOrder <- KO3
  Ctxs <- CtxQ2
  Flows <- SingleFlows
  Calls <- CallsWide
INVARIANT GetIsRef
INVARIANT ContainsIsRef
INVARIANT FormatIsRef
INVARIANT UpdateIsRef
INVARIANT DeleteIsRef
INVARIANT NotationsAgree
INVARIANT FuwIsRef
INVARIANT ContainsAgreesWithGet
INVARIANT GetAfterStrToDict
INVARIANT FormatExact
INVARIANT CanonInjective
INVARIANT Frame
INVARIANT UpdateTarget
INVARIANT UpdateMissing
INVARIANT DeleteExact
INVARIANT FuwExact
INVARIANT OnlyDocumentedExceptions
PROPERTY QueriesPure
PROPERTY ElementStateless
CHECK_DEADLOCK FALSE
