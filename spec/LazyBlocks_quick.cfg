SPECIFICATION Spec
CONSTANTS MaxN = 3 Infinite = TRUE MaxOut = 3 MaxPos = 14 Stops = TRUE Guard = "none"
  Scen <- ScenQuick
INVARIANT TypeOK
INVARIANT NoWorkBeforeDemand
INVARIANT BlockPrefixOnly
INVARIANT RetentionBound
INVARIANT StoppedNoPull
INVARIANT ResultsAreSem
INVARIANT MachineIsSem
PROPERTY PullOnlyOnDemand
CONSTRAINT Bounded
CHECK_DEADLOCK FALSE
