SPECIFICATION Spec
CONSTANTS MaxBr = 3 MaxN = 2 MaxM = 2
INVARIANT EvenlyFilled
INVARIANT SameAsRun
INVARIANT ZipTuples
INVARIANT RequestAccounts
INVARIANT Repeatable
CHECK_DEADLOCK FALSE
