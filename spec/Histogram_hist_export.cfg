SPECIFICATION Spec
CONSTANTS MaxFills = 6
  Weights <- W5
  Twin = TRUE
  EdgeChoices <- EdgesHist
INVARIANT HistoryRef
INVARIANT Conservation
INVARIANT Emitted
CHECK_DEADLOCK FALSE
