SPECIFICATION Spec
CONSTANTS MaxFills = 6
  Weights <- W5
  EdgeChoices <- EdgesHist
INVARIANT HistoryRef
INVARIANT Conservation
INVARIANT Emitted
CHECK_DEADLOCK FALSE
