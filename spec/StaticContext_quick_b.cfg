SPECIFICATION Spec
CONSTANTS MaxTok = 5 MaxDepth = 3
  Leaves <- LeavesTiny
  RootKinds <- SeqRoots
  StoreByCopy = TRUE
  TailKeepsSets = TRUE
INVARIANT SeenIsExpected
INVARIANT PrefixOnly
INVARIANT SiblingIndependent
INVARIANT RootExpected
INVARIANT NoLeakToRuntime
PROPERTY Causal
PROPERTY RunKeepsStatic
CHECK_DEADLOCK FALSE
