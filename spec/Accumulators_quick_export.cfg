SPECIFICATION Spec
CONSTANTS MaxLen = 4 Wide = FALSE
  Kinds <- AllKinds
INVARIANT Emitted
CHECK_DEADLOCK FALSE
