---------------------------- MODULE Trace_Binned ----------------------------
(***************************************************************************)
(* Validation of binned analyses recorded from the real lena (random       *)
(* branch lists, random edges, longer random event lists incl. empty ones, *)
(* random block sizes, histories of several runs in one output directory). *)
(* One record per run:                                                     *)
(*   [first   TRUE for the first run of a history (empty directory),       *)
(*    brs, bs, ed   branches, Split bufsize (0: no Split), <<ex, ey, eh>>, *)
(*    src      the events the reader supplies,   pulled  events read,      *)
(*    files    the directory after the run, decoded: [key, c]              *)
(*    wrote    names of the files written in this run                      *)
(*    out      the yielded structures as observed: name (parsed from the   *)
(*             path), named (path, context.output.filename and, for a      *)
(*             cell, context.bin.edges_str all render that name), kind,    *)
(*             rows (read back from the file), cell (context.bin.edges),   *)
(*             coords, avar (context.bins.variable / context.variable),    *)
(*             var, source, binsource, oor, hdim, nbins, ranges]           *)
(* The state carried between records is the directory.  A run is accepted  *)
(* iff it is the declarative run RunOut / RunFiles / RunWrote of           *)
(* BinnedSem.tla (which Binned.tla shows equal to the machine, RunIsSem)   *)
(* and the operational routing of every event (FillAllSIB, the code's      *)
(* walk) gives in every cell the analysis of the definition (CellRef).     *)
(* What the documentation leaves open is not compared: the analysis'       *)
(* context (variable, source) of a cell that received no value, the        *)
(* events' context when no event lay inside the edges.                     *)
(***************************************************************************)
EXTENDS BinnedSem, TLC, Json, IOUtils

Trace == JsonDeserialize(IOEnv.TRACE_FILE)
VARIABLES i, dir
vars == <<i, dir>>

Init == i = 1 /\ dir = <<>>

AsFun(fl) == [k \in {fl[j].key : j \in 1..Len(fl)} |-> File(fl[CHOOSE j \in 1..Len(fl) : fl[j].key = k].c)]
AsSet(sq) == {sq[j] : j \in 1..Len(sq)}

Match(g, w) ==
  /\ g.name = w.name /\ g.named /\ g.kind = w.kind
  /\ g.rows = w.rows
  /\ g.cell = w.cell /\ g.coords = w.coords
  /\ g.avar = w.avar
  /\ g.hdim = w.hdim /\ g.nbins = w.nbins /\ g.ranges = w.ranges
  /\ (w.kind = "cell" => g.oor = w.oor)
  /\ (w.filled => (g.var = w.var /\ g.source = "data"))
  /\ (w.kind = "map" => g.var = w.var)
  /\ (w.src => g.binsource = "data")

RunStep(r) ==
  LET F0 == IF r.first THEN <<>> ELSE dir
      O == RunOut(r.brs, r.src, r.ed)
      F1 == RunFiles(F0, O)
  IN /\ Distinct(r.brs) /\ (r.bs = 0 => Len(r.brs) = 1)
     /\ r.pulled = Len(r.src)
     /\ \A k \in 1..Len(r.brs) :
          LET b == r.brs[k]
              st == FillAllSIB(b, EmptySIB(b, r.ed), r.src, r.ed, FALSE)
          IN /\ \A cell \in Cells(ArgEdges(b, r.ed)) : Get(st.cells, cell) = CellRef(b, r.src, cell, r.ed)
             /\ st.touched = AnyInside(b, r.src, r.ed)
     /\ Len(r.out) = Len(O)
     /\ \A j \in 1..Len(O) : Match(r.out[j], O[j])
     /\ AsFun(r.files) = F1
     /\ AsSet(r.wrote) = RunWrote(F0, F1, O)
     /\ Len(r.wrote) = Cardinality(AsSet(r.wrote))
     /\ dir' = F1

Next == i <= Len(Trace) /\ RunStep(Trace[i]) /\ i' = i + 1
Spec == Init /\ [][Next]_vars

\* every file in the directory is the csv of a cell or of a mapped histogram of a known analysis
Known == \A k \in DOMAIN dir : k.arg \in {"x", "y", "xy"} /\ k.an \in {"hist", "sum", "count"}
Accepted == /\ PrintT(<<"ACCEPTED", TLCGet("stats").diameter - 1>>)
            /\ TLCGet("stats").diameter - 1 = Len(Trace)
=============================================================================
