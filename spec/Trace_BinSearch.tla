-------------------------- MODULE Trace_BinSearch --------------------------
(***************************************************************************)
(* Validation of loop iterations of the real get_bin_on_value_1d (sampled  *)
(* from outside with sys.settrace) as behaviours of BinSearch.tla.         *)
(* One record per call:                                                    *)
(*   [arr, val   rank-abstracted array and value,                          *)
(*    steps      <<ind_min, ind_max, ind_guess>> at each iteration          *)
(*               (ind_guess = -1 in the iteration that returns),           *)
(*    res        returned index]                                           *)
(***************************************************************************)
EXTENDS HistSem, TLC, Json, IOUtils

Trace == JsonDeserialize(IOEnv.TRACE_FILE)
VARIABLE i

CallOk(r) ==
  LET m == Len(r.steps) IN
  /\ Increasing(r.arr)
  /\ m >= 1 /\ r.steps[1][1] = 0 /\ r.steps[1][2] = Len(r.arr) - 1
  /\ \A k \in 1..m :
       LET s == r.steps[k]
           b == Body(r.arr, r.val, s[1], s[2], s[3])
       IN IF k = m THEN b.done /\ b.res = r.res
          ELSE /\ ~b.done
               /\ s[3] \in s[1]..s[2]                \* the guess stays within ind_min..ind_max
               /\ b.lo = r.steps[k + 1][1] /\ b.hi = r.steps[k + 1][2]
  /\ r.res = Idx(r.val, r.arr)

\* only the returned value (used to classify a record the full check rejects)
ResOk(r) == Increasing(r.arr) /\ r.res = Idx(r.val, r.arr)

TInit == i = 1
TNext == i <= Len(Trace) /\ CallOk(Trace[i]) /\ i' = i + 1
TSpec == TInit /\ [][TNext]_i
RNext == i <= Len(Trace) /\ ResOk(Trace[i]) /\ i' = i + 1
RSpec == TInit /\ [][RNext]_i
Accepted == /\ PrintT(<<"ACCEPTED", TLCGet("stats").diameter - 1>>)
            /\ TLCGet("stats").diameter - 1 = Len(Trace)
=============================================================================
