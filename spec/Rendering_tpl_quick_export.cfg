SPECIFICATION Spec
CONSTANTS Parts = {"tpl"} MaxSrc = 4 MaxRows = 2 Deep = FALSE
INVARIANT Emitted
CHECK_DEADLOCK FALSE
