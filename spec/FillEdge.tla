------------------------------- MODULE FillEdge -------------------------------
(***************************************************************************)
(* C05, round 8.  Two dimensions of a chain  pre* acc post*  that the      *)
(* machine FillSeq.tla fixes: WHAT a selector returns and HOW an element   *)
(* ends abnormally.  Same three drivers, bare data 0..N-1.                 *)
(*                                                                         *)
(* (a) Result kinds.  Filter(pred) / RunIf(pred, inc) where pred returns,  *)
(*     for odd and for even data, an OBJECT of some kind: True, False, 1,  *)
(*     0, 2, "", "x", None, [], [0], 0.0, nan, objects with __bool__ /     *)
(*     __len__, a match object.  A selector is a "boolean function"; like  *)
(*     the selectors built by lena itself (And -> all, Or -> any, Not ->   *)
(*     not) its result counts by its Python truth value (Truthy), on the   *)
(*     run side (Filter.run, RunIf.run) and on the fill side               *)
(*     (Filter.fill_into, FillInto(RunIf)) alike.                          *)
(*     Variant FillTruth = "identity" (the fill side selects only on the   *)
(*     object True) must be rejected: FillEdge_identity.cfg.               *)
(* (b) Abnormal endings.  Fault(host, at, exc): an element that is the     *)
(*     identity on the flow but raises exc when it meets the datum `at`;   *)
(*     hosted by a plain callable, by the predicate of a Filter, by the    *)
(*     selector of a RunIf or by the callable inside a RunIf.  An error is *)
(*     never an end of the flow: every driver ends with an exception       *)
(*     (status "raised") after the same results; an exception other than   *)
(*     StopIteration surfaces with its own class, StopIteration either as  *)
(*     itself or as RuntimeError (PEP 479: it crossed a generator frame) - *)
(*     Surfaces.  Variant RunStop = "quiet" (the run side of a callable is *)
(*     a map(): StopIteration of the callable ends the flow silently) must *)
(*     be rejected: FillEdge_quiet.cfg.                                    *)
(*                                                                         *)
(*   drv = "run"    RunFeed (one value through the run side, filled),      *)
(*                  RunEof (compute, post)                                 *)
(*   drv = "fill"   FillValue, FillCompute   (FillComputeSeq / FillSeq)    *)
(*   drv = "split"  SplitRead, SplitFill (block), SplitEnd                 *)
(* Declarative reference: Outcome (Through over the whole flow).           *)
(***************************************************************************)
EXTENDS Integers, Sequences, FiniteSets, TLC, Json

CONSTANTS MaxN, Chains, Drivers, Bufs,
          FillTruth,    \* "truth" (documented) | "identity" (must be rejected)
          RunStop       \* "error" (documented) | "quiet" (must be rejected)
None == -1000

\* ---- result objects of a predicate and their Python truth value
AllKinds == {"True", "False", "one", "zero", "two", "empty_str", "str_x", "none", "empty_list", "list_0",
             "obj_true", "obj_false", "zero_float", "nan", "len0", "match"}
Truthy(k) == k \in {"True", "one", "two", "str_x", "list_0", "obj_true", "nan", "match"}
Bools == {"True", "False"}
KindsQuick == AllKinds \ {"zero_float", "nan", "len0", "match"}

\* ---- elements
Filter(ko, ke) == [t |-> "filter", ko |-> ko, ke |-> ke]       \* pred returns ko for odd data, ke for even data
RunIf(ko, ke) == [t |-> "runif", ko |-> ko, ke |-> ke]         \* RunIf(pred, inc)
Inc == [t |-> "inc"]
Fault(h, at, e) == [t |-> "fault", h |-> h, at |-> at, e |-> e]
Hosts == {"call", "filter", "runif_sel", "runif_in"}
Excs == {"StopIteration", "ValueError"}

Selected(k, side) == IF side = "fill" /\ FillTruth = "identity" THEN k = "True" ELSE Truthy(k)
KindAt(el, v) == IF v % 2 = 1 THEN el.ko ELSE el.ke
\* one value through one element: what it emits, or the exception it raises
ApplyEl(el, v, side) ==
  CASE el.t = "inc" -> [em |-> <<v + 1>>, err |-> ""]
    [] el.t = "filter" -> [em |-> IF Selected(KindAt(el, v), side) THEN <<v>> ELSE <<>>, err |-> ""]
    [] el.t = "runif" -> [em |-> IF Selected(KindAt(el, v), side) THEN <<v + 1>> ELSE <<v>>, err |-> ""]
    [] el.t = "fault" -> IF v = el.at THEN [em |-> <<>>, err |-> el.e] ELSE [em |-> <<v>>, err |-> ""]
\* the values vs through the elements els, value by value; the first error ends it: [out (results so far), err]
RECURSIVE Through(_, _, _)
Through(els, vs, side) ==
  IF els = <<>> THEN [out |-> vs, err |-> ""]
  ELSE IF vs = <<>> THEN [out |-> <<>>, err |-> ""]
  ELSE LET r == ApplyEl(Head(els), Head(vs), side) IN
       IF r.err # "" THEN [out |-> <<>>, err |-> r.err]
       ELSE LET down == Through(Tail(els), r.em, side) IN
            IF down.err # "" THEN down
            ELSE LET rest == Through(els, Tail(vs), side) IN [out |-> down.out \o rest.out, err |-> rest.err]

RECURSIVE SumSeq(_)
SumSeq(vs) == IF vs = <<>> THEN 0 ELSE Head(vs) + SumSeq(Tail(vs))
AccCompute(a, vs) == IF a = "sum" THEN <<SumSeq(vs)>> ELSE vs          \* Sum | StoreFilled

\* ---- declarative meaning
Result(st, exc, out) == [st |-> st, exc |-> exc, out |-> out]
Outcome(ch, xs) ==
  LET r == Through(ch.pre, xs, "doc") IN
  IF r.err # "" THEN Result("raised", r.err, <<>>)
  ELSE LET p == Through(ch.post, AccCompute(ch.acc, r.out), "doc") IN
       Result(IF p.err = "" THEN "ok" ELSE "raised", p.err, p.out)
\* the class under which an exception raised by an element may surface from a driver
Surfaces(e) == IF e = "StopIteration" THEN {"StopIteration", "RuntimeError"} ELSE {e}

\* ---- chains
Chain(p, a, q) == [pre |-> p, acc |-> a, post |-> q]
Seqs2(S) == {<<>>} \cup {<<x>> : x \in S} \cup {<<x, y>> : x \in S, y \in S}
Seqs1(S) == {<<>>} \cup {<<x>> : x \in S}
SelFull(K) == {Filter(ko, ke) : ko \in K, ke \in K} \cup {RunIf(ko, ke) : ko \in K, ke \in K}
SelSmall == {Filter("one", "zero"), Filter("none", "str_x"), Filter("True", "False"), RunIf("two", "empty_list"),
             RunIf("False", "list_0"), Inc}
Faults(H, A) == {Fault(h, at, e) : h \in H, at \in A, e \in Excs}
PostsPlain == {<<>>, <<Inc>>}
PostsSel == PostsPlain \cup {<<Filter("one", "zero")>>, <<RunIf("empty_str", "two")>>}
PostsFault == PostsPlain \cup {<<Fault("call", 1, "StopIteration")>>, <<Fault("filter", 1, "ValueError")>>,
                               <<Inc, Fault("runif_in", 2, "StopIteration")>>}
BothAccs == {"sum", "store"}
ChainsOf(P, A, Q) == {Chain(p, a, q) : p \in P, a \in A, q \in Q}
ChainsSelQuick == ChainsOf(Seqs1(SelFull(KindsQuick)), BothAccs, PostsPlain) \cup ChainsOf(Seqs2(SelSmall), BothAccs, PostsSel)
FaultSmall == Faults({"call", "filter"}, {1}) \cup {Fault("runif_sel", 0, "StopIteration"), Fault("runif_in", 2, "ValueError")}
ChainsFaultQuick == ChainsOf(Seqs1(Faults(Hosts, 0..2)), BothAccs, PostsFault)
                    \cup ChainsOf(Seqs2(FaultSmall \cup {Inc, Filter("one", "zero"), RunIf("two", "none")}), BothAccs, PostsPlain)
ChainsQuick == ChainsSelQuick \cup ChainsFaultQuick
ChainsThorough == ChainsOf(Seqs1(SelFull(AllKinds)), BothAccs, PostsSel)
                  \cup ChainsOf(Seqs2(SelSmall \cup {Filter("nan", "zero_float"), RunIf("match", "len0")}), BothAccs, PostsSel)
                  \cup ChainsOf(Seqs1(Faults(Hosts, 0..3)), BothAccs, PostsFault)
                  \cup ChainsOf(Seqs2(Faults(Hosts, {0, 2}) \cup {Inc, Filter("one", "zero"), RunIf("two", "none")}), BothAccs, PostsFault)
ChainsGuard == ChainsOf(Seqs1({Filter("one", "zero"), Fault("call", 1, "StopIteration"), Fault("call", 1, "ValueError")}),
                        {"sum"}, PostsPlain)
BufQuick == {1, 2, None}
BufAll == (1..(MaxN + 1)) \cup {1000, None}
BufMid == {1, 2, 3, 1000, None}

VARIABLES ch, N, drv, bs,      \* scenario
          pos, fed,             \* values taken from the flow; values the accumulator has been filled with
          buf, phase, res,      \* Split: current block; phase; outcome
          act
vars == <<ch, N, drv, bs, pos, fed, buf, phase, res, act>>
xs == [j \in 1..N |-> j - 1]
Min(a, b) == IF a < b THEN a ELSE b

Init == /\ ch \in Chains /\ N \in 0..MaxN /\ drv \in Drivers
        /\ bs \in (IF drv = "split" THEN Bufs ELSE {None})
        /\ pos = 0 /\ fed = <<>> /\ buf = <<>>
        /\ phase = (IF drv = "split" THEN "read" ELSE "feed")
        /\ res = Result("", "", <<>>) /\ act = "Init"
Scenario == UNCHANGED <<ch, N, drv, bs>>
\* compute, then the results through the post elements (a Sequence whatever the driver)
Finish == LET p == Through(ch.post, AccCompute(ch.acc, fed), "run") IN
          res' = Result(IF p.err = "" THEN "ok" ELSE "raised", p.err, p.out) /\ phase' = "done"
Abort(e) == res' = Result("raised", e, <<>>) /\ phase' = "done"

\* ---- Sequence(pre.., acc, post..).run(flow)
RunFeed == /\ act' = "RunFeed" /\ drv = "run" /\ phase = "feed" /\ pos < N
           /\ LET r == Through(ch.pre, <<xs[pos + 1]>>, "run") IN
              IF r.err = "" THEN fed' = fed \o r.out /\ pos' = pos + 1 /\ UNCHANGED <<phase, res>>
              ELSE IF RunStop = "quiet" /\ r.err = "StopIteration"
                   THEN pos' = N /\ UNCHANGED <<fed, phase, res>>          \* taken for the end of the flow
                   ELSE Abort(r.err) /\ UNCHANGED <<fed, pos>>
           /\ Scenario /\ UNCHANGED buf
RunEof == /\ act' = "RunEof" /\ drv = "run" /\ phase = "feed" /\ pos = N
          /\ Finish /\ Scenario /\ UNCHANGED <<pos, fed, buf>>
\* ---- FillComputeSeq / FillSeq filled value by value
FillValue == /\ act' = "FillValue" /\ drv = "fill" /\ phase = "feed" /\ pos < N
             /\ LET r == Through(ch.pre, <<xs[pos + 1]>>, "fill") IN
                IF r.err = "" THEN fed' = fed \o r.out /\ pos' = pos + 1 /\ UNCHANGED <<phase, res>>
                ELSE Abort(r.err) /\ UNCHANGED <<fed, pos>>
             /\ Scenario /\ UNCHANGED buf
FillCompute == /\ act' = "FillCompute" /\ drv = "fill" /\ phase = "feed" /\ pos = N
               /\ Finish /\ Scenario /\ UNCHANGED <<pos, fed, buf>>
\* ---- Split([(pre.., acc, post..)], bufsize = bs).run(flow)
SplitRead == /\ act' = "SplitRead" /\ drv = "split" /\ phase = "read"
             /\ LET k == IF bs = None THEN N - pos ELSE Min(bs, N - pos) IN
                IF k = 0 THEN phase' = "final" /\ UNCHANGED <<buf, pos>>
                ELSE buf' = SubSeq(xs, pos + 1, pos + k) /\ pos' = pos + k /\ phase' = "fill"
             /\ Scenario /\ UNCHANGED <<fed, res>>
SplitFill == /\ act' = "SplitFill" /\ drv = "split" /\ phase = "fill"
             /\ LET r == Through(ch.pre, buf, "fill") IN
                IF r.err = "" THEN fed' = fed \o r.out /\ phase' = "read" /\ UNCHANGED res
                ELSE Abort(r.err) /\ UNCHANGED fed
             /\ Scenario /\ UNCHANGED <<pos, buf>>
SplitEnd == /\ act' = "SplitEnd" /\ drv = "split" /\ phase = "final"
            /\ Finish /\ Scenario /\ UNCHANGED <<pos, fed, buf>>

Next == RunFeed \/ RunEof \/ FillValue \/ FillCompute \/ SplitRead \/ SplitFill \/ SplitEnd
Spec == Init /\ [][Next]_vars
Done == phase = "done"

(***************************************************************************)
(* Properties.                                                             *)
(***************************************************************************)
\* every driver ends like the declarative reference - with the same results, or with the same error after the same
\* results; hence all drivers agree, also on failing
DriversAgree == Done => res = Outcome(ch, xs)
\* an error of an element is never swallowed: a chain in which some value meets its fault ends "raised"
FaultMet == \E i \in 1..Len(ch.pre) : ch.pre[i].t = "fault" /\ Through(SubSeq(ch.pre, 1, i), xs, "doc").err # ""
NoQuietEnd == (Done /\ FaultMet) => res.st = "raised"
\* what a selector returns counts by its truth value only: replacing every result by bool(result) changes nothing
Boolify(el) == IF el.t \in {"filter", "runif"}
               THEN [el EXCEPT !.ko = IF Truthy(@) THEN "True" ELSE "False", !.ke = IF Truthy(@) THEN "True" ELSE "False"]
               ELSE el
BoolChain(c) == [c EXCEPT !.pre = [i \in 1..Len(c.pre) |-> Boolify(c.pre[i])], !.post = [i \in 1..Len(c.post) |-> Boolify(c.post[i])]]
TruthOnly == Done => res = Outcome(BoolChain(ch), xs)
BufBound == bs # None => Len(buf) <= bs

Census == PrintT(<<"ACT", act>>)
Emitted == (Done /\ drv = "fill") =>
   PrintT(ToJson([ch |-> ch, N |-> N, st |-> res.st, exc |-> res.exc, allowed |-> Surfaces(res.exc), out |-> res.out]))
=============================================================================
