SPECIFICATION TSpec
CONSTANTS MaxFields = 0 Deep = FALSE
  CoordNames <- CoordNamesQ
  Tails <- TailsQ
POSTCONDITION Accepted
CHECK_DEADLOCK FALSE
