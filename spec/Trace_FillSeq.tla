--------------------------- MODULE Trace_FillSeq ---------------------------
(***************************************************************************)
(* Validation of analysis chains driven on the real code beyond the        *)
(* exhaustive bounds.  One record per run:                                 *)
(*   [e |-> "out", ch, N, fk, drv, bs, out]   results of one driver     *)
(*        (drv: run | split | fill_compute_seq | fill_seq; bs and place    *)
(*        for split: with sibling branches the results of the chain's      *)
(*        branch are recorded); fk = "bare" | "pairs" | "ctx"              *)
(*   [e |-> "reach", ch, N, fk, reach]        values that were filled   *)
(*        into the accumulator (recording proxy) by FillComputeSeq         *)
(*        (also recorded as they were at the moment they were yielded if   *)
(*        that differs from what they are when the driver has finished)    *)
(* Whatever the driver and bufsize, the results must be ChainSem and the   *)
(* accumulator must have received Reach.  A run that raised is recorded    *)
(* with another e and matched by nothing.                                  *)
(***************************************************************************)
EXTENDS FillSem, Json, IOUtils

Trace == JsonDeserialize(IOEnv.TRACE_FILE)
VARIABLE i
ToSet(sq) == {sq[k] : k \in 1..Len(sq)}
\* vc: the content of context.variable (name, type, compose list, descriptions kept under a type)
NormVal(v) == [d |-> v.d, c |-> ToSet(v.c), h |-> v.h,
               vc |-> [name |-> v.vc.name, type |-> v.vc.type, compose |-> v.vc.compose, kept |-> ToSet(v.vc.kept)]]
NormOut(o) == [k \in 1..Len(o) |-> NormVal(o[k])]
Ok(r) == \/ r.e = "out" /\ NormOut(r.out) = ChainSem(r.ch, FlowOf(r.N, r.fk))
         \/ r.e = "reach" /\ NormOut(r.reach) = Reach(r.ch, FlowOf(r.N, r.fk))
Init == i = 1
Next == i <= Len(Trace) /\ Ok(Trace[i]) /\ i' = i + 1
Spec == Init /\ [][Next]_i
Accepted == /\ PrintT(<<"ACCEPTED", TLCGet("stats").diameter - 1>>)
            /\ TLCGet("stats").diameter - 1 = Len(Trace)
=============================================================================
