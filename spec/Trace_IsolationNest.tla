------------------------- MODULE Trace_IsolationNest -------------------------
(***************************************************************************)
(* Validation of executions of NESTED Splits recorded from the real code   *)
(* on random trees beyond the exhaustive bounds (depth <= 3, <= 3          *)
(* sequences per Split, random element chains and prefixes, longer flows): *)
(*   [root, N, bs, drv, rq, shape, outs]   outs[l] = what leaf l yielded   *)
(* The tree must be well-formed and every leaf must have yielded what its  *)
(* effective branch yields alone (IsolationNestSem!ExpectedOf).            *)
(***************************************************************************)
EXTENDS IsolationNestSem, Json, IOUtils
Trace == JsonDeserialize(IOEnv.TRACE_FILE)
VARIABLE i
Ok(r) == /\ WFRoot(r.root, r.drv)
         /\ Len(r.outs) = NLs(r.root)
         /\ r.outs = ExpectedOf(r.root, r.N, r.bs, r.shape)
TInit == i = 1
TNext == i <= Len(Trace) /\ Ok(Trace[i]) /\ i' = i + 1
TSpec == TInit /\ [][TNext]_i
Accepted == /\ PrintT(<<"ACCEPTED", TLCGet("stats").diameter - 1>>)
            /\ TLCGet("stats").diameter - 1 = Len(Trace)
=============================================================================
