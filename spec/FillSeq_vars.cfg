SPECIFICATION Spec
CONSTANTS MaxPre = 2 MaxN = 3
  PreAlphabet <- AlphaVars
  Accs <- AccsVars
  Posts <- PostsVars
  FlowKinds = {"ctx"}
  Drivers = {"run", "fill", "persist", "split"}
  Places = {"alone"}
  StopFlag = "per_branch"
  CopyMode = "per_branch"
  AdapterHides = TRUE
  VarCopy = "per_value"
  Bufs <- BufTwo
INVARIANT DriversAgree
INVARIANT FillReaches
INVARIANT StopSound
INVARIANT ComputeOnce
INVARIANT BufBound
INVARIANT ComposeAsSequence
INVARIANT AdaptersHide
CHECK_DEADLOCK FALSE
