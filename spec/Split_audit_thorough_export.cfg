SPECIFICATION Spec
CONSTANTS MaxRuns = 1
  Scenarios <- ScAuditThorough
INVARIANT Emitted
CHECK_DEADLOCK FALSE
