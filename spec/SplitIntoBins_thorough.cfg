SPECIFICATION Spec
CONSTANTS U = "thorough"
INVARIANT TypeOK
INVARIANT PerCell
INVARIANT Propagates
INVARIANT OwnState
INVARIANT OwnDescription
INVARIANT AsWritten
INVARIANT TemplateUntouched
INVARIANT CellsPartition
INVARIANT Borders
INVARIANT ComputeZip
INVARIANT RepeatSame
INVARIANT OutIsPrefix
INVARIANT LastIsLastInside
INVARIANT HistContext
INVARIANT FlowContexts
INVARIANT IterOnceEach
INVARIANT OwnBinsContext
INVARIANT MapShape
PROPERTY NoCrossTalk
PROPERTY InsideNotIgnored
PROPERTY IterReadsOnly
PROPERTY OutsideIgnored
PROPERTY WriteIsLocal
PROPERTY MutateIsLocal
PROPERTY FreshWhenYielded
CHECK_DEADLOCK FALSE
