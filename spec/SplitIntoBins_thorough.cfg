SPECIFICATION Spec
CONSTANTS U = "thorough"
INVARIANT TypeOK
INVARIANT PerCell
INVARIANT CellsPartition
INVARIANT Borders
INVARIANT ComputeZip
INVARIANT OutIsPrefix
INVARIANT LastIsLastInside
INVARIANT HistContext
INVARIANT FlowContexts
INVARIANT IterOnceEach
INVARIANT OwnBinsContext
PROPERTY MutateIsLocal
PROPERTY FreshWhenYielded
INVARIANT MapShape
PROPERTY NoCrossTalk
PROPERTY OutsideIgnored
CHECK_DEADLOCK FALSE
