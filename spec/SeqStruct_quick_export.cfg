SPECIFICATION Spec
CONSTANTS
  Scenarios <- ScQuick
INVARIANT Emit
CHECK_DEADLOCK FALSE
