SPECIFICATION Spec
CONSTANTS PairSrc = "file" CtxU = "tiny" MaxFlow = 3 KeyU = "six"
INVARIANT EmitFlow
CHECK_DEADLOCK FALSE
