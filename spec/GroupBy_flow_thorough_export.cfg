SPECIFICATION Spec
CONSTANTS PairSrc = "file" CtxU = "ops4" MaxFlow = 3 KeyU = "six" Writ = "all" NObj = 0
INVARIANT EmitFlow
CHECK_DEADLOCK FALSE
