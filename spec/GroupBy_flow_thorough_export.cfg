SPECIFICATION Spec
CONSTANTS PairSrc = "file" CtxU = "ops4" MaxFlow = 3 KeyU = "six" Writ = "all"
INVARIANT EmitFlow
CHECK_DEADLOCK FALSE
