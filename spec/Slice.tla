------------------------------- MODULE Slice -------------------------------
(***************************************************************************)
(* lena.flow.Slice(start, stop, step) as a pull/yield machine.             *)
(*                                                                         *)
(* Code: lena/flow/iterators.py  Slice.__init__, Slice.run (itertools      *)
(* islice for non-negative arguments), Slice._run_negative_islice (seven   *)
(* branches chosen by the sign pattern), Slice.fill_into.                  *)
(*                                                                         *)
(* The flow is 0, 1, ..., N-1 (value = index), so the output of the        *)
(* machine is directly comparable with Python's range(N)[start:stop:step]. *)
(* One action = one resumption of the generator up to its next pull from   *)
(* the input or its next yield.                                            *)
(***************************************************************************)
EXTENDS SliceRef, FiniteSets, TLC, Json

CONSTANTS MaxN,      \* flows of length 0..MaxN
          Bound,     \* start, stop in {None} \cup -Bound..Bound
          MaxStep    \* step in {None} \cup 1..MaxStep

(***************************************************************************)
(* Operational machine.                                                    *)
(***************************************************************************)
VARIABLES a, b, s, N,    \* the scenario
          pos,           \* values pulled from the input so far
          dq,            \* deque content, oldest first
          ph,            \* phase (program counter)
          ind,           \* loop counter of the code
          ny,            \* values yielded by the inner generator (before the step filter)
          cnt, nxt,      \* itertools.islice state (non-negative branch)
          out,           \* values delivered downstream
          pulls          \* pos at each delivery

vars == <<a, b, s, N, pos, dq, ph, ind, ny, cnt, nxt, out, pulls>>
scen == <<a, b, s, N>>

Idx == {None} \cup (-Bound..Bound)
Steps == {None} \cup (1..MaxStep)

Negative == (a # None /\ a < 0) \/ (b # None /\ b < 0)
st == StepOf(s)

\* which branch of _run_negative_islice / islice applies
Branch == IF ~Negative THEN "islice"
          ELSE IF a = None THEN "A"                \* only a negative stop
          ELSE IF a >= 0 THEN "B"                  \* start >= 0, stop < 0
          ELSE IF b = None THEN "C1"               \* start < 0, no stop
          ELSE IF b <= a THEN "C2"                 \* stop <= start < 0: nothing
          ELSE IF b < 0 THEN "C3"                  \* start < stop < 0
          ELSE "C4"                                \* start < 0 <= stop

Init == /\ a \in Idx /\ b \in Idx /\ s \in Steps /\ N \in 0..MaxN
        /\ pos = 0 /\ dq = <<>> /\ ind = 0 /\ ny = 0 /\ out = <<>> /\ pulls = <<>>
        /\ cnt = 0 /\ nxt = IF a = None THEN 0 ELSE a
        /\ ph = "start"

Exhausted == pos = N
\* deliver an inner value through the step filter islice(gen, None, None, step)
Deliver(v) == /\ ny' = ny + 1
              /\ IF ny % st = 0 THEN out' = Append(out, v) /\ pulls' = Append(pulls, pos')
                 ELSE UNCHANGED <<out, pulls>>
PushRight(d, v, maxlen) == IF Len(d) = maxlen THEN Append(Tail(d), v) ELSE Append(d, v)

Start == /\ ph = "start"
         /\ ph' = CASE Branch = "islice" -> "islice"
                    [] Branch = "A" -> "fill"
                    [] Branch = "B" -> "skip"
                    [] Branch = "C1" -> "drain"
                    [] Branch = "C2" -> "done"
                    [] Branch = "C3" -> "drain"
                    [] Branch = "C4" -> "collect"
         /\ UNCHANGED <<a, b, s, N, pos, dq, ind, ny, cnt, nxt, out, pulls>>

\* branch B: skip *start* values
Skip == /\ ph = "skip"
        /\ IF ind < a /\ ~Exhausted
           THEN pos' = pos + 1 /\ ind' = ind + 1 /\ UNCHANGED ph
           ELSE ph' = "fill" /\ ind' = 0 /\ UNCHANGED pos
        /\ UNCHANGED <<a, b, s, N, dq, ny, cnt, nxt, out, pulls>>

\* branches A, B: fill the deque with exactly -stop values
Fill == /\ ph = "fill"
        /\ IF Len(dq) < -b /\ ~Exhausted
           THEN dq' = Append(dq, pos) /\ pos' = pos + 1 /\ UNCHANGED ph
           ELSE /\ UNCHANGED <<dq, pos>>
                /\ ph' = IF Len(dq) < -b THEN "done" ELSE "lag"
                    \* B returns explicitly; in A the for loop finds the flow exhausted
        /\ UNCHANGED <<a, b, s, N, ind, ny, cnt, nxt, out, pulls>>

\* branches A, B: one pull, one (lagging) yield
Lag == /\ ph = "lag"
       /\ IF Exhausted THEN ph' = "done" /\ UNCHANGED <<pos, dq, ny, out, pulls>>
          ELSE /\ pos' = pos + 1
               /\ dq' = Append(Tail(dq), pos)
               /\ Deliver(Head(dq))
               /\ UNCHANGED ph
       /\ UNCHANGED <<a, b, s, N, ind, cnt, nxt>>

\* branches C1, C3: deque(flow, maxlen=-start) consumes the whole flow
Drain == /\ ph = "drain"
         /\ IF ~Exhausted
            THEN dq' = PushRight(dq, pos, -a) /\ pos' = pos + 1 /\ UNCHANGED <<ph, ind>>
            ELSE /\ UNCHANGED <<dq, pos>> /\ ph' = "emit"
                 /\ ind' = IF Branch = "C1" THEN Len(dq) ELSE Max(Len(dq) + b, 0)   \* how many to yield
         /\ UNCHANGED <<a, b, s, N, ny, cnt, nxt, out, pulls>>

Emit == /\ ph = "emit"
        /\ IF ind > 0 /\ dq # <<>>
           THEN /\ UNCHANGED <<ph, pos>> /\ Deliver(Head(dq)) /\ dq' = Tail(dq) /\ ind' = ind - 1
           ELSE ph' = "done" /\ UNCHANGED <<dq, ind, ny, out, pulls, pos>>
        /\ UNCHANGED <<a, b, s, N, cnt, nxt>>

\* branch C4: start < 0 <= stop
Collect == /\ ph = "collect"
           /\ IF Exhausted
              THEN \* ind -= len(d); yield while ind < stop
                   /\ ph' = "emit" /\ ind' = Max(b - (ind - Len(dq)), 0) /\ UNCHANGED <<pos, dq>>
              ELSE /\ pos' = pos + 1         \* the for loop pulls, then tests
                   /\ IF ind >= b - a THEN ph' = "done" /\ UNCHANGED <<dq, ind>>
                      ELSE dq' = PushRight(dq, pos, -a) /\ ind' = ind + 1 /\ UNCHANGED ph
           /\ UNCHANGED <<a, b, s, N, ny, cnt, nxt, out, pulls>>

\* non-negative arguments: itertools.islice (CPython islice_next)
ISlice == /\ ph = "islice"
          /\ IF cnt < nxt
             THEN IF Exhausted THEN ph' = "done" /\ UNCHANGED <<pos, cnt, nxt, out, pulls>>
                  ELSE pos' = pos + 1 /\ cnt' = cnt + 1 /\ UNCHANGED <<ph, nxt, out, pulls>>
             ELSE IF (b # None /\ cnt >= b) \/ Exhausted
                  THEN ph' = "done" /\ UNCHANGED <<pos, cnt, nxt, out, pulls>>
                  ELSE /\ pos' = pos + 1 /\ cnt' = cnt + 1
                       /\ nxt' = IF b # None /\ nxt + st > b THEN b ELSE nxt + st
                       /\ out' = Append(out, pos) /\ pulls' = Append(pulls, pos')
                       /\ UNCHANGED ph
          /\ UNCHANGED <<a, b, s, N, dq, ind, ny>>

Next == Start \/ Skip \/ Fill \/ Lag \/ Drain \/ Emit \/ Collect \/ ISlice
Spec == Init /\ [][Next]_vars
Done == ph = "done"

(***************************************************************************)
(* Properties.                                                             *)
(***************************************************************************)
\* C17: the stream machine computes Python's slice
StreamEqSlice == Done => out = PySlice(N, a, b, s)
\* outputs are always a prefix of the final answer (nothing is retracted)
PrefixOfSlice == LET ref == PySlice(N, a, b, s) IN
                 Len(out) <= Len(ref) /\ out = SubSeq(ref, 1, Len(out))
\* C02: a negative-index Slice keeps only the |index| values it documents
HeldBound == Len(dq) <= Max(IF a # None /\ a < 0 THEN -a ELSE 0, IF b # None /\ b < 0 THEN -b ELSE 0)
\* C02: a negative stop (start absent or non-negative) lags its input by exactly |stop| values
LagExact == (ph = "lag") => ny = pos - (IF a = None THEN 0 ELSE a) - (-b) /\ Len(dq) = -b
\* never pull after the last result can be determined (C2: nothing is pulled at all)
C2NoPull == Branch = "C2" => pos = 0

(***************************************************************************)
(* fill_into route (non-negative arguments only): Slice.fill_into keeps    *)
(* _index, _next_index and an islice over count(0).                        *)
(***************************************************************************)
\* indices selected by islice(count(0), a, b, s), as a predicate
Selected(i) == LET lo == IF a = None THEN 0 ELSE a IN
               i >= lo /\ (b = None \/ i < b) /\ (i - lo) % st = 0
\* LenaStopFill may be raised at fill number i (0-based) only if no index >= i is selected
StopAllowed(i) == \A j \in i..(i + MaxN + Bound + MaxStep) : ~Selected(j)
\* the code's behaviour: raises at the first index for which next(self._indices) is exhausted
RECURSIVE NextSel(_, _)
NextSel(i, fuel) == IF fuel = 0 THEN None ELSE IF Selected(i) THEN i ELSE NextSel(i + 1, fuel - 1)
FillFilled(n) == SelectSeq(Iota(n), Selected)
\* first fill index at which the implementation is predicted to raise (or None)
FillStopIndex == IF b = None THEN None
                 ELSE LET last == CHOOSE i \in -1..b : (i = -1 \/ Selected(i)) /\ \A j \in (i + 1)..b : ~Selected(j)
                      IN last + 1

FillEqRun == (~Negative) => FillFilled(N) = PySlice(N, a, b, s)
StopOnlyWhenSafe == (~Negative /\ FillStopIndex # None) => StopAllowed(FillStopIndex)

(***************************************************************************)
(* Export of terminal states for replay on the implementation.             *)
(***************************************************************************)
J(x) == IF x = None THEN "None" ELSE ToString(x)
Emitted == Done => PrintT(ToJson([a |-> J(a), b |-> J(b), s |-> J(s), n |-> N, out |-> out,
                                  pulls |-> pulls, endpos |-> pos, branch |-> Branch,
                                  fillstop |-> IF Negative THEN "na" ELSE J(FillStopIndex)]))
=============================================================================
