----------------------------- MODULE SliceUse -----------------------------
(***************************************************************************)
(* One lena.flow.Slice element used several times, in any order:           *)
(*   UStart(i), UNextOf(i) two run generators of the same element, alive   *)
(*                         at the same time and consumed in any            *)
(*                         interleaving (each run has its own state: the   *)
(*                         islice / deque live in the generator)           *)
(*   UFill                 Slice.fill_into, mirrored from the code:        *)
(*                            if _index > _next_index:                     *)
(*                                _next_index = next(_indices)             *)
(*                                    (StopIteration -> LenaStopFill)      *)
(*                            if _index == _next_index: element.fill(v)    *)
(*                            _index += 1                                  *)
(*                         with _indices = islice(count(0), a, b, s); the  *)
(*                         bookkeeping lives on the element and is not     *)
(*                         touched by run                                  *)
(* Declarative side: PySlice (SliceRef.tla) for the runs, Selected /       *)
(* StopAllowed / FillStopIndex / FillFilled of Slice.tla for fill_into.    *)
(* The machine of a single run is Slice.tla; here a generator is a cursor  *)
(* into its result.                                                        *)
(***************************************************************************)
EXTENDS Slice

CONSTANTS MaxOps, UNs

VARIABLES g,        \* per generator: -1 not created, k >= 0: k values taken, -2 found exhausted
          idx,      \* self._index
          nidx,     \* self._next_index
          ni,       \* number of indices drawn from self._indices
          calls,    \* number of fill_into calls so far (call number c offers the value c)
          filled,   \* values filled into the sink
          stops,    \* call numbers at which LenaStopFill was raised
          hist      \* operations with their results
uvars == <<g, idx, nidx, ni, calls, filled, stops, hist>>
allvars == <<a, b, s, N, pos, dq, ph, ind, ny, cnt, nxt, out, pulls, g, idx, nidx, ni, calls, filled, stops, hist>>
UInit == /\ a \in {None, -2, 1} /\ b \in {None, -1, 0, 3} /\ s \in {None, 2} /\ N \in UNs
         /\ pos = 0 /\ dq = <<>> /\ ind = 0 /\ ny = 0 /\ out = <<>> /\ pulls = <<>> /\ cnt = 0 /\ nxt = 0 /\ ph = "use"
         /\ g = [i \in 1..2 |-> -1] /\ idx = 0 /\ nidx = -1 /\ ni = 0 /\ calls = 0
         /\ filled = <<>> /\ stops = <<>> /\ hist = <<>>
Machine == UNCHANGED <<a, b, s, N, pos, dq, ph, ind, ny, cnt, nxt, out, pulls>>
RefOut == PySlice(N, a, b, s)

UStart(i) == /\ g[i] = -1 /\ (i = 2 => g[1] # -1) /\ Len(hist) < MaxOps
             /\ g' = [g EXCEPT ![i] = 0] /\ hist' = Append(hist, <<"s", i, 0, 0, 0>>)
             /\ Machine /\ UNCHANGED <<idx, nidx, ni, calls, filled, stops>>
UNextOf(i) == /\ g[i] >= 0 /\ Len(hist) < MaxOps
              /\ IF g[i] < Len(RefOut)
                 THEN g' = [g EXCEPT ![i] = @ + 1] /\ hist' = Append(hist, <<"n", i, RefOut[g[i] + 1], 0, 0>>)
                 ELSE g' = [g EXCEPT ![i] = -2] /\ hist' = Append(hist, <<"n", i, -1, 0, 0>>)
              /\ Machine /\ UNCHANGED <<idx, nidx, ni, calls, filled, stops>>
\* the ni-th index produced by islice(count(0), a, b, s), or exhausted
Lo == IF a = None THEN 0 ELSE a
NextIndex == Lo + ni * st
Exhausted2 == b # None /\ NextIndex >= b
UFill == /\ ~Negative /\ Len(hist) < MaxOps
         /\ LET need == idx > nidx IN
            IF need /\ Exhausted2
            THEN /\ stops' = Append(stops, calls)
                 /\ hist' = Append(hist, <<"f", calls, 0, 1, IF StopAllowed(idx) THEN 1 ELSE 0>>)
                 /\ UNCHANGED <<idx, nidx, ni, filled>>
            ELSE LET nn == IF need THEN NextIndex ELSE nidx IN
                 /\ nidx' = nn /\ ni' = IF need THEN ni + 1 ELSE ni
                 /\ filled' = IF idx = nn THEN Append(filled, calls) ELSE filled
                 /\ hist' = Append(hist, <<"f", calls, IF idx = nn THEN 1 ELSE 0, 0, IF StopAllowed(idx) THEN 1 ELSE 0>>)
                 /\ idx' = idx + 1 /\ UNCHANGED stops
         /\ calls' = calls + 1
         /\ Machine /\ UNCHANGED g
UNext == \E i \in 1..2 : UStart(i) \/ UNextOf(i) \/ UFill
USpec == UInit /\ [][UNext]_allvars

(***************************************************************************)
(* Properties.                                                             *)
(***************************************************************************)
\* what a generator has delivered is a prefix of the slice, whatever the other generator and
\* fill_into did in between
RECURSIVE Taken(_, _)
Taken(i, j) == IF j > Len(hist) THEN <<>>
               ELSE (IF hist[j][1] = "n" /\ hist[j][2] = i /\ hist[j][3] # -1 THEN <<hist[j][3]>> ELSE <<>>) \o Taken(i, j + 1)
RunsIndependent == \A i \in 1..2 : g[i] >= 0 => Taken(i, 1) = SubSeq(RefOut, 1, g[i])
ExhaustedOnlyAtEnd == \A i \in 1..2 : g[i] = -2 => Taken(i, 1) = RefOut
\* fill_into: the values filled are exactly the selected ones among those offered before the stop
FillOpEqDecl == stops = <<>> => (idx = calls /\ filled = FillFilled(idx))
\* LenaStopFill only when no later value could be selected, at the predicted index, and for good
StopSafe == stops # <<>> => /\ StopAllowed(idx) /\ idx = FillStopIndex /\ filled = FillFilled(idx)
                            /\ stops = [j \in 1..Len(stops) |-> idx + j - 1]
UTerminal == Len(hist) = MaxOps
UEmitted == UTerminal => PrintT(ToJson([a |-> J(a), b |-> J(b), s |-> J(s), n |-> N, hist |-> hist]))
=============================================================================
