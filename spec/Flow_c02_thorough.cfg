SPECIFICATION Spec
CONSTANTS MaxLen = 3 MaxN = 5 Infinite = TRUE MaxOut = 4
  Vals = "nat" Stops = FALSE MaxRuns = 1 MaxLead = 0
  Alphabet <- AlphaC02
  Must <- NoMust
  Pairs <- OnlyPairs
INVARIANT OpEqDen
INVARIANT OutIsPrefix
INVARIANT NoWorkBeforeDemand
INVARIANT PullOnlyWhenDrained
INVARIANT LazyEqDen
INVARIANT Buffers
INVARIANT SliceIsPySlice
CONSTRAINT Bounded
CHECK_DEADLOCK FALSE
