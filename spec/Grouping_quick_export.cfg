SPECIFICATION Spec
CONSTANTS U = "quick"
INVARIANT Emitted
CHECK_DEADLOCK FALSE
