SPECIFICATION Spec
CONSTANTS MaxLen = 5
  Pool <- Pool4U
  Starts <- StartsAll
  Xs = {1, 2}
  Nested = FALSE
  Ys <- NoData
  Extra <- NoElems
  Variant = "doc"
  CopyVarContext = TRUE
  ExtendByCompose = TRUE
  PathKeys = FALSE
INVARIANT DataEq
INVARIANT ComposeEqSeq
INVARIANT CombineTuple
INVARIANT TypedDeclarative
INVARIANT TypesAvailable
INVARIANT NestedFlattens
INVARIANT CarriesName
INVARIANT CarriesAttributes
INVARIANT FrameVariableOnly
INVARIANT VarUnchanged
INVARIANT Repeatable
CHECK_DEADLOCK FALSE
