SPECIFICATION Spec
CONSTANTS MaxA = 2 MaxB = 3 MaxFan = 1
  AsyncModes = {FALSE}
  Repeats = TRUE Cuts = FALSE
INVARIANT TypeOK
INVARIANT UnselIdentityOrder
INVARIANT SelIndependent
INVARIANT NoFsForUnsel
INVARIANT Metamorphic
CHECK_DEADLOCK FALSE
