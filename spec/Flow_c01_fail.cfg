SPECIFICATION Spec
CONSTANTS MaxLen = 2 MaxN = 4 Infinite = FALSE MaxOut = 100
  Vals = "nat" Stops = FALSE MaxRuns = 1 MaxLead = 0
  Alphabet <- AlphaFail
  Must <- RaisingC01
  Pairs <- Both
INVARIANT OpEqDen
INVARIANT OutIsPrefix
INVARIANT FailEqDen
INVARIANT NoWorkBeforeDemand
INVARIANT Emitted
CHECK_DEADLOCK FALSE
