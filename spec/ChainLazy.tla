----------------------------- MODULE ChainLazy -----------------------------
(***************************************************************************)
(* lena.flow.Chain( *iterables ).__call__ as a machine over iterables that   *)
(* depend on each other (see ChainRef.tla for the kinds): the moment at    *)
(* which an iterable is asked for its iterator is part of the behaviour.   *)
(*                                                                         *)
(*   COpen   iter(iterables[cur + 1]) - taken only when the previous       *)
(*           iterator is exhausted; the shared container decides its       *)
(*           content now                                                   *)
(*   CNext   next() of the current iterator: a value is delivered          *)
(*           (a registering generator puts it into the shared container    *)
(*           first), or the iterator is found exhausted, or it raises      *)
(*                                                                         *)
(* Code: lena/flow/iterators.py Chain.__call__ (itertools.chain).          *)
(***************************************************************************)
EXTENDS ChainRef, TLC, Json

CONSTANTS MaxArity, MaxLen

VARIABLES kinds, lens,   \* the scenario
          cur,           \* number of the current iterable (0: none yet)
          j,             \* values taken from the current iterator
          content,       \* what the current iterator delivers (fixed when it was created)
          log,           \* the shared container
          out,           \* values delivered downstream
          opens,         \* number of values delivered when each iterator was requested
          err, ph
vars == <<kinds, lens, cur, j, content, log, out, opens, err, ph>>

Init == /\ \E n \in 0..MaxArity : /\ kinds \in [1..n -> IterKinds]
                                  /\ lens \in [1..n -> 0..MaxLen]
        /\ \A k \in 1..Len(kinds) : kinds[k] = "snap" => lens[k] = 0
        /\ cur = 0 /\ j = 0 /\ content = <<>> /\ log = <<>> /\ out = <<>> /\ opens = <<>> /\ err = "none"
        /\ ph = "open"

COpen == /\ ph = "open"
         /\ IF cur = Len(kinds) THEN ph' = "done" /\ UNCHANGED <<cur, j, content, opens>>
            ELSE /\ cur' = cur + 1 /\ j' = 0 /\ ph' = "iter"
                 /\ content' = IF kinds[cur + 1] = "snap" THEN log ELSE Tagged(cur + 1, lens[cur + 1])
                 /\ opens' = Append(opens, Len(out))
         /\ UNCHANGED <<kinds, lens, log, out, err>>

CNext == /\ ph = "iter"
         /\ IF j < Len(content)
            THEN /\ j' = j + 1 /\ out' = Append(out, content[j + 1])
                 /\ log' = IF kinds[cur] = "reg" THEN Append(log, content[j + 1]) ELSE log
                 /\ UNCHANGED <<ph, err>>
            ELSE /\ IF kinds[cur] = "boom" THEN ph' = "done" /\ err' = "Boom" ELSE ph' = "open" /\ UNCHANGED err
                 /\ UNCHANGED <<j, out, log>>
         /\ UNCHANGED <<kinds, lens, cur, content, opens>>

Next == COpen \/ CNext
Spec == Init /\ [][Next]_vars
Done == ph = "done"

(***************************************************************************)
(* Properties.                                                             *)
(***************************************************************************)
\* C17: Chain equals itertools.chain, values and exception
EqChain == Done => out = ChainDynRef(kinds, lens) /\ err = ChainDynErr(kinds) /\ log = ChainDynLog(kinds, lens)
\* nothing is retracted
PrefixOfChain == LET ref == ChainDynRef(kinds, lens) IN Len(out) <= Len(ref) /\ out = SubSeq(ref, 1, Len(out))
\* an iterable is asked for its iterator only when everything before it has been delivered
RECURSIVE Total(_)
Total(k) == IF k = 0 THEN 0 ELSE Total(k - 1) + Len(Contribution(kinds, lens, k))
OpenedLate == \A k \in 1..Len(opens) : opens[k] = Total(k - 1)
\* the shared container is never changed while one of its iterators is alive
\* (so the real dict / deque cannot raise "changed size during iteration")
NotMutatedWhileIterated == (ph = "iter" /\ kinds[cur] = "snap") => content = log

Emitted == Done => PrintT(ToJson([kinds |-> kinds, lens |-> lens, out |-> out, err |-> err, log |-> log, opens |-> opens]))
=============================================================================
