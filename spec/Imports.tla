------------------------------- MODULE Imports -------------------------------
(***************************************************************************)
(* The part of Python's import system that property C20 is about.          *)
(*                                                                         *)
(* The constants are not written by hand: lenaverif/extract_imports.py     *)
(* derives them from the source tree under test at check time (module      *)
(* table, ordered import-time statements of every module body, __all__,    *)
(* the global names / attribute chains / import statements of every        *)
(* function), so a change of the code changes the model.                   *)
(*                                                                         *)
(* Operational part (importlib._bootstrap, one action per step):           *)
(*   LoadModule   an import statement needs a module that is not in        *)
(*                sys.modules: the first missing prefix of a.b.c (or the   *)
(*                submodule named in `from pkg import sub`) is entered in  *)
(*                sys.modules and its body starts (import stack grows)     *)
(*   BindImport   `import a.b.c [as x]` with everything present: bind      *)
(*   BindFrom     `from m import n [as x]`: n is an attribute of the       *)
(*                (possibly partially initialised) module m, or m.n is in  *)
(*                sys.modules                                              *)
(*   StarImport   `from m import *` binds the names of m.__all__           *)
(*   ImportFails  none of the above: ModuleNotFoundError / ImportError     *)
(*                ("cannot import name")                                   *)
(*   DefName      assignment / def / class / import of an external module  *)
(*   DelName      del                                                      *)
(*   UseName      a name or attribute chain evaluated while a body runs    *)
(*                (bases, decorators, defaults, class bodies)              *)
(*   UseFails     ... that does not resolve: NameError / AttributeError    *)
(*   ReflUse      a name of a module looked up by a computed string while  *)
(*                a body runs (getattr(M, e), vars(M)[e], globals()[e])    *)
(*   ReflFails    ... that is not in the namespace: AttributeError/KeyError*)
(*   EndModule    body finished: the module is initialised and becomes an  *)
(*                attribute of its package (only now)                      *)
(*   EndUser      the interpreter has executed `import lena.X` (, lena.Y)  *)
(*   Call(f)      any function of an initialised module is called; its own *)
(*                import statements run first (they may load modules)      *)
(*   EndCall      the references of f are evaluated in the reached state   *)
(*                                                                         *)
(* Properties (C20):                                                       *)
(*   AllAdvertised   every name in __all__ of an initialised package is    *)
(*                   bound there (star import works)                       *)
(*   GlobalsResolve  every global name a called function loads is bound in *)
(*                   its module or is a builtin (no NameError)             *)
(*   ChainsResolve   every attribute chain through modules of the tree     *)
(*                   (lena.flow.get_data_context) finds each link as an    *)
(*                   attribute of the module before it (no AttributeError  *)
(*                   on a lena module), whatever was imported first        *)
(*   ImportsSucceed  no import statement / import-time reference fails     *)
(*   LocalsResolve   no called function can read a local name that is      *)
(*                   unbound on that path (UnboundLocalError is a          *)
(*                   NameError): names deleted by `except .. as n` / del,  *)
(*                   names whose only assignment is what raised            *)
(*   ReflectiveResolve  a name of a module referred to by a computed       *)
(*                   string (getattr(M, e), M.__dict__[e], vars(M)[e],     *)
(*                   globals()[e]) is bound in the namespace of M for      *)
(*                   every string e can evaluate to, unless the exception  *)
(*                   that lookup raises is handled around it or the        *)
(*                   presence of the name is tested                        *)
(* Declarative part: Closure (reachability in the static import graph) and *)
(* StaticNames; LoadedIsClosure and NamesAreStatic tie the machine to them.*)
(***************************************************************************)
EXTENDS Naturals, Sequences, FiniteSets, TLC, Json

CONSTANTS
    Modules,        \* names of the modules of the tree
    IsPkg,          \* [Modules -> BOOLEAN]
    Parent, Leaf,   \* "lena.flow.cache" -> "lena.flow", "cache"   (Parent of the root is "")
    Body,           \* [Modules -> Seq(statement record)]
    All,            \* module -> set of advertised names, for modules that assign __all__
    DynDefs,        \* [Modules -> names functions may create with `global`]
    DynAttr,        \* modules that define __getattr__ (PEP 562): every attribute access on them may succeed
    DynStore,       \* modules into whose namespace some function stores names it computes (globals()[e] = v)
    Funcs, FMod, FImports, FLoads, FChains,
    FRefl,          \* [Funcs -> references by computed name, see ReflectiveResolve below]
    BRefl,          \* the same for module bodies: [id -> reference record]; a body statement "refl" names its id
    FlowFuncs, FNodes, FSucc, FSeeds,   \* binding events of local names: graph per function (see below)
    Builtins, Implicit, PkgImplicit
(* The check does not assign these constants in a .cfg: it writes a module that consists of the  *)
(* definitions  Modules == {...}, Body == ... extracted from the tree, followed by the text of   *)
(* this module from the next line on (TLC evaluates such definitions once; as substituted        *)
(* constants they would be re-evaluated at every use).                                           *)
\* @@BODY
CONSTANTS
    EntryLists,     \* the import sequences of the fresh interpreter, e.g. {<<"lena.flow">>}
    ChainCalls      \* TRUE: functions may be called one after another (loaded modules accumulate)

OBJ == "<obj>"          \* some object that is not a module of the tree
NoFail == [kind |-> "none", m |-> "", on |-> "", name |-> "", line |-> 0]

VARIABLES entries,      \* what the user imports
          ms,           \* [Modules -> {"absent", "running", "loaded"}]   (sys.modules + initialised?)
          g,            \* [Modules -> [names -> module name or OBJ]]     (module namespaces)
          stack,        \* import stack: frames [k, id, pc]
          order,        \* the keys of sys.modules (a module moves to the end when its body finishes)
          phase,        \* "import" | "ready" | "calling" | "called" | "failed"
          cur,          \* function being called
          fail,         \* the exception that is being raised (NoFail: none)
          caught        \* an exception was caught by a handler of a module body, or a branch whose test the
                        \* extractor cannot decide was taken: the static reference below is then not exact
vars == <<entries, ms, g, stack, order, phase, cur, fail, caught>>

Min(S) == CHOOSE x \in S : \A y \in S : x <= y

RECURSIVE Prefixes(_)
Prefixes(m) == IF Parent[m] = "" THEN <<m>> ELSE Append(Prefixes(Parent[m]), m)

UserImport(m) == [op |-> "import", mod |-> m, pre |-> Prefixes(m), name |-> "", sub |-> "", bind |-> "",
                  val |-> "", root |-> "", rv |-> "", links |-> <<>>, line |-> 0,
                  hI |-> 0, hN |-> 0, hA |-> 0, to |-> 0]

Top == stack[Len(stack)]
BodyOf(fr) == CASE fr.k = "mod" -> Body[fr.id]
                [] fr.k = "fun" -> FImports[fr.id]
                [] fr.k = "user" -> [i \in 1..Len(entries) |-> UserImport(entries[i])]
Running == phase \in {"import", "calling"} /\ stack # <<>>
AtStmt == Running /\ Top.pc <= Len(BodyOf(Top))
Stmt == BodyOf(Top)[Top.pc]
CurMod == IF Top.k = "mod" THEN Top.id ELSE IF Top.k = "fun" THEN FMod[Top.id] ELSE "__main__"
Loaded == {m \in Modules : ms[m] = "loaded"}

Advanced == [stack EXCEPT ![Len(stack)].pc = @ + 1]
\* bindings made by function frames / the user are local to them
Bound(name, val) == IF Top.k = "mod" /\ name # "" THEN [g EXCEPT ![Top.id] = (name :> val) @@ @] ELSE g

FirstAbsent(pre) == LET S == {i \in 1..Len(pre) : pre[i] \notin Modules \/ ms[pre[i]] = "absent"}
                    IN  IF S = {} THEN 0 ELSE Min(S)
IsImp(s) == s.op \in {"import", "from", "star"}

Start(m) == /\ ms' = [ms EXCEPT ![m] = "running"]
            /\ g' = [g EXCEPT ![m] = [n \in (IF IsPkg[m] THEN PkgImplicit ELSE Implicit) |-> OBJ]]
            /\ stack' = Append(stack, [k |-> "mod", id |-> m, pc |-> 1])
            /\ order' = Append(order, m)
            /\ UNCHANGED <<entries, phase, cur, fail, caught>>

FailureOn(kind, on, name) ==
                       /\ fail' = [kind |-> kind, m |-> CurMod, on |-> on, name |-> name, line |-> Stmt.line]
                       /\ phase' = "raising"
                       /\ UNCHANGED <<entries, ms, g, stack, order, cur, caught>>
Failure(kind, name) == FailureOn(kind, "", name)

\* the submodule `from pkg import sub` falls back to
SubOf(s) == IF s.op = "from" /\ s.sub \in Modules /\ IsPkg[s.mod] THEN s.sub ELSE ""
NeedsSub(s) == /\ s.op = "from" /\ FirstAbsent(s.pre) = 0 /\ s.name \notin DOMAIN g[s.mod]
               /\ SubOf(s) # "" /\ ms[SubOf(s)] = "absent"

LoadModule == /\ AtStmt /\ IsImp(Stmt)
              /\ \/ /\ FirstAbsent(Stmt.pre) # 0
                    /\ Stmt.pre[FirstAbsent(Stmt.pre)] \in Modules
                    /\ Start(Stmt.pre[FirstAbsent(Stmt.pre)])
                 \/ /\ NeedsSub(Stmt)
                    /\ Start(SubOf(Stmt))

BindImport == /\ AtStmt /\ Stmt.op = "import" /\ FirstAbsent(Stmt.pre) = 0
              /\ g' = Bound(Stmt.bind, Stmt.val)
              /\ stack' = Advanced
              /\ UNCHANGED <<entries, ms, order, phase, cur, fail, caught>>

FromValue(s) == IF s.name \in DOMAIN g[s.mod] THEN g[s.mod][s.name] ELSE SubOf(s)
FromOk(s) == \/ s.name \in DOMAIN g[s.mod]
             \/ (SubOf(s) # "" /\ ms[SubOf(s)] # "absent")      \* sys.modules fallback (circular imports)

BindFrom == /\ AtStmt /\ Stmt.op = "from" /\ FirstAbsent(Stmt.pre) = 0 /\ FromOk(Stmt)
            /\ g' = Bound(Stmt.bind, FromValue(Stmt))
            /\ stack' = Advanced
            /\ UNCHANGED <<entries, ms, order, phase, cur, fail, caught>>

StarNames(m) == IF m \in DOMAIN All THEN All[m] ELSE {}
StarImport == /\ AtStmt /\ Stmt.op = "star" /\ FirstAbsent(Stmt.pre) = 0
              /\ Stmt.mod \in DOMAIN All /\ All[Stmt.mod] \subseteq DOMAIN g[Stmt.mod]
              /\ g' = IF Top.k = "mod"
                      THEN [g EXCEPT ![Top.id] = [n \in All[Stmt.mod] |-> g[Stmt.mod][n]] @@ @]
                      ELSE g
              /\ stack' = Advanced
              /\ UNCHANGED <<entries, ms, order, phase, cur, fail, caught>>

ImportFails == /\ AtStmt
               /\ \/ /\ IsImp(Stmt) /\ FirstAbsent(Stmt.pre) # 0
                     /\ Stmt.pre[FirstAbsent(Stmt.pre)] \notin Modules
                     /\ Failure("ModuleNotFoundError", Stmt.pre[FirstAbsent(Stmt.pre)])
                  \/ /\ Stmt.op = "from" /\ FirstAbsent(Stmt.pre) = 0 /\ ~FromOk(Stmt) /\ ~NeedsSub(Stmt)
                     /\ Failure("ImportError", Stmt.name)
                  \/ /\ Stmt.op = "star" /\ FirstAbsent(Stmt.pre) = 0
                     /\ Stmt.mod \in DOMAIN All /\ ~(All[Stmt.mod] \subseteq DOMAIN g[Stmt.mod])
                     /\ Failure("AttributeError", CHOOSE n \in All[Stmt.mod] : n \notin DOMAIN g[Stmt.mod])
                  \/ /\ Stmt.op = "fail"
                     /\ Failure(IF Stmt.val = "" THEN "ImportError" ELSE Stmt.val, Stmt.name)

(***************************************************************************)
(* An exception raised by a statement of a module body continues at the    *)
(* handler of the enclosing try statement that catches its class (the      *)
(* extractor records its position in hI / hN / hA).  Without a handler the *)
(* body is abandoned: _load_unlocked removes the module from sys.modules   *)
(* and the exception arrives at the import statement that loaded it.       *)
(***************************************************************************)
HandlerOf(s, kind) == CASE kind \in {"ImportError", "ModuleNotFoundError"} -> s.hI
                        [] kind = "NameError" -> s.hN
                        [] kind = "AttributeError" -> s.hA
                        [] OTHER -> 0
BasePhase == IF stack[1].k = "user" THEN "import" ELSE "calling"
Pop == SubSeq(stack, 1, Len(stack) - 1)
Unwind == /\ phase = "raising" /\ stack # <<>>
          /\ IF HandlerOf(Stmt, fail.kind) # 0
             THEN /\ stack' = [stack EXCEPT ![Len(stack)].pc = HandlerOf(Stmt, fail.kind)]
                  /\ phase' = BasePhase /\ fail' = NoFail /\ caught' = TRUE
                  /\ UNCHANGED <<entries, ms, g, order, cur>>
             ELSE IF Top.k = "mod"
             THEN /\ ms' = [ms EXCEPT ![Top.id] = "absent"]
                  /\ g' = [g EXCEPT ![Top.id] = <<>>]
                  /\ order' = SelectSeq(order, LAMBDA x : x # Top.id)
                  /\ stack' = Pop
                  /\ UNCHANGED <<entries, phase, cur, fail, caught>>
             ELSE IF Top.k = "fun" /\ Len(stack) > 1
             THEN stack' = Pop /\ UNCHANGED <<entries, ms, g, order, phase, cur, fail, caught>>
             ELSE phase' = "failed" /\ UNCHANGED <<entries, ms, g, stack, order, cur, fail, caught>>

\* control flow of a module body: the end of a try body skips the handlers; either branch of an `if` the
\* extractor cannot decide; a function of the module called while the module is imported runs its imports
Jump == /\ AtStmt /\ Stmt.op = "jump"
        /\ stack' = [stack EXCEPT ![Len(stack)].pc = Stmt.to]
        /\ UNCHANGED <<entries, ms, g, order, phase, cur, fail, caught>>
Branch == /\ AtStmt /\ Stmt.op = "branch"
          /\ \/ stack' = Advanced
             \/ stack' = [stack EXCEPT ![Len(stack)].pc = Stmt.to]
          /\ caught' = TRUE
          /\ UNCHANGED <<entries, ms, g, order, phase, cur, fail>>
CallF == /\ AtStmt /\ Stmt.op = "callf"
         /\ stack' = IF Stmt.name \in Funcs THEN Append(Advanced, [k |-> "fun", id |-> Stmt.name, pc |-> 1]) ELSE Advanced
         /\ caught' = TRUE           \* what it imports is not part of the static import graph below
         /\ UNCHANGED <<entries, ms, g, order, phase, cur, fail>>

DefName == /\ AtStmt /\ Stmt.op = "def"
           /\ g' = Bound(Stmt.bind, OBJ)
           /\ stack' = Advanced
           /\ UNCHANGED <<entries, ms, order, phase, cur, fail, caught>>

DelName == /\ AtStmt /\ Stmt.op = "del" /\ Top.k = "mod"
           /\ g' = [g EXCEPT ![Top.id] = [n \in (DOMAIN @) \ {Stmt.bind} |-> @[n]]]
           /\ stack' = Advanced
           /\ UNCHANGED <<entries, ms, order, phase, cur, fail, caught>>

(***************************************************************************)
(* Resolution of  root.l1.l2...  seen from module m.  A link is looked up  *)
(* only while the value before it is a module of the tree; attributes of   *)
(* other objects are outside the statement.  Result: "" when it resolves,  *)
(* otherwise what is missing ("name" or "module.attr").                    *)
(***************************************************************************)
RECURSIVE Walk(_, _, _)
Walk(val, links, i) ==
    IF i > Len(links) \/ val \notin Modules \/ val \in DynAttr THEN [ok |-> TRUE, on |-> "", attr |-> ""]
    ELSE IF links[i] \in DOMAIN g[val] THEN Walk(g[val][links[i]], links, i + 1)
    ELSE [ok |-> FALSE, on |-> val, attr |-> links[i]]

NameBound(m, n) == n \in DOMAIN g[m] \/ n \in Builtins \/ n \in DynDefs[m]
RootValue(m, c) == IF c.rv # "" THEN c.rv
                   ELSE IF c.root \in DOMAIN g[m] THEN g[m][c.root] ELSE OBJ
ChainRes(m, c) == IF c.rv = "" /\ ~NameBound(m, c.root) THEN [ok |-> FALSE, on |-> "", attr |-> c.root]
                  ELSE Walk(RootValue(m, c), c.links, 1)

UseName == /\ AtStmt /\ Stmt.op = "use" /\ ChainRes(CurMod, Stmt).ok
           /\ stack' = Advanced
           /\ UNCHANGED <<entries, ms, g, order, phase, cur, fail, caught>>

UseFails == /\ AtStmt /\ Stmt.op = "use" /\ ~ChainRes(CurMod, Stmt).ok
            /\ LET r == ChainRes(CurMod, Stmt) IN
               IF r.on = "" THEN Failure("NameError", r.attr) ELSE FailureOn("AttributeError", r.on, r.attr)

(***************************************************************************)
(* Reflective references (ReflectiveResolve).  FRefl[f] is the set of      *)
(* lookups by a computed name in f:                                        *)
(*   root, rv, links   the chain that evaluates to the module M (as in     *)
(*                     FChains; rv = module the root is known to be)       *)
(*   how               "getattr": getattr(M, e)       -> AttributeError    *)
(*                     "item":    M.__dict__[e], vars(M)[e], globals()[e]  *)
(*                                                    -> KeyError          *)
(*   names             the strings e can evaluate to: the literal parts of *)
(*                     e with every hole (a part that depends on an        *)
(*                     argument or on data) replaced by each value of its  *)
(*                     domain - the literal collection the code bounds it  *)
(*                     with, else the bounded universe of argument values  *)
(*                     of the extractor (open = TRUE)                      *)
(*   catches           exception classes handled around the lookup         *)
(*   tested            hasattr(M, e) / e in vars(M) occurs in f            *)
(* The lookup is judged in the state the call of f reaches (what has been  *)
(* imported decides whether a package has its submodule as an attribute).  *)
(* Modules with __getattr__ and modules into which names are stored        *)
(* reflectively are not judged.                                            *)
(***************************************************************************)
ExcOf(how) == IF how = "getattr" THEN "AttributeError" ELSE "KeyError"
ReflGuarded(d) == d.tested \/ ExcOf(d.how) \in d.catches
\* the value of  root.l1.l2...  (OBJ: not a module of the tree, or the chain itself does not resolve, which
\* is ChainsResolve's matter)
RECURSIVE WalkTo(_, _, _)
WalkTo(val, links, i) ==
    IF i > Len(links) THEN val
    ELSE IF val \notin Modules \/ val \in DynAttr THEN OBJ
    ELSE IF links[i] \in DOMAIN g[val] THEN WalkTo(g[val][links[i]], links, i + 1)
    ELSE OBJ
ReflTarget(m, d) == IF d.rv = "" /\ ~NameBound(m, d.root) THEN OBJ ELSE WalkTo(RootValue(m, d), d.links, 1)
Judged(t) == t \in Modules /\ t \notin DynAttr /\ t \notin DynStore /\ ms[t] # "absent"
InNamespace(t, n) == n \in DOMAIN g[t] \/ n \in DynDefs[t]
ReflMissing(m, d) == LET t == ReflTarget(m, d)
                     IN  IF Judged(t) THEN {n \in d.names : ~InNamespace(t, n)} ELSE {}

(* A lookup by computed name in a module body (statement "refl", record BRefl[Stmt.name]; only lookups whose    *)
(* candidate strings the code bounds are recorded there).  All candidates present: it succeeds; none: it      *)
(* raises; some: which candidates the run evaluates is not known to the model, so it does either.              *)
ReflStmt == BRefl[Stmt.name]
ReflUse == /\ AtStmt /\ Stmt.op = "refl"
           /\ (ReflStmt.tested \/ ReflMissing(CurMod, ReflStmt) # ReflStmt.names \/ ReflStmt.names = {})
           /\ stack' = Advanced
           /\ caught' = (caught \/ (~ReflStmt.tested /\ ReflMissing(CurMod, ReflStmt) # {}))
           /\ UNCHANGED <<entries, ms, g, order, phase, cur, fail>>
ReflFails == /\ AtStmt /\ Stmt.op = "refl" /\ ~ReflStmt.tested /\ ReflMissing(CurMod, ReflStmt) # {}
             /\ FailureOn(ExcOf(ReflStmt.how), ReflTarget(CurMod, ReflStmt),
                          CHOOSE n \in ReflMissing(CurMod, ReflStmt) : TRUE)

AtEnd(kind) == Running /\ Top.k = kind /\ Top.pc > Len(BodyOf(Top))

EndModule == /\ AtEnd("mod")
             /\ ms' = [ms EXCEPT ![Top.id] = "loaded"]
             /\ g' = IF Parent[Top.id] # "" THEN [g EXCEPT ![Parent[Top.id]] = (Leaf[Top.id] :> Top.id) @@ @] ELSE g
             /\ stack' = Pop
             \* _load_unlocked: module = sys.modules.pop(name); sys.modules[name] = module
             /\ order' = Append(SelectSeq(order, LAMBDA x : x # Top.id), Top.id)
             /\ UNCHANGED <<entries, phase, cur, fail, caught>>

EndUser == /\ AtEnd("user")
           /\ stack' = <<>> /\ phase' = "ready"
           /\ UNCHANGED <<entries, ms, g, order, cur, fail, caught>>

\* After a call that imported nothing the interpreter is in the state it was in before the call, so only
\* calls that executed import statements need to be continued (same reachable namespaces, far fewer edges).
Call(f) == /\ stack = <<>>
           /\ (phase = "ready" \/ (ChainCalls /\ phase = "called" /\ FImports[cur] # <<>>))
           /\ ms[FMod[f]] = "loaded"
           /\ stack' = <<[k |-> "fun", id |-> f, pc |-> 1]>>
           /\ phase' = "calling" /\ cur' = f
           /\ UNCHANGED <<entries, ms, g, order, fail, caught>>

EndCallF == /\ AtEnd("fun") /\ Len(stack) > 1
            /\ stack' = Pop
            /\ UNCHANGED <<entries, ms, g, order, phase, cur, fail, caught>>

EndCall == /\ AtEnd("fun") /\ Len(stack) = 1
           /\ stack' = <<>> /\ phase' = "called"
           /\ UNCHANGED <<entries, ms, g, order, cur, fail, caught>>

InitWith(es) == /\ entries = es
                /\ ms = [m \in Modules |-> "absent"]
                /\ g = [m \in Modules |-> <<>>]
                /\ stack = <<[k |-> "user", id |-> "__main__", pc |-> 1]>>
                /\ order = <<>> /\ phase = "import" /\ cur = "" /\ fail = NoFail /\ caught = FALSE
Init == \E es \in EntryLists : InitWith(es)

Step == \/ LoadModule \/ BindImport \/ BindFrom \/ StarImport \/ ImportFails
        \/ DefName \/ DelName \/ UseName \/ UseFails \/ ReflUse \/ ReflFails \/ EndModule \/ EndUser \/ EndCall
        \/ Unwind \/ Jump \/ Branch \/ CallF \/ EndCallF
Next == Step \/ \E f \in Funcs : Call(f)
Spec == Init /\ [][Next]_vars

(***************************************************************************)
(* Properties                                                              *)
(***************************************************************************)
MissingAll == {<<m, n>> \in UNION {{<<m, n>> : n \in All[m]} : m \in DOMAIN All} :
                  /\ ms[m] = "loaded" /\ n \notin DOMAIN g[m]
                  \* a star import imports a submodule that __all__ names
                  /\ ~(IsPkg[m] /\ \E c \in Modules : Parent[c] = m /\ Leaf[c] = n)}
AllAdvertised == MissingAll = {}

BadLoads(f) == {ld \in FLoads[f] : ~NameBound(FMod[f], ld.name)}
\* A chain below a handler that catches AttributeError (guard = "A") is excused only when what is missing is a
\* plain attribute: that is what such a handler is written for (feature probing), and it is missing in every
\* import state alike.  A missing SUBMODULE of the tree (on.attr is a module that exists but nothing the entry
\* imports has loaded) is present after the whole framework has been imported and absent here: the handler would
\* silently take another path depending on the import state, so no enclosing handler excuses it.
MissingIsSubmodule(r) == r.on # "" /\ (r.on \o "." \o r.attr) \in Modules
BadChains(f) == {c \in FChains[f] : /\ NameBound(FMod[f], c.root) /\ ~ChainRes(FMod[f], c).ok
                                    /\ (c.guard = "" \/ MissingIsSubmodule(ChainRes(FMod[f], c)))}
(***************************************************************************)
(* Local names (LocalsResolve).  For the functions in FlowFuncs the        *)
(* extractor supplies the control-flow graph of the binding events of      *)
(* their local names: FNodes[f][x] = [op, name, line] with op one of       *)
(* "bind", "kill" (del n; the end of `except E as n`), "load", "nop";      *)
(* FSucc[f][x] = successors of x on any syntactic path.                    *)
(* (a) a load of n is dead if it can be reached from a kill of n without   *)
(*     passing a bind of n;                                                *)
(* (b) FSeeds[f] = [t, h, last, name]: h..last are the nodes of a handler  *)
(*     of the try statement entered at t whose first statement is a plain  *)
(*     assignment to name.  If no bind of name can reach t, the handler    *)
(*     runs with name unbound whenever that statement is what raised: a    *)
(*     load on any path inside the handler is dead, and so is one in the   *)
(*     straight-line code after it (followed only while there is exactly   *)
(*     one successor: nothing is assumed about conditions evaluated after  *)
(*     the handler, which may be correlated with it).                      *)
(***************************************************************************)
NodeIds(f) == 1..Len(FNodes[f])
IsEv(f, x, op, n) == FNodes[f][x].op = op /\ FNodes[f][x].name = n
Rebinds(f, x, n) == FNodes[f][x].name = n /\ FNodes[f][x].op \in {"bind", "kill"}
SuccOf(f, X) == UNION {FSucc[f][x] : x \in X}

\* nodes after which n is unbound on some path, starting from the kills of n
RECURSIVE UnboundAfter(_, _, _)
UnboundAfter(f, n, X) ==
    LET Y == X \cup {y \in SuccOf(f, X) : ~Rebinds(f, y, n)}
    IN  IF Y = X THEN X ELSE UnboundAfter(f, n, Y)
KillNames(f) == {FNodes[f][x].name : x \in {y \in NodeIds(f) : FNodes[f][y].op = "kill"}}
DeadByKill(f) ==
    UNION {{[name |-> n, line |-> FNodes[f][y].line] :
               y \in {z \in SuccOf(f, UnboundAfter(f, n, {x \in NodeIds(f) : IsEv(f, x, "kill", n)})) :
                          IsEv(f, z, "load", n)}} : n \in KillNames(f)}

RECURSIVE ReachFrom(_, _)
ReachFrom(f, X) == LET Y == X \cup SuccOf(f, X) IN IF Y = X THEN X ELSE ReachFrom(f, Y)
BindReaches(f, n, t) == t \in SuccOf(f, ReachFrom(f, {x \in NodeIds(f) : IsEv(f, x, "bind", n)}))
\* straight-line continuation of x: nodes passed while there is exactly one successor and n is not bound
RECURSIVE Chain(_, _, _, _)
Chain(f, n, x, seen) ==
    IF x \in seen \/ IsEv(f, x, "bind", n) THEN {}
    ELSE {x} \cup (IF Cardinality(FSucc[f][x]) = 1
                   THEN Chain(f, n, CHOOSE y \in FSucc[f][x] : TRUE, seen \cup {x}) ELSE {})
InH(s, x) == x >= s.h /\ x <= s.last
\* nodes of the handler after which the name is still unbound, on any path inside the handler
RECURSIVE HUnbound(_, _, _)
HUnbound(f, s, X) ==
    LET Y == X \cup {y \in SuccOf(f, X) : InH(s, y) /\ ~Rebinds(f, y, s.name)}
    IN  IF Y = X THEN X ELSE HUnbound(f, s, Y)
SeedArrivals(f, s) == SuccOf(f, HUnbound(f, s, {s.h}))
SeedDeadNodes(f, s) ==
    {y \in SeedArrivals(f, s) : InH(s, y)}
    \cup UNION {Chain(f, s.name, y, {}) : y \in {z \in SeedArrivals(f, s) : ~InH(s, z)}}
DeadBySeed(f) ==
    UNION {{[name |-> s.name, line |-> FNodes[f][y].line] :
               y \in {z \in SeedDeadNodes(f, s) : IsEv(f, z, "load", s.name)}} :
           s \in {q \in FSeeds[f] : ~BindReaches(f, q.name, q.t)}}
DeadLoads(f) == IF f \in FlowFuncs THEN DeadByKill(f) \cup DeadBySeed(f) ELSE {}
LocalsResolve == phase = "called" => DeadLoads(cur) = {}

BadRefl(f) == {d \in FRefl[f] : ~ReflGuarded(d) /\ ReflMissing(FMod[f], d) # {}}
ReflectiveResolve == phase = "called" => BadRefl(cur) = {}
\* what the model predicts for every lookup by computed name of f (replayed on the real module objects)
ReflView(f) == {[line |-> d.line, how |-> d.how, pat |-> d.pat, open |-> d.open, guarded |-> ReflGuarded(d),
                 on |-> IF Judged(ReflTarget(FMod[f], d)) THEN ReflTarget(FMod[f], d) ELSE "-",
                 present |-> d.names \ ReflMissing(FMod[f], d),
                 missing |-> ReflMissing(FMod[f], d)] : d \in FRefl[f]}

GlobalsResolve == phase = "called" => BadLoads(cur) = {}
ChainsResolve == phase = "called" => BadChains(cur) = {}
ImportsSucceed == phase # "failed"         \* an exception that a handler of a module body catches is no failure

TypeOK == /\ \A m \in Modules : ms[m] \in {"absent", "running", "loaded"}
          /\ \A m \in Modules : ms[m] = "absent" <=> DOMAIN g[m] = {}
          /\ \A i \in 1..Len(stack) : stack[i].k = "mod" => ms[stack[i].id] = "running"
          /\ {m \in Modules : ms[m] = "running"} = {stack[i].id : i \in {j \in 1..Len(stack) : stack[j].k = "mod"}}
          /\ {order[i] : i \in 1..Len(order)} = {m \in Modules : ms[m] # "absent"}
          /\ phase \in {"import", "ready", "calling", "called", "raising", "failed"}
          /\ (phase \in {"raising", "failed"}) <=> (fail # NoFail)

(***************************************************************************)
(* Declarative reference: what `import X` loads is the closure of X under  *)
(* the static import graph; what a module contains afterwards is what its  *)
(* body binds plus its initialised submodules.                             *)
(***************************************************************************)
\* the statements of a body that run when nothing raises (handlers are jumped over)
NextPcs(m, i) == IF Body[m][i].op = "jump" THEN {Body[m][i].to}
                 ELSE IF Body[m][i].op = "branch" THEN {i + 1, Body[m][i].to} ELSE {i + 1}
RECURSIVE PcClosure(_, _)
PcClosure(m, S) == LET T == S \cup UNION {NextPcs(m, i) : i \in {j \in S : j <= Len(Body[m])}}
                   IN  IF T = S THEN S ELSE PcClosure(m, T)
NormalPcs(m) == {i \in PcClosure(m, {1}) : i <= Len(Body[m])}
Binds(s) == IF s.op \in {"import", "from", "def"} /\ s.bind # "" THEN {s.bind} ELSE {}
StaticNames(m) == UNION {Binds(Body[m][i]) : i \in NormalPcs(m)}
StarredNames(m) == UNION {IF Body[m][i].op = "star" THEN StarNames(Body[m][i].mod) ELSE {} : i \in NormalPcs(m)}
Deleted(m) == {Body[m][i].bind : i \in {j \in NormalPcs(m) : Body[m][j].op = "del"}}
StmtDeps(s) == IF ~IsImp(s) THEN {}
               ELSE ({s.pre[i] : i \in 1..Len(s.pre)}
                     \cup (IF s.op = "from" /\ SubOf(s) # "" /\ s.name \notin StaticNames(s.mod) THEN {s.sub} ELSE {}))
                    \cap Modules
Deps(m) == UNION {StmtDeps(Body[m][i]) : i \in NormalPcs(m)}
RECURSIVE ClosureFrom(_)
ClosureFrom(S) == LET T == S \cup UNION {Deps(m) : m \in S} IN IF T = S THEN S ELSE ClosureFrom(T)
EntryMods == UNION {{Prefixes(entries[i])[j] : j \in 1..Len(Prefixes(entries[i]))} : i \in 1..Len(entries)}

Ready == phase = "ready" /\ cur = ""
Pristine == Ready /\ ~caught
LoadedIsClosure == Pristine => Loaded = ClosureFrom(EntryMods)
NamesAreStatic == Pristine => \A m \in Loaded :
    (DOMAIN g[m]) \cup Deleted(m) =
        (IF IsPkg[m] THEN PkgImplicit ELSE Implicit) \cup StaticNames(m) \cup StarredNames(m) \cup Deleted(m)
        \cup {Leaf[c] : c \in {x \in Loaded : Parent[x] = m}}

(***************************************************************************)
(* Export of the model's predictions (S2C): the state a fresh interpreter  *)
(* must be in after the imports, and every unresolved reference.           *)
(***************************************************************************)
Emitted ==
    /\ Ready => PrintT(ToJson([t |-> "ready", entries |-> entries, order |-> order,
                                  mods |-> [m \in Loaded |-> g[m]],
                                  missing |-> {[m |-> p[1], name |-> p[2]] : p \in MissingAll}]))
    /\ (phase = "called" /\ FRefl[cur] # {}) =>
           PrintT(ToJson([t |-> "refl", entries |-> entries, f |-> cur, m |-> FMod[cur], refs |-> ReflView(cur)]))
    /\ (phase = "called" /\ (BadLoads(cur) # {} \/ BadChains(cur) # {} \/ DeadLoads(cur) # {}
                             \/ BadRefl(cur) # {})) =>
           PrintT(ToJson([t |-> "bad", entries |-> entries, f |-> cur, m |-> FMod[cur],
                          loads |-> BadLoads(cur), locals |-> DeadLoads(cur),
                          refl |-> {v \in ReflView(cur) : ~v.guarded /\ v.missing # {}},
                          chains |-> {[root |-> c.root, links |-> c.links, line |-> c.line,
                                       on |-> ChainRes(FMod[cur], c).on, attr |-> ChainRes(FMod[cur], c).attr]
                                      : c \in BadChains(cur)}]))
    /\ phase = "failed" => PrintT(ToJson([t |-> "failed", entries |-> entries, fail |-> fail, order |-> order]))
=============================================================================
