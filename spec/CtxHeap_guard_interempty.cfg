SPECIFICATION Spec
CONSTANTS
  K = {"a", "b"}
  NC = 2
  Variant = "interempty"
  Kinds <- KindsGuardResults
INVARIANT InitOK
INVARIANT MutatedIsPrivate
PROPERTY StepsOK
CHECK_DEADLOCK FALSE
