SPECIFICATION Spec
CONSTANTS Parts = {"sel", "table", "csv", "cmd", "repr", "ctxop"} MaxSrc = 5 MaxRows = 3 Deep = TRUE
INVARIANT Emitted
CHECK_DEADLOCK FALSE
