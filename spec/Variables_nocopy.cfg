SPECIFICATION Spec
CONSTANTS MaxLen = 3
  Pool <- Pool3
  Starts <- StartsAll
  Xs = {1, 2}
  Nested = FALSE
  Ys <- NoData
  Extra <- NoElems
  Variant = "doc"
  CopyVarContext = FALSE
  ExtendByCompose = TRUE
  PathKeys = FALSE
INVARIANT DataEq
INVARIANT ComposeEqSeq
INVARIANT CombineTuple
INVARIANT TypedDeclarative
INVARIANT TypesAvailable
INVARIANT NestedFlattens
INVARIANT CarriesName
INVARIANT CarriesAttributes
INVARIANT FrameVariableOnly
INVARIANT VarUnchanged
INVARIANT Repeatable
CHECK_DEADLOCK FALSE
