SPECIFICATION Spec
CONSTANTS MaxLen = 2 MaxN = 4 Infinite = FALSE MaxOut = 100
  Vals = "nat" Stops = FALSE MaxRuns = 1
  Alphabet <- AlphaC01Ext
  Must <- ExtC01
  Pairs <- Both
INVARIANT OpEqDen
INVARIANT OutIsPrefix
INVARIANT EmptyIsIdentity
INVARIANT BadRejectedAtBuild
INVARIANT Regroup
INVARIANT NoWorkBeforeDemand
INVARIANT NoDataInvisible
INVARIANT SliceIsPySlice
INVARIANT Buffers
CHECK_DEADLOCK FALSE
