SPECIFICATION Spec
CONSTANTS NP = 1 MaxRuns = 4 MaxTouch = 99
  Settings <- SettingsAll
  CreatedSetsChanged = TRUE
  KeepHistory = FALSE
VIEW view
INVARIANT TypeOK
INVARIANT AllCurrent
INVARIANT Regenerated
INVARIANT ChangedOK
INVARIANT NoRedo
INVARIANT NoRedoPlot
INVARIANT SkippedUntouched
CHECK_DEADLOCK FALSE
