SPECIFICATION Spec
CONSTANTS MaxRuns = 4 MaxTouch = 99
  Scens <- ScenPlain1
  Settings <- SettingsAll
  CreatedSetsChanged = TRUE
  Reuses = {FALSE, TRUE}
  AutoReload = TRUE
  KeepHistory = FALSE
VIEW view
INVARIANT TypeOK
INVARIANT AllCurrent
INVARIANT Regenerated
INVARIANT ChangedOK
INVARIANT NoRedo
INVARIANT NoRedoPlot
INVARIANT SkippedUntouched
INVARIANT GroupRedone
CHECK_DEADLOCK FALSE
