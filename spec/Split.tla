-------------------------------- MODULE Split --------------------------------
(***************************************************************************)
(* lena/core/split.py  Split.run as a scheduler.                           *)
(*                                                                         *)
(* Operational part (mirrors the code line by line):                       *)
(*   ReadBlock   orig_buf = list(islice(flow, bufsize)); empty -> break    *)
(*   Branch      one iteration of `while ind < n_of_active_seqs`           *)
(*               source       -> yield all, delete from the active list,   *)
(*                               ind stays                                 *)
(*               fill_compute -> fill until LenaStopFill; stopped: compute,*)
(*                               delete, ind stays; else ind += 1          *)
(*               fill_request -> fill until LenaStopFill; request();       *)
(*                               stopped: delete, ind stays; else ind += 1 *)
(*               sequence     -> run(buf); ind += 1                        *)
(*   Final       the loop after the flow is exhausted                      *)
(* Declarative part: SplitSem, written from the documentation with         *)
(* per-branch alive flags and recursion over blocks instead of an index    *)
(* into a shrinking list.                                                  *)
(*                                                                         *)
(* Branches are harness elements with tagged outputs Tag(b, kind, payload) *)
(* so every result can be attributed:                                      *)
(*   src        Source yielding Tag(b,"s",<<1>>), .., Tag(b,"s",<<m>>)     *)
(*   fc(stop)   fill/compute element: collects values, raises LenaStopFill *)
(*              on the fill attempt number stop+1, compute yields          *)
(*              Tag(b,"c",filled) (m = None) or m results                  *)
(*              Tag(b,"c",<<i>> \o filled)                                 *)
(*   fr(stop)   fill/request element: request yields Tag(b,"r",filled      *)
(*              since the previous request) (or m results)                 *)
(*   map        plain callable  v -> Tag(b,"m",<<v>>)                      *)
(*   filt       run element keeping even values                            *)
(*   seq        run element: Tag(b,"m",<<v>>) per value and then           *)
(*              Tag(b,"end",<<number of values in this run>>) - makes      *)
(*              block boundaries and invocations on [] visible             *)
(*   nest       a Split used as a branch (SplitSem.tla: ClassOf)           *)
(* Every kind comes in several *forms* (bare element, tuple, explicit lena *)
(* sequence object, tuple with pre- and post-processing elements, ...):    *)
(* see SplitSem.tla.                                                       *)
(*                                                                         *)
(* One Split object is used more than once (mode of the scenario):         *)
(*   "rerun"  run to the end, then run again (Rerun)                       *)
(*   "abort"  the first run is abandoned at an arbitrary point - the       *)
(*            consumer closes the generator or the flow raises - and the   *)
(*            object is run again (Abort)                                  *)
(*   "inter"  a second run of the same object is started and finished      *)
(*            while the first one is suspended (Suspend / Resume);         *)
(*            stateless branches only                                      *)
(***************************************************************************)
EXTENDS SplitSem, Json

CONSTANTS Scenarios(_), \* Scenarios(0): set of [brs, N, bs, mode]; an operator so that TLC does not
                        \* evaluate every (large) family below at start-up
          MaxRuns      \* mode "rerun": the same Split object is run MaxRuns times over the same flow

RECURSIVE SeqsOver(_, _)
SeqsOver(S, n) == IF n = 0 THEN {<<>>}
                  ELSE LET P == SeqsOver(S, n - 1) IN P \cup {Append(p, a) : p \in {x \in P : Len(x) = n - 1}, a \in S}
Sc(lists, ns, bufs, modes) == {[brs |-> l, N |-> n, bs |-> b, mode |-> m] : l \in lists, n \in ns, b \in bufs, m \in modes}
\* lists of length <= 2 with at least one branch from New, the other from Partners
Paired(New, Partners) == {<<>>} \cup {<<a>> : a \in New} \cup {<<a, p>> : a \in New, p \in Partners}
                         \cup {<<p, a>> : a \in New, p \in Partners}

(***************************************************************************)
(* Scenario families (substituted for Scenarios in the .cfg files).        *)
(***************************************************************************)
ScQuick(u) == Sc(SeqsOver(KindsQuick, 2), 0..4, BufQuick, {"rerun"})
ScThorough(u) == Sc(SeqsOver(KindsQuick, 3), 0..6, BufThorough, {"rerun"})
ScThoroughExport(u) == Sc(SeqsOver(KindsSmall, 3), 0..5, BufThorough, {"rerun"})
ScDeep(u) == Sc(SeqsOver(KindsSmall, 4), 0..5, BufQuick, {"rerun"})
\* every mix of the four classes with up to four branches (stopping and non-stopping fill kinds)
KindsFour == {Src, FC(1), FR(1), SeqK}
KindsSix == {Src, FC(None), FC(1), FR(None), FR(1), SeqK}
ScWide(u) == Sc(SeqsOver(KindsFour, 4), {0, 3}, {1, 2, None}, {"rerun"})
ScWideThorough(u) == Sc(SeqsOver(KindsSix, 4), 0..3, {1, 2, 3, None}, {"rerun"})
\* how the branch is given x what it holds: explicit lena.core.Sequence objects around fill/compute and
\* fill/request elements (plain Sequences, run on every block), bare fill elements that also have run
KindsSeqObj ==
  {WithForm(FC(None), f) : f \in {"sq", "sqpp", "sqin", "run"}}
  \cup {WithForm(FC(1), "run"), WithM(WithForm(FC(None), "sq"), 2), WithM(WithForm(FC(None), "sq"), 0),
        WithForm(FR(None), "sq"), WithForm(FR(None), "run"), WithForm(FR(1), "run")}
\* forms of handing a branch to Split, result multiplicities, Sources with tails
KindsForms ==
  {WithM(Src, 0), WithM(Src, 1), WithForm(Src, "obj"), WithForm(Src, "sub"), WithForm(Src, "fct")}
  \cup {WithForm(FC(None), f) : f \in {"tup", "obj", "pp"}} \cup {WithForm(FC(2), "tup"), WithForm(FC(1), "obj"), WithForm(FC(1), "pp")}
  \cup {WithForm(FC(0), "sl"), WithForm(FC(1), "sl"), WithForm(FC(2), "sl")}
  \cup {WithM(FC(None), 0), WithM(FC(None), 2), WithM(FC(1), 2), WithM(FC(1), 0)}
  \cup {WithForm(FR(None), f) : f \in {"tup", "obj", "pp"}} \cup {WithForm(FR(2), "tup"), WithForm(FR(1), "obj"), WithForm(FR(1), "pp")}
  \cup {WithForm(FR(0), "sl"), WithForm(FR(1), "sl"), WithForm(FR(2), "sl")}
  \cup {WithM(FR(None), 0), WithM(FR(None), 2), WithM(FR(1), 2), WithM(FR(1), 0)}
  \cup {WithForm(kd, f) : kd \in {MapK, FiltK, SeqK}, f \in {"tup", "obj", "pp"}}
  \cup {WithForm(FiltK, "attr"), WithForm(SeqK, "attr"), WithForm(SeqK, "attr2")}
  \cup KindsSeqObj
\* Splits as branches
KindsNest ==
  {Nest(<<FC(None), FC(None)>>, None), Nest(<<FC(None), WithM(FC(None), 2)>>, 1), Nest(<<FC(None)>>, None),
   Nest(<<FR(None), FR(None)>>, None), Nest(<<FR(None)>>, 1),
   Nest(<<FR(None), SeqK>>, 1), Nest(<<Src, MapK>>, None), Nest(<<Src>>, None), Nest(<<Src, Src>>, 1),
   Nest(<<>>, None), Nest(<<SeqK, FiltK>>, 2), Nest(<<SeqK>>, 1), Nest(<<MapK, Src, SeqK>>, None),
   Nest(<<WithForm(FC(None), "sq")>>, 1), Nest(<<WithForm(FC(None), "sq"), SeqK>>, None),
   Nest(<<WithForm(FC(None), "run"), FC(None)>>, None)}
KindsNew == KindsForms \cup KindsNest
Singles(S) == {<<>>} \cup {<<a>> : a \in S}
ScForms(u) == Sc(Singles(KindsNew), 0..3, {1, 2, None}, {"rerun"})
           \cup Sc(Paired(KindsNew, {SeqK, FC(1)}), {0, 3}, {1, 2, None}, {"rerun"})
ScFormsThorough(u) == Sc(Paired(KindsNew, {Src, FC(1), FR(1), SeqK, FC(None), FR(None), MapK}), 0..4, {1, 2, 3, 1000, None}, {"rerun"})
\* the same object abandoned in the middle of a run / two runs interleaved
KindsModes == {Src, FC(1), FR(1), SeqK}
KindsStateless == {Src, MapK, SeqK, Nest(<<Src, SeqK>>, 1)}
ScModes(u) == Sc(SeqsOver(KindsModes, 2), {2, 3}, {1, None}, {"abort"})
           \cup Sc(SeqsOver(KindsStateless, 2), {2, 3}, {1, 2}, {"inter"})
ScModesThorough(u) == Sc(SeqsOver(KindsModes \cup {FC(None), FR(None), MapK, FC(0), FR(0), FC(2), FR(2), FiltK}, 2), 0..4, {1, 2, 3, None}, {"abort"})
                      \cup Sc(SeqsOver(KindsModes, 3), {0, 3, 4}, {1, 2, None}, {"abort"})
                      \cup Sc(SeqsOver(KindsStateless \cup {WithM(Src, 0), FiltK}, 3), {0, 2, 4}, {1, 2, None}, {"inter"})
\* branch elements with an == of their own: equal to everything / equal when the held totals coincide
EqAllOver(S) == {WithEq(kd, "all") : kd \in S}
EqTotOver(S) == {WithEq(kd, "tot") : kd \in S}
KindsEqAll == EqAllOver({Src, FC(None), FC(0), FC(1), FR(None), FR(1), SeqK, MapK, WithForm(FC(1), "tup"), WithForm(FR(1), "tup")})
KindsEqTot == EqTotOver({FC(None), FC(0), FC(1), FC(2), FR(None), FR(0), FR(1)})
KindsEq == KindsEqAll \cup KindsEqTot
KindsEqSmall == EqAllOver({Src, FC(None), FC(1), FR(1)}) \cup EqTotOver({FC(None), FC(0)}) \cup {SeqK}
ScEq(u) == Sc(SeqsOver(KindsEq, 2) \cup Paired(KindsEq, {SeqK, FC(1), FC(None)}), {0, 3}, {1, 2, None}, {"rerun"})
ScEqThorough(u) == Sc(SeqsOver(KindsEq, 2) \cup Paired(KindsEq, {SeqK, FC(1), FC(None), FR(1), Src}), 0..4, {1, 2, 3, None}, {"rerun"})
                   \cup Sc(SeqsOver(KindsEqSmall, 3), {0, 2, 3, 4}, {1, 2, 3, None}, {"rerun"})
\* the two halves on their own (sensitivity guards SpecEqDrop: each kind of == must matter to a scheduler
\* that looks a finished branch up by ==)
ScEqAllOnly(u) == Sc(SeqsOver(KindsEqAll, 2), {0, 3}, {1, 2, None}, {"rerun"})
ScEqTotOnly(u) == Sc(SeqsOver(KindsEqTot, 2), {0, 3}, {1, 2, None}, {"rerun"})
ScAudit(u) == ScWide(u) \cup ScForms(u) \cup ScModes(u) \cup ScEq(u)
ScAuditThorough(u) == ScWideThorough(u) \cup ScFormsThorough(u) \cup ScModesThorough(u) \cup ScEqThorough(u)

(***************************************************************************)
(* Operational machine.                                                    *)
(***************************************************************************)
VARIABLES brs, N, bs, mode,   \* scenario
          pos, buf,           \* values read so far; current block
          active, ind,        \* list of active branch numbers; index into it
          st,                 \* per branch [filled, nf]
          out, phase, empty,
          runs,               \* number of the current run of this Split object
          cut,                \* where run 1 was abandoned / suspended: [n = outputs delivered, pos, ph]
          susp,               \* <<context of the suspended run 1>> while run 2 executes, else <<>>
          out2                \* output of the run that was executed while run 1 was suspended
scen == <<brs, N, bs, mode>>
vars == <<brs, N, bs, mode, pos, buf, active, ind, st, out, phase, empty, runs, cut, susp, out2>>

NoCut == [n |-> -1, pos |-> -1, ph |-> "none"]
AllBranches == [i \in 1..Len(brs) |-> i]
InitSt == [i \in 1..Len(brs) |-> [filled |-> <<>>, nf |-> 0]]
StartPhase == IF brs = <<>> THEN "identity" ELSE "read"
Init == /\ \E sc \in Scenarios(0) : brs = sc.brs /\ N = sc.N /\ bs = sc.bs /\ mode = sc.mode
        /\ pos = 0 /\ buf = <<>> /\ active = AllBranches /\ ind = 1
        /\ st = InitSt
        /\ out = <<>> /\ phase = StartPhase /\ empty = TRUE
        /\ runs = 1 /\ cut = NoCut /\ susp = <<>> /\ out2 = <<>>

RemoveAt(s, i) == [j \in 1..(Len(s) - 1) |-> IF j < i THEN s[j] ELSE s[j + 1]]
Ctl == UNCHANGED <<runs, cut, susp, out2>>

Identity == /\ phase = "identity"
            /\ IF pos < N THEN /\ out' = Append(out, Tag(0, "id", <<pos>>)) /\ pos' = pos + 1 /\ UNCHANGED phase
               ELSE /\ phase' = "done" /\ UNCHANGED <<out, pos>>
            /\ UNCHANGED <<scen, buf, active, ind, st, empty>> /\ Ctl

ReadBlock == /\ phase = "read"
             /\ LET k == IF bs = None THEN N - pos ELSE Min(bs, N - pos) IN
                IF k = 0 THEN /\ phase' = "final" /\ UNCHANGED <<pos, buf, empty>>
                ELSE /\ buf' = [j \in 1..k |-> pos + j - 1] /\ pos' = pos + k
                     /\ phase' = "branches" /\ empty' = FALSE
             /\ ind' = 1 /\ UNCHANGED <<scen, active, st, out>> /\ Ctl

Fixed == UNCHANGED <<scen, pos, buf, empty>> /\ Ctl
Cls(b) == ClassOf(brs[b])
(* A finished branch leaves the active list.  Which entry is deleted is a   *)
(* parameter D(i, s) of the three actions that drop a branch (i = index of *)
(* the finished branch, s = the branch states after its last fill):        *)
(*   DropPos  the entry at that position - the code (`del active_seqs[ind]`)*)
(*            and the statement: branches are told apart by position       *)
(*   DropEq   the first entry whose object compares equal (==) to the      *)
(*            finished one (`active_seqs.index(seq)`) - WRONG as soon as    *)
(*            branch elements define ==; SpecEqDrop is the sensitivity      *)
(*            guard that TLC must refute over the ScEq* families           *)
DropPos(i, s) == i
RECURSIVE SumSeq(_)
SumSeq(q) == IF q = <<>> THEN 0 ELSE Head(q) + SumSeq(Tail(q))
\* does the object of branch a compare equal to the object of branch b (bare elements)
EqNow(a, b, s) == \/ a = b
                  \/ brs[a].eq = "all" \/ brs[b].eq = "all"
                  \/ brs[a].eq = "tot" /\ brs[b].eq = "tot" /\ SumSeq(s[a].filled) = SumSeq(s[b].filled)
DropEq(i, s) == CHOOSE j \in 1..Len(active) : /\ EqNow(active[j], active[i], s)
                                              /\ \A k \in 1..(j - 1) : ~EqNow(active[k], active[i], s)
BranchSrcG(D(_, _)) ==
             /\ Fixed /\ phase = "branches" /\ ind <= Len(active) /\ Cls(active[ind]) = "src"
             /\ out' = out \o SrcOutK(active[ind], brs[active[ind]]) /\ active' = RemoveAt(active, D(ind, st))
             /\ UNCHANGED <<ind, st, phase>>
BranchFCG(D(_, _)) ==
            /\ Fixed /\ phase = "branches" /\ ind <= Len(active) /\ Cls(active[ind]) = "fc"
            /\ LET b == active[ind]  r == FillAll(brs[b].stop, st[b], buf)
                   stn == [st EXCEPT ![b] = [filled |-> r.filled, nf |-> r.nf]] IN
               /\ st' = stn
               /\ IF r.stopped THEN /\ out' = out \o FillResults(b, "c", brs[b], r.filled)
                                    /\ active' = RemoveAt(active, D(ind, stn)) /\ UNCHANGED ind
                  ELSE /\ UNCHANGED <<out, active>> /\ ind' = ind + 1
            /\ UNCHANGED phase
BranchFRG(D(_, _)) ==
            /\ Fixed /\ phase = "branches" /\ ind <= Len(active) /\ Cls(active[ind]) = "fr"
            /\ LET b == active[ind]  r == FillAll(brs[b].stop, st[b], buf)
                   stn == [st EXCEPT ![b] = [filled |-> <<>>, nf |-> r.nf]] IN
               /\ st' = stn
               /\ out' = out \o FillResults(b, "r", brs[b], r.filled)
               /\ IF r.stopped THEN active' = RemoveAt(active, D(ind, stn)) /\ UNCHANGED ind
                  ELSE UNCHANGED active /\ ind' = ind + 1
            /\ UNCHANGED phase
BranchSrc == BranchSrcG(DropPos)
BranchFC == BranchFCG(DropPos)
BranchFR == BranchFRG(DropPos)
BranchSeq == /\ Fixed /\ phase = "branches" /\ ind <= Len(active) /\ Cls(active[ind]) = "run"
             /\ LET b == active[ind] IN out' = out \o RunResults(b, brs[b], buf)
             /\ ind' = ind + 1 /\ UNCHANGED <<active, st, phase>>
BlockDone == /\ Fixed /\ phase = "branches" /\ ind > Len(active)
             /\ phase' = "read" /\ UNCHANGED <<active, ind, st, out>>

RECURSIVE FinalOut(_)
FinalOut(as) ==
  IF as = <<>> THEN <<>>
  ELSE LET b == Head(as) kind == brs[b] IN
     (CASE Cls(b) = "src" -> SrcOutK(b, kind)               \* only reachable when the flow was empty
        [] Cls(b) = "fc" -> FillResults(b, "c", kind, st[b].filled)
        [] Cls(b) = "fr" -> IF empty THEN FillResults(b, "r", kind, <<>>) ELSE <<>>
        [] OTHER -> IF empty THEN RunResults(b, kind, <<>>) ELSE <<>>) \o FinalOut(Tail(as))
Final == /\ phase = "final" /\ out' = out \o FinalOut(active) /\ phase' = "done"
         /\ UNCHANGED <<scen, pos, buf, active, ind, st, empty>> /\ Ctl

(***************************************************************************)
(* The active list is a per-run copy (`self._seqs[:]`): dropping a Source  *)
(* or a stopped fill branch holds for the current run only.  Rerun starts  *)
(* the same Split object again on the same flow, with the (harness)        *)
(* elements reset: every branch is active again.  Abort does the same from *)
(* the middle of a run.  Suspend starts a second run while the generator   *)
(* of the first one is still alive; Resume continues the first one.        *)
(***************************************************************************)
FreshRun == /\ pos' = 0 /\ buf' = <<>> /\ ind' = 1 /\ active' = AllBranches
            /\ out' = <<>> /\ phase' = StartPhase /\ empty' = TRUE
Rerun == /\ mode = "rerun" /\ phase = "done" /\ runs < MaxRuns
         /\ runs' = runs + 1 /\ FreshRun /\ st' = InitSt
         /\ UNCHANGED <<scen, cut, susp, out2>>
Abort == /\ mode = "abort" /\ runs = 1 /\ phase # "done"
         /\ cut' = [n |-> Len(out), pos |-> pos, ph |-> phase]
         /\ runs' = 2 /\ FreshRun /\ st' = InitSt
         /\ UNCHANGED <<scen, susp, out2>>
Suspend == /\ mode = "inter" /\ runs = 1 /\ phase # "done" /\ susp = <<>>
           /\ susp' = <<[pos |-> pos, buf |-> buf, active |-> active, ind |-> ind, out |-> out,
                         phase |-> phase, empty |-> empty]>>
           /\ cut' = [n |-> Len(out), pos |-> pos, ph |-> phase]
           /\ runs' = 2 /\ FreshRun /\ UNCHANGED <<scen, st, out2>>
Resume == /\ mode = "inter" /\ runs = 2 /\ phase = "done" /\ susp # <<>>
          /\ out2' = out /\ runs' = 3 /\ susp' = <<>>
          /\ pos' = susp[1].pos /\ buf' = susp[1].buf /\ active' = susp[1].active /\ ind' = susp[1].ind
          /\ out' = susp[1].out /\ phase' = susp[1].phase /\ empty' = susp[1].empty
          /\ UNCHANGED <<scen, st, cut>>

Next == Identity \/ ReadBlock \/ BranchSrc \/ BranchFC \/ BranchFR \/ BranchSeq \/ BlockDone \/ Final
        \/ Rerun \/ Abort \/ Suspend \/ Resume
Spec == Init /\ [][Next]_vars
\* the wrong scheduler of the sensitivity guard: finished branches are looked up by ==
NextEqDrop == Identity \/ ReadBlock \/ BranchSrcG(DropEq) \/ BranchFCG(DropEq) \/ BranchFRG(DropEq) \/ BranchSeq
              \/ BlockDone \/ Final \/ Rerun \/ Abort \/ Suspend \/ Resume
SpecEqDrop == Init /\ [][NextEqDrop]_vars
Done == phase = "done"
\* the scenario is over
Complete == /\ Done
            /\ (mode = "rerun" => runs = MaxRuns)
            /\ (mode = "abort" => runs = 2)
            /\ (mode = "inter" => runs = 3)

(***************************************************************************)
(* Properties.                                                             *)
(***************************************************************************)
Expected == SplitSem(brs, bs, Iota(N))
IsPrefix(a, b) == Len(a) <= Len(b) /\ a = SubSeq(b, 1, Len(a))
\* every run of the object, also the one after an abandoned run and both interleaved ones
OpEqDen == Done => out = Expected
InterBoth == (mode = "inter" /\ runs = 3) => out2 = Expected
OutIsPrefix == IsPrefix(out, Expected)
BufBound == bs # None => Len(buf) <= bs
\* a Source still active in the final pass implies the flow was empty (the `assert` of the code)
SrcOnlyOnEmpty == phase = "final" => \A i \in 1..Len(active) : Cls(active[i]) = "src" => empty
\* results of fill/compute and per-value branches do not depend on bufsize
BufsizeIndependent ==
  Done => \A b \in 1..Len(brs) : (Cls(b) = "fc" \/ brs[b].t \in {"map", "filt"}) =>
             ProjO(out, b) = ProjO(SplitSem(brs, None, Iota(N)), b)
EmptySplitIdentity == (Done /\ brs = <<>>) => out = [j \in 1..N |-> Tag(0, "id", <<j - 1>>)]
RECURSIVE OnceEach(_, _)
OnceEach(bb, j) == IF j > Len(bb) THEN <<>>
  ELSE (CASE ClassOf(bb[j]) = "src" -> SrcOutK(j, bb[j]) [] ClassOf(bb[j]) = "fc" -> FillResults(j, "c", bb[j], <<>>)
          [] ClassOf(bb[j]) = "fr" -> FillResults(j, "r", bb[j], <<>>) [] OTHER -> RunResults(j, bb[j], <<>>)) \o OnceEach(bb, j + 1)
EmptyFlowEachOnce == (Done /\ N = 0 /\ brs # <<>>) => out = OnceEach(brs, 1)
\* every fill/compute branch computes exactly once; every Source is called exactly once
NRes1(kd) == IF kd.t = "src" THEN (IF kd.form = "fct" THEN 1 ELSE kd.m) ELSE IF kd.m = None THEN 1 ELSE kd.m
RECURSIVE NResSub(_, _)
NResSub(subs, j) == IF j > Len(subs) THEN 0 ELSE NRes1(subs[j]) + NResSub(subs, j + 1)
NRes(kd) == IF kd.t = "nest" THEN NResSub(kd.sub, 1) ELSE NRes1(kd)
OnceOnly == Done => \A b \in 1..Len(brs) : Cls(b) \in {"fc", "src"} => Len(ProjO(out, b)) = NRes(brs[b])
\* every value read is accounted for by a fill/request branch exactly once until it stops
RECURSIVE Cat(_)
Cat(ss) == IF ss = <<>> THEN <<>> ELSE Head(ss).p \o Cat(Tail(ss))
FRAccount == Done => \A b \in 1..Len(brs) : (brs[b].t = "fr" /\ Cls(b) = "fr" /\ brs[b].m = None) =>
               Cat(Proj(out, b)) = PreSeq(brs[b], IF brs[b].stop = None THEN Iota(N) ELSE Iota(Min(N, brs[b].stop)))

\* every run of the same object starts with all branches active
AllActiveAtStart == (phase \in {"read", "identity"} /\ pos = 0) => active = AllBranches
\* two runs are interleaved only over stateless branches (well-formedness of the scenario families)
InterStateless == mode = "inter" => \A b \in 1..Len(brs) : StatelessKind(brs[b])
Emitted == Complete => PrintT(ToJson([brs |-> brs, N |-> N, bs |-> bs, out |-> out, mode |-> mode, cut |-> cut]))
=============================================================================
