-------------------------------- MODULE Split --------------------------------
(***************************************************************************)
(* lena/core/split.py  Split.run as a scheduler.                           *)
(*                                                                         *)
(* Operational part (mirrors the code line by line):                       *)
(*   ReadBlock   orig_buf = list(islice(flow, bufsize)); empty -> break    *)
(*   Branch      one iteration of `while ind < n_of_active_seqs`           *)
(*               source       -> yield all, delete from the active list,   *)
(*                               ind stays                                 *)
(*               fill_compute -> fill until LenaStopFill; stopped: compute,*)
(*                               delete, ind stays; else ind += 1          *)
(*               fill_request -> fill until LenaStopFill; request();       *)
(*                               stopped: delete, ind stays; else ind += 1 *)
(*               sequence     -> run(buf); ind += 1                        *)
(*   Final       the loop after the flow is exhausted                      *)
(* Declarative part: SplitSem, written from the documentation with         *)
(* per-branch alive flags and recursion over blocks instead of an index    *)
(* into a shrinking list.                                                  *)
(*                                                                         *)
(* Branches are harness elements with tagged outputs Tag(b, kind, payload) *)
(* so every result can be attributed:                                      *)
(*   src        Source yielding Tag(b,"s",<<1>>), Tag(b,"s",<<2>>)         *)
(*   fc(stop)   fill/compute element: collects values, raises LenaStopFill *)
(*              on the fill attempt number stop+1, compute yields          *)
(*              Tag(b,"c",filled)                                          *)
(*   fr(stop)   fill/request element: request yields Tag(b,"r",filled      *)
(*              since the previous request)                                *)
(*   map        plain callable  v -> Tag(b,"m",<<v>>)                      *)
(*   filt       run element keeping even values                            *)
(*   seq        run element: Tag(b,"m",<<v>>) per value and then           *)
(*              Tag(b,"end",<<number of values in this run>>) - makes      *)
(*              block boundaries and invocations on [] visible             *)
(***************************************************************************)
EXTENDS SplitSem, Json

CONSTANTS MaxBr, MaxN, Kinds, BufSizes,
          MaxRuns   \* the same Split object is run MaxRuns times over the same flow (elements reset in between)

RECURSIVE Seqs(_)
Seqs(n) == IF n = 0 THEN {<<>>}
           ELSE LET P == Seqs(n - 1) IN P \cup {Append(p, a) : p \in {x \in P : Len(x) = n - 1}, a \in Kinds}
(***************************************************************************)
(* Operational machine.                                                    *)
(***************************************************************************)
VARIABLES brs, N, bs,         \* scenario
          pos, buf,           \* values read so far; current block
          active, ind,        \* list of active branch numbers; index into it
          st,                 \* per branch [filled, nf]
          out, phase, empty,
          runs                \* number of the current run of this Split object
vars == <<brs, N, bs, pos, buf, active, ind, st, out, phase, empty, runs>>

Init == /\ brs \in Seqs(MaxBr) /\ N \in 0..MaxN /\ bs \in BufSizes
        /\ pos = 0 /\ buf = <<>> /\ active = [i \in 1..Len(brs) |-> i] /\ ind = 1
        /\ st = [i \in 1..Len(brs) |-> [filled |-> <<>>, nf |-> 0]]
        /\ out = <<>> /\ phase = (IF brs = <<>> THEN "identity" ELSE "read") /\ empty = TRUE
        /\ runs = 1

RemoveAt(s, i) == [j \in 1..(Len(s) - 1) |-> IF j < i THEN s[j] ELSE s[j + 1]]

Identity == /\ phase = "identity"
            /\ IF pos < N THEN /\ out' = Append(out, Tag(0, "id", <<pos>>)) /\ pos' = pos + 1 /\ UNCHANGED phase
               ELSE /\ phase' = "done" /\ UNCHANGED <<out, pos>>
            /\ UNCHANGED <<brs, N, bs, buf, active, ind, st, empty, runs>>

ReadBlock == /\ phase = "read"
             /\ LET k == IF bs = None THEN N - pos ELSE Min(bs, N - pos) IN
                IF k = 0 THEN /\ phase' = "final" /\ UNCHANGED <<pos, buf, empty>>
                ELSE /\ buf' = [j \in 1..k |-> pos + j - 1] /\ pos' = pos + k
                     /\ phase' = "branches" /\ empty' = FALSE
             /\ ind' = 1 /\ UNCHANGED <<brs, N, bs, active, st, out, runs>>

Fixed == UNCHANGED <<brs, N, bs, pos, buf, empty, runs>>
BranchSrc == /\ Fixed /\ phase = "branches" /\ ind <= Len(active) /\ brs[active[ind]].t = "src"
             /\ out' = out \o SrcOut(active[ind]) /\ active' = RemoveAt(active, ind)
             /\ UNCHANGED <<ind, st, phase>>
BranchFC == /\ Fixed /\ phase = "branches" /\ ind <= Len(active) /\ brs[active[ind]].t = "fc"
            /\ LET b == active[ind]  r == FillAll(brs[b].stop, st[b], buf) IN
               /\ st' = [st EXCEPT ![b] = [filled |-> r.filled, nf |-> r.nf]]
               /\ IF r.stopped THEN /\ out' = Append(out, Tag(b, "c", r.filled))
                                    /\ active' = RemoveAt(active, ind) /\ UNCHANGED ind
                  ELSE /\ UNCHANGED <<out, active>> /\ ind' = ind + 1
            /\ UNCHANGED phase
BranchFR == /\ Fixed /\ phase = "branches" /\ ind <= Len(active) /\ brs[active[ind]].t = "fr"
            /\ LET b == active[ind]  r == FillAll(brs[b].stop, st[b], buf) IN
               /\ st' = [st EXCEPT ![b] = [filled |-> <<>>, nf |-> r.nf]]
               /\ out' = Append(out, Tag(b, "r", r.filled))
               /\ IF r.stopped THEN active' = RemoveAt(active, ind) /\ UNCHANGED ind
                  ELSE UNCHANGED active /\ ind' = ind + 1
            /\ UNCHANGED phase
BranchSeq == /\ Fixed /\ phase = "branches" /\ ind <= Len(active) /\ brs[active[ind]].t \in {"map", "filt", "seq"}
             /\ LET b == active[ind] IN out' = out \o SeqRun(b, brs[b], buf)
             /\ ind' = ind + 1 /\ UNCHANGED <<active, st, phase>>
BlockDone == /\ Fixed /\ phase = "branches" /\ ind > Len(active)
             /\ phase' = "read" /\ UNCHANGED <<active, ind, st, out>>

RECURSIVE FinalOut(_)
FinalOut(as) ==
  IF as = <<>> THEN <<>>
  ELSE LET b == Head(as) kind == brs[b] IN
     (CASE kind.t = "src" -> SrcOut(b)                      \* only reachable when the flow was empty
        [] kind.t = "fc" -> <<Tag(b, "c", st[b].filled)>>
        [] kind.t = "fr" -> IF empty THEN <<Tag(b, "r", <<>>)>> ELSE <<>>
        [] OTHER -> IF empty THEN SeqRun(b, kind, <<>>) ELSE <<>>) \o FinalOut(Tail(as))
Final == /\ phase = "final" /\ out' = out \o FinalOut(active) /\ phase' = "done"
         /\ UNCHANGED <<brs, N, bs, pos, buf, active, ind, st, empty, runs>>

(***************************************************************************)
(* The active list is a per-run copy (`self._seqs[:]`): dropping a Source  *)
(* or a stopped fill branch holds for the current run only.  Rerun starts  *)
(* the same Split object again on the same flow, with the (harness)        *)
(* elements reset: every branch is active again.                           *)
(***************************************************************************)
Rerun == /\ phase = "done" /\ runs < MaxRuns
         /\ runs' = runs + 1 /\ pos' = 0 /\ buf' = <<>> /\ ind' = 1
         /\ active' = [i \in 1..Len(brs) |-> i]
         /\ st' = [i \in 1..Len(brs) |-> [filled |-> <<>>, nf |-> 0]]
         /\ out' = <<>> /\ phase' = (IF brs = <<>> THEN "identity" ELSE "read") /\ empty' = TRUE
         /\ UNCHANGED <<brs, N, bs>>

Next == Identity \/ ReadBlock \/ BranchSrc \/ BranchFC \/ BranchFR \/ BranchSeq \/ BlockDone \/ Final \/ Rerun
Spec == Init /\ [][Next]_vars
Done == phase = "done"

(***************************************************************************)
(* Properties.                                                             *)
(***************************************************************************)
Expected == SplitSem(brs, bs, Iota(N))
IsPrefix(a, b) == Len(a) <= Len(b) /\ a = SubSeq(b, 1, Len(a))
OpEqDen == Done => out = Expected
OutIsPrefix == IsPrefix(out, Expected)
BufBound == bs # None => Len(buf) <= bs
\* a Source still active in the final pass implies the flow was empty (the `assert` of the code)
SrcOnlyOnEmpty == phase = "final" => \A i \in 1..Len(active) : brs[active[i]].t = "src" => empty
\* results of fill/compute and per-value branches do not depend on bufsize
BufsizeIndependent ==
  Done => \A b \in 1..Len(brs) : brs[b].t \in {"fc", "map", "filt"} =>
             Proj(out, b) = Proj(SplitSem(brs, None, Iota(N)), b)
EmptySplitIdentity == (Done /\ brs = <<>>) => out = [j \in 1..N |-> Tag(0, "id", <<j - 1>>)]
RECURSIVE OnceEach(_, _)
OnceEach(bb, j) == IF j > Len(bb) THEN <<>>
  ELSE (CASE bb[j].t = "src" -> SrcOut(j) [] bb[j].t = "fc" -> <<Tag(j, "c", <<>>)>>
          [] bb[j].t = "fr" -> <<Tag(j, "r", <<>>)>> [] OTHER -> SeqRun(j, bb[j], <<>>)) \o OnceEach(bb, j + 1)
EmptyFlowEachOnce == (Done /\ N = 0 /\ brs # <<>>) => out = OnceEach(brs, 1)
\* every fill/compute branch computes exactly once; every Source is called exactly once
RECURSIVE CountTag(_, _, _)
CountTag(o, b, k) == IF o = <<>> THEN 0 ELSE (IF Head(o).b = b /\ Head(o).k = k THEN 1 ELSE 0) + CountTag(Tail(o), b, k)
OnceOnly == Done => \A b \in 1..Len(brs) :
              /\ brs[b].t = "fc" => CountTag(out, b, "c") = 1
              /\ brs[b].t = "src" => CountTag(out, b, "s") = 2
\* every value read is accounted for by a fill/request branch exactly once until it stops
RECURSIVE Cat(_)
Cat(ss) == IF ss = <<>> THEN <<>> ELSE Head(ss).p \o Cat(Tail(ss))
FRAccount == Done => \A b \in 1..Len(brs) : brs[b].t = "fr" =>
               Cat(Proj(out, b)) = (IF brs[b].stop = None THEN Iota(N) ELSE Iota(Min(N, brs[b].stop)))

\* every run of the same object starts with all branches active
AllActiveAtStart == (phase \in {"read", "identity"} /\ pos = 0) => active = [i \in 1..Len(brs) |-> i]
Emitted == (Done /\ runs = MaxRuns) => PrintT(ToJson([brs |-> brs, N |-> N, bs |-> bs, out |-> out]))
=============================================================================
