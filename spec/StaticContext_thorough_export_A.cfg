SPECIFICATION Spec
CONSTANTS MaxDepth = 3
  Families <- FamT_A
  StoreByCopy = TRUE
  TailKeepsSets = TRUE
  SplitContinues = TRUE
INVARIANT Emitted
CHECK_DEADLOCK FALSE
