------------------------------ MODULE BinSearch ------------------------------
(***************************************************************************)
(* The "linear binary search" loop of                                      *)
(* lena.structures.hist_functions.get_bin_on_value_1d(val, arr).           *)
(*                                                                         *)
(* One action per branch of the loop body.  The interpolation guess        *)
(*     ind_guess = ind_min + int((ind_max-ind_min) * (val-arr[ind_min])    *)
(*                                            / (arr[ind_max]-arr[ind_min]))*)
(* is computed in floating point; the code uses it only as an index and    *)
(* decides by exact comparisons.  At the point where it is computed        *)
(* arr[ind_min] < val < arr[ind_max] holds, and rounding is monotone, so   *)
(* (without overflow) the quotient lies in [0, 1] and the guess in         *)
(* ind_min..ind_max.  The model therefore takes ANY g in lo..hi: every     *)
(* rounding of the formula, for every spacing of the edges, is one of the  *)
(* behaviours checked here.                                                *)
(*                                                                         *)
(* arr holds even integers, val any integer of -1..2*MaxV+1 (odd = strictly*)
(* between grid points): the values "including half-integers" of the       *)
(* design, doubled.                                                        *)
(***************************************************************************)
EXTENDS HistSem, TLC, Json

CONSTANTS MaxV,     \* grid points 0..MaxV (arr takes the values 2*k)
          Lens,     \* lengths of arr
          LongV,    \* a second family: long arrays (up to the 12 edges of the statement)
          LongLens  \* over the grid 0..LongV

VARIABLES arr, val,
          lo, hi,   \* ind_min, ind_max
          res       \* returned value (None while the loop runs)
vars == <<arr, val, lo, hi, res>>

Arrays == IncSeqs({2 * j : j \in 0..MaxV}, Lens) \cup IncSeqs({2 * j : j \in 0..LongV}, LongLens)
Vals == -1..(2 * (IF LongV > MaxV THEN LongV ELSE MaxV) + 1)

Init == /\ arr \in Arrays /\ val \in Vals
        /\ lo = 0 /\ hi = Len(arr) - 1 /\ res = None

Running == res = None
Return(r) == res' = r /\ UNCHANGED <<arr, val, lo, hi>>
Continue(l, u) == lo' = l /\ hi' = u /\ UNCHANGED <<arr, val, res>>

\* if ind_max - ind_min <= 1: closed lower, open upper bound
Close == /\ Running /\ hi - lo <= 1
         /\ Return(IF val < At(arr, lo) THEN lo - 1
                   ELSE IF val >= At(arr, hi) THEN hi ELSE lo)
Wide == Running /\ hi - lo > 1
\* if val == arr[ind_min]: return ind_min
HitLow == Wide /\ val = At(arr, lo) /\ Return(lo)
\* if val < arr[ind_min]: return ind_min - 1
Below == Wide /\ val < At(arr, lo) /\ Return(lo - 1)
\* elif val >= arr[ind_max]: return ind_max
AtOrAbove == Wide /\ val > At(arr, lo) /\ val >= At(arr, hi) /\ Return(hi)
Interior == Wide /\ At(arr, lo) < val /\ val < At(arr, hi)
\* if ind_min == ind_guess: ind_min += 1
GuessLow == Interior /\ Continue(lo + 1, hi)                                  \* g = lo
\* elif ind_max == ind_guess: ind_max -= 1    ("numerical inaccuracies")
GuessHigh == Interior /\ Continue(lo, hi - 1)                                 \* g = hi
\* if val < arr[ind_guess]: ind_max = ind_guess
NarrowDown == Interior /\ \E g \in (lo + 1)..(hi - 1) : val < At(arr, g) /\ Continue(lo, g)
\* else: ind_min = ind_guess
NarrowUp == Interior /\ \E g \in (lo + 1)..(hi - 1) : val >= At(arr, g) /\ Continue(g, hi)
Finished == ~Running /\ UNCHANGED vars

Next == Close \/ HitLow \/ Below \/ AtOrAbove \/ GuessLow \/ GuessHigh \/ NarrowDown \/ NarrowUp \/ Finished
Spec == Init /\ [][Next]_vars

(***************************************************************************)
(* Properties.                                                             *)
(***************************************************************************)
\* the reported index equals the number of edges not greater than the value, minus one
SearchCorrect == res # None => res = Idx(val, arr)
\* loop invariant: the answer stays within ind_min-1..ind_max
LoopInv == Running => /\ 0 <= lo /\ lo < hi /\ hi <= Len(arr) - 1
                      /\ Idx(val, arr) \in (lo - 1)..hi
\* termination: every iteration that does not return shrinks the interval (so at most Len(arr)-1 iterations)
Shrinks == [][(Running /\ res' = None) => hi' - lo' < hi - lo]_vars
\* the actions are the function Body for some guess within lo..hi
BodyAgrees == [][Running => \E g \in lo..hi :
                   LET b == Body(arr, val, lo, hi, g) IN
                   IF b.done THEN res' = b.res /\ lo' = lo /\ hi' = hi
                   ELSE res' = None /\ lo' = b.lo /\ hi' = b.hi]_vars
\* the exact (real-number) interpolation guess is one of the guesses of the model
ExactGuessCovered == (Running /\ hi - lo > 1 /\ At(arr, lo) < val /\ val < At(arr, hi)) =>
   (lo + ((hi - lo) * (val - At(arr, lo))) \div (At(arr, hi) - At(arr, lo))) \in lo..(hi - 1)

\* one record per (arr, val): printed in the initial states
Emitted == (res = None /\ lo = 0 /\ hi = Len(arr) - 1) => PrintT(ToJson([arr |-> arr, val |-> val, idx |-> Idx(val, arr)]))
=============================================================================
