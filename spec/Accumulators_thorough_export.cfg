SPECIFICATION Spec
CONSTANTS MaxLen = 5 Wide = FALSE
  Kinds <- AllKinds
INVARIANT Emitted
CHECK_DEADLOCK FALSE
