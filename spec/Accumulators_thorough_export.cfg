SPECIFICATION Spec
CONSTANTS MaxLen = 5 Wide = FALSE
  Kinds <- ThoroughKinds
INVARIANT Emitted
CHECK_DEADLOCK FALSE
