SPECIFICATION TSpec
CONSTANTS Scenarios = {}
  DataProfiles = {}
  MaxN = 99
  Forms = {"seq"}
  StopKinds = {"close", "abandon", "keep"}
  Reruns = {TRUE}
  RerunScenarios = {}
  RerunData = {}
  RerunForms = {"seq"}
  Holds = {TRUE}
  HoldScenarios = {}
  HoldData = {}
  HoldForms = {"seq"}
  HoldRc = {FALSE, TRUE}
  Muts = {TRUE}
  MutScenarios = {}
  MutData = {}
  MutForms = {"seq"}
  MutRc = {FALSE, TRUE}
  MaxRep = 2
  KeepHistory = FALSE
  Design = "allowed"
INVARIANT NoTruncated
INVARIANT StoredIsLastComplete
INVARIANT FirstRunTransparent
INVARIANT LoadIsStored
INVARIANT LoadNoPull
INVARIANT AtPrinted
CHECK_DEADLOCK FALSE
