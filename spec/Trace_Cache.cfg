SPECIFICATION TSpec
CONSTANTS Scenarios = {}
  LenProfiles = {}
  MaxN = 99
  Forms = {"seq"}
  StopKinds = {"close", "abandon"}
  Reruns = {TRUE}
  RerunScenarios = {}
  RerunLens = {}
  RerunForms = {"seq"}
  KeepHistory = FALSE
  Design = "allowed"
INVARIANT NoTruncated
INVARIANT StoredIsLastComplete
INVARIANT FirstRunTransparent
INVARIANT LoadIsStored
INVARIANT LoadNoPull
INVARIANT AtPrinted
CHECK_DEADLOCK FALSE
