SPECIFICATION TSpec
CONSTANTS Scenarios = {}
  MaxN = 99 MaxVer = 9
  Forms = {"seq"}
  StopKinds = {"close", "abandon"}
  KeepHistory = FALSE
  Design = "allowed"
INVARIANT NoTruncated
INVARIANT StoredIsLastComplete
INVARIANT FirstRunTransparent
INVARIANT LoadIsStored
INVARIANT LoadNoPull
INVARIANT AtPrinted
CHECK_DEADLOCK FALSE
