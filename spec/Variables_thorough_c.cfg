SPECIFICATION Spec
CONSTANTS MaxLen = 4
  Pool <- PoolK
  Starts <- StartsK
  Xs = {2}
  Nested = FALSE
  Ys <- DataK
  Extra <- ExtraK
  Variant = "doc"
  CopyVarContext = TRUE
  ExtendByCompose = TRUE
  PathKeys = FALSE
INVARIANT DataEq
INVARIANT ComposeEqSeq
INVARIANT CombineTuple
INVARIANT TypedDeclarative
INVARIANT TypesAvailable
INVARIANT NestedFlattens
INVARIANT CarriesName
INVARIANT CarriesAttributes
INVARIANT FrameVariableOnly
INVARIANT VarUnchanged
INVARIANT Repeatable
CHECK_DEADLOCK FALSE
