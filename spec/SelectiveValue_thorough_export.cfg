SPECIFICATION Spec
CONSTANTS Modes = {"veto", "require", "data", "presence"}
  Depths = {1, 2, 3}
INVARIANT Emitted_
CHECK_DEADLOCK FALSE
