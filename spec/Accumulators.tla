---------------------------- MODULE Accumulators ----------------------------
(***************************************************************************)
(* The framework accumulators of lena as state machines with the actions   *)
(* Fill(v), Compute, Reset.                                                *)
(*                                                                         *)
(*   lena/math/elements.py     Sum DSum Mean VarianceMeanCount Vectorize   *)
(*   lena/flow/elements.py     Count StoreFilled                           *)
(*   lena/flow/group_by.py     GroupBy (over its arguments group_by/merge) *)
(*   lena/structures/histogram.py  Histogram                               *)
(*   lena/structures/graph.py      Graph  (reset only, see below)          *)
(*                                                                         *)
(* Operational part (written like the code): InitState / FillState /       *)
(* ComputeState / ResetState / Result keep the running aggregate           *)
(* (_total, _count, _sum, group, groups, _hist, _cur_context).             *)
(* Declarative part (written from the documentation): Expected(k, fills)   *)
(* computes the documented aggregate directly from the list of filled      *)
(* values: Count the number of values, Sum Python's sum, DSum the exact    *)
(* sum, Mean sum/count, VarianceMeanCount the sample variance as the mean  *)
(* squared deviation, Vectorize component-wise, StoreFilled/GroupBy the    *)
(* values themselves, Histogram the number of values per cell.             *)
(*                                                                         *)
(* Encodings.                                                              *)
(*  flow value   [d |-> data, c |-> context, h |-> is a (data,context) pair]*)
(*  context      function from key strings; {} is <<>>                     *)
(*  float        exact dyadic as a limb list <<[i |-> index, c |-> coef]>> *)
(*               of value SUM c * B^(i - Unit), B = 2^15; no carries are   *)
(*               needed for addition, equality is by carry propagation     *)
(*  Mean         the exact pair [s |-> sum, n |-> count] (the harness      *)
(*               applies float(s)/float(n))                                *)
(*  variance     the exact rational vnum/vden                              *)
(*  result       [ok |-> TRUE, out |-> <<values yielded>>] or              *)
(*               [ok |-> FALSE, exc |-> class name]  ("Any": an exception  *)
(*               whose class the documentation does not fix)               *)
(*                                                                         *)
(* Element kinds are records [t |-> ..., parameters]; FreshKind(k) is the  *)
(* element "newly constructed" that reset() must be equal to: the same     *)
(* structural parameters, the start values (Count(count=), Sum(total=))    *)
(* at their defaults as the docstrings of their reset() say.               *)
(***************************************************************************)
EXTENDS Integers, Sequences, FiniteSets, TLC, Json

CONSTANTS MaxLen, Kinds, Wide      \* Wide: the larger value domains (thorough tier)

\* sensitivity guard: the wrong reset of Sum that keeps the numeric kind of the total (type(total)(0));
\* Accumulators_wrongnum.cfg overrides it with TRUE and TLC must refute FreshEquiv / Aggregate
WrongNumReset == FALSE
None == -1000
B == 32768
Unit == 72

(***************************************************************************)
(* Contexts and flow values.                                               *)
(***************************************************************************)
E == <<>>
CA == [a |-> 1]
CB == [a |-> 2, count |-> 9]
CN == [a |-> 1, n |-> [b |-> 1]]
CN2 == [a |-> 1, n |-> [b |-> 2]]
CM == [a |-> 2, n |-> [b |-> 1]]
CND == [a |-> 1, n |-> [b |-> 1, d |-> 3]]
CS == [scale |-> 2]
CS3 == [scale |-> 3, a |-> 1]
Put(c, k, v) == [x \in (DOMAIN c) \cup {k} |-> IF x = k THEN v ELSE c[x]]
Del(c, ks) == [x \in (DOMAIN c) \ ks |-> c[x]]
P(d) == [d |-> d, c |-> E, h |-> FALSE]
V(d, c) == [d |-> d, c |-> c, h |-> TRUE]
Out(d, c) == IF DOMAIN c = {} THEN P(d) ELSE V(d, c)        \* _maybe_with_context
Ok(out) == [ok |-> TRUE, out |-> out]
Exc(e) == [ok |-> FALSE, exc |-> e]
ZeroDiv == Exc("LenaZeroDivisionError")

RECURSIVE SumSeq(_)
SumSeq(s) == IF s = <<>> THEN 0 ELSE Head(s) + SumSeq(Tail(s))
Data(fs) == [j \in 1..Len(fs) |-> fs[j].d]
LastCtx(fs) == IF fs = <<>> THEN E ELSE fs[Len(fs)].c
SetMin(S) == CHOOSE x \in S : \A y \in S : x <= y
SetMax(S) == CHOOSE x \in S : \A y \in S : x >= y

(***************************************************************************)
(* Exact dyadic arithmetic on limb polynomials (functions index -> Int).   *)
(***************************************************************************)
PolyOf(ls) == [i \in {ls[j].i : j \in 1..Len(ls)} |->
                 SumSeq([j \in 1..Len(ls) |-> IF ls[j].i = i THEN ls[j].c ELSE 0])]
Coef(p, i) == IF i \in DOMAIN p THEN p[i] ELSE 0
PolyAdd(p, q) == [i \in (DOMAIN p) \cup (DOMAIN q) |-> Coef(p, i) + Coef(q, i)]
PolySub(p, q) == [i \in (DOMAIN p) \cup (DOMAIN q) |-> Coef(p, i) - Coef(q, i)]
RECURSIVE SortedSeq(_)
SortedSeq(S) == IF S = {} THEN <<>> ELSE LET m == SetMin(S) IN <<m>> \o SortedSeq(S \ {m})
PolySeq(p) == LET ix == SortedSeq(DOMAIN p) IN [j \in 1..Len(ix) |-> [i |-> ix[j], c |-> p[ix[j]]]]
\* declarative sum of a list of limb lists: coefficient-wise over all of them at once
PolySum(ds) ==
  LET idx == UNION {{ds[j][k].i : k \in 1..Len(ds[j])} : j \in 1..Len(ds)} IN
  [i \in idx |-> SumSeq([j \in 1..Len(ds) |-> Coef(PolyOf(ds[j]), i)])]
\* the number denoted by p is zero: propagate carries from the lowest limb
RECURSIVE CarryZero(_, _, _, _)
CarryZero(p, i, hi, carry) ==
  IF i > hi THEN carry = 0
  ELSE LET t == Coef(p, i) + carry IN t % B = 0 /\ CarryZero(p, i + 1, hi, t \div B)
PolyIsZero(p) == DOMAIN p = {} \/ CarryZero(p, SetMin(DOMAIN p), SetMax(DOMAIN p), 0)
PolyEq(p, q) == PolyIsZero(PolySub(p, q))

(***************************************************************************)
(* Numbers of different Python kinds (element kind "NSum": Sum filled with *)
(* ints, big ints, floats and Fraction-like numbers, also across a reset). *)
(* A number is [hi, lo, nk]: the non-negative value (hi * 2^27 + lo) / 2   *)
(* (counted in halves, so that 0.5, Fraction(3, 2), 2^53 + 1 are exact)    *)
(* and its kind nk: "int" (exact, unbounded), "frac" (exact,               *)
(* fractions.Fraction) or "float" (a double: 53 significant bits).         *)
(* Python's +: int + int is an int, with a Fraction a Fraction, both       *)
(* exact; with a float both operands are converted to the nearest double   *)
(* (ties to even) and the sum is rounded again.                            *)
(***************************************************************************)
NW == 134217728         \* 2^27
RECURSIVE Pow2(_)
Pow2(n) == IF n = 0 THEN 1 ELSE 2 * Pow2(n - 1)
BitLen(n) == CHOOSE b \in 1..30 : Pow2(b - 1) <= n /\ n < Pow2(b)
NV(hi, lo, nk) == [hi |-> hi, lo |-> lo, nk |-> nk]
NZero == NV(0, 0, "int")
\* the nearest double of an exact number (round half to even); hi < 2^30
NRound(x) ==
  IF x.hi = 0 \/ BitLen(x.hi) <= 26 THEN x
  ELSE LET m == Pow2(BitLen(x.hi) - 26)          \* the bits below the 53rd
           r == x.lo % m
           q == x.lo \div m
           up == 2 * r > m \/ (2 * r = m /\ q % 2 = 1)
           lo2 == (x.lo - r) + (IF up THEN m ELSE 0)
       IN [x EXCEPT !.hi = x.hi + lo2 \div NW, !.lo = lo2 % NW]
NJoin(a, b) == IF "float" \in {a, b} THEN "float" ELSE IF "frac" \in {a, b} THEN "frac" ELSE "int"
NPlus(a, b, nk) == NV(a.hi + b.hi + (a.lo + b.lo) \div NW, (a.lo + b.lo) % NW, nk)
\* a + b as Python computes it
NAdd(a, b) == LET nk == NJoin(a.nk, b.nk) IN
              IF nk = "float" THEN NRound(NPlus(NRound(a), NRound(b), nk)) ELSE NPlus(a, b, nk)
RECURSIVE NFold(_, _)          \* Python's sum(values, start): left to right
NFold(acc, ns) == IF ns = <<>> THEN acc ELSE NFold(NAdd(acc, Head(ns)), Tail(ns))
RECURSIVE NExact(_)            \* the exact sum and the join of the kinds
NExact(ns) == IF ns = <<>> THEN NZero
              ELSE LET t == NExact(Tail(ns)) IN NPlus(Head(ns), t, NJoin(Head(ns).nk, t.nk))

(***************************************************************************)
(* Histogram cells (lower edge included, upper excluded, outside: 0)       *)
(* and graph points.                                                       *)
(***************************************************************************)
\* 1-dimensional: k.edges; 2-dimensional: k.edges x k.edges2.  k.init are the initial bins, however
\* they were given: k.var = "plain" Histogram(edges), "bins" Histogram(edges, bins=init),
\* "make" Histogram(edges, make_bins=lambda: init), "iv" Histogram(edges, initial_value=init[1]),
\* kind "Hist2": Histogram([edges, edges2])
CellIn(edges, x) == IF \E j \in 1..(Len(edges) - 1) : edges[j] <= x /\ x < edges[j + 1]
                    THEN CHOOSE j \in 1..(Len(edges) - 1) : edges[j] <= x /\ x < edges[j + 1] ELSE 0
InitBins(k) == k.init
PtLess(p, q) == p[1] < q[1] \/ (p[1] = q[1] /\ p[2] < q[2])
RECURSIVE InsertPt(_, _)
InsertPt(s, p) == IF s = <<>> THEN <<p>>
                  ELSE IF PtLess(p, Head(s)) THEN <<p>> \o s ELSE <<Head(s)>> \o InsertPt(Tail(s), p)
RECURSIVE SortPts(_)
SortPts(s) == IF s = <<>> THEN <<>> ELSE InsertPt(SortPts(SubSeq(s, 1, Len(s) - 1)), s[Len(s)])

(***************************************************************************)
(* GroupBy(group_by, merge): the configuration space of the element.       *)
(*                                                                         *)
(* A key of the context is a path, the sequence of its dot-separated       *)
(* parts: "a" is <<"a">>, "n.b" is <<"n", "b">>, the empty string (the     *)
(* entire context) is Root = <<>>.  A kind holds the two arguments as they *)
(* are given: gb / mg the sequences of paths, gsp / msp how each is spelt  *)
(* ("omit": not passed, "str": one bare string, "tuple": a tuple of        *)
(* strings).  by = "all" / "a" / "ac" are the short names of GroupBy(),    *)
(* GroupBy("a"), GroupBy(("a", "count")); by = "cfg" carries gb, gsp, mg,  *)
(* msp itself.                                                             *)
(*                                                                         *)
(* Documentation (lena/flow/group_by.py): "group_by defines distinct       *)
(* hashable results for values from different groups ... Only the context  *)
(* part of the value is used ... can be a tuple of strings ... An empty    *)
(* string represents the entire context.  The default arguments add all    *)
(* values from the flow into one group (that is merge takes priority over  *)
(* group_by) ... merge allows ignoring keys."  Declarative reading (DKey): *)
(* the key of a value is the set of the leaves (path, number) of its       *)
(* context that are selected; a leaf is selected when the most specific    *)
(* (longest) path among group_by and merge that is a prefix of its path    *)
(* belongs to group_by.  Operational reading (OKey, written like           *)
(* lena/context/include_exclude_tree.py): an include / exclude tree built  *)
(* from the two arguments level by level, and the part of the context it   *)
(* gets.  TLC checks that both readings form the same groups.              *)
(***************************************************************************)
Root == <<>>
DictKeys == {"n"}          \* the keys that hold sub-dictionaries in the contexts of the model (CN ..)
Rng(s) == {s[j] : j \in 1..Len(s)}
PA == <<"a">>
PC == <<"count">>
PN == <<"n">>
PNB == <<"n", "b">>
Gb(k) == CASE k.by = "all" -> <<Root>> [] k.by = "a" -> <<PA>> [] k.by = "ac" -> <<PA, PC>> [] OTHER -> k.gb
Gsp(k) == CASE k.by = "all" -> "omit" [] k.by = "a" -> "str" [] k.by = "ac" -> "tuple" [] OTHER -> k.gsp
Mg(k) == IF k.by = "cfg" THEN k.mg ELSE <<Root>>
Msp(k) == IF k.by = "cfg" THEN k.msp ELSE "omit"
\* "the default arguments": both are the empty string (passed or not); an empty tuple is not the default
DefaultArgs(k) == /\ Gb(k) = <<Root>> /\ Gsp(k) \in {"omit", "str"}
                  /\ Mg(k) = <<Root>> /\ Msp(k) \in {"omit", "str"}
\* ... "add all values into one group (merge takes priority)": nothing is selected, the entire context is merged
GInc(k) == IF DefaultArgs(k) THEN {} ELSE Rng(Gb(k))
GExc(k) == IF DefaultArgs(k) THEN {Root} ELSE Rng(Mg(k))

\* ---- declarative key
RECURSIVE Leaves(_, _)
Leaves(c, pre) == UNION {IF x \in DictKeys THEN Leaves(c[x], Append(pre, x)) ELSE {<<Append(pre, x), c[x]>>} : x \in DOMAIN c}
IsPrefix(p, q) == Len(p) <= Len(q) /\ SubSeq(q, 1, Len(p)) = p
Governing(k, p) == LET rules == {r \in GInc(k) \cup GExc(k) : IsPrefix(r, p)} IN
                   CHOOSE r \in rules : \A q \in rules : Len(q) <= Len(r)
DKey(k, v) == {l \in Leaves(v.c, <<>>) : Governing(k, l[1]) \in GInc(k)}

\* ---- operational key: _make_include_exclude_tree and IncludeExcludeTree.get
Heads(S) == {p[1] : p \in S}
TailsOf(S, key) == {Tail(p) : p \in {q \in S : q[1] = key}}
RECURSIVE MakeTree(_, _, _)
MakeTree(incs, excs, definc) ==        \* incs, excs: sets of non-empty paths
  LET subkeys == IF definc THEN excs ELSE incs       \* the next nested level are excludes, and then again includes
      subsubs == IF definc THEN incs ELSE excs
      proper == {key \in Heads(subkeys) : TailsOf(subkeys, key) = {<<>>} /\ key \notin Heads(subsubs)}
  IN [extra |-> Heads(subsubs) \ Heads(subkeys),       \* "Remove extra subkeys": LenaValueError
      keys |-> proper, include |-> definc,
      sub |-> [key \in Heads(subkeys) \ proper |->
                 MakeTree(TailsOf(incs, key) \ {<<>>}, TailsOf(excs, key) \ {<<>>},
                          \* the key itself is given: the default changes below it
                          IF <<>> \in TailsOf(subkeys, key) THEN ~definc ELSE definc)]]
Tree(k) == MakeTree(GInc(k) \ {Root}, GExc(k) \ {Root}, Root \in GInc(k))
RECURSIVE TreeOk(_)
TreeOk(t) == t.extra = {} /\ \A key \in DOMAIN t.sub : TreeOk(t.sub[key])
\* the configurations that GroupBy accepts: the root in exactly one of the two arguments, properly nested keys
ValidCfg(k) == /\ (Root \in GInc(k)) # (Root \in GExc(k))
               /\ GInc(k) \cap GExc(k) = {}
               /\ TreeOk(Tree(k))
RECURSIVE Get(_, _)
Get(t, c) ==
  LET viaSub(x) == x \in DOMAIN t.sub
      \* a key that is not selected itself is kept only as a path to selected subkeys
      keepSub(x) == IF x \in DictKeys THEN t.sub[x].include \/ DOMAIN Get(t.sub[x], c[x]) # {}
                    ELSE t.sub[x].include
      kept == {x \in DOMAIN c : IF t.include THEN x \notin t.keys /\ (viaSub(x) => keepSub(x))
                                ELSE x \in t.keys \/ (viaSub(x) /\ keepSub(x))}
  IN [x \in kept |-> IF viaSub(x) /\ x \in DictKeys THEN Get(t.sub[x], c[x]) ELSE c[x]]
OKey(k, v) == Get(Tree(k), v.c)
\* a path leads to a number or a sub-dictionary of the context
RECURSIVE Resolves(_, _)
Resolves(c, p) == \/ p = Root
                  \/ /\ p[1] \in DOMAIN c
                     /\ Len(p) = 1 \/ (p[1] \in DictKeys /\ Resolves(c[p[1]], Tail(p)))

(***************************************************************************)
(* Value domains of the bounded model.                                     *)
(***************************************************************************)
\* 0 as data, a (data, {}) pair, contexts with one / several keys (CB already holds Count's key)
NumVals == {P(0), V(-2, E), V(3, CA), V(1, CB)}
NumValsMore == NumVals \cup {P(2), V(-1, CN)}
D(i, c) == <<[i |-> i, c |-> c]>>
\* 3*2^60, -3*2^60, 2^-60 (lost by float addition), 0.5 twice = a carry, 1 + 2^-15
DVals == {P(D(76, 3)), P(D(76, -3)), V(D(68, 1), CA), P(D(71, 16384))}
DValsMore == DVals \cup {V(<<[i |-> 71, c |-> 1], [i |-> 72, c |-> 1]>>, CB), P(D(72, 32767))}
\* a vector is a flow value whose data is a tuple of component flow values (Vectorize fills data[i])
VecVals(vs) ==
  CASE vs = "num2" -> {P(<<P(0), P(2)>>), V(<<P(-2), P(1)>>, CA), V(<<P(3), P(3)>>, CB)}
    [] vs = "num3" -> {P(<<P(0), P(2), P(1)>>), V(<<P(-2), P(1), P(4)>>, CA), V(<<P(3), P(3), P(-1)>>, CB)}
    [] vs = "pair2" -> {P(<<V(1, CA), V(5, CA)>>), P(<<V(2, CB), V(6, CA)>>), V(<<V(3, CA), V(7, CB)>>, CN)}
    [] vs = "pair3" -> {P(<<V(1, CA), V(5, CA), P(0)>>), V(<<V(2, CB), V(6, E), V(1, CA)>>, CA), P(<<V(3, CA), P(7), P(2)>>)}
    [] vs = "mixed3" -> {P(<<P(1), P(2), P(3)>>), V(<<V(4, CA), V(0, CB), P(-1)>>, CB), V(<<P(2), P(2), P(2)>>, CA)}
Pad == [pad |-> TRUE]      \* None: padding of the shorter components (zip_longest)
\* construct(*row); operator.add of two bare numbers, a TypeError (padding) falls back to the tuple
Construct(k, row) == IF k.cons = "add" /\ \A i \in 1..Len(row) : "pad" \notin DOMAIN row[i]
                     THEN row[1].d + row[2].d ELSE row
HistVals == {P(0), V(1, CA), P(-1), V(3, CB)}
HistValsMore == HistVals \cup {P(2), V(2, E)}
Hist2Vals == {P(<<0, 0>>), V(<<2, 3>>, CA), P(<<1, 4>>), V(<<-1, 1>>, CB)}
GraphVals == {P(<<1, 5>>), P(<<0, 7>>), V(<<2, 1>>, CS), V(<<0, 0>>, CS3)}
\* GroupBy by / ignoring keys of the sub-dictionary n: contexts that differ in a, in n.b, in a further key of n
\* (the data are labels of the "odd" objects as well)
NestVals == {V(3, CN), V(1, CN2), V(-1, CM), V(2, CND)}
NestValsMore == NestVals \cup {V(0, [n |-> [b |-> 2]]), V(-2, [a |-> 2, n |-> [d |-> 3]])}
Nested(k) == \E p \in (Rng(Gb(k)) \cup Rng(Mg(k))) \ {Root} : p[1] \in DictKeys
\* a GroupBy that selects given keys only is filled with values whose context has at least one of them
GroupVals(k) ==
  LET base == IF Nested(k) THEN (IF Wide THEN NestValsMore ELSE NestVals)
              ELSE (IF Wide THEN NumValsMore ELSE NumVals) IN
  IF Root \in GInc(k) \/ GInc(k) = {} THEN base ELSE {v \in base : \E p \in GInc(k) : Resolves(v.c, p)}
\* 3, 0.5, the big int 2^53 + 1 (not a double), Fraction(3, 2), the double 2.0^53 (2.0^53 + 3 rounds to 2^53 + 4)
NumKindVals == {P(NV(0, 6, "int")), V(NV(0, 1, "float"), CA), P(NV(NW, 2, "int")), V(NV(0, 3, "frac"), CB),
                P(NV(NW, 0, "float"))}
ValsOf(k) ==
  CASE k.t = "NSum" -> NumKindVals
    [] k.t = "DSum" -> IF Wide THEN DValsMore ELSE DVals
    [] k.t = "Mean" -> IF k.inner = "DSum" THEN (IF Wide THEN DValsMore ELSE DVals)
                       ELSE (IF Wide THEN NumValsMore ELSE NumVals)
    [] k.t = "Vec" -> VecVals(k.vs)
    [] k.t = "Hist" -> IF Wide THEN HistValsMore ELSE HistVals
    [] k.t = "Hist2" -> Hist2Vals
    [] k.t = "Graph" -> GraphVals
    [] k.t = "GroupBy" -> GroupVals(k)
    [] OTHER -> IF Wide THEN NumValsMore ELSE NumVals

\* opt: a variant that only the binding distinguishes (the model is the same):
\*   "half"  Sum / Mean / VarianceMeanCount on floats: every number x of the model is the float x/2 (exact)
\*   "odd"   Count / StoreFilled / GroupBy: the data are values that look like nothing (None, "", [], False, 0.0 ..)
\*   "dep"   GroupBy driven through its deprecated aliases update() / clear()
\*   "wrap"  Vectorize whose components are FillComputeSeq sequences around the elements
CountO(name, start, opt) == [t |-> "Count", name |-> name, start |-> start, opt |-> opt]
Count0 == CountO("count", 0, "")
Count2 == CountO("n2", 2, "")
\* names with a dot (the documented key is {name: count}, a flat key), also when the part before the dot is a key
\* of the context (a dictionary "n" in CN, a number "count" in CB); a name that is a key of the context
CountDot == CountO("n.b", 0, "")
CountDot2 == CountO("count.sel", 2, "")
CountA == CountO("a", 0, "")
SumO(start, opt) == [t |-> "Sum", start |-> start, opt |-> opt]
Sum0 == SumO(0, "")
Sum5 == SumO(5, "")
NSumK == [t |-> "NSum"]        \* Sum() filled with numbers of every Python kind
DSumK == [t |-> "DSum", dstart |-> <<>>]
DSum5 == [t |-> "DSum", dstart |-> D(72, 5)]          \* DSum(total=5)
MeanO(inner, poe, opt) == [t |-> "Mean", inner |-> inner, poe |-> poe, opt |-> opt]
MeanK(inner, poe) == MeanO(inner, poe, "")
\* Mean.inner: "py" (no sum_seq), "DSum" / "Sum" (sum_seq = DSum() / Sum()), "Sum2" (sum_seq yields two
\* values: Split([Sum(), Count()]): the sum, then the count with Count's context merged into the yielded
\* context; all are yielded, only the first is divided; such a Mean has a reset that
\* raises LenaAttributeError), "Count" (sum_seq = Count(): a sum_seq whose result carries a context, which
\* is merged into the yielded context; the "sum" is the number of values)
VMCo(corr, poe, given, opt) == [t |-> "VMC", corr |-> corr, poe |-> poe, given |-> given, opt |-> opt]
VMCg(corr, poe, given) == VMCo(corr, poe, given, "")
VMC(corr, poe) == VMCg(corr, poe, FALSE)       \* given: sum_sq = Sum(), sum_ = Sum() passed explicitly
\* Vectorize(seq, dim=n) (form "dim": n copies of one element) or Vectorize([seq1, ..]) (form "list");
\* cons = "named": construct = a namedtuple class; "add": construct = operator.add (raises TypeError on a
\* padded row: "a tuple is yielded"); vs: the vectors it is filled with
VecW(inners, form, cons, vs, opt) == [t |-> "Vec", inners |-> inners, form |-> form, cons |-> cons, vs |-> vs, opt |-> opt]
VecOf(inners, form, cons, vs) == VecW(inners, form, cons, vs, "")
Vec(inner) == VecOf(<<inner, inner>>, "dim", "tuple", "num2")
StoreO(grp, opt) == [t |-> "Store", grp |-> grp, opt |-> opt]
Store(grp) == StoreO(grp, "")
GroupByO(by, opt) == [t |-> "GroupBy", by |-> by, opt |-> opt]
GroupByK(by) == GroupByO(by, "")
\* GroupBy(group_by, merge) with the arguments as given (paths, spelling), see above
GroupByC(gb, gsp, mg, msp, opt) == [t |-> "GroupBy", by |-> "cfg", gb |-> gb, gsp |-> gsp, mg |-> mg, msp |-> msp, opt |-> opt]
GroupByCfgs ==
  {GroupByC(<<Root>>, "str", <<>>, "tuple", ""),              \* GroupBy("", merge=()): by the entire context
   GroupByC(<<Root>>, "str", <<Root>>, "str", ""),            \* GroupBy("", ""): the default arguments, passed
   GroupByC(<<>>, "tuple", <<Root>>, "tuple", ""),            \* GroupBy((), ("",)): merge everything
   GroupByC(<<Root>>, "omit", <<PA>>, "str", ""),             \* GroupBy(merge="a"): the context but a
   GroupByC(<<Root>>, "str", <<PA, PC>>, "tuple", ""),        \* GroupBy("", ("a", "count"))
   GroupByC(<<PA>>, "tuple", <<Root>>, "str", ""),            \* GroupBy(("a",), "")
   GroupByC(<<Root>>, "omit", <<PNB>>, "str", ""),            \* GroupBy(merge="n.b"): a nested key ignored
   GroupByC(<<PNB>>, "str", <<Root>>, "omit", ""),            \* GroupBy("n.b"): by a nested key
   GroupByC(<<Root, PNB>>, "tuple", <<PN>>, "tuple", "")}     \* GroupBy(("", "n.b"), ("n",)): n ignored but for n.b
GroupByCfgsMore ==
  {GroupByC(<<Root>>, "tuple", <<>>, "tuple", ""),            \* GroupBy(("",), ())
   GroupByC(<<Root>>, "tuple", <<>>, "tuple", "dep"),
   GroupByC(<<Root>>, "str", <<>>, "tuple", "odd"),
   GroupByC(<<Root>>, "omit", <<Root>>, "str", ""),           \* GroupBy(merge="")
   GroupByC(<<>>, "tuple", <<Root>>, "omit", ""),             \* GroupBy(())
   GroupByC(<<Root>>, "tuple", <<PA>>, "tuple", "dep"),       \* GroupBy(("",), ("a",))
   GroupByC(<<Root>>, "omit", <<PC, PA>>, "tuple", ""),       \* GroupBy(merge=("count", "a"))
   GroupByC(<<PC, PA>>, "tuple", <<Root>>, "tuple", ""),      \* GroupBy(("count", "a"), ("",))
   GroupByC(<<Root>>, "str", <<PN>>, "str", ""),              \* GroupBy("", "n"): a sub-dictionary ignored
   GroupByC(<<PN>>, "str", <<Root>>, "str", ""),              \* GroupBy("n", ""): by a sub-dictionary
   GroupByC(<<PA, PNB>>, "tuple", <<Root>>, "omit", ""),      \* GroupBy(("a", "n.b"))
   GroupByC(<<Root>>, "str", <<PNB, PA>>, "tuple", ""),       \* GroupBy("", ("n.b", "a"))
   GroupByC(<<PN>>, "tuple", <<Root, PNB>>, "tuple", ""),     \* GroupBy(("n",), ("", "n.b")): n but for n.b
   GroupByC(<<PNB, Root>>, "tuple", <<PN, PA>>, "tuple", "odd")}
Hist(var) == [t |-> "Hist", var |-> var, edges |-> <<0, 1, 2, 3>>,
              init |-> CASE var = "plain" -> <<0, 0, 0>> [] var = "bins" -> <<1, 0, 2>>
                         [] var = "make" -> <<5, 5, 5>> [] var = "iv" -> <<7, 7, 7>>]
\* var as for the 1-dimensional kind: "plain" Histogram([edges, edges2]), "bins" explicit nested initial bins,
\* "make" make_bins returning new nested bins (reset must rebuild every row, not only the outer list)
Hist2(var) == [t |-> "Hist2", var |-> var, edges |-> <<0, 1, 2, 3>>, edges2 |-> <<0, 2, 4>>,
               init2 |-> CASE var = "plain" -> <<<<0, 0>>, <<0, 0>>, <<0, 0>>>>
                           [] var = "bins" -> <<<<1, 0>>, <<0, 2>>, <<3, 0>>>>
                           [] var = "make" -> <<<<5, 5>>, <<5, 5>>, <<5, 5>>>>]
GraphI(scale, sort, ipts, ictx) == [t |-> "Graph", scale |-> scale, sort |-> sort, ipts |-> ipts, ictx |-> ictx]
GraphK(scale, sort) == GraphI(scale, sort, <<>>, E)
AllKinds == {Count0, Count2, Sum0, Sum5, DSumK, NSumK,
             MeanK("py", FALSE), MeanK("py", TRUE), MeanK("DSum", FALSE),
             VMC(TRUE, FALSE), VMC(FALSE, FALSE), VMC(TRUE, TRUE),
             Vec(Sum0), Vec(MeanK("py", FALSE)),
             DSum5, MeanK("Sum", FALSE), MeanK("Sum2", TRUE), VMCg(TRUE, FALSE, TRUE),
             VecOf(<<Sum0, Sum0, Sum0>>, "dim", "tuple", "num3"),
             VecOf(<<Sum0, Sum0>>, "dim", "named", "num2"),
             VecOf(<<Store(FALSE), Sum0>>, "list", "tuple", "num2"),
             VecOf(<<GroupByK("a"), GroupByK("a")>>, "list", "tuple", "pair2"),
             VecOf(<<MeanK("py", TRUE), Sum0>>, "list", "tuple", "num2"),
             VecOf(<<Sum0, MeanK("py", FALSE)>>, "list", "tuple", "num2"),
             VecOf(<<Store(TRUE), Count0, Sum5>>, "list", "tuple", "mixed3"),
             GraphI(None, TRUE, <<<<1, 7>>, <<0, 3>>>>, CA),
             SumO(5, "half"), VMCo(FALSE, FALSE, FALSE, "half"), MeanK("Count", FALSE),
             VecW(<<Sum0, Sum0>>, "dim", "tuple", "num2", "wrap"),
             VecOf(<<Store(FALSE), Sum0>>, "list", "add", "num2"),
             GroupByO("a", "dep"), StoreO(FALSE, "odd"), CountO("count", 0, "odd"),
             Store(TRUE), Store(FALSE), GroupByK("all"), GroupByK("a"), GroupByK("ac"), CountDot, CountDot2,
             Hist("plain"), Hist("bins"), Hist("make"), Hist("iv"), Hist2("plain"), Hist2("bins"), Hist2("make"),
             GraphK(None, TRUE), GraphK(None, FALSE), GraphK(2, TRUE)} \cup GroupByCfgs

\* thorough tier only
MoreKinds == {VecOf(<<Sum0, Store(FALSE)>>, "list", "tuple", "num2"),
              VecOf(<<Store(FALSE), Store(TRUE)>>, "list", "tuple", "pair2"),
              VecOf(<<GroupByK("a"), GroupByK("all"), Count2>>, "list", "tuple", "pair3"),
              VecOf(<<VMC(TRUE, FALSE), Sum0>>, "list", "tuple", "num2"),
              VecOf(<<MeanK("py", TRUE), MeanK("py", TRUE), MeanK("py", TRUE)>>, "dim", "tuple", "num3"),
              MeanK("Sum", TRUE), MeanK("Sum2", FALSE), VMCg(FALSE, TRUE, TRUE),
              MeanO("py", FALSE, "half"), VMCo(TRUE, FALSE, FALSE, "half"), MeanK("Count", TRUE),
              GroupByO("a", "odd"), GroupByO("all", "dep"), StoreO(TRUE, "odd"), CountA, GroupByO("ac", "dep"),
              VecW(<<MeanK("py", TRUE), Store(FALSE)>>, "list", "tuple", "num2", "wrap"),
              VecOf(<<Sum0, Sum0>>, "dim", "add", "num2"),
              GraphI(2, FALSE, <<<<1, 7>>, <<0, 3>>>>, CS),
              VecOf(<<GroupByC(<<Root>>, "str", <<>>, "tuple", ""), GroupByC(<<Root>>, "omit", <<PA>>, "tuple", "")>>,
                    "list", "tuple", "pair2")} \cup GroupByCfgsMore
\* every GroupBy of the model is a configuration that the element accepts
RECURSIVE GroupBysOf(_)
GroupBysOf(k) == IF k.t = "GroupBy" THEN {k}
                 ELSE IF k.t = "Vec" THEN UNION {GroupBysOf(k.inners[i]) : i \in 1..Len(k.inners)} ELSE {}
ASSUME \A k \in AllKinds \cup MoreKinds : \A g \in GroupBysOf(k) : ValidCfg(g)
ThoroughKinds == AllKinds \cup MoreKinds
NumKinds == {NSumK}
TrueConst == TRUE
RECURSIVE FreshKind(_)
FreshKind(k) == CASE k.t = "Count" -> [k EXCEPT !.start = 0]
                  [] k.t = "Sum" -> [k EXCEPT !.start = 0]
                  [] k.t = "DSum" -> [k EXCEPT !.dstart = <<>>]
                  [] k.t = "Vec" -> [k EXCEPT !.inners = [i \in 1..Len(k.inners) |-> FreshKind(k.inners[i])]]
                  [] k.t = "Graph" -> [k EXCEPT !.ipts = <<>>, !.ictx = E]
                  [] OTHER -> k
HasReset(k) == ~(k.t = "Mean" /\ k.inner = "Sum2")

(***************************************************************************)
(* Operational part.                                                       *)
(***************************************************************************)
RECURSIVE InitState(_)
InitState(k) ==
  CASE k.t = "Count" -> [n |-> k.start, ctx |-> E]
    [] k.t = "Sum" -> [total |-> k.start, ctx |-> E]
    [] k.t = "NSum" -> [total |-> NZero, ctx |-> E]
    [] k.t = "DSum" -> [total |-> PolyOf(k.dstart), ctx |-> E]
    [] k.t = "Mean" -> [sum |-> IF k.inner = "DSum" THEN <<>> ELSE 0, count |-> 0, ctx |-> E]
    [] k.t = "VMC" -> [sumsq |-> 0, sum |-> 0, count |-> 0, ctx |-> E]
    [] k.t = "Vec" -> [els |-> [i \in 1..Len(k.inners) |-> InitState(k.inners[i])], ctx |-> E]
    [] k.t = "Store" -> [group |-> <<>>]
    [] k.t = "GroupBy" -> [groups |-> <<>>]
    [] k.t = "Hist" -> [bins |-> InitBins(k), oor |-> 0, ctx |-> E]
    [] k.t = "Hist2" -> [bins |-> k.init2, oor |-> 0, ctx |-> E]
    [] k.t = "Graph" -> [points |-> k.ipts, ctx |-> k.ictx, scale |-> k.scale]

RECURSIVE FillState(_, _, _)
FillState(k, s, v) ==
  CASE k.t = "Count" -> [n |-> s.n + 1, ctx |-> v.c]
    [] k.t = "Sum" -> [total |-> s.total + v.d, ctx |-> v.c]
    [] k.t = "NSum" -> [total |-> NAdd(s.total, v.d), ctx |-> v.c]
    [] k.t = "DSum" -> [total |-> PolyAdd(s.total, PolyOf(v.d)), ctx |-> v.c]
    [] k.t = "Mean" -> [sum |-> IF k.inner = "DSum" THEN PolyAdd(s.sum, PolyOf(v.d))
                                ELSE IF k.inner = "Count" THEN s.sum + 1 ELSE s.sum + v.d,
                        count |-> s.count + 1, ctx |-> v.c]
    [] k.t = "VMC" -> [sumsq |-> s.sumsq + v.d * v.d, sum |-> s.sum + v.d, count |-> s.count + 1, ctx |-> v.c]
    [] k.t = "Vec" -> [els |-> [i \in 1..Len(k.inners) |-> FillState(k.inners[i], s.els[i], v.d[i])], ctx |-> v.c]
    [] k.t = "Store" -> [group |-> Append(s.group, v)]
    [] k.t = "GroupBy" ->
         LET key == OKey(k, v) IN
         IF \E j \in 1..Len(s.groups) : s.groups[j].key = key
         THEN [groups |-> [j \in 1..Len(s.groups) |->
                  IF s.groups[j].key = key THEN [key |-> key, vals |-> Append(s.groups[j].vals, v)]
                  ELSE s.groups[j]]]
         ELSE [groups |-> Append(s.groups, [key |-> key, vals |-> <<v>>])]
    [] k.t = "Hist" ->
         LET cell == CellIn(k.edges, v.d) IN
         IF cell = 0 THEN [s EXCEPT !.oor = @ + 1, !.ctx = v.c]
         ELSE [s EXCEPT !.bins[cell] = @ + 1, !.ctx = v.c]
    [] k.t = "Hist2" ->
         LET cx == CellIn(k.edges, v.d[1]) cy == CellIn(k.edges2, v.d[2]) IN
         IF cx = 0 \/ cy = 0 THEN [s EXCEPT !.oor = @ + 1, !.ctx = v.c]
         ELSE [s EXCEPT !.bins[cx][cy] = @ + 1, !.ctx = v.c]
    [] k.t = "Graph" -> [s EXCEPT !.points = Append(@, v.d), !.ctx = v.c]

\* Graph._update: a scale in the current context is stored in the graph; a different one is an error
GScaleCtx(s) == IF "scale" \in DOMAIN s.ctx THEN s.ctx.scale ELSE None
GConflict(s) == GScaleCtx(s) # None /\ s.scale # None /\ s.scale # GScaleCtx(s)
GNewScale(s) == IF GScaleCtx(s) # None THEN GScaleCtx(s) ELSE s.scale

RECURSIVE Result(_, _)
Result(k, s) ==
  CASE k.t = "Count" -> Ok(<<V(s.n, Put(s.ctx, k.name, s.n))>>)
    [] k.t = "Sum" -> Ok(<<Out(s.total, s.ctx)>>)
    [] k.t = "NSum" -> Ok(<<Out(s.total, s.ctx)>>)
    [] k.t = "DSum" -> Ok(<<Out(PolySeq(s.total), s.ctx)>>)
    [] k.t = "Mean" ->
         IF s.count = 0 THEN (IF k.poe THEN Ok(<<>>) ELSE ZeroDiv)
         ELSE Ok(<<Out([s |-> IF k.inner = "DSum" THEN PolySeq(s.sum) ELSE s.sum, n |-> s.count],
                       \* update_recursively(context, context of the sum): Count brings its key
                       IF k.inner = "Count" THEN Put(s.ctx, "count", s.sum) ELSE s.ctx)>>
                 \o (IF k.inner = "Sum2" THEN <<V(s.count, Put(s.ctx, "count", s.count))>> ELSE <<>>))
    [] k.t = "VMC" ->
         IF s.count = 0 THEN (IF k.poe THEN Ok(<<>>) ELSE ZeroDiv)
         ELSE IF k.corr /\ s.count = 1 THEN ZeroDiv
         ELSE LET n == s.count IN
              \* mean_sq - mean**2, times n/(n-1) if corrected, over a common denominator
              Ok(<<Out([vnum |-> n * (n * s.sumsq - s.sum * s.sum),
                        vden |-> IF k.corr THEN n * n * (n - 1) ELSE n * n * n,
                        s |-> s.sum, n |-> n], s.ctx)>>)
    [] k.t = "Vec" ->
         \* zip_longest of the components' compute(): the longest output, the others padded with None;
         \* an exception of a component is raised by the first next()
         LET n == Len(k.inners)
             rs == [i \in 1..n |-> Result(k.inners[i], s.els[i])] IN
         IF \E i \in 1..n : ~rs[i].ok THEN Exc("Any")
         ELSE Ok([j \in 1..SetMax({Len(rs[i].out) : i \in 1..n}) |->
                    Out(Construct(k, [i \in 1..n |-> IF j <= Len(rs[i].out) THEN rs[i].out[j] ELSE Pad]), s.ctx)])
    [] k.t = "Store" -> IF k.grp THEN Ok(<<P(s.group)>>) ELSE Ok(s.group)
    [] k.t = "GroupBy" -> Ok([j \in 1..Len(s.groups) |-> P(s.groups[j].vals)])
    [] k.t \in {"Hist", "Hist2"} -> Ok(<<V([bins |-> s.bins, oor |-> s.oor], s.ctx)>>)
    [] k.t = "Graph" ->
         IF GConflict(s) THEN Exc("Any")
         ELSE LET c1 == Put(s.ctx, "scale", GNewScale(s))
                  c2 == IF s.points = <<>> THEN c1 ELSE Put(c1, "dim", 1)
              IN Ok(<<V(IF k.sort THEN SortPts(s.points) ELSE s.points, c2)>>)

\* compute() leaves the aggregate alone; only Graph stores the scale and sorts its points
ComputeState(k, s) ==
  IF k.t = "Graph" /\ ~GConflict(s)
  THEN [s EXCEPT !.scale = GNewScale(s), !.points = IF k.sort THEN SortPts(@) ELSE @]
  ELSE s

\* reset() written like the (intended) code, element by element
RECURSIVE ResetState(_, _)
ResetState(k, s) ==
  CASE k.t = "Count" -> [n |-> 0, ctx |-> E]
    [] k.t = "Sum" -> [total |-> 0, ctx |-> E]
    [] k.t = "NSum" -> [total |-> IF WrongNumReset THEN [NZero EXCEPT !.nk = s.total.nk] ELSE NZero, ctx |-> E]
    [] k.t = "DSum" -> [total |-> <<>>, ctx |-> E]
    [] k.t = "Mean" -> [sum |-> IF k.inner = "DSum" THEN <<>> ELSE 0, count |-> 0, ctx |-> E]
    [] k.t = "VMC" -> [sumsq |-> 0, sum |-> 0, count |-> 0, ctx |-> E]
    [] k.t = "Vec" -> [els |-> [i \in 1..Len(k.inners) |-> ResetState(k.inners[i], s.els[i])], ctx |-> E]
    [] k.t = "Store" -> [group |-> <<>>]
    [] k.t = "GroupBy" -> [groups |-> <<>>]
    [] k.t = "Hist" -> [bins |-> InitBins(k), oor |-> 0, ctx |-> E]   \* make_bins() / initial bins / initial_value
    [] k.t = "Hist2" -> [bins |-> k.init2, oor |-> 0, ctx |-> E]
    [] k.t = "Graph" -> [points |-> <<>>, ctx |-> E, scale |-> k.scale]

(***************************************************************************)
(* Declarative part: the documented aggregate of a list of filled values.  *)
(***************************************************************************)
RECURSIVE Firsts(_, _)    \* distinct group keys in order of first appearance
Firsts(ks, seen) == IF ks = <<>> THEN <<>>
                    ELSE IF Head(ks) \in seen THEN Firsts(Tail(ks), seen)
                    ELSE <<Head(ks)>> \o Firsts(Tail(ks), seen \cup {Head(ks)})
RECURSIVE Expected(_, _)
Expected(k, fs) ==
  LET n == Len(fs)  c == LastCtx(fs)  ds == Data(fs) IN
  CASE k.t = "Count" -> Ok(<<V(k.start + n, Put(c, k.name, k.start + n))>>)
    [] k.t = "Sum" -> Ok(<<Out(k.start + SumSeq(ds), c)>>)
    [] k.t = "NSum" -> Ok(<<Out(NFold(NZero, ds), c)>>)        \* the int 0 is where a new Sum starts
    [] k.t = "DSum" -> Ok(<<Out(PolySeq(PolySum(<<k.dstart>> \o ds)), c)>>)
    [] k.t = "Mean" ->
         IF n = 0 THEN (IF k.poe THEN Ok(<<>>) ELSE ZeroDiv)
         ELSE Ok(<<Out([s |-> IF k.inner = "DSum" THEN PolySeq(PolySum(ds))
                                ELSE IF k.inner = "Count" THEN n ELSE SumSeq(ds), n |-> n],
                       IF k.inner = "Count" THEN Put(c, "count", n) ELSE c)>>
                 \o (IF k.inner = "Sum2" THEN <<V(n, Put(c, "count", n))>> ELSE <<>>))
    [] k.t = "VMC" ->
         IF n = 0 THEN (IF k.poe THEN Ok(<<>>) ELSE ZeroDiv)
         ELSE IF k.corr /\ n = 1 THEN ZeroDiv
         ELSE LET S == SumSeq(ds) IN
              \* sum of squared deviations from the mean S/n: SUM (x - S/n)^2 = SUM (n x - S)^2 / n^2,
              \* divided by n - 1 (sample variance) or n
              Ok(<<Out([vnum |-> SumSeq([j \in 1..n |-> (n * ds[j] - S) * (n * ds[j] - S)]),
                        vden |-> IF k.corr THEN n * n * (n - 1) ELSE n * n * n,
                        s |-> S, n |-> n], c)>>)
    [] k.t = "Vec" ->
         \* row j, column i: the j-th result of component i on its own column of the vectors if it has
         \* one, else None; as many rows as the longest component yields
         LET m == Len(k.inners)
             rs == [i \in 1..m |-> Expected(k.inners[i], [j \in 1..n |-> ds[j][i]])] IN
         IF \E i \in 1..m : ~rs[i].ok THEN Exc("Any")
         ELSE Ok([j \in 1..SetMax({Len(rs[i].out) : i \in 1..m}) |->
                    Out(Construct(k, [i \in 1..m |-> IF j <= Len(rs[i].out) THEN rs[i].out[j] ELSE Pad]), c)])
    [] k.t = "Store" -> IF k.grp THEN Ok(<<P(fs)>>) ELSE Ok(fs)
    [] k.t = "GroupBy" ->
         LET keys == Firsts([j \in 1..n |-> DKey(k, fs[j])], {}) IN
         Ok([g \in 1..Len(keys) |-> P(SelectSeq(fs, LAMBDA v : DKey(k, v) = keys[g]))])
    [] k.t = "Hist2" ->
           LET In(j, cx, cy) == CellIn(k.edges, ds[j][1]) = cx /\ CellIn(k.edges2, ds[j][2]) = cy IN
           Ok(<<V([bins |-> [cx \in 1..(Len(k.edges) - 1) |-> [cy \in 1..(Len(k.edges2) - 1) |->
                                k.init2[cx][cy] + Cardinality({j \in 1..n : In(j, cx, cy)})]],
                   oor |-> Cardinality({j \in 1..n : CellIn(k.edges, ds[j][1]) = 0 \/ CellIn(k.edges2, ds[j][2]) = 0})], c)>>)
    [] k.t = "Hist" ->
           Ok(<<V([bins |-> [cell \in 1..(Len(k.edges) - 1) |->
                                InitBins(k)[cell] + Cardinality({j \in 1..n : CellIn(k.edges, ds[j]) = cell})],
                   oor |-> Cardinality({j \in 1..n : CellIn(k.edges, ds[j]) = 0})], c)>>)

(***************************************************************************)
(* The machine.  since = operations after the last reset; ekind = the      *)
(* element the current one must be equal to (kind, after a reset           *)
(* FreshKind(kind)); res = what the latest compute() yielded.              *)
(***************************************************************************)
VARIABLES kind, ekind, st, since, res, op, h
vars == <<kind, ekind, st, since, res, op, h>>
core == <<kind, ekind, st, since, res, op>>

InitFor(k) == /\ kind = k /\ ekind = k /\ st = InitState(k) /\ since = <<>>
              /\ res = Ok(<<>>) /\ op = "init"
Init == (\E k \in Kinds : InitFor(k)) /\ h = <<>>

FillA(v) == /\ st' = FillState(ekind, st, v)
            /\ since' = Append(since, [op |-> "f", x |-> v]) /\ op' = "fill"
            /\ UNCHANGED <<kind, ekind, res>>
ComputeA == /\ res' = Result(ekind, st) /\ st' = ComputeState(ekind, st)
            /\ since' = Append(since, [op |-> "c", x |-> 0]) /\ op' = "compute"
            /\ UNCHANGED <<kind, ekind>>
ResetA == /\ st' = ResetState(ekind, st) /\ ekind' = FreshKind(kind)
          /\ since' = <<>> /\ op' = "reset" /\ UNCHANGED <<kind, res>>

FillFits(v) == kind.t = "NSum" => st.total.hi + v.d.hi < 268435456       \* BitLen is defined below 2^30
Fill == /\ Len(h) < MaxLen
        /\ \E v \in ValsOf(kind) : FillFits(v) /\ FillA(v) /\ h' = Append(h, [op |-> "f", x |-> v])
Compute == /\ Len(h) < MaxLen /\ ComputeA /\ h' = Append(h, [op |-> "c", x |-> res'])
\* Mean over a sum_seq without reset: reset() raises LenaAttributeError and changes nothing
ResetRaises == /\ op' = "resetx" /\ UNCHANGED <<kind, ekind, st, since, res>>
Reset == /\ Len(h) < MaxLen
         /\ IF HasReset(kind) THEN ResetA /\ h' = Append(h, [op |-> "r", x |-> 0])
            ELSE ResetRaises /\ h' = Append(h, [op |-> "rx", x |-> 0])
Next == Fill \/ Compute \/ Reset
Spec == Init /\ [][Next]_vars

(***************************************************************************)
(* Properties.                                                             *)
(***************************************************************************)
FillsOf(ops) == LET f == SelectSeq(ops, LAMBDA o : o.op = "f") IN [j \in 1..Len(f) |-> f[j].x]
HasAggregate(k) == k.t # "Graph"
\* the running state denotes the documented aggregate of the values filled since the last reset
Aggregate == HasAggregate(ekind) => Result(ekind, st) = Expected(ekind, FillsOf(since))
Yielded == (op = "compute" /\ HasAggregate(ekind)) => res = Expected(ekind, FillsOf(since))
\* the element is where a newly constructed one would be after the operations since the last reset
RECURSIVE Replay(_, _, _)
Replay(k, s, ops) == IF ops = <<>> THEN s
                     ELSE Replay(k, IF Head(ops).op = "f" THEN FillState(k, s, Head(ops).x) ELSE ComputeState(k, s),
                                 Tail(ops))
FreshEquiv == st = Replay(ekind, InitState(ekind), since)
ResetIsFresh == [][op' = "reset" => st' = InitState(FreshKind(kind))]_vars
\* result context = context of the last filled value, extended only by the element's own keys
OwnKeys(k) == CASE k.t = "Count" -> {k.name} [] k.t = "Graph" -> {"scale", "dim"}
                [] k.t = "Mean" /\ k.inner \in {"Count", "Sum2"} -> {"count"}   \* contexts of the sum_seq's results
                [] OTHER -> {}
ContextOfLast ==
  (op = "compute" /\ res.ok /\ ekind.t \notin {"Store", "GroupBy"}) =>
     \A j \in 1..Len(res.out) :
        LET fs == FillsOf(since)
            lc == IF fs = <<>> /\ ekind.t = "Graph" THEN ekind.ictx ELSE LastCtx(fs) IN
        /\ Del(res.out[j].c, OwnKeys(ekind)) = Del(lc, OwnKeys(ekind))
        /\ (DOMAIN res.out[j].c) \ (DOMAIN lc) \subseteq OwnKeys(ekind)
\* a second compute() yields the same and changes nothing
ComputeIdempotent ==
  [][op' = "compute" => /\ Result(ekind, st') = res'
                        /\ ComputeState(ekind, st') = st']_vars
\* the aggregate does not depend on what was filled before the last reset
NoMemory == (since = <<>> /\ op = "reset") => st = InitState(ekind)
\* algebra used by the code of VarianceMeanCount: SUM (n x - S)^2 = n (n Q - S^2)
VarianceIdentity ==
  ekind.t = "VMC" =>
    LET ds == Data(FillsOf(since))  n == Len(ds)  S == SumSeq(ds) IN
    SumSeq([j \in 1..n |-> (n * ds[j] - S) * (n * ds[j] - S)]) = n * (n * st.sumsq - st.sum * st.sum)
\* the exact sum does not depend on the order of the values (reverse order as witness)
Rev(s) == [j \in 1..Len(s) |-> s[Len(s) + 1 - j]]
DSumOrderFree ==
  ekind.t = "DSum" => PolyEq(st.total, PolySum(Rev(<<ekind.dstart>> \o Data(FillsOf(since)))))

\* while no float was filled since the last reset the total is the exact sum, an int or a Fraction;
\* with a float it is a double
NumericKinds ==
  ekind.t = "NSum" =>
    LET ds == Data(FillsOf(since))  ex == NExact(ds) IN
    /\ st.total.nk = ex.nk
    /\ ex.nk # "float" => st.total = ex
    /\ ex.nk = "float" => NRound(st.total) = st.total

Emitted == (Len(h) = MaxLen) => PrintT(ToJson([kind |-> kind, h |-> h]))
=============================================================================
