SPECIFICATION Spec
CONSTANTS MaxN = 4
  Chains <- ChainsThorough
  Drivers = {"run", "fill", "split"}
  Bufs <- BufMid
  FillTruth = "truth"
  RunStop = "error"
INVARIANT DriversAgree
INVARIANT NoQuietEnd
INVARIANT TruthOnly
INVARIANT BufBound

CHECK_DEADLOCK FALSE
