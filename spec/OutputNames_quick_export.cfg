SPECIFICATION Spec
CONSTANTS
  StripMode = "suffix"
  TailLen = 1
  Rotate = TRUE
INVARIANT Named
INVARIANT Where
INVARIANT YieldedNamesLast
INVARIANT Distinct
INVARIANT StatedDistinct
INVARIANT ScenarioOK
INVARIANT Emitted
CHECK_DEADLOCK FALSE
