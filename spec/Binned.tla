------------------------------- MODULE Binned -------------------------------
(***************************************************************************)
(* A binned analysis, end to end:                                          *)
(*                                                                         *)
(*   Source(ReadEvents,                                                    *)
(*          [Split([branch, ...], bufsize)  |  the elements of one branch],*)
(*          MakeFilename("{{bins.variable.name}}/{{bin.edges_str}}"),      *)
(*          MakeFilename("{{variable.name}}/{{value.variable.name}}"),     *)
(*          ToCSV(), Write(dir))                                           *)
(*   branch = (SplitIntoBins(seq, arg_var, edges),                         *)
(*             IterateBins() | MapBins(Variable(..)),                      *)
(*             MakeFilename(suffix="_<analysis>_<variable>"))              *)
(*                                                                         *)
(* run several times in one output directory over changing data.  The      *)
(* parts are specified one by one elsewhere (SplitIntoBins, Histogram,     *)
(* Convert, MakeFilename, Output, Split, Analysis); this module is about   *)
(* their COMPOSITION: every cell of the arg_var histogram holds the        *)
(* analysis of exactly the events that fall into it, what IterateBins /    *)
(* MapBins yield reaches exactly the file named from that cell's / that    *)
(* histogram's context, and a later run rewrites exactly what changed.     *)
(*                                                                         *)
(* Operational part: the order in which the real pipeline works (blocks of *)
(* bufsize events, branch by branch; every event routed to its cell by the *)
(* code's index walk; computes in branch order after the last block; every *)
(* cell in iteration order pulled through the output chain, which writes   *)
(* only new content).                                                      *)
(* Declarative part (BinnedSem.tla): CellRef - the analysis applied to the *)
(* events of the half-open cell; RunOut / RunFiles / RunWrote - the run as *)
(* a function of the directory before and the data.                        *)
(***************************************************************************)
EXTENDS BinnedSem, TLC, Json

CONSTANTS DataSets,     \* set of event sequences a run can read
          BranchLists,  \* set of branch lists
          BufSizes,     \* Split bufsize (Big = larger than any flow; 0 = no Split: only with a single branch)
          MaxRuns,
          EdgesX, EdgesY, EdgesH,
          WriteAlways,  \* sensitivity guard: TRUE = a Write that does not compare contents (NoRedo must fail)
          ClosedLast    \* sensitivity guard: TRUE = the last edge belongs to the last cell (PerCell must fail)

Big == 1000
ED == <<EdgesX, EdgesY, EdgesH>>

VARIABLES brs, bs,
          run,        \* number of runs started
          data,       \* the events of the current run
          phase,      \* "idle" | "read" | "fill" | "compute" | "done"
          pos, block, bi,
          sib,        \* per branch: the SplitIntoBins [cells, touched]
          pending,    \* structures of the branch being computed that were not yet pulled through the output chain
          files,      \* name -> File(rows)
          out,        \* structures delivered by this run, in order
          wrote,      \* files written in this run
          h           \* ghost: per finished run what the harness compares

vars == <<brs, bs, run, data, phase, pos, block, bi, sib, pending, files, out, wrote, h>>
view == <<brs, bs, run, data, phase, pos, block, bi, sib, pending, files, out, wrote>>

Init == /\ brs \in BranchLists /\ bs \in BufSizes /\ (bs = 0 => Len(brs) = 1)
        /\ run = 0 /\ data = <<>> /\ phase = "idle" /\ pos = 0 /\ block = <<>> /\ bi = 1
        /\ sib = [i \in 1..Len(brs) |-> EmptySIB(brs[i], ED)]
        /\ pending = <<>> /\ files = <<>> /\ out = <<>> /\ wrote = {} /\ h = <<>>

\* a new run: new element objects (fresh cells), same output directory
StartRun == /\ phase = "idle" /\ run < MaxRuns
            /\ data' \in DataSets
            /\ run' = run + 1 /\ phase' = "read" /\ pos' = 0 /\ block' = <<>> /\ bi' = 1
            /\ sib' = [i \in 1..Len(brs) |-> EmptySIB(brs[i], ED)]
            /\ out' = <<>> /\ wrote' = {} /\ pending' = <<>>
            /\ UNCHANGED <<brs, bs, files, h>>

\* Split.run reads the next block of at most bufsize events (without a Split the events arrive one by one);
\* an empty block ends the input
ReadBlock == /\ phase = "read"
             /\ LET want == IF bs = 0 THEN 1 ELSE bs
                    k == IF Len(data) - pos < want THEN Len(data) - pos ELSE want IN
                IF k = 0 THEN phase' = "compute" /\ bi' = 1 /\ UNCHANGED <<pos, block>>
                ELSE block' = SubSeq(data, pos + 1, pos + k) /\ pos' = pos + k /\ phase' = "fill" /\ bi' = 1
             /\ UNCHANGED <<brs, bs, run, data, sib, pending, files, out, wrote, h>>

\* every branch gets (a copy of) the whole block before the next block is read; SplitIntoBins.fill routes
\* each event to its cell (or nowhere)
FillBranch == /\ phase = "fill"
              /\ IF bi > Len(brs) THEN phase' = "read" /\ UNCHANGED <<sib, bi>>
                 ELSE /\ sib' = [sib EXCEPT ![bi] = FillAllSIB(brs[bi], @, block, ED, ClosedLast)]
                      /\ bi' = bi + 1 /\ UNCHANGED phase
              /\ UNCHANGED <<brs, bs, run, data, pos, block, pending, files, out, wrote, h>>

\* SplitIntoBins.compute makes one histogram of all cells' results; IterateBins walks it with
\* iter_bins_with_edges (itertools.product over the index ranges), MapBins maps it with md_map
RECURSIVE MdMapVal(_, _, _)
MdMapVal(sub, k, b) == IF k = 0 THEN MapVal(b, sub) ELSE [j \in 1..Len(sub) |-> MdMapVal(sub[j], k - 1, b)]
StructsOp(b, st) ==
  LET E == ArgEdges(b, ED) IN
  IF IsIter(b)
  THEN LET it == IterBinsWithEdgesOp(st.cells, E)
       IN [j \in 1..Len(it) |-> MkCell(b, it[j].e, it[j].v, st.touched, ED, Csv1Op(it[j].v.bins, <<EdgesH>>, TRUE))]
  ELSE LET nb == MdMapVal(st.cells, Len(E), b)
       IN <<MkMap(b, st.touched, ED, IF Len(E) = 1 THEN Csv1Op(nb, E, TRUE) ELSE Csv2Op(nb, E, TRUE))>>

\* after the last block the branches are computed in branch order; what a branch yields is pulled through the
\* output chain one structure at a time before the next branch is computed (the chain is lazy)
Compute == /\ phase = "compute" /\ pending = <<>>
           /\ IF bi > Len(brs) THEN phase' = "done" /\ UNCHANGED <<pending, bi>>
              ELSE pending' = StructsOp(brs[bi], sib[bi]) /\ bi' = bi + 1 /\ UNCHANGED phase
           /\ UNCHANGED <<brs, bs, run, data, pos, block, sib, files, out, wrote, h>>

\* MakeFilename, MakeFilename, ToCSV, Write for one structure: the file is written when it does not exist or
\* its content differs
Emit == /\ phase = "compute" /\ pending # <<>>
        /\ LET s == Head(pending)
               w == WriteAlways \/ Get2(files, s.name) # File(s.rows)
           IN /\ files' = IF w THEN Put(files, s.name, s.rows) ELSE files
              /\ wrote' = IF w THEN wrote \cup {s.name} ELSE wrote
              /\ out' = Append(out, s)
        /\ pending' = Tail(pending)
        /\ UNCHANGED <<brs, bs, run, data, phase, pos, block, bi, sib, h>>

SetToSeq(S) == LET RECURSIVE Go(_) Go(T) == IF T = {} THEN <<>> ELSE LET x == CHOOSE y \in T : TRUE IN <<x>> \o Go(T \ {x}) IN Go(S)
EndRun == /\ phase = "done" /\ phase' = "idle"
          /\ h' = Append(h, [src |-> data, out |-> out,
                             files |-> [k \in 1..Cardinality(DOMAIN files) |->
                                          LET key == SetToSeq(DOMAIN files)[k] IN [key |-> key, c |-> files[key].c]],
                             wrote |-> SetToSeq(wrote)])
          /\ UNCHANGED <<brs, bs, run, data, pos, block, bi, sib, pending, files, out, wrote>>

Next == StartRun \/ ReadBlock \/ FillBranch \/ Compute \/ Emit \/ EndRun
Spec == Init /\ [][Next]_vars

(***************************************************************************)
(* Properties.                                                             *)
(***************************************************************************)
\* the Split never holds more than bufsize events
BufBound == Len(block) <= (IF bs = 0 THEN 1 ELSE bs)
\* when the results are computed every cell of every branch holds the analysis of exactly the events whose
\* argument lies in that half-open cell - whatever the block size and the sibling branches; events outside the
\* edges are in no cell
PerCell == phase \in {"compute", "done"} =>
             \A i \in 1..Len(brs) :
               LET b == brs[i]
                   E == ArgEdges(b, ED)
               IN /\ \A cell \in Cells(E) : Get(sib[i].cells, cell) = CellRef(b, data, cell, ED)
                  /\ SumSeq([j \in 1..NCells(E) |-> Get(sib[i].cells, CellAt(E, j - 1)).n])
                       + Cardinality({k \in 1..Len(data) : NoCell(b, data[k], ED)}) = Len(data)
                  /\ sib[i].touched = AnyInside(b, data, ED)
\* one structure per cell (IterateBins) / per histogram (MapBins), in branch and cell order, each describing
\* its own cell and its own analysis
OnePerStructure == phase = "done" =>
                     /\ Len(out) = SumSeq([i \in 1..Len(brs) |-> NStructs(brs[i], ED)])
                     /\ \A j \in 1..Len(out), k \in 1..Len(out) : j # k => out[j].name # out[k].name
                     /\ \A j \in 1..Len(out) : out[j].kind = "cell" =>
                          /\ out[j].name.cell = out[j].cell
                          /\ \E i \in 1..Len(brs) : \E c \in Cells(ArgEdges(brs[i], ED)) :
                               /\ out[j].name = Name(brs[i], CellEdges(ArgEdges(brs[i], ED), c))
                               /\ out[j].rows = CsvRef(CellRef(brs[i], data, c, ED).bins, <<EdgesH>>, TRUE)
                               /\ out[j].avar = ArgDesc(brs[i]) /\ out[j].var = brs[i].v
\* after a run the directory holds, for every structure of this run, the csv rows of that structure
FilesRef == phase = "done" =>
              /\ \A j \in 1..Len(out) : Has(files, out[j].name) /\ files[out[j].name] = File(out[j].rows)
              /\ DOMAIN files = {out[j].name : j \in 1..Len(out)} \cup (IF Len(h) = 0 THEN {} ELSE {h[Len(h)].files[k].key : k \in 1..Len(h[Len(h)].files)})
\* nothing unchanged is rewritten: a run over the same data writes nothing; the first run writes everything
NoRedo == (phase = "done" /\ Len(h) > 0 /\ h[Len(h)].src = data) => wrote = {}
FilesBefore == IF Len(h) = 0 THEN <<>>
               ELSE LET fl == h[Len(h)].files IN [k \in {fl[j].key : j \in 1..Len(fl)} |-> File(fl[CHOOSE j \in 1..Len(fl) : fl[j].key = k].c)]
RedoRef == phase = "done" =>
             /\ Len(h) = 0 => wrote = {out[j].name : j \in 1..Len(out)}
             /\ \A j \in 1..Len(out) : (out[j].name \in wrote) = (Get2(FilesBefore, out[j].name) # File(out[j].rows))
\* the whole run, however it was scheduled (block size, sibling branches, order of the fills), is the
\* declarative run: structures, files and writes are functions of the directory before and the data
RunIsSem == phase = "done" =>
              LET O == RunOut(brs, data, ED)
                  F1 == RunFiles(FilesBefore, O) IN
              /\ out = O
              /\ files = F1
              /\ wrote = RunWrote(FilesBefore, F1, O)
\* a branch's structures do not depend on its siblings or on the block size: they are BranchOut of the branch alone
Independent == phase = "done" =>
                 \A i \in 1..Len(brs) :
                   LET off == SumSeq([k \in 1..(i - 1) |-> NStructs(brs[k], ED)])
                   IN SubSeq(out, off + 1, off + NStructs(brs[i], ED)) = BranchOut(brs[i], data, ED)

Emitted == (phase = "idle" /\ run = MaxRuns) => PrintT(ToJson([brs |-> brs, bs |-> bs, ed |-> ED, runs |-> h]))

(***************************************************************************)
(* Model values.                                                           *)
(***************************************************************************)
\* coordinates: below the first edge, on an inner edge, inside the first / the last cell, exactly the last edge
EvA == <<1, 1>>
EvB == <<3, 4>>
EvC == <<-1, 3>>
EvD == <<1, 3>>
EvE == <<4, 0>>
EvF == <<2, 2>>
EX1 == <<0, 2, 4>>
EY1 == <<0, 3, 5>>
EY0 == <<1, 4>>
EH1 == <<0, 2, 4>>
EH2 == <<1, 3>>
DataQuick == {<<EvA>>, <<EvA, EvB, EvC>>, <<EvF, EvD, EvE>>}
DataMC == {<<>>, <<EvC>>, <<EvA>>, <<EvA, EvB, EvC>>, <<EvF, EvD, EvE>>, <<EvD, EvB, EvA>>}
DataExport == {<<EvC, EvE>>, <<EvA, EvB>>, <<EvA, EvB, EvC>>, <<EvF, EvD, EvE, EvB>>}
DataExport3 == {<<EvA, EvB>>, <<EvB, EvA>>, <<EvA, EvB, EvF>>}
AllBr == {Br(a, an, v) : a \in {"x", "y", "xy"}, an \in {"hist", "sum"}, v \in {"x", "y"}} \cup {Br(a, "count", "all") : a \in {"x", "y", "xy"}}
SomeBr == {Br("x", "hist", "y"), Br("y", "hist", "x"), Br("xy", "hist", "y"), Br("x", "hist", "x"),
           Br("x", "sum", "y"), Br("xy", "sum", "x"), Br("y", "count", "all"), Br("xy", "count", "all")}
RECURSIVE Lists(_, _)
Lists(S, n) == IF n = 0 THEN {<<>>} ELSE LET L == Lists(S, n - 1) IN L \cup {Append(l, s) : l \in {x \in L : Len(x) = n - 1}, s \in S}
BrQuick == {l \in Lists(SomeBr, 2) : l # <<>> /\ Distinct(l)}
BrThorough == {l \in Lists(AllBr, 2) : l # <<>> /\ Distinct(l)} \cup {l \in Lists(SomeBr, 3) : Len(l) = 3 /\ Distinct(l)}
BrExport == {<<Br("x", "hist", "y")>>, <<Br("xy", "hist", "x")>>, <<Br("y", "sum", "x")>>, <<Br("xy", "count", "all")>>,
             <<Br("x", "hist", "y"), Br("x", "sum", "y")>>, <<Br("xy", "sum", "y"), Br("y", "hist", "y")>>,
             <<Br("x", "count", "all"), Br("xy", "hist", "y"), Br("x", "hist", "x")>>,
             <<Br("y", "hist", "x"), Br("x", "hist", "y"), Br("xy", "sum", "x"), Br("y", "count", "all")>>}
DataWide == {<<>>, <<EvC>>, <<EvF, EvB>>, <<EvA, EvB, EvC, EvD>>, <<EvD, EvC, EvB, EvA>>, <<EvE, EvF, EvA, EvD, EvB>>}
BrWide == {<<b>> : b \in AllBr} \cup {<<Br("x", "hist", "y"), Br("y", "hist", "y")>>, <<Br("xy", "hist", "x"), Br("xy", "hist", "y")>>,
           <<Br("y", "sum", "x"), Br("y", "sum", "y"), Br("y", "count", "all")>>, <<Br("xy", "count", "all"), Br("x", "hist", "x"), Br("xy", "sum", "y")>>}
BrExport3 == {<<Br("y", "hist", "y")>>, <<Br("xy", "hist", "y"), Br("x", "sum", "x")>>,
              <<Br("x", "hist", "y"), Br("xy", "count", "all"), Br("y", "sum", "y")>>}
=============================================================================
