------------------------------ MODULE SplitSem ------------------------------
(***************************************************************************)
(* Declarative semantics of lena.core.Split.run over tagged harness        *)
(* branches (see Split.tla for the vocabulary).  No constants or           *)
(* variables: shared by Split.tla, SplitCT.tla and Trace_Split.tla (and    *)
(* RunSem.tla, which uses BlocksOf).                                       *)
(*                                                                         *)
(* A branch kind is a record                                               *)
(*   t     "src" | "fc" | "fr" | "map" | "filt" | "seq" | "nest"           *)
(*   stop  fill kinds: LenaStopFill on fill attempt stop+1 (None: never)   *)
(*   m     number of results of one call/compute/request; None = the one   *)
(*         result without an index (fill kinds), Sources: default 2        *)
(*   form  how the branch is handed to Split (_get_seq_with_type,          *)
(*         check_sequence_type):                                           *)
(*           "el"    the bare element (a Source object for "src")          *)
(*           "tup"   a one-element tuple (el,)                             *)
(*           "obj"   an explicit lena object: FillComputeSeq(el),          *)
(*                   FillRequestSeq(el, ..), Sequence(el); for "src" a     *)
(*                   Source with a tail element that retags "s" -> "st"    *)
(*           "pp"    a tuple (pre, el, post): pre maps v -> v + 100,       *)
(*                   post retags every result k -> k"p"                    *)
(*           "sl"    fill kinds with a stop: (Slice(stop), el): the        *)
(*                   LenaStopFill comes from the fill_into element         *)
(*           "attr"  run kinds: the element carries a NON-callable data    *)
(*                   attribute fill (and callable compute, request)        *)
(*           "attr2" run kinds: a callable fill and NON-callable data      *)
(*                   attributes compute, request                           *)
(*           "sub"   "src": an instance of a subclass of Source            *)
(*           "fct"   "src": Source(gen, extract, fill/compute element):    *)
(*                   a Source that contains a fill/compute element is      *)
(*                   still a Source; yields one Tag(b,"c",<<1..m>>)        *)
(*           "sq"    fill kinds given as an explicit lena.core.Sequence    *)
(*                   OBJECT: Sequence(el).  Per the Split docstring a      *)
(*                   Sequence is a Sequence whatever it holds: it is run   *)
(*                   on every block ("fc": the Run adapter fills the block *)
(*                   and yields compute(), the harness element forgets its *)
(*                   values after compute; "fr": the element also has a    *)
(*                   run method, which tags like "seq")                    *)
(*           "sqpp"  "fc": Sequence(pre, el, post)                         *)
(*           "sqin"  "fc": Sequence(FillComputeSeq(el))                    *)
(*           "run"   fill kinds: the bare element also has a run method;   *)
(*                   it is a fill/compute (fill/request) element all the   *)
(*                   same (check_sequence_type: "it is a FillCompute       *)
(*                   element")                                             *)
(*   eq    what == says about the branch element (the schedule must not    *)
(*         depend on it: branches are told apart by position only)         *)
(*           "id"    identity (default)                                    *)
(*           "all"   equal to every object (also from the other side)      *)
(*           "tot"   like lena.math.Sum: equal to another such element     *)
(*                   when the sums of the values they hold coincide        *)
(*   sub, ibs  t = "nest": the branch is itself a Split of the kinds sub   *)
(*         with bufsize ibs (tags of inner branch j of branch b: 10*b+j)   *)
(***************************************************************************)
EXTENDS Integers, Sequences, FiniteSets, TLC, Json

None == -1000
Tag(b, kind, payload) == [b |-> b, k |-> kind, p |-> payload]
KindRec(t, stop, m, form, sub, ibs) == [t |-> t, stop |-> stop, m |-> m, form |-> form, sub |-> sub, ibs |-> ibs, eq |-> "id"]
Src == KindRec("src", None, 2, "el", <<>>, None)
FC(s) == KindRec("fc", s, None, "el", <<>>, None)
FR(s) == KindRec("fr", s, None, "el", <<>>, None)
MapK == KindRec("map", None, None, "el", <<>>, None)
FiltK == KindRec("filt", None, None, "el", <<>>, None)
SeqK == KindRec("seq", None, None, "el", <<>>, None)
WithForm(kd, f) == [kd EXCEPT !.form = f]
WithM(kd, m) == [kd EXCEPT !.m = m]
WithEq(kd, e) == [kd EXCEPT !.eq = e]
Nest(sub, ibs) == KindRec("nest", None, None, "el", sub, ibs)

KindsQuick == {Src, FC(None), FC(0), FC(1), FC(2), FC(3), FR(None), FR(0), FR(1), FR(2), MapK, FiltK, SeqK}
KindsSmall == {Src, FC(None), FC(1), FR(None), FR(1), MapK, SeqK}
BufQuick == {1, 2, 3, 5, 1000, None}
BufThorough == {1, 2, 3, 4, 5, 6, 7, 1000, None}

Iota(m) == [j \in 1..m |-> j - 1]
Min(a, b) == IF a < b THEN a ELSE b

(***************************************************************************)
(* Classification (split.py _get_seq_with_type): what the scheduler does   *)
(* with a branch.  A nested Split whose branches are all fill/compute      *)
(* (fill/request) offers fill and compute (request) and is therefore a     *)
(* fill/compute (fill/request) branch; any other Split is a run element.   *)
(***************************************************************************)
(* An explicit type wins over the methods of what the object holds: a      *)
(* Source is a Source, a FillComputeSeq a fill/compute branch, a           *)
(* lena.core.Sequence object a plain Sequence even when it holds           *)
(* fill/compute or fill/request elements (SeqObjForms).                    *)
SeqObjForms == {"sq", "sqpp", "sqin"}
Class1(kd) ==
  CASE kd.t = "src" -> "src"
    [] kd.t \in {"fc", "fr"} -> (IF kd.form \in SeqObjForms THEN "run" ELSE kd.t)
    [] OTHER -> "run"
ClassOf(kd) ==
  CASE kd.t = "nest" -> (IF kd.sub # <<>> /\ \A j \in 1..Len(kd.sub) : Class1(kd.sub[j]) = "fc" THEN "fc"
                         ELSE IF kd.sub # <<>> /\ \A j \in 1..Len(kd.sub) : Class1(kd.sub[j]) = "fr" THEN "fr"
                         ELSE "run")
    [] OTHER -> Class1(kd)
\* no state is kept between invocations (two runs of one object may be interleaved)
StatelessKind(kd) == IF kd.t = "nest" THEN \A j \in 1..Len(kd.sub) : kd.sub[j].t \in {"src", "map", "filt", "seq"}
                     ELSE kd.t \in {"src", "map", "filt", "seq"}

(***************************************************************************)
(* What one invocation of a branch yields.                                 *)
(***************************************************************************)
PPForms == {"pp", "sqpp"}
PreV(kd, v) == IF kd.form \in PPForms THEN v + 100 ELSE v
PreSeq(kd, vs) == [j \in 1..Len(vs) |-> PreV(kd, vs[j])]
PostTag(k) == CASE k = "c" -> "cp" [] k = "r" -> "rp" [] k = "m" -> "mp" [] k = "f" -> "fp" [] k = "end" -> "endp" [] OTHER -> k
KTag(kd, k) == IF kd.form \in PPForms THEN PostTag(k) ELSE k
SrcOutK(b, kd) ==
  IF kd.form = "fct" THEN <<Tag(b, "c", [i \in 1..kd.m |-> i])>>
  ELSE [i \in 1..kd.m |-> Tag(b, IF kd.form = "obj" THEN "st" ELSE "s", <<i>>)]
SrcOut(b) == SrcOutK(b, Src)
RECURSIVE Evens(_)
Evens(vs) == IF vs = <<>> THEN <<>> ELSE (IF Head(vs) % 2 = 0 THEN <<Head(vs)>> ELSE <<>>) \o Evens(Tail(vs))
\* fill the values vs into a collecting element that raises LenaStopFill on attempt stop+1
RECURSIVE FillAll(_, _, _)
FillAll(stop, s, vs) ==
  IF vs = <<>> THEN [filled |-> s.filled, nf |-> s.nf, stopped |-> FALSE]
  ELSE IF stop # None /\ s.nf >= stop THEN [filled |-> s.filled, nf |-> s.nf, stopped |-> TRUE]
  ELSE FillAll(stop, [filled |-> Append(s.filled, Head(vs)), nf |-> s.nf + 1], Tail(vs))
\* results of compute() (k = "c") / request() (k = "r") of one element that holds the values *filled*
ResultsOf(b, k, kd, filled) ==
  IF kd.m = None THEN <<Tag(b, KTag(kd, k), PreSeq(kd, filled))>>
  ELSE [i \in 1..kd.m |-> Tag(b, KTag(kd, k), <<i>> \o PreSeq(kd, filled))]
\* one invocation of a run branch on the values vs0 (a plain Sequence run on a block)
SeqRun(b, kind, vs0) ==
  LET vs == PreSeq(kind, vs0) IN
  CASE kind.t = "map" -> [j \in 1..Len(vs) |-> Tag(b, KTag(kind, "m"), <<vs[j]>>)]
    [] kind.t = "filt" -> LET e == Evens(vs) IN [j \in 1..Len(e) |-> Tag(b, KTag(kind, "f"), <<e[j]>>)]
    [] kind.t \in {"seq", "fr"} -> [j \in 1..Len(vs) |-> Tag(b, KTag(kind, "m"), <<vs[j]>>)] \o <<Tag(b, KTag(kind, "end"), <<Len(vs)>>)>>
    \* a Sequence object around a fill/compute element: fill the block, yield compute()
    [] kind.t = "fc" -> ResultsOf(b, "c", kind, vs0)
RECURSIVE ConcatSub(_, _, _, _, _)
ConcatSub(b, k, subs, filled, j) ==
  IF j > Len(subs) THEN <<>> ELSE ResultsOf(10 * b + j, k, subs[j], filled) \o ConcatSub(b, k, subs, filled, j + 1)
\* a fill branch: the element itself, or a nested Split of fill elements (all filled with the same values)
FillResults(b, k, kd, filled) ==
  IF kd.t = "nest" THEN ConcatSub(b, k, kd.sub, filled, 1) ELSE ResultsOf(b, k, kd, filled)
Retag(o, b) == [j \in 1..Len(o) |-> [o[j] EXCEPT !.b = IF @ = 0 THEN 0 ELSE 10 * b + @]]

(***************************************************************************)
(* Declarative semantics.                                                  *)
(***************************************************************************)
RECURSIVE BlocksOf(_, _)
BlocksOf(xs, b) == IF xs = <<>> THEN <<>>
                   ELSE IF b = None \/ Len(xs) <= b THEN <<xs>>
                   ELSE <<SubSeq(xs, 1, b)>> \o BlocksOf(SubSeq(xs, b + 1, Len(xs)), b)
InitBst(bb) == [j \in 1..Len(bb) |-> [alive |-> TRUE, filled |-> <<>>, nf |-> 0]]
RECURSIVE SplitSem(_, _, _)
\* a run branch on one block: a plain Sequence, or a nested Split run on the block as its whole flow
RunResults(b, kd, vs) == IF kd.t = "nest" THEN Retag(SplitSem(kd.sub, kd.ibs, vs), b) ELSE SeqRun(b, kd, vs)
\* one block through branches j..Len(bb): [out, bst]
RECURSIVE BlockSem(_, _, _, _)
BlockSem(bb, bst, blk, j) ==
  IF j > Len(bb) THEN [out |-> <<>>, bst |-> bst]
  ELSE IF ~bst[j].alive THEN BlockSem(bb, bst, blk, j + 1)
  ELSE LET kind == bb[j]  cls == ClassOf(bb[j]) IN
    IF cls = "src" THEN
       LET r == BlockSem(bb, [bst EXCEPT ![j].alive = FALSE], blk, j + 1)
       IN [out |-> SrcOutK(j, kind) \o r.out, bst |-> r.bst]
    ELSE IF cls = "fc" THEN
       LET f == FillAll(kind.stop, bst[j], blk)
           r == BlockSem(bb, [bst EXCEPT ![j] = [alive |-> ~f.stopped, filled |-> f.filled, nf |-> f.nf]], blk, j + 1)
       IN [out |-> (IF f.stopped THEN FillResults(j, "c", kind, f.filled) ELSE <<>>) \o r.out, bst |-> r.bst]
    ELSE IF cls = "fr" THEN
       LET f == FillAll(kind.stop, bst[j], blk)
           r == BlockSem(bb, [bst EXCEPT ![j] = [alive |-> ~f.stopped, filled |-> <<>>, nf |-> f.nf]], blk, j + 1)
       IN [out |-> FillResults(j, "r", kind, f.filled) \o r.out, bst |-> r.bst]
    ELSE LET r == BlockSem(bb, bst, blk, j + 1)
         IN [out |-> RunResults(j, kind, blk) \o r.out, bst |-> r.bst]
RECURSIVE AllBlocks(_, _, _)
AllBlocks(bb, bst, blocks) ==
  IF blocks = <<>> THEN [out |-> <<>>, bst |-> bst]
  ELSE LET r == BlockSem(bb, bst, Head(blocks), 1)
           rest == AllBlocks(bb, r.bst, Tail(blocks))
       IN [out |-> r.out \o rest.out, bst |-> rest.bst]
\* after the last block: compute of the fill/compute branches still alive; on an empty flow one
\* invocation of every branch
RECURSIVE FinalSem(_, _, _, _)
FinalSem(bb, bst, wasEmpty, j) ==
  IF j > Len(bb) THEN <<>>
  ELSE (IF ~bst[j].alive THEN <<>>
        ELSE CASE ClassOf(bb[j]) = "src" -> IF wasEmpty THEN SrcOutK(j, bb[j]) ELSE <<>>
               [] ClassOf(bb[j]) = "fc" -> FillResults(j, "c", bb[j], bst[j].filled)
               [] ClassOf(bb[j]) = "fr" -> IF wasEmpty THEN FillResults(j, "r", bb[j], <<>>) ELSE <<>>
               [] OTHER -> IF wasEmpty THEN RunResults(j, bb[j], <<>>) ELSE <<>>)
       \o FinalSem(bb, bst, wasEmpty, j + 1)
SplitSem(bb, b, xs) ==
  IF bb = <<>> THEN [j \in 1..Len(xs) |-> Tag(0, "id", <<xs[j]>>)]     \* the empty Split is the identity
  ELSE LET r == AllBlocks(bb, InitBst(bb), BlocksOf(xs, b))
       IN r.out \o FinalSem(bb, r.bst, xs = <<>>, 1)

RECURSIVE Proj(_, _)
Proj(o, b) == IF o = <<>> THEN <<>> ELSE (IF Head(o).b = b THEN <<Head(o)>> ELSE <<>>) \o Proj(Tail(o), b)
\* results of branch b including those of the inner branches of a nested Split
OwnerOf(x) == IF x.b >= 10 THEN x.b \div 10 ELSE x.b
RECURSIVE ProjO(_, _)
ProjO(o, b) == IF o = <<>> THEN <<>> ELSE (IF OwnerOf(Head(o)) = b THEN <<Head(o)>> ELSE <<>>) \o ProjO(Tail(o), b)

=============================================================================
