------------------------------ MODULE SplitSem ------------------------------
(***************************************************************************)
(* Declarative semantics of lena.core.Split.run over tagged harness        *)
(* branches (see Split.tla for the vocabulary).  No constants or           *)
(* variables: shared by Split.tla, SplitCT.tla and Trace_Split.tla.        *)
(***************************************************************************)
EXTENDS Integers, Sequences, FiniteSets, TLC, Json

None == -1000
Tag(b, kind, payload) == [b |-> b, k |-> kind, p |-> payload]
Src == [t |-> "src", stop |-> None]
FC(s) == [t |-> "fc", stop |-> s]
FR(s) == [t |-> "fr", stop |-> s]
MapK == [t |-> "map", stop |-> None]
FiltK == [t |-> "filt", stop |-> None]
SeqK == [t |-> "seq", stop |-> None]

KindsQuick == {Src, FC(None), FC(0), FC(1), FC(2), FC(3), FR(None), FR(0), FR(1), FR(2), MapK, FiltK, SeqK}
KindsSmall == {Src, FC(None), FC(1), FR(None), FR(1), MapK, SeqK}
BufQuick == {1, 2, 3, 5, 1000, None}
BufThorough == {1, 2, 3, 4, 5, 6, 7, 1000, None}

Iota(m) == [j \in 1..m |-> j - 1]
Min(a, b) == IF a < b THEN a ELSE b

(***************************************************************************)
(* What one invocation of a branch yields.                                 *)
(***************************************************************************)
SrcOut(b) == <<Tag(b, "s", <<1>>), Tag(b, "s", <<2>>)>>
RECURSIVE Evens(_)
Evens(vs) == IF vs = <<>> THEN <<>> ELSE (IF Head(vs) % 2 = 0 THEN <<Head(vs)>> ELSE <<>>) \o Evens(Tail(vs))
SeqRun(b, kind, vs) ==
  CASE kind.t = "map" -> [j \in 1..Len(vs) |-> Tag(b, "m", <<vs[j]>>)]
    [] kind.t = "filt" -> LET e == Evens(vs) IN [j \in 1..Len(e) |-> Tag(b, "f", <<e[j]>>)]
    [] kind.t = "seq" -> [j \in 1..Len(vs) |-> Tag(b, "m", <<vs[j]>>)] \o <<Tag(b, "end", <<Len(vs)>>)>>
\* fill the values vs into a collecting element that raises LenaStopFill on attempt stop+1
RECURSIVE FillAll(_, _, _)
FillAll(stop, s, vs) ==
  IF vs = <<>> THEN [filled |-> s.filled, nf |-> s.nf, stopped |-> FALSE]
  ELSE IF stop # None /\ s.nf >= stop THEN [filled |-> s.filled, nf |-> s.nf, stopped |-> TRUE]
  ELSE FillAll(stop, [filled |-> Append(s.filled, Head(vs)), nf |-> s.nf + 1], Tail(vs))

(***************************************************************************)
(* Declarative semantics.                                                  *)
(***************************************************************************)
RECURSIVE BlocksOf(_, _)
BlocksOf(xs, b) == IF xs = <<>> THEN <<>>
                   ELSE IF b = None \/ Len(xs) <= b THEN <<xs>>
                   ELSE <<SubSeq(xs, 1, b)>> \o BlocksOf(SubSeq(xs, b + 1, Len(xs)), b)
InitBst(bb) == [j \in 1..Len(bb) |-> [alive |-> TRUE, filled |-> <<>>, nf |-> 0]]
\* one block through branches j..Len(bb): [out, bst]
RECURSIVE BlockSem(_, _, _, _)
BlockSem(bb, bst, blk, j) ==
  IF j > Len(bb) THEN [out |-> <<>>, bst |-> bst]
  ELSE IF ~bst[j].alive THEN BlockSem(bb, bst, blk, j + 1)
  ELSE LET kind == bb[j] IN
    IF kind.t = "src" THEN
       LET r == BlockSem(bb, [bst EXCEPT ![j].alive = FALSE], blk, j + 1)
       IN [out |-> SrcOut(j) \o r.out, bst |-> r.bst]
    ELSE IF kind.t = "fc" THEN
       LET f == FillAll(kind.stop, bst[j], blk)
           r == BlockSem(bb, [bst EXCEPT ![j] = [alive |-> ~f.stopped, filled |-> f.filled, nf |-> f.nf]], blk, j + 1)
       IN [out |-> (IF f.stopped THEN <<Tag(j, "c", f.filled)>> ELSE <<>>) \o r.out, bst |-> r.bst]
    ELSE IF kind.t = "fr" THEN
       LET f == FillAll(kind.stop, bst[j], blk)
           r == BlockSem(bb, [bst EXCEPT ![j] = [alive |-> ~f.stopped, filled |-> <<>>, nf |-> f.nf]], blk, j + 1)
       IN [out |-> <<Tag(j, "r", f.filled)>> \o r.out, bst |-> r.bst]
    ELSE LET r == BlockSem(bb, bst, blk, j + 1)
         IN [out |-> SeqRun(j, kind, blk) \o r.out, bst |-> r.bst]
RECURSIVE AllBlocks(_, _, _)
AllBlocks(bb, bst, blocks) ==
  IF blocks = <<>> THEN [out |-> <<>>, bst |-> bst]
  ELSE LET r == BlockSem(bb, bst, Head(blocks), 1)
           rest == AllBlocks(bb, r.bst, Tail(blocks))
       IN [out |-> r.out \o rest.out, bst |-> rest.bst]
\* after the last block: compute of the fill/compute branches still alive; on an empty flow one
\* invocation of every branch
RECURSIVE FinalSem(_, _, _, _)
FinalSem(bb, bst, wasEmpty, j) ==
  IF j > Len(bb) THEN <<>>
  ELSE (IF ~bst[j].alive THEN <<>>
        ELSE CASE bb[j].t = "src" -> IF wasEmpty THEN SrcOut(j) ELSE <<>>
               [] bb[j].t = "fc" -> <<Tag(j, "c", bst[j].filled)>>
               [] bb[j].t = "fr" -> IF wasEmpty THEN <<Tag(j, "r", <<>>)>> ELSE <<>>
               [] OTHER -> IF wasEmpty THEN SeqRun(j, bb[j], <<>>) ELSE <<>>)
       \o FinalSem(bb, bst, wasEmpty, j + 1)
SplitSem(bb, b, xs) ==
  IF bb = <<>> THEN [j \in 1..Len(xs) |-> Tag(0, "id", <<xs[j]>>)]     \* the empty Split is the identity
  ELSE LET r == AllBlocks(bb, InitBst(bb), BlocksOf(xs, b))
       IN r.out \o FinalSem(bb, r.bst, xs = <<>>, 1)

RECURSIVE Proj(_, _)
Proj(o, b) == IF o = <<>> THEN <<>> ELSE (IF Head(o).b = b THEN <<Head(o)>> ELSE <<>>) \o Proj(Tail(o), b)

=============================================================================
