SPECIFICATION Spec
CONSTANTS
  Scenarios <- ScThorough
INVARIANT Emit
CHECK_DEADLOCK FALSE
