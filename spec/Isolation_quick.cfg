SPECIFICATION Spec
CONSTANTS MaxBr = 2 MaxN = 2 CopyMode = "deep"
  BufSizes <- BufAll
  FillBr = 3
  ExtraBr = 2
  Shapes <- QuickShapes
  Classes <- QuickClasses
  FillTemplates <- FillFew
  Templates <- AllTemplates
INVARIANT Isolated
INVARIANT YieldedStable
INVARIANT PrefixIsolated
INVARIANT HeldDisjoint
INVARIANT OnlyLastSeesSource
INVARIANT ZipNeverSeesSource
INVARIANT SourceByLastOnly
INVARIANT Emitted
CHECK_DEADLOCK FALSE
