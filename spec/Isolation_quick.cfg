SPECIFICATION Spec
CONSTANTS MaxBr = 2 MaxN = 3 CopyMode = "deep"
  BufSizes <- BufAll
  FillBr = 3
  FillTemplates <- FillFew
  Templates <- AllTemplates
INVARIANT Isolated
INVARIANT YieldedStable
INVARIANT PrefixIsolated
INVARIANT HeldDisjoint
INVARIANT OnlyLastSeesSource
INVARIANT ZipNeverSeesSource
INVARIANT SourceByLastOnly
CHECK_DEADLOCK FALSE
