SPECIFICATION Spec
CONSTANTS MaxBr = 2 MaxN = 3 CopyMode = "deep"
  BufSizes <- BufAll
  Templates <- AllTemplates
INVARIANT Isolated
INVARIANT YieldedStable
INVARIANT PrefixIsolated
INVARIANT HeldDisjoint
INVARIANT OnlyLastSeesSource
INVARIANT ZipNeverSeesSource
CHECK_DEADLOCK FALSE
