SPECIFICATION Spec
CONSTANTS MaxLen = 2
  Pool <- PoolK
  Starts <- StartsK
  Xs = {2}
  Nested = FALSE
  Ys <- DataK
  Extra <- ExtraK
  Variant = "skip-missing"
  CopyVarContext = TRUE
  ExtendByCompose = TRUE
  PathKeys = FALSE
INVARIANT DataEq
CHECK_DEADLOCK FALSE
