SPECIFICATION RSpec
CONSTANTS PairSrc = "all" CtxU = "mid" MaxFlow = 0 KeyU = "six" Writ = "all" NObj = 0
INVARIANT KeyCharStep
INVARIANT ProjPartStep
INVARIANT OwnerStep
CHECK_DEADLOCK FALSE
