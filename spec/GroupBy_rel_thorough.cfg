SPECIFICATION RSpec
CONSTANTS PairSrc = "all" CtxU = "full" MaxFlow = 0 KeyU = "six"
INVARIANT KeyCharStep
INVARIANT ProjPartStep
INVARIANT OwnerStep
CHECK_DEADLOCK FALSE
