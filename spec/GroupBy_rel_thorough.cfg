SPECIFICATION Spec
CONSTANTS PairSrc = "all" CtxU = "mid" MaxFlow = 0 KeyU = "six"
INVARIANT KeyCharacterises
INVARIANT ProjIsPart
INVARIANT OwnerIsLongest
CHECK_DEADLOCK FALSE
