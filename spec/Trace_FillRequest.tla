------------------------- MODULE Trace_FillRequest -------------------------
(***************************************************************************)
(* Validation of behaviour recorded from the real lena.core.FillRequest    *)
(* (and Split / FillRequestSeq around it) on configurations beyond the     *)
(* exhaustive bounds.  One record per event:                               *)
(*   [e |-> "new", cfg]              a fresh adapter                       *)
(*   [e |-> "f", log]                fill(k) returned; log = values passed *)
(*                                   to el.fill during the call            *)
(*   [e |-> "r", res, log]           request() was exhausted               *)
(*   [e |-> "run", cfg, N, out]      run over 0..N-1                       *)
(*   [e |-> "split", cfg, N, bs, out, nf]     Split([adapter], bs).run     *)
(*   [e |-> "seq", cfg, N, n2, oyor, out]     FillRequestSeq(..).run       *)
(* A call that did not return or raised is recorded with another e and is  *)
(* matched by no action.  The fill / request events are constrained by the *)
(* actions of the specification (FillStep / RequestStep of RunSem).        *)
(***************************************************************************)
EXTENDS RunSem, IOUtils

Trace == JsonDeserialize(IOEnv.TRACE_FILE)
VARIABLES i, cfg, s, k, seen, kreq
vars == <<i, cfg, s, k, seen, kreq>>
NoCfg == [n |-> 1, bufIn |-> TRUE, reset |-> FALSE, yor |-> FALSE, kind |-> "fr", m |-> 0, pv |-> FALSE, take |-> 0]
Init == i = 1 /\ cfg = NoCfg /\ s = S0 /\ k = 0 /\ seen = <<>> /\ kreq = 0

\* the contents carried by the first result of every element request, concatenated
RECURSIVE Firsts(_)
Firsts(res) == IF res = <<>> THEN <<>> ELSE (IF Head(res).i = 1 THEN Head(res).p ELSE <<>>) \o Firsts(Tail(res))
New(r) == /\ r.e = "new" /\ cfg' = r.cfg /\ s' = S0 /\ k' = 0 /\ seen' = <<>> /\ kreq' = 0
\* every value reaches the element at most once and in order
FillEv(r) == /\ r.e = "f" /\ s' = FillStep(cfg, s, k) /\ k' = k + 1
             /\ seen' = seen \o r.log /\ IsPrefix(seen', Iota(k'))
             /\ UNCHANGED <<cfg, kreq>>
\* the results are those of the specification (yield_on_remainder off); with yield_on_remainder
\* every value filled so far has reached the element
ReqEv(r) == /\ r.e = "r"
            /\ LET q == RequestStep(cfg, s) IN
               /\ s' = q.s
               /\ ~cfg.yor => r.res = q.res
            /\ seen' = seen \o r.log /\ IsPrefix(seen', Iota(k))
            /\ cfg.yor => seen' = Iota(k)
            \* with yield_on_remainder and reset every value filled since the last request is in exactly one result
            /\ (cfg.yor /\ cfg.reset /\ cfg.m \in 1..3) => Firsts(r.res) = [j \in 1..(k - kreq) |-> kreq + j - 1]
            /\ kreq' = k
            /\ UNCHANGED <<cfg, k>>
Whole(r) == /\ \/ r.e = "run" /\ r.out = RunSem(r.cfg, Iota(r.N))
               \/ /\ r.e = "split"
                  /\ ~r.cfg.yor => r.out = SplitAround(r.cfg, Iota(r.N), r.bs)
                  /\ r.cfg.yor => r.nf = r.N
               \/ r.e = "seq" /\ r.out = FRSeqRun(r.cfg, Iota(r.N), r.n2, r.oyor)
            /\ UNCHANGED <<cfg, s, k, seen, kreq>>
Next == /\ i <= Len(Trace) /\ i' = i + 1
        /\ LET r == Trace[i] IN New(r) \/ FillEv(r) \/ ReqEv(r) \/ Whole(r)
Spec == Init /\ [][Next]_vars
Accepted == /\ PrintT(<<"ACCEPTED", TLCGet("stats").diameter - 1>>)
            /\ TLCGet("stats").diameter - 1 = Len(Trace)
=============================================================================
