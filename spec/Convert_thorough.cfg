SPECIFICATION Spec
CONSTANTS ConvChoices <- ConvThorough
  RangeLows <- LowsAll
  RangeUps <- UpsAll
INVARIANT OnePointPerCell
INVARIANT IteratorsAgree
INVARIANT RangesChecked
INVARIANT CsvOneRowPerCell
INVARIANT Emitted
CHECK_DEADLOCK FALSE
