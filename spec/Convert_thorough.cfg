SPECIFICATION Spec
CONSTANTS ConvChoices <- ConvThorough
  RangeLows <- LowsAll
  RangeUps <- UpsAll
INVARIANT OnePointPerCell
INVARIANT BadModeRaises
INVARIANT BothRangesRaise
INVARIANT CsvEnds
INVARIANT CsvPasses
INVARIANT IteratorsAgree
INVARIANT RangesChecked
INVARIANT CsvOneRowPerCell
INVARIANT Emitted
CHECK_DEADLOCK FALSE
