--------------------------- MODULE SplitIntoBins ---------------------------
(***************************************************************************)
(* lena.structures.SplitIntoBins(seq, arg_var, edges) as a machine:        *)
(*   fill(value)  routes the value to the private copy of seq of the cell  *)
(*                its argument falls into (get_bin_on_value, then the walk *)
(*                through self.bins that returns on underflow / overflow), *)
(*   compute()    zips the cells' compute() generators into histograms,    *)
(* followed by IterateBins over the first histogram yielded.               *)
(*                                                                         *)
(* The same object is used again: compute() is called after sc.cut values, *)
(* called once more at once, then the rest of the flow is filled and       *)
(* compute() is called a third time.  The consumer writes into the context *)
(* of every histogram it receives before it asks for the next one, and     *)
(* into context.bins of every cell IterateBins yields.                     *)
(*                                                                         *)
(* Abnormal values: the analysis of a cell raises on a value it cannot     *)
(* digest (FillRaises); the caller catches the exception and goes on.      *)
(* Stateful analyses: every cell's copy has its own state that its         *)
(* compute() changes (cst).  Object reuse: ONE IterateBins element gets    *)
(* the first histogram, then (same run) the last histogram of a second     *)
(* SplitIntoBins that splits the same analysis by another variable over    *)
(* the same edges, then is run a second time (IterFlow).                   *)
(*                                                                         *)
(* Code: lena/structures/split_into_bins.py (SplitIntoBins.__init__ deep   *)
(* copy per cell, fill, compute, _MdSeqMap, IterateBins.run, MapBins.run), *)
(* lena/structures/hist_functions.py (get_bin_on_value, init_bins,         *)
(* iter_bins_with_edges), lena/math/meshes.py (md_map).                    *)
(*                                                                         *)
(* The operational state is per cell (the list of values that cell's own   *)
(* copy of the analysis has been filled with); the declarative part        *)
(* (SplitIntoBinsSem.tla) recomputes every cell independently from the     *)
(* whole flow.                                                             *)
(***************************************************************************)
EXTENDS SplitIntoBinsSem

CONSTANTS U     \* name of the universe of scenarios

(***************************************************************************)
(* Universes (only the selected one is built, see Selectors.tla).          *)
(***************************************************************************)
SeqsUpTo(S, n) == UNION {[1..m -> S] : m \in 0..n}
E2 == <<0, 2>>
E3 == <<0, 2, 4>>
E4 == <<0, 2, 4, 6>>
\* below, on every edge, inside every cell, above
Coords(e) == (e[1] - 1)..(e[Len(e)] + 1)
\* shapes of the flow values: [h |-> has a context of its own, p |-> is a (data, context) pair]
\*   every value a pair with its context / bare value, pair with an empty context {}, pair with a context, ...
Full == [h |-> TRUE, p |-> TRUE]
Bare == [h |-> FALSE, p |-> FALSE]
EmptyPair == [h |-> FALSE, p |-> TRUE]
PAll(n) == [i \in 1..n |-> Full]
PAlt(n) == [i \in 1..n |-> CASE i % 3 = 1 -> Bare [] i % 3 = 2 -> Full [] OTHER -> EmptyPair]
PAlt2(n) == [i \in 1..n |-> CASE i % 3 = 1 -> EmptyPair [] i % 3 = 2 -> Bare [] OTHER -> Full]
MkFlowF(xs, hs, fs) == [i \in 1..Len(xs) |-> [x |-> xs[i], h |-> hs[i].h, p |-> hs[i].p, f |-> fs[i]]]
MkFlow(xs, hs) == MkFlowF(xs, hs, [i \in 1..Len(xs) |-> "none"])
\* which values the analysis cannot digest: one of them, or all
FPats(n, excs) == {[i \in 1..n |-> IF i = j THEN k ELSE "none"] : j \in 1..n, k \in excs}
                  \cup {[i \in 1..n |-> k] : k \in excs}
StatefulKinds == {"seen", "log"}
BaseKinds == {"collect", "collect2", "nonempty", "pervalue", "shift", "mutate", "post", "postdup"}
AllKinds == BaseKinds \cup StatefulKinds
SomeKinds == {"collect2", "nonempty", "mutate", "postdup"}
\* cut: compute() is first called after that many values (-1: after the whole flow)
\* form: how the edges are written (lists / tuples at each level, see SplitIntoBinsSem.tla)
Scen(ee, kk, ff, cut) == [edges |-> ee, kind |-> kk, flow |-> ff, cut |-> IF cut = -1 THEN Len(ff) ELSE cut, form |-> "l"]
WithForm(S, forms) == {[s EXCEPT !.form = f] : s \in S, f \in forms}
\* one-dimensional scenarios: edges e, flows up to n values over Coords(e)
S1(e, n, kinds, pats) == {Scen(<<e>>, k, MkFlow(xs, hs), -1) :
                            k \in kinds, xs \in SeqsUpTo({<<c>> : c \in Coords(e)}, n), hs \in pats}
\* the same with compute() called early as well
S1Cut(e, n, kinds, pats) == {Scen(<<e>>, k, MkFlow(xs, hs), c) :
                               k \in kinds, xs \in SeqsUpTo({<<c2>> : c2 \in Coords(e)}, n), hs \in pats, c \in 0..(n - 1)}
\* flows with values on which the cell's analysis raises
S1F(e, n, kinds, pats, excs, cuts) == {Scen(<<e>>, k, MkFlowF(xs, hs, fs), c) :
                                         k \in kinds, xs \in SeqsUpTo({<<c2>> : c2 \in Coords(e)}, n) \ {<<>>}, hs \in pats,
                                         fs \in FPats(n, excs), c \in cuts}
\* two-dimensional scenarios over selected coordinates per axis
C2(e) == {e[1] - 1, e[1], e[1] + 1, e[2], e[Len(e)]}
S2(e1, e2, n, kinds) == {Scen(<<e1, e2>>, k, MkFlow(xs, PAlt(n)), -1) :
                           k \in kinds, xs \in SeqsUpTo(C2(e1) \X C2(e2), n)}
S2F(e1, e2, n, kinds, excs) == {Scen(<<e1, e2>>, k, MkFlowF(xs, PAlt(n), fs), -1) :
                                  k \in kinds, xs \in SeqsUpTo(C2(e1) \X C2(e2), n) \ {<<>>}, fs \in FPats(n, excs)}
WellCut(s) == s.cut <= Len(s.flow)
QuickExcs == {"IndexError", "KeyError"}        \* ("LenaIndexError" comes with the stateful analysis)
AllExcs == {"IndexError", "LenaIndexError", "KeyError", "TypeError", "ValueError"}
\* Families of scenarios (a sequence of sets; Init picks a family, then a scenario: TLC does not build their
\* union, which costs a linear search per element - equal scenarios of two families are one initial state)
Quick(u) == <<
    S1(E2, 2, BaseKinds, {PAll(2), PAlt(2)}),
    S1(E3, 2, BaseKinds, {PAll(2), PAlt2(2)}),
    S1(E3, 3, {"collect2", "mutate"}, {PAlt(3)}),
    S1(E4, 2, {"nonempty", "postdup"}, {PAlt(2)}),
    {s \in S1Cut(E3, 2, {"collect2", "mutate", "nonempty"}, {PAll(2), PAlt(2)}) : WellCut(s)},
    S2(E3, E3, 2, {"collect2"}),
    S2(E3, E2, 2, {"collect", "pervalue"}),
    WithForm(S2(E3, E2, 1, {"collect", "postdup"}), {"t", "lt", "tl"}),
    WithForm(S1(E3, 2, {"collect2"}, {PAlt(2)}), {"t"}),
    \* analyses with a state of their own: compute() early, twice, again; three cells; two dimensions
    {s \in S1Cut(E3, 2, StatefulKinds, {PAlt(2)}) : WellCut(s)},
    S1(E2, 2, StatefulKinds, {PAll(2)}),
    S1(E4, 2, {"log"}, {PAlt2(2)}),
    S2(E3, E2, 1, StatefulKinds),
    \* values the analysis raises on
    S1F(E3, 2, {"collect", "mutate"}, {PAlt(2)}, QuickExcs, {-1}),
    S1F(E3, 2, {"seen"}, {PAlt(2)}, {"LenaIndexError"}, {1}),
    S2F(E3, E2, 1, {"collect"}, QuickExcs)
  >>
Thorough(u) == <<
    S1(E2, 3, BaseKinds, {PAll(3), PAlt(3)}),
    S1(E3, 3, BaseKinds, {PAll(3), PAlt2(3)}),
    S1(E3, 4, {"collect2"}, {PAlt(4)}),
    S1(E4, 3, SomeKinds, {PAlt(3)}),
    {s \in S1Cut(E3, 3, {"collect2", "mutate"}, {PAlt(3)}) : WellCut(s)},
    {s \in S1Cut(E2, 2, AllKinds, {PAll(2), PAlt(2)}) : WellCut(s)},
    S2(E3, E3, 2, SomeKinds),
    S2(E3, E2, 2, BaseKinds),
    S2(E2, E4, 2, SomeKinds),
    WithForm(S2(E3, E2, 2, {"collect2", "mutate"}), {"t", "lt", "tl"}),
    WithForm(S2(E2, E4, 1, AllKinds), {"t", "lt", "tl"}),
    WithForm(S1(E3, 3, {"collect2", "nonempty"}, {PAlt(3)}) \cup S1(E2, 2, AllKinds, {PAlt(2)}), {"t"}),
    \* analyses with a state of their own
    {s \in S1Cut(E3, 3, StatefulKinds, {PAlt(3)}) : WellCut(s)},
    S1(E2, 3, StatefulKinds, {PAll(3)}),
    S1(E4, 3, {"log"}, {PAlt2(3)}),
    S2(E3, E3, 2, {"seen"}),
    S2(E3, E2, 1, {"log"}),
    \* values the analysis raises on
    S1F(E3, 3, {"collect"}, {PAlt(3)}, {"LenaIndexError"}, {1}),
    S1F(E3, 2, {"mutate", "seen", "log", "postdup"}, {PAlt(2)}, {"IndexError", "KeyError", "ValueError"}, {-1}),
    S1F(E2, 2, AllKinds, {PAll(2)}, {"IndexError", "TypeError"}, {-1}),
    S2F(E3, E2, 2, {"collect"}, {"KeyError"}),
    S2F(E2, E4, 1, {"mutate", "log"}, AllExcs)
  >>
Tiny(u) == <<
    {s \in S1Cut(E3, 2, {"collect2", "nonempty", "log"}, {PAlt(2)}) : WellCut(s)},
    S2(E3, E2, 1, {"collect"}),
    S1F(E3, 2, {"collect"}, {PAlt(2)}, QuickExcs, {-1, 1}),
    WithForm(S2(E3, E2, 1, {"collect"}), {"t", "lt", "tl"})
  >>
Scenarios == CASE U = "quick" -> Quick(U) [] U = "thorough" -> Thorough(U) [] U = "tiny" -> Tiny(U)

(***************************************************************************)
(* The machine.                                                            *)
(***************************************************************************)
VARIABLES sc,       \* the scenario [edges, kind, flow, cut]
          pos,      \* values filled so far
          cells,    \* cell -> positions of the values its copy of the analysis was filled with
          tmpl,     \* what the analysis object given to the constructor itself was filled with (never anything)
          last,     \* position of the value whose context SplitIntoBins keeps (_cur_context), 0: none
          hctx,     \* _cur_context itself: the snapshot (deep copy) of that value's context
          vctx,     \* the context objects of the flow values (inner elements may write into them)
          phase,    \* "fill" | "compute" | "iter" | "done"
          round,    \* compute() calls finished
          out,      \* histograms yielded by the compute() in progress: [bins, ctx, w]
          outs,     \* the finished compute() calls: [n |-> values filled before, hists |-> their out]
          it,       \* values yielded by the one IterateBins element over IterFlow
          cst,      \* cell -> the state its copy of a stateful analysis keeps between compute() calls
          errs      \* exceptions fill() has raised to the caller: [pos, exc]
vars == <<sc, pos, cells, tmpl, last, hctx, vctx, phase, round, out, outs, it, cst, errs>>

edges == sc.edges
\* the edges as SplitIntoBins reads them from what the user wrote
ReadEdges == AxesWritten(EdgesWritten(sc.edges, sc.form))
flow == sc.flow
Init == /\ \E fam \in DOMAIN Scenarios : sc \in Scenarios[fam]
        /\ pos = 0 /\ last = 0 /\ phase = "fill" /\ round = 0 /\ out = <<>> /\ outs = <<>> /\ it = <<>> /\ tmpl = <<>>
        /\ cells = [idx \in Cells(ReadEdges) |-> <<>>]         \* init_bins(edges, seq, deepcopy=True)
        /\ hctx = Ctx(0, 0) /\ vctx = [i \in 1..Len(sc.flow) |-> ArrivingCtx(sc.flow, i)]
        /\ cst = [idx \in Cells(ReadEdges) |-> [seen |-> 0, log |-> 0]] /\ errs = <<>>

Route == CellOf(flow[pos + 1].x, edges)                        \* get_bin_on_value
\* the walk through self.bins: the first dimension whose index is outside decides
FirstOut(idx) == CHOOSE d \in 1..Len(edges) : ~(idx[d] >= 1 /\ idx[d] <= NCells(edges[d]))
                                               /\ \A d2 \in 1..(d - 1) : idx[d2] >= 1 /\ idx[d2] <= NCells(edges[d2])
\* compute() is due after sc.cut values (twice in a row) and after the whole flow
ComputeDue == (round \in {0, 1} /\ pos = sc.cut) \/ (round = 2 /\ pos = Len(flow) /\ sc.cut < Len(flow))
Filling == phase = "fill" /\ pos < Len(flow) /\ ~ComputeDue
Rest == <<sc, tmpl, phase, round, out, outs, it>>
Fails == flow[pos + 1].f # "none"                               \* the cell's analysis cannot digest the value
FillInside == /\ Filling /\ IsCell(Route, edges) /\ ~Fails
              /\ hctx' = vctx[pos + 1]                                       \* context = copy.deepcopy(context), first
              /\ cells' = [cells EXCEPT ![Route] = Append(@, pos + 1)]      \* subarr.fill(val): the cell's sequence runs,
              /\ vctx' = IF Mutates(sc.kind) /\ flow[pos + 1].p              \* its pre-element may write into the context
                         THEN [vctx EXCEPT ![pos + 1].mut = pos + 1] ELSE vctx
              /\ last' = pos + 1 /\ pos' = pos + 1
              \* an accumulator that yields its own context object starts a new one with a value that has a context
              /\ cst' = IF sc.kind = "log" /\ flow[pos + 1].h THEN [cst EXCEPT ![Route].log = 0] ELSE cst
              /\ UNCHANGED errs /\ UNCHANGED Rest
\* subarr.fill(val) raises: the exception reaches the caller of fill(), no cell has recorded the value.
\* (_cur_context is left as it was here, as in the code; HistCtxSet allows the other choice as well.)
FillRaises == /\ Filling /\ IsCell(Route, edges) /\ Fails
              /\ errs' = Append(errs, [pos |-> pos + 1, exc |-> flow[pos + 1].f])
              /\ pos' = pos + 1 /\ UNCHANGED <<cells, cst, last, hctx, vctx>> /\ UNCHANGED Rest
FillUnderflow == /\ Filling /\ ~IsCell(Route, edges) /\ Route[FirstOut(Route)] = 0     \* if ind < 0: return
                 /\ pos' = pos + 1 /\ UNCHANGED <<cells, cst, errs, last, hctx, vctx>> /\ UNCHANGED Rest
FillOverflow == /\ Filling /\ ~IsCell(Route, edges) /\ Route[FirstOut(Route)] # 0      \* except IndexError: return
                /\ pos' = pos + 1 /\ UNCHANGED <<cells, cst, errs, last, hctx, vctx>> /\ UNCHANGED Rest
Kept == <<sc, pos, cells, tmpl, last, hctx, vctx, errs>>
StartCompute == /\ phase = "fill" /\ ComputeDue
                /\ phase' = "compute" /\ UNCHANGED Kept /\ UNCHANGED <<round, out, outs, it, cst>>
\* every cell's own generator: cell.compute() of the cell's own copy, in the state that copy is in
CellRes(idx) == LET src == LastCtx(flow, cells[idx]) IN
                CASE sc.kind = "seen" -> <<R("pc", Append(cells[idx], cst[idx].seen + 1), src, 0)>>
                  [] sc.kind = "log" -> <<R("c", cells[idx], src, cst[idx].log + 1)>>
                  [] OTHER -> InnerSem(sc.kind, flow, cells[idx])
\* the consumer has written into the context of the histogram yielded last
Written == IF out = <<>> THEN TRUE ELSE out[Len(out)].w # 0
\* next(generators): one more result from every cell, or StopIteration from the shortest; the histogram
\* comes with its own copy of _cur_context (+ variable)
ComputeNext == /\ phase = "compute" /\ Written /\ \A idx \in Cells(edges) : Len(CellRes(idx)) > Len(out)
               /\ out' = Append(out, [bins |-> [idx \in Cells(edges) |-> CellRes(idx)[Len(out) + 1]],
                                      ctx |-> hctx, w |-> 0])                  \* copy.deepcopy(cur_context)
               \* the stateful elements of every cell's copy have served one more result
               /\ cst' = IF Stateful(sc.kind) THEN [idx \in Cells(edges) |-> [seen |-> cst[idx].seen + 1, log |-> cst[idx].log + 1]]
                         ELSE cst
               /\ UNCHANGED Kept /\ UNCHANGED <<phase, round, outs, it>>
WriteCtx == /\ phase = "compute" /\ ~Written
            /\ out' = [out EXCEPT ![Len(out)].w = Len(out)]                    \* context["touched"] = k
            /\ UNCHANGED Kept /\ UNCHANGED <<phase, round, outs, it, cst>>
LastCompute == round = 2 \/ (round = 1 /\ sc.cut = Len(flow))
ComputeStop == /\ phase = "compute" /\ Written /\ \E idx \in Cells(edges) : Len(CellRes(idx)) <= Len(out)
               /\ UNCHANGED cst
               /\ outs' = Append(outs, [n |-> pos, hists |-> out]) /\ out' = <<>> /\ round' = round + 1
               /\ phase' = IF ~LastCompute THEN "fill" ELSE IF out = <<>> THEN "done" ELSE "iter"
               /\ UNCHANGED Kept /\ UNCHANGED it
\* the histograms of the last compute()
Final == outs[Len(outs)].hists
\* The histograms ONE IterateBins element is given.  var "x": histogram number k of the last compute();
\* var "y": histogram number k of a second SplitIntoBins built from the same analysis and the same edges
\* whose argument variable has another name but routes alike (it holds the same bins, ComputeZip, and
\* carries that variable in context.variable).  run 2: the same element is run on a second flow.
IterFlow == <<[run |-> 1, var |-> "x", k |-> 1], [run |-> 1, var |-> "y", k |-> Len(Final)], [run |-> 2, var |-> "y", k |-> 1]>>
NC == Len(CellSeq(edges))
\* IterateBins.run: for every histogram itertools.product over the cell indices.  Every yielded
\* value carries, as context.bins, its own fresh copy of the histogram's context (touched = 0) and, as
\* context.bin, the description of the cell in terms of the variable of the histogram it is a cell of.
\* The consumer writes into context.bins (Mutate, for the cells of the first histogram) before it pulls
\* the next cell.
LastTouched == IF it = <<>> THEN TRUE ELSE (it[Len(it)].h # 1 \/ it[Len(it)].touched # 0)
Yielded(h, n) == LET idx == CellSeq(edges)[n]  f == IterFlow[h] IN
                 [h |-> h, idx |-> idx, e |-> CellEdges(idx, edges), content |-> Final[f.k].bins[idx],
                  bins |-> hctx, bvar |-> f.var, touched |-> 0,                  \* copy.deepcopy(hist_context)
                  bin |-> [e |-> CellEdges(idx, edges), var |-> f.var]]          \* create_edges_str(bin_edges, variable)
\* the cells of the first histogram, one by one
IterNext == /\ phase = "iter" /\ Len(it) < NC /\ LastTouched
            /\ it' = Append(it, Yielded(1, Len(it) + 1))
            /\ UNCHANGED Kept /\ UNCHANGED <<phase, round, out, outs, cst>>
\* the cells of a later histogram (no consumer in between: one step)
IterHist == /\ phase = "iter" /\ Len(it) >= NC /\ Len(it) < Len(IterFlow) * NC /\ LastTouched
            /\ LET h == (Len(it) \div NC) + 1 IN it' = it \o [n \in 1..NC |-> Yielded(h, n)]
            /\ UNCHANGED Kept /\ UNCHANGED <<phase, round, out, outs, cst>>
Mutate == /\ phase = "iter" /\ it # <<>> /\ ~LastTouched
          /\ it' = [it EXCEPT ![Len(it)].touched = Len(it)]                  \* context["bins"]["touched"] = n
          /\ UNCHANGED Kept /\ UNCHANGED <<phase, round, out, outs, cst>>
IterEnd == /\ phase = "iter" /\ Len(it) = Len(IterFlow) * NC /\ LastTouched
           /\ phase' = "done" /\ UNCHANGED Kept /\ UNCHANGED <<round, out, outs, it, cst>>
Next == FillInside \/ FillRaises \/ FillUnderflow \/ FillOverflow \/ StartCompute \/ ComputeNext \/ WriteCtx \/ ComputeStop
        \/ IterNext \/ IterHist \/ Mutate \/ IterEnd
Spec == Init /\ [][Next]_vars
Done == phase = "done"

(***************************************************************************)
(* Properties.                                                             *)
(***************************************************************************)
TypeOK == /\ phase \in {"fill", "compute", "iter", "done"} /\ pos \in 0..Len(flow) /\ last \in 0..pos
          /\ DOMAIN cells = Cells(edges) /\ round \in 0..3 /\ Len(outs) = round
          /\ sc.form \in Forms(Len(sc.edges))
\* the dimension and the axes are those the user wrote, lists or tuples: one private copy per cell of them
AsWritten == /\ DimWritten(EdgesWritten(sc.edges, sc.form)) = Len(sc.edges) /\ ReadEdges = sc.edges
             /\ DOMAIN cells = Cells(sc.edges)
\* C11: every cell holds exactly the sub-flow of the values whose argument falls into it, in arrival order
\* (of the values its analysis could digest: a private copy raises on the others as well)
PerCell == \A idx \in Cells(edges) : cells[idx] = Recorded(flow, SubFlowUpTo(flow, edges, idx, pos))
\* fill() raises what the private copy of the cell raises - for the failing values inside the edges, for no other
Propagates == errs = ErrsSem(edges, flow, pos)
InsideNotIgnored == [][(phase = "fill" /\ pos < Len(flow) /\ pos' = pos + 1 /\ IsCell(CellOf(flow[pos + 1].x, edges), edges)) =>
                         IF flow[pos + 1].f = "none"
                         THEN cells'[CellOf(flow[pos + 1].x, edges)] = Append(cells[CellOf(flow[pos + 1].x, edges)], pos + 1) /\ errs' = errs
                         ELSE errs' = Append(errs, [pos |-> pos + 1, exc |-> flow[pos + 1].f]) /\ cells' = cells]_vars
\* the state of a cell's copy is changed by that cell's own fill / compute only: after k compute() calls
\* every copy has served k (stateful kinds: one result per call)
OwnState == \A idx \in Cells(edges) :
              /\ cst[idx].seen = (IF Stateful(sc.kind) THEN round + Len(out) ELSE 0)
              /\ cst[idx].log <= cst[idx].seen
\* the analysis object handed to the constructor is only a template: it is never filled
TemplateUntouched == tmpl = <<>>
\* a fill changes at most the cell of the value
NoCrossTalk == [][phase = "fill" /\ pos < Len(flow) /\ pos' = pos + 1 =>
                    \A idx \in Cells(edges) : idx # CellOf(flow[pos + 1].x, edges) => cells'[idx] = cells[idx]]_vars
\* values outside the edges are ignored
OutsideIgnored == [][(phase = "fill" /\ pos < Len(flow) /\ pos' = pos + 1 /\ ~IsCell(CellOf(flow[pos + 1].x, edges), edges)) =>
                       (cells' = cells /\ last' = last /\ hctx' = hctx /\ errs' = errs /\ cst' = cst)]_vars
\* the cells partition the values inside the edges
CellsPartition == \A i \in 1..pos :
                    Cardinality({idx \in Cells(edges) : \E j \in 1..Len(cells[idx]) : cells[idx][j] = i})
                      = (IF IsCell(CellOf(flow[i].x, edges), edges) /\ flow[i].f = "none" THEN 1 ELSE 0)
\* border values: the lower edge belongs to the cell, the upper edge to the next one / overflow
Borders == \A i \in 1..pos : \A d \in 1..Len(edges) :
             LET c == CellOf(flow[i].x, edges)[d]  e == edges[d]  x == flow[i].x[d] IN
             /\ (c >= 1 /\ c <= NCells(e)) => (e[c] <= x /\ x < e[c + 1])
             /\ c = 0 => x < e[1]
             /\ c = Len(e) => x >= e[Len(e)]
\* every compute() yields the zip of what private copies compute from the sub-flows of the values filled
\* so far, each histogram with the arriving context of the inside value filled last
Prefix(n) == SubSeq(flow, 1, n)
BinsOf(hs) == [k \in 1..Len(hs) |-> hs[k].bins]
\* (the k-th compute() of an analysis with state: what a private copy yields that has served the same
\* compute() calls before, SIBSemH)
NS == [j \in 1..Len(outs) |-> outs[j].n]
ComputeZip == \A k \in 1..Len(outs) :
                /\ BinsOf(outs[k].hists) = SIBSemH(sc.kind, edges, flow, NS, k)
                /\ ~Stateful(sc.kind) => BinsOf(outs[k].hists) = SIBSem(sc.kind, edges, Prefix(outs[k].n))
                /\ \A j \in 1..Len(outs[k].hists) : outs[k].hists[j].ctx \in HistCtxSet(edges, Prefix(outs[k].n))
\* calling compute() again at once gives the same again (unless compute() itself changes the analysis)
RepeatSame == (Len(outs) >= 2 /\ ~Stateful(sc.kind)) => (BinsOf(outs[2].hists) = BinsOf(outs[1].hists) /\ outs[2].n = outs[1].n)
OutIsPrefix == LET e == SIBSemH(sc.kind, edges, flow, Append(NS, pos), round + 1) IN
               phase = "compute" => (Len(out) <= Len(e) /\ BinsOf(out) = SubSeq(e, 1, Len(out)))
LastIsLastInside == last = LastInsideGood(flow, edges, pos)
\* the histograms' context: the last inside value's context as it arrived - nothing an inner element wrote,
\* nothing a consumer wrote into an earlier histogram's context
HistContext == /\ hctx.mut = 0 /\ hctx \in HistCtxSet(edges, Prefix(pos))
               /\ \A j \in 1..Len(out) : out[j].w \in {0, j} /\ out[j].ctx = hctx
WriteIsLocal == [][(phase = "compute" /\ Len(out') = Len(out) /\ out' # out) =>
                     (\A j \in 1..(Len(out) - 1) : out'[j] = out[j]) /\ hctx' = hctx /\ cells' = cells]_vars
\* the flow values' own contexts: changed only by the inner element of the cell they were filled into
FlowContexts == /\ vctx = [i \in 1..Len(flow) |-> IF i <= pos THEN FlowCtxSem(sc.kind, edges, flow)[i] ELSE ArrivingCtx(flow, i)]
                /\ \A i \in 1..Len(flow) : vctx[i].src = ArrivingCtx(flow, i).src
\* IterateBins: every cell once, with its own edges and content
\* (for every histogram the element is given: what it yields is IterSemV of that histogram alone)
ItOf(h) == SubSeq(it, (h - 1) * NC + 1, h * NC)       \* (IterNext: NC cells per histogram, in the order of IterFlow)
IterOnceEach == (phase = "done" /\ Final # <<>>) =>
                  \A h \in 1..Len(IterFlow) :
                  LET mine == ItOf(h)  hist == Final[IterFlow[h].k].bins IN
                  /\ [n \in 1..Len(mine) |-> [idx |-> mine[n].idx, e |-> mine[n].e, content |-> mine[n].content, bin |-> mine[n].bin]]
                       = IterSemV(hist, edges, IterFlow[h].var)
                  /\ [n \in 1..Len(mine) |-> [idx |-> mine[n].idx, e |-> mine[n].e, content |-> mine[n].content]] = IterSem(hist, edges)
                  /\ Len(mine) = Cardinality(Cells(edges))
                  /\ {mine[n].idx : n \in 1..Len(mine)} = Cells(edges)
                  /\ \A n \in 1..Len(mine) : mine[n].content = hist[mine[n].idx]
                                           /\ \A d \in 1..Len(edges) : mine[n].e[d] = <<edges[d][mine[n].idx[d]], edges[d][mine[n].idx[d] + 1]>>
\* context.bin of every cell is its own: its edges, described in terms of the variable of the histogram it
\* is a cell of - whatever the element has iterated before (in this run or an earlier one)
OwnDescription == \A n \in 1..Len(it) : /\ it[n].bin = BinSem(it[n].idx, edges, IterFlow[it[n].h].var)
                                         /\ it[n].bvar = IterFlow[it[n].h].var
\* every cell's context.bins is its own: what the consumer writes into one is seen in no other, and the
\* histogram's context stays as it was
OwnBinsContext == \A n \in 1..Len(it) : it[n].touched \in {0, n} /\ it[n].bins = hctx /\ (it[n].h # 1 => it[n].touched = 0)
MutateIsLocal == [][(phase = "iter" /\ Len(it') = Len(it) /\ it' # it) =>
                      (\A n \in 1..(Len(it) - 1) : it'[n] = it[n]) /\ hctx' = hctx]_vars
FreshWhenYielded == [][(Len(it') > Len(it)) => \A n \in (Len(it) + 1)..Len(it') : it'[n].touched = 0 /\ it'[n].bins = hctx]_vars
\* the iteration changes no cell and no analysis
IterReadsOnly == [][phase = "iter" => (cells' = cells /\ cst' = cst /\ outs' = outs /\ errs' = errs)]_vars
\* MapBins: same cells, every cell the mapping of the corresponding cell (as many histograms as the
\* shortest per-cell result)
MapShape == (phase = "done" /\ Final # <<>>) =>
              \A m \in {"tag", "dup", "drop", "seen", "src"} :
                LET ms == MapSem(m, Final[1].bins, edges) IN
                \A k \in 1..Len(ms) : /\ DOMAIN ms[k] = DOMAIN Final[1].bins
                                      /\ \A idx \in Cells(edges) : ms[k][idx] = MapRes(m, Final[1].bins[idx])[k]

(***************************************************************************)
(* Export (S2C): one record per terminal state.                            *)
(***************************************************************************)
NestAll(hs) == [k \in 1..Len(hs) |-> Nest(hs[k], edges)]
Emitted == Done => PrintT(ToJson([
   edges |-> edges, form |-> sc.form, kind |-> sc.kind, flow |-> flow, cut |-> sc.cut,
   route |-> [i \in 1..Len(flow) |-> CellOf(flow[i].x, edges)],
   errs |-> errs,
   computes |-> [k \in 1..Len(outs) |-> [n |-> outs[k].n, hists |-> NestAll(BinsOf(outs[k].hists)),
                                          hctx |-> HistCtxSem(edges, Prefix(outs[k].n)),
                                          hctx_any |-> HistCtxSet(edges, Prefix(outs[k].n)),
                                          last |-> LastInside(flow, edges, outs[k].n)]],
   hists |-> NestAll(BinsOf(Final)), last |-> last, hctx |-> hctx, vctx |-> vctx,
   iter |-> [n \in 1..(IF it = <<>> THEN 0 ELSE NC) |-> [idx |-> it[n].idx, e |-> it[n].e, content |-> it[n].content]],
   iters |-> [h \in 1..(IF it = <<>> THEN 0 ELSE Len(IterFlow)) |->
                [run |-> IterFlow[h].run, var |-> IterFlow[h].var, k |-> IterFlow[h].k,
                 \* (content: bins[idx] of histogram k, IterOnceEach)
                 cells |-> [n \in 1..NC |-> LET c == it[(h - 1) * NC + n] IN [idx |-> c.idx, bin |-> c.bin]]]],       \* (e = bin.e)
   maps |-> IF Final = <<>> THEN <<>>
            ELSE [m \in {"tag", "dup", "drop", "seen", "src"} |-> NestAll(MapSem(m, Final[1].bins, edges))]]))
=============================================================================
